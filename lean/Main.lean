/-
Line-protocol driver for the executable models.  One op per line: `<op> <json>`; one JSON line
back.  Run with `lake env lean --run Main.lean`.  Imports models + generated files only (no Mathlib).
-/
import Lean.Data.Json
import OdeVerif.Driver

open Lean

partial def loop (h : IO.FS.Stream) (out : IO.FS.Stream) : IO Unit := do
  let line ← h.getLine
  if line.isEmpty then return ()
  let line := line.trimAsciiEnd.toString
  if line.isEmpty then
    loop h out
  else
    let (op, payload) := match line.splitOn " " with
      | [] => ("", "")
      | op :: rest => (op, " ".intercalate rest)
    let res : Json := match Json.parse payload with
      | .error e => Json.mkObj [("error", Json.str ("bad-json: " ++ e))]
      | .ok j => OdeVerif.Driver.dispatch op j
    out.putStrLn res.compress
    out.flush
    loop h out

def main : IO Unit := do
  loop (← IO.getStdin) (← IO.getStdout)
