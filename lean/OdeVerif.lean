import OdeVerif.Generated.DrawDecision
import OdeVerif.Generated.Constants
import OdeVerif.Model.Stiffness
import OdeVerif.Model.Spikes
import OdeVerif.Model.AnalyticIntegrator
import OdeVerif.Driver
import OdeVerif.Proofs.C14
import OdeVerif.Proofs.C15
