/-
Refinement: the main loop of `MixedIntegrator.integrate_ode` as regenerated from
`odetoolbox/mixed_integrator.py` on every run (`OdeVerif/Generated/PyMixed.lean`) is simulated by the
hand-written event-loop model `MI.integrate` that the theorems of `Proofs/C13.lean` are about: every
terminating run of the regenerated code is a run of the model with the same time, state, spike index,
logged trajectory and bound flag.
-/
import OdeVerif.Generated.PyMixed
import OdeVerif.Model.MixedIntegrator

set_option linter.unusedSectionVars false
set_option linter.unusedSimpArgs false

namespace OdeVerif.Refine
open OdeVerif

variable {α : Type} [Add α] [Sub α] [LT α] [LE α] [DecidableLT α] [DecidableLE α] [Inhabited α] [OfNat α 0]

/-- what the two descriptions have in common: time, state, index of the next spike, the logged
trajectory oldest first, the bound flag -/
abbrev View (α : Type) := α × List α × Nat × List (α × List α) × Bool

def viewModel (s : MI.St α) : View α := (s.t, s.y, s.idx, s.log.reverse, s.crossed)

/-- the regenerated code returns `(t, y, idx_next_spike, t_log, y_closed, h_log, upper_bound_crossed, h_min,
h_sum, n_timesteps_taken, ai_log)`; its `y_log` is `y_closed ++ [y]` (NumPy aliasing, see the generated header) -/
def viewGenerated (r : α × List α × Nat × List α × List (List α) × List α × Bool × α × α × Nat × List (AI.Op α)) : View α :=
  (r.1, r.2.1, r.2.2.1, List.zip r.2.2.2.1 (r.2.2.2.2.1 ++ [r.2.1]), r.2.2.2.2.2.2.1)

/-- assumptions under which the two descriptions are compared (each is a fact about IEEE doubles without NaN,
about `np.inf`, and about the stepper returning a state vector of the length it was given) -/
structure Assumptions (c : MI.Cfg α) (inf : α) : Prop where
  le_iff_not_lt : ∀ a b : α, b ≤ a ↔ ¬ a < b                        -- the order is total (no NaN)
  inf_not_le_zero : ¬ inf ≤ (0 : α)                                    -- `np.inf <= t` is false for every time reached:
  inf_not_le_apply : ∀ t t1 h y, ¬ inf ≤ (c.apply t t1 h y).1         --   the start time and every time the stepper returns
  apply_length : ∀ t t1 h y, (c.apply t t1 h y).2.2.length = y.length -- the stepper keeps the dimension
  spikes_in_range : ∀ p ∈ c.spikes, ∀ i ∈ p.2, i < c.y0.length          -- spike symbols are positions of y

/-! ### bound enforcement -/

/-- the model's clamp of position `i` of `y` -/
def cl (c : MI.Cfg α) (y : List α) (i : Nat) : α × Bool :=
  MI.clampOne (c.upper.getD i none) (c.lower.getD i none) (c.y0.getD i default) (y.getD i default)

def mkShape (c : MI.Cfg α) (i : Nat) : MI.ShapeB α :=
  { idx := i, ub := c.upper.getD i none, lb := c.lower.getD i none }

theorem for3_step_aux (c : MI.Cfg α) (j : Nat) (ub lb : Option α) (rest : List (MI.ShapeB α)) (cr : Bool)
    (y : List α) (hj : j < y.length) :
    Generated.integrateOde_for3 c ({ idx := j, ub := ub, lb := lb } :: rest) cr y
      = Generated.integrateOde_for3 c rest
          (cr || (MI.clampOne ub lb (c.y0.getD j default) (y.getD j default)).2)
          (y.set j (MI.clampOne ub lb (c.y0.getD j default) (y.getD j default)).1) := by
  have hset : y.set j (y[j]?.getD default) = y := by
    simp [hj]
  have hget : ∀ v : α, (y.set j v)[j]?.getD default = v := by
    intro v; simp [hj]
  rw [Generated.integrateOde_for3]
  cases ub <;> cases lb
  · simp [MI.clampOne, MI.getY, MI.optVal, hset]
  · simp [MI.clampOne, MI.getY, MI.optVal]
    split <;> simp [hset]
  · simp [MI.clampOne, MI.getY, MI.optVal]
    split <;> simp [hset]
  · simp [MI.clampOne, MI.getY, MI.optVal]
    split <;> simp [hset, hget] <;> split <;> simp [hset]

theorem for3_step (c : MI.Cfg α) (j : Nat) (rest : List (MI.ShapeB α)) (cr : Bool) (y : List α)
    (hj : j < y.length) :
    Generated.integrateOde_for3 c (mkShape c j :: rest) cr y
      = Generated.integrateOde_for3 c rest (cr || (cl c y j).2) (y.set j (cl c y j).1) :=
  for3_step_aux c j _ _ rest cr y hj

theorem cl_congr (c : MI.Cfg α) (y y' : List α) (i : Nat) (h : y.getD i default = y'.getD i default) :
    cl c y i = cl c y' i := by
  simp only [cl, h]

theorem for3_spec (c : MI.Cfg α) : ∀ (l : List Nat) (cr : Bool) (y : List α),
    (∀ i ∈ l, i < y.length) → l.Nodup →
    (Generated.integrateOde_for3 c (l.map (mkShape c)) cr y).2.length = y.length ∧
    (∀ i, i ∈ l → (Generated.integrateOde_for3 c (l.map (mkShape c)) cr y).2.getD i default = (cl c y i).1) ∧
    (∀ i, i ∉ l → (Generated.integrateOde_for3 c (l.map (mkShape c)) cr y).2.getD i default = y.getD i default) ∧
    (Generated.integrateOde_for3 c (l.map (mkShape c)) cr y).1 = (cr || l.any (fun i => (cl c y i).2)) := by
  intro l
  induction l with
  | nil => intro cr y _ _; simp [Generated.integrateOde_for3]
  | cons j rest ih =>
    intro cr y hlt hnd
    have hj : j < y.length := hlt j (by simp)
    have hnd' := List.nodup_cons.mp hnd
    rw [List.map_cons, for3_step c j _ cr y hj]
    have hy1 : ∀ i, i ≠ j → (y.set j (cl c y j).1).getD i default = y.getD i default := by
      intro i hij
      simp [List.getD_eq_getElem?_getD, List.getElem?_set, Ne.symm hij]
    have hy1j : (y.set j (cl c y j).1).getD j default = (cl c y j).1 := by
      simp [List.getD_eq_getElem?_getD, hj]
    obtain ⟨h1, h2, h3, h4⟩ := ih (cr || (cl c y j).2) (y.set j (cl c y j).1)
      (by intro i hi; simpa using hlt i (by simp [hi])) hnd'.2
    refine ⟨by simpa using h1, ?_, ?_, ?_⟩
    · intro i hi
      rcases List.mem_cons.mp hi with heq | hi'
      · subst heq; rw [h3 _ hnd'.1, hy1j]
      · have hij : i ≠ j := by intro e; subst e; exact hnd'.1 hi'
        rw [h2 i hi', cl_congr c _ y i (hy1 i hij)]
    · intro i hi
      have hij : i ≠ j := by intro e; subst e; exact hi (by simp)
      rw [h3 i (fun hm => hi (by simp [hm])), hy1 i hij]
    · rw [h4, List.any_cons, Bool.or_assoc]
      congr 2
      have hc : ∀ i ∈ rest, cl c (y.set j (cl c y j).1) i = cl c y i := by
        intro i hi
        have hij : i ≠ j := by intro e; subst e; exact hnd'.1 hi
        exact cl_congr c _ y i (hy1 i hij)
      rw [Bool.eq_iff_iff]
      simp only [List.any_eq_true]
      constructor
      · rintro ⟨i, hi, h⟩
        exact ⟨i, hi, by rw [← hc i hi]; exact h⟩
      · rintro ⟨i, hi, h⟩
        exact ⟨i, hi, by rw [hc i hi]; exact h⟩

theorem enforceBounds_eq (c : MI.Cfg α) (y : List α) :
    MI.enforceBounds c y = ((List.range y.length).map (fun i => (cl c y i).1),
      (List.range y.length).any (fun i => (cl c y i).2)) := by
  simp [MI.enforceBounds, cl, List.any_map, Function.comp_def]

theorem for3_eq (c : MI.Cfg α) (cr : Bool) (y : List α) (hy : y.length = c.y0.length) :
    Generated.integrateOde_for3 c (MI.shapeBounds c) cr y
      = (cr || (MI.enforceBounds c y).2, (MI.enforceBounds c y).1) := by
  have hsb : MI.shapeBounds c = (List.range y.length).map (mkShape c) := by
    rw [hy]; rfl
  obtain ⟨h1, h2, h3, h4⟩ := for3_spec c (List.range y.length) cr y (by simp) List.nodup_range
  rw [hsb, enforceBounds_eq]
  refine Prod.ext h4 ?_
  apply List.ext_getElem
  · simpa using h1
  · intro i hi1 hi2
    have hi : i < y.length := by simpa using hi2
    have := h2 i (by simpa using hi)
    rw [List.getD_eq_getElem?_getD, List.getElem?_eq_getElem hi1] at this
    simpa using this

theorem enforceBounds_length (c : MI.Cfg α) (y : List α) : (MI.enforceBounds c y).1.length = y.length := by
  simp [enforceBounds_eq]

/-! ### spike application -/

theorem for5_eq (c : MI.Cfg α) : ∀ (syms : List Nat) (y : List α),
    Generated.integrateOde_for5 c syms y = MI.applySyms c y syms := by
  intro syms
  induction syms with
  | nil => intro y; simp [Generated.integrateOde_for5, MI.applySyms]
  | cons a r ih =>
    intro y
    rw [Generated.integrateOde_for5]
    simp only [ih]
    simp [MI.applySyms, MI.getY]

theorem for6_eq (c : MI.Cfg α) : ∀ (syms : List Nat) (y : List α),
    Generated.integrateOde_for6 c syms y = MI.applySyms c y syms := by
  intro syms
  induction syms with
  | nil => intro y; simp [Generated.integrateOde_for6, MI.applySyms]
  | cons a r ih =>
    intro y
    rw [Generated.integrateOde_for6]
    simp only [ih]
    simp [MI.applySyms, MI.getY]

theorem applySyms_length (c : MI.Cfg α) : ∀ (syms : List Nat) (y : List α),
    (MI.applySyms c y syms).length = y.length := by
  intro syms
  induction syms with
  | nil => intro y; simp [MI.applySyms]
  | cons a r ih =>
    intro y
    have := ih (if a < y.length then y.set a (y.getD a default + c.inc.getD a default) else y)
    simp only [MI.applySyms, List.foldl_cons] at this ⊢
    rw [this]
    split <;> simp

/-! ### the simulation relation -/

structure Rel (c : MI.Cfg α) (inf : α) (s : MI.St α) (t : α) (y : List α) (idx : Nat) (tl : List α)
    (yc : List (List α)) (cr : Bool) : Prop where
  ht : s.t = t
  hy : s.y = y
  hidx : s.idx = idx
  hcr : s.crossed = cr
  hlog : s.log.reverse = List.zip tl (yc ++ [y])
  hlen : tl.length = yc.length + 1
  hylen : y.length = c.y0.length
  hinf : ¬ inf ≤ t

theorem zip_snoc (tl : List α) (yc : List (List α)) (y y' : List α) (t' : α) (hlen : tl.length = yc.length + 1) :
    List.zip (tl ++ [t']) ((yc ++ [y]) ++ [y']) = List.zip tl (yc ++ [y]) ++ [(t', y')] := by
  rw [List.zip_append (by simp [hlen])]
  simp

/-! ### inner loop -/

theorem while2_sim (c : MI.Cfg α) (inf : α) (h : Assumptions c inf) (hasAnalytic : Bool) (tT : α) :
    ∀ (f : Nat) (ai : List (AI.Op α)) (t : α) (y tl hl : List α) (yc : List (List α)) (hm hs : α) (n : Nat)
      (cr : Bool) (ai' : List (AI.Op α)) (t' : α) (y' tl' hl' : List α) (yc' : List (List α)) (hm' hs' : α)
      (n' : Nat) (cr' : Bool),
    Generated.integrateOde_while2 c true hasAnalytic tT f ai t y tl hl yc hm hs n cr
      = some (ai', t', y', tl', hl', yc', hm', hs', n', cr') →
    ∀ (s : MI.St α) (idx : Nat), Rel c inf s t y idx tl yc cr → ∀ f', f ≤ f' →
    ∃ s', MI.inner c tT f' s = some s' ∧ Rel c inf s' t' y' idx tl' yc' cr' := by
  intro f
  induction f with
  | zero => intro _ _ _ _ _ _ _ _ _ _ _ _ _ _ _ _ _ _ _ _ hg; simp [Generated.integrateOde_while2] at hg
  | succ f ih =>
    intro ai t y tl hl yc hm hs n cr ai' t' y' tl' hl' yc' hm' hs' n' cr' hg s idx hrel f' hf'
    obtain ⟨f'', rfl⟩ : ∃ f'', f' = f'' + 1 := ⟨f' - 1, by omega⟩
    obtain ⟨rfl, rfl, rfl, rfl, hlog, hlen, hylen, hinf⟩ := hrel
    rw [Generated.integrateOde_while2] at hg
    rw [MI.inner]
    by_cases hlt : s.t < tT
    · have hal : (c.apply s.t (MI.pyMin (s.t + c.maxStep) tT) (MI.pyMin (s.t + c.maxStep) tT - s.t) s.y).2.2.length
          = c.y0.length := by rw [h.apply_length, hylen]
      simp only [hlt, if_true, for3_eq c _ _ hal] at hg ⊢
      refine ih _ _ _ _ _ _ _ _ _ _ _ _ _ _ _ _ _ _ _ _ hg _ _ ?_ f'' (by omega)
      refine ⟨rfl, rfl, rfl, rfl, ?_, by simp [hlen], by simp [enforceBounds_length, hal], h.inf_not_le_apply _ _ _ _⟩
      simp only [List.reverse_cons, hlog]
      rw [zip_snoc _ _ _ _ _ hlen]
    · simp only [hlt, if_false] at hg ⊢
      simp only [Option.some.injEq, Prod.mk.injEq] at hg
      obtain ⟨_, rfl, rfl, rfl, _, rfl, _, _, _, rfl⟩ := hg
      exact ⟨s, rfl, rfl, rfl, rfl, rfl, hlog, hlen, hylen, hinf⟩

/-! ### `relog` -/

theorem zip_replace_last (tl : List α) (yc : List (List α)) (y y' : List α) (t0 : α) (y0 : List α)
    (rest : List (α × List α)) (hlen : tl.length = yc.length + 1)
    (hlog : ((t0, y0) :: rest).reverse = List.zip tl (yc ++ [y])) :
    ((t0, y') :: rest).reverse = List.zip tl (yc ++ [y']) := by
  have hne : tl ≠ [] := by intro e; simp [e] at hlen
  have htl : tl.dropLast ++ [tl.getLast hne] = tl := List.dropLast_concat_getLast hne
  have hdl : tl.dropLast.length = yc.length := by simp [hlen]
  rw [← htl, List.zip_append hdl] at hlog ⊢
  simp only [List.reverse_cons, List.zip_cons_cons, List.zip_nil_right] at hlog ⊢
  have := List.append_inj' hlog (by simp)
  obtain ⟨e1, e2⟩ := this
  simp only [List.cons.injEq, Prod.mk.injEq, and_true] at e2
  rw [e1, e2.1]

theorem Rel.relog {c : MI.Cfg α} {inf : α} {s : MI.St α} {t : α} {y : List α} {idx : Nat} {tl : List α}
    {yc : List (List α)} {cr : Bool} (hr : Rel c inf s t y idx tl yc cr) (y' : List α)
    (hy' : y'.length = c.y0.length) (idx' : Nat) (ap : List (α × α × Nat)) :
    Rel c inf { MI.relog s y' with idx := idx', applied := ap } t y' idx' tl yc cr := by
  obtain ⟨rfl, rfl, rfl, rfl, hlog, hlen, hylen, hinf⟩ := hr
  unfold MI.relog
  cases hl : s.log with
  | nil =>
    rw [hl] at hlog
    have := congrArg List.length hlog
    simp [hlen] at this
  | cons p rest =>
    obtain ⟨t0, y0⟩ := p
    rw [hl] at hlog
    exact ⟨rfl, rfl, rfl, rfl, zip_replace_last _ _ _ _ _ _ _ hlen hlog, hlen, hy', hinf⟩

theorem Rel.relog_applied {c : MI.Cfg α} {inf : α} {s : MI.St α} {t : α} {y : List α} {idx : Nat} {tl : List α}
    {yc : List (List α)} {cr : Bool} (hr : Rel c inf s t y idx tl yc cr) (y' : List α)
    (hy' : y'.length = c.y0.length) (ap : List (α × α × Nat)) :
    Rel c inf { MI.relog s y' with applied := ap } t y' idx tl yc cr := by
  obtain ⟨rfl, rfl, rfl, rfl, hlog, hlen, hylen, hinf⟩ := hr
  unfold MI.relog
  cases hl : s.log with
  | nil =>
    rw [hl] at hlog
    have := congrArg List.length hlog
    simp [hlen] at this
  | cons p rest =>
    obtain ⟨t0, y0⟩ := p
    rw [hl] at hlog
    exact ⟨rfl, rfl, rfl, rfl, zip_replace_last _ _ _ _ _ _ _ hlen hlog, hlen, hy', hinf⟩

/-! ### aliased-mode spike loop -/

theorem while4_sim (c : MI.Cfg α) (inf : α) (_h : Assumptions c inf) (t : α) :
    ∀ (f : Nat) (syms : List Nat) (y : List α) (idx : Nat) (syms' : List Nat) (y' : List α) (idx' : Nat) (tn' : α),
    Generated.integrateOde_while4 c inf t f syms y idx
        (if idx < c.spikes.length then MI.spikeTimeAt c idx else inf) = some (syms', y', idx', tn') →
    ∀ (s : MI.St α) (tl : List α) (yc : List (List α)) (cr : Bool), Rel c inf s t y idx tl yc cr →
    ∀ n, c.spikes.length < n + idx →
    Rel c inf (MI.aliasedSpikes c n s) t y' idx' tl yc cr := by
  intro f
  induction f with
  | zero => intro _ _ _ _ _ _ _ hg; simp [Generated.integrateOde_while4] at hg
  | succ f ih =>
    intro syms y idx syms' y' idx' tn' hg s tl yc cr hrel n hn
    have hrel' := hrel
    obtain ⟨rfl, rfl, rfl, rfl, hlog, hlen, hylen, hinf⟩ := hrel
    rw [Generated.integrateOde_while4] at hg
    by_cases hidx : s.idx < c.spikes.length
    · obtain ⟨n', rfl⟩ : ∃ n', n = n' + 1 := ⟨n - 1, by omega⟩
      obtain ⟨⟨ts, sy⟩, hsp⟩ : ∃ p, c.spikes[s.idx]? = some p := ⟨_, List.getElem?_eq_getElem hidx⟩
      have h1 : MI.spikeTimeAt c s.idx = ts := by simp [MI.spikeTimeAt, hsp]
      have h2 : MI.spikeSymsAt c s.idx = sy := by simp [MI.spikeSymsAt, hsp]
      rw [MI.aliasedSpikes]
      simp only [hidx, if_true, h1, h2] at hg
      simp only [hsp]
      by_cases hle : ts ≤ s.t
      · simp only [hle, if_true, for5_eq] at hg ⊢
        refine ih _ _ _ _ _ _ _ hg _ _ _ _ ?_ n' (by omega)
        exact hrel'.relog _ (by rw [applySyms_length, hylen]) _ _
      · simp only [hle, if_false] at hg ⊢
        simp only [Option.some.injEq, Prod.mk.injEq] at hg
        obtain ⟨_, rfl, rfl, _⟩ := hg
        exact hrel'
    · simp only [hidx, if_false, hinf] at hg
      simp only [Option.some.injEq, Prod.mk.injEq] at hg
      obtain ⟨_, rfl, rfl, _⟩ := hg
      have hnone : c.spikes[s.idx]? = none := List.getElem?_eq_none (by omega)
      cases n with
      | zero => exact hrel'
      | succ n' => rw [MI.aliasedSpikes]; simp only [hnone]; exact hrel'

/-! ### outer loop -/

/-- the model's choice of the next target and spike symbols in precise mode -/
def sel (c : MI.Cfg α) (idx : Nat) : α × List Nat :=
  match c.spikes[idx]? with
  | none => (c.simTime, [])
  | some (ts, sy) => if ts < c.simTime then (ts, sy) else (c.simTime, [])

theorem outerStep_precise (c : MI.Cfg α) (fi : Nat) (s s1 : MI.St α) (hal : c.aliasSpikes = false)
    (hin : MI.inner c (sel c s.idx).1 fi { s with idx := s.idx + 1 } = some s1) :
    MI.outerStep c fi s = some { MI.relog s1 (MI.applySyms c s1.y (sel c s.idx).2) with
      applied := ((sel c s.idx).2.map (fun i => ((sel c s.idx).1, s1.t, i))).reverse ++ s1.applied } := by
  unfold MI.outerStep
  simp only [hal, Bool.false_eq_true, if_false]
  change (match MI.inner c (sel c s.idx).1 fi { s with idx := s.idx + 1 } with
    | none => none
    | some s' => _) = _
  rw [hin]
  rfl

theorem outerStep_aliased (c : MI.Cfg α) (fi : Nat) (s s1 : MI.St α) (hal : c.aliasSpikes = true)
    (hin : MI.inner c (MI.pyMin (s.t + c.maxStep) c.simTime) fi s = some s1) :
    MI.outerStep c fi s = some (MI.aliasedSpikes c (c.spikes.length + 1) s1) := by
  unfold MI.outerStep
  simp only [hal, if_true, hin]

theorem while1_sim (c : MI.Cfg α) (inf : α) (h : Assumptions c inf) (hasAnalytic : Bool) :
    ∀ (f : Nat) (tT : α) (syms : List Nat) (idx : Nat) (ai : List (AI.Op α)) (t : α) (y tl hl : List α)
      (yc : List (List α)) (hm hs : α) (n : Nat) (cr : Bool) (tn : α)
      (tT' : α) (syms' : List Nat) (idx' : Nat) (ai' : List (AI.Op α)) (t' : α) (y' tl' hl' : List α)
      (yc' : List (List α)) (hm' hs' : α) (n' : Nat) (cr' : Bool) (tn' : α),
    Generated.integrateOde_while1 c inf true hasAnalytic f tT syms idx ai t y tl hl yc hm hs n cr tn
      = some (tT', syms', idx', ai', t', y', tl', hl', yc', hm', hs', n', cr', tn') →
    ∀ (s : MI.St α), Rel c inf s t y idx tl yc cr → ∀ fi, f ≤ fi →
    ∃ s', MI.outer c fi f s = some s' ∧ Rel c inf s' t' y' idx' tl' yc' cr' := by
  intro f
  induction f with
  | zero =>
    intro _ _ _ _ _ _ _ _ _ _ _ _ _ _ _ _ _ _ _ _ _ _ _ _ _ _ _ _ hg
    simp [Generated.integrateOde_while1] at hg
  | succ f ih =>
    intro tT syms idx ai t y tl hl yc hm hs n cr tn tT' syms' idx' ai' t' y' tl' hl' yc' hm' hs' n' cr' tn' hg
      s hrel fi hfi
    have hrel' := hrel
    obtain ⟨rfl, rfl, rfl, rfl, hlog, hlen, hylen, hinf⟩ := hrel
    rw [Generated.integrateOde_while1] at hg
    rw [MI.outer]
    by_cases hlt : s.t < c.simTime
    · simp only [hlt, if_true] at hg ⊢
      cases hal : c.aliasSpikes with
      | true =>
        simp only [hal, if_true] at hg
        split at hg
        · exact absurd hg (by simp)
        · rename_i ai1 t1 y1 tl1 hl1 yc1 hm1 hs1 n1 cr1 hw2
          obtain ⟨s1, hin, hrel1⟩ := while2_sim c inf h hasAnalytic _ _ _ _ _ _ _ _ _ _ _ _ _ _ _ _ _ _ _ _ _ _
            hw2 s s.idx hrel' fi (by omega)
          split at hg
          · exact absurd hg (by simp)
          · rename_i sy2 y2 idx2 tn2 hw4
            have hrel2 := while4_sim c inf h _ _ _ _ _ _ _ _ _ hw4 s1 _ _ _ hrel1 (c.spikes.length + 1) (by omega)
            rw [outerStep_aliased c fi s s1 hal hin]
            exact ih _ _ _ _ _ _ _ _ _ _ _ _ _ _ _ _ _ _ _ _ _ _ _ _ _ _ _ _ hg _ hrel2 fi (by omega)
      | false =>
        have key : ∀ (tT1 : α) (sy1 : List Nat), sel c s.idx = (tT1, sy1) →
            ∀ (ai1 : List (AI.Op α)) (t1 : α) (y1 tl1 hl1 : List α) (yc1 : List (List α)) (hm1 hs1 : α)
              (n1 : Nat) (cr1 : Bool),
            Generated.integrateOde_while2 c true hasAnalytic tT1 f ai s.t s.y tl hl yc hm hs n s.crossed
              = some (ai1, t1, y1, tl1, hl1, yc1, hm1, hs1, n1, cr1) →
            ∀ (ai2 : List (AI.Op α)) (tn2 : α),
            Generated.integrateOde_while1 c inf true hasAnalytic f tT1 sy1 (s.idx + 1) ai2 t1
                (Generated.integrateOde_for6 c sy1 y1) tl1 hl1 yc1 hm1 hs1 n1 cr1 tn2
              = some (tT', syms', idx', ai', t', y', tl', hl', yc', hm', hs', n', cr', tn') →
            ∃ s', (match MI.outerStep c fi s with
              | none => none
              | some s' => MI.outer c fi f s') = some s' ∧ Rel c inf s' t' y' idx' tl' yc' cr' := by
          intro tT1 sy1 hsel ai1 t1 y1 tl1 hl1 yc1 hm1 hs1 n1 cr1 hw2 ai2 tn2 hw1
          have hrelS : Rel c inf { s with idx := s.idx + 1 } s.t s.y (s.idx + 1) tl yc s.crossed :=
            ⟨rfl, rfl, rfl, rfl, hlog, hlen, hylen, hinf⟩
          obtain ⟨s1, hin, hrel1⟩ := while2_sim c inf h hasAnalytic _ _ _ _ _ _ _ _ _ _ _ _ _ _ _ _ _ _ _ _ _ _
            hw2 _ (s.idx + 1) hrelS fi (by omega)
          have hin' : MI.inner c (sel c s.idx).1 fi { s with idx := s.idx + 1 } = some s1 := by
            rw [hsel]; exact hin
          rw [outerStep_precise c fi s s1 hal hin']
          rw [for6_eq] at hw1
          refine ih _ _ _ _ _ _ _ _ _ _ _ _ _ _ _ _ _ _ _ _ _ _ _ _ _ _ _ _ hw1 _ ?_ fi (by omega)
          have hy1 : s1.y = y1 := hrel1.hy
          have hi1 : s1.idx = s.idx + 1 := hrel1.hidx
          rw [hsel]
          have := hrel1.relog_applied (MI.applySyms c y1 sy1) (by rw [applySyms_length, hrel1.hylen])
            ((sy1.map (fun i => (tT1, s1.t, i))).reverse ++ s1.applied)
          rw [hy1]
          exact this
        simp only [hal, Bool.false_eq_true, if_false] at hg
        by_cases hge : s.idx ≥ c.spikes.length
        · have hnone : c.spikes[s.idx]? = none := List.getElem?_eq_none hge
          have hsel : sel c s.idx = (c.simTime, []) := by simp [sel, hnone]
          simp only [hge, if_true] at hg
          split at hg
          · exact absurd hg (by simp)
          · exact key _ _ hsel _ _ _ _ _ _ _ _ _ _ (by assumption) _ _ hg
        · obtain ⟨⟨ts, sy⟩, hsp⟩ : ∃ p, c.spikes[s.idx]? = some p :=
            ⟨_, List.getElem?_eq_getElem (by omega)⟩
          have h1 : MI.spikeTimeAt c s.idx = ts := by simp [MI.spikeTimeAt, hsp]
          have h2 : MI.spikeSymsAt c s.idx = sy := by simp [MI.spikeSymsAt, hsp]
          simp only [hge, if_false, h1, h2] at hg
          by_cases hts : ts < c.simTime
          · have hge2 : ¬ ts ≥ c.simTime := by
              rw [ge_iff_le, h.le_iff_not_lt]; exact fun hn => hn hts
            have hsel : sel c s.idx = (ts, sy) := by simp [sel, hsp, hts]
            simp only [hge2, if_false] at hg
            split at hg
            · exact absurd hg (by simp)
            · exact key _ _ hsel _ _ _ _ _ _ _ _ _ _ (by assumption) _ _ hg
          · have hge2 : ts ≥ c.simTime := by
              rw [ge_iff_le, h.le_iff_not_lt]; exact hts
            have hsel : sel c s.idx = (c.simTime, []) := by simp [sel, hsp, hts]
            simp only [hge2, if_true] at hg
            split at hg
            · exact absurd hg (by simp)
            · exact key _ _ hsel _ _ _ _ _ _ _ _ _ _ (by assumption) _ _ hg
    · simp only [hlt, if_false] at hg ⊢
      simp only [Option.some.injEq, Prod.mk.injEq] at hg
      obtain ⟨_, _, rfl, _, rfl, rfl, rfl, _, rfl, _, _, _, rfl, _⟩ := hg
      exact ⟨s, rfl, hrel'⟩

/-- **the regenerated main loop is simulated by the model** (debug logging on, fresh logs) -/
theorem integrateOde_refines (c : MI.Cfg α) (inf : α) (hasAnalytic : Bool) (h : Assumptions c inf) (fuel : Nat)
    (r : α × List α × Nat × List α × List (List α) × List α × Bool × α × α × Nat × List (AI.Op α))
    (hr : Generated.integrateOde fuel c inf true hasAnalytic c.y0 [0] [] [] false [] = some r) :
    ∃ s, MI.integrate c fuel fuel = some s ∧ viewModel s = viewGenerated r := by
  unfold Generated.integrateOde at hr
  simp only at hr
  split at hr
  · exact absurd hr (by simp)
  · rename_i tT' syms' idx' ai' t' y' tl' hl' yc' hm' hs' n' cr' tn' hw1
    simp only [Option.some.injEq] at hr
    subst hr
    have hrel0 : Rel c inf (MI.initSt c) 0 c.y0 0 [0] [] false :=
      ⟨rfl, rfl, rfl, rfl, by simp [MI.initSt], rfl, rfl, h.inf_not_le_zero⟩
    obtain ⟨s', hs, hrel⟩ := while1_sim c inf h hasAnalytic fuel _ _ _ _ _ _ _ _ _ _ _ _ _ _ _ _ _ _ _ _ _ _ _ _ _ _ _ _
      hw1 _ hrel0 fuel (Nat.le_refl _)
    refine ⟨s', hs, ?_⟩
    obtain ⟨e1, e2, e3, e4, e5, _, _, _⟩ := hrel
    simp only [viewModel, viewGenerated, e1, e2, e3, e4, e5]

end OdeVerif.Refine
