/-
C02 (lossless split / assembly), C04 (completeness of the classification on canonical terms),
C10 (Jacobian), C03 (soundness of "linear constant coefficient").  Property theorems only.
-/
import OdeVerif.Model.Terms
import OdeVerif.Model.Shapes
import Mathlib.Algebra.Ring.Basic
import Mathlib.Algebra.BigOperators.Group.List.Basic
import Mathlib.Data.List.Basic
import Mathlib.Data.List.GetD
import Mathlib.Tactic.Ring

namespace OdeVerif.C02
open OdeVerif.Terms OdeVerif.Shapes

/-! ## helper lemmas -/

private theorem aux_isConstant_iff (params : List Sym) (t : Term) :
    isConstant params t = true ↔ ∀ s ∈ t.free, s ∈ params := by
  simp [isConstant, List.all_eq_true]

private theorem aux_firstLinear_some (params : List Sym) (t : Term) :
    ∀ (xs : List Sym) (k j : Nat), firstLinear params t xs k = some j →
      ∃ i, j = k + i ∧ i < xs.length ∧ isConstant params (divSym t (xs.getD i 0)) = true := by
  intro xs
  induction xs with
  | nil => intro k j h; simp [firstLinear] at h
  | cons s rest ih =>
    intro k j h
    unfold firstLinear at h
    split at h
    · rename_i hc
      refine ⟨0, ?_, by simp, by simpa using hc⟩
      simpa using (Option.some.inj h).symm
    · obtain ⟨i, hi, hlt, hc⟩ := ih (k + 1) j h
      refine ⟨i + 1, by omega, by simpa using hlt, ?_⟩
      simpa using hc

private theorem aux_classify_lin_lt (params xs : List Sym) (t : Term) (j : Nat)
    (h : classify params xs t = .lin j) : j < xs.length := by
  unfold classify at h
  split at h
  · cases h
  · split at h
    · rename_i j' hf
      obtain ⟨i, hi, hlt, _⟩ := aux_firstLinear_some params t xs 0 j' hf
      cases h
      omega
    · cases h

section Sums
variable {K : Type} [CommRing K]

private theorem aux_foldl_add (l : List K) (a : K) : l.foldl (· + ·) a = a + l.sum := by
  induction l generalizing a with
  | nil => simp
  | cons b l ih => rw [List.foldl_cons, ih, List.sum_cons]; ring

private theorem aux_sumList (l : List K) : sumList l = l.sum := by
  unfold sumList
  rw [aux_foldl_add]; simp

/-- changing one summand of a sum over `List.range n` -/
private theorem aux_range_update (f g : Nat → K) (d : K) (j : Nat) :
    ∀ n, j < n → g j = f j + d → (∀ k, k ≠ j → g k = f k) →
      ((List.range n).map g).sum = ((List.range n).map f).sum + d := by
  intro n
  induction n with
  | zero => intro h; omega
  | succ n ih =>
    intro hj hgj hother
    rw [List.range_succ, List.map_append, List.map_append, List.sum_append, List.sum_append]
    simp only [List.map_cons, List.map_nil, List.sum_cons, List.sum_nil, add_zero]
    by_cases hjn : j = n
    · subst hjn
      have : (List.range j).map g = (List.range j).map f := by
        apply List.map_congr_left
        intro k hk
        rw [List.mem_range] at hk
        exact hother k (by omega)
      rw [this, hgj]; ring
    · rw [ih (by omega) hgj hother, hother n (fun h => hjn h.symm)]; ring

private theorem aux_range_ite (a : K) (j n : Nat) (hj : j < n) :
    ((List.range n).map (fun k => if k = j then a else 0)).sum = a := by
  have h := aux_range_update (fun _ => (0 : K)) (fun k => if k = j then a else 0) a j n hj
    (by simp) (by intro k hk; simp [hk])
  rw [h]; simp

private theorem aux_filter_split (l : List Nat) (g : Nat → K) (p : Nat → Bool) :
    (l.map g).sum = ((l.filter p).map g).sum + ((l.filter (fun j => !p j)).map g).sum := by
  induction l with
  | nil => simp
  | cons a l ih =>
    cases hp : p a <;> simp [hp, ih] <;> ring

private theorem aux_zipWith_range (row x : List K) :
    row.length = x.length →
    (List.zipWith (· * ·) row x).sum
      = ((List.range x.length).map (fun j => row.getD j 0 * x.getD j 0)).sum := by
  induction row generalizing x with
  | nil =>
    intro h
    cases x with
    | nil => simp
    | cons _ _ => simp at h
  | cons a row ih =>
    intro h
    cases x with
    | nil => simp at h
    | cons b x =>
      simp only [List.length_cons, Nat.add_right_cancel_iff] at h
      rw [List.zipWith_cons_cons, List.sum_cons, ih x h, List.length_cons, List.range_succ_eq_map]
      simp [Function.comp_def]

private theorem aux_rowDot (row x : List K) (h : row.length = x.length) :
    rowDot row x = ((List.range x.length).map (fun j => row.getD j 0 * x.getD j 0)).sum := by
  unfold rowDot
  rw [aux_sumList, aux_zipWith_range row x h]

end Sums

/-! ## the term-wise split -/

section Split
variable {K : Type} [CommRing K]

private theorem aux_split_sum (eval : Term → K) (val : Sym → K)
    (hdiv : ∀ t s, eval (divSym t s) * val s = eval t) (xs : List Sym) :
    ∀ L : List (Term × Bucket), (∀ p ∈ L, ∀ j, p.2 = Bucket.lin j → j < xs.length) →
    (((List.range xs.length).map (fun j =>
        ((L.filter (fun p => p.2 = Bucket.lin j)).map (fun p => eval (divSym p.1 (xs.getD j 0)))).sum
          * val (xs.getD j 0))).sum
      + ((L.filter (fun p => p.2 = Bucket.const)).map (fun p => eval p.1)).sum
      + ((L.filter (fun p => p.2 = Bucket.nonlin)).map (fun p => eval p.1)).sum)
    = (L.map (fun p => eval p.1)).sum := by
  intro L
  induction L with
  | nil => intro _; simp
  | cons q L ih =>
    intro hL
    have ih' := ih (fun p hp => hL p (List.mem_cons_of_mem _ hp))
    obtain ⟨t, b⟩ := q
    rw [List.map_cons, List.sum_cons, ← ih']
    cases b with
    | const =>
      simp
      ring
    | nonlin =>
      simp
      ring
    | lin i =>
      have hi : i < xs.length := hL (t, .lin i) List.mem_cons_self i rfl
      rw [aux_range_update
        (fun j => ((L.filter (fun p => p.2 = Bucket.lin j)).map
            (fun p => eval (divSym p.1 (xs.getD j 0)))).sum * val (xs.getD j 0))
        (fun j => ((((t, Bucket.lin i) :: L).filter (fun p => p.2 = Bucket.lin j)).map
            (fun p => eval (divSym p.1 (xs.getD j 0)))).sum * val (xs.getD j 0))
        (eval t) i xs.length hi]
      · simp
        ring
      · simp [add_mul, hdiv]
        ring
      · intro k hk
        have : ¬ (i = k) := fun h => hk h.symm
        simp [this]

/-- **Lossless split.**  For any denotation `eval` of terms and valuation `val` of symbols for which
SymPy's division is exact (`(term / sym) * sym = term`, an identity of rational functions), the three
buckets add up to the expression: Σ_j lin_j · x_j + inhom + nonlin = Σ terms.  (Every term is put in
exactly one bucket, by construction of `split` as a map; the first matching symbol wins.) -/
theorem split_lossless (eval : Term → K) (val : Sym → K)
    (hdiv : ∀ t s, eval (divSym t s) * val s = eval t)
    (params xs : List Sym) (ts : List Term) :
    (((List.range xs.length).map (fun j =>
        (((split params xs ts).filter (fun p => p.2 = Bucket.lin j)).map (fun p => eval (divSym p.1 (xs.getD j 0)))).sum
          * val (xs.getD j 0))).sum
      + (((split params xs ts).filter (fun p => p.2 = Bucket.const)).map (fun p => eval p.1)).sum
      + (((split params xs ts).filter (fun p => p.2 = Bucket.nonlin)).map (fun p => eval p.1)).sum)
    = (ts.map eval).sum := by
  rw [aux_split_sum eval val hdiv xs (split params xs ts)]
  · unfold split
    rw [List.map_map]
    rfl
  · intro p hp j hj
    unfold split at hp
    obtain ⟨t, _, rfl⟩ := List.mem_map.1 hp
    exact aux_classify_lin_lt params xs t j hj

end Split

/-- a `lin j` verdict always points at an existing variable -/
theorem classify_lin_lt (params xs : List Sym) (t : Term) (j : Nat) (h : classify params xs t = .lin j) :
    j < xs.length :=
  aux_classify_lin_lt params xs t j h

/-- **Coefficients are constant.**  The offset bucket and every linear coefficient contain only
parameters. -/
theorem split_const_coeffs (params xs : List Sym) (t : Term) :
    (classify params xs t = .const → ∀ s ∈ t.free, s ∈ params) ∧
    (∀ j, classify params xs t = .lin j → ∀ s ∈ (divSym t (xs.getD j 0)).free, s ∈ params) := by
  constructor
  · intro h
    unfold classify at h
    split at h
    · rename_i hc
      exact (aux_isConstant_iff params t).1 hc
    · split at h <;> cases h
  · intro j h
    unfold classify at h
    split at h
    · cases h
    · split at h
      · rename_i j' hf
        obtain ⟨i, hi, hlt, hc⟩ := aux_firstLinear_some params t xs 0 j' hf
        cases h
        have : j = i := by omega
        subst this
        exact (aux_isConstant_iff params _).1 hc
      · cases h

/-- **Parameters never include a state variable or the time variable.** -/
theorem parameterSymbols_spec (allFree vars : List Sym) (time s : Sym) :
    s ∈ parameterSymbols allFree vars time ↔ (s ∈ allFree ∧ s ∉ vars ∧ s ≠ time) := by
  simp [parameterSymbols, List.mem_filter]
  intro _
  exact and_comm

/-- **Soundness of "linear with constant coefficients"** (C03): with the parameter set the analysis
uses, a term accepted as offset or as linear coefficient mentions neither a state variable nor the
time variable. -/
theorem analytic_sound_coeffs (allFree vars xs : List Sym) (time : Sym) (t : Term) :
    let params := parameterSymbols allFree vars time
    (classify params xs t = .const → ∀ s ∈ t.free, s ∉ vars ∧ s ≠ time) ∧
    (∀ j, classify params xs t = .lin j → ∀ s ∈ (divSym t (xs.getD j 0)).free, s ∉ vars ∧ s ≠ time) := by
  intro params
  have h := split_const_coeffs params xs t
  constructor
  · intro hc s hs
    exact ((parameterSymbols_spec allFree vars time s).1 (h.1 hc s hs)).2
  · intro j hc s hs
    exact ((parameterSymbols_spec allFree vars time s).1 (h.2 j hc s hs)).2

private theorem aux_divDirect_not_mem (s : Sym) :
    ∀ l : List (Sym × Int), s ∉ l.map (·.1) → divDirect s l = l ++ [(s, -1)] := by
  intro l
  induction l with
  | nil => intro _; rfl
  | cons p rest ih =>
    obtain ⟨s', e⟩ := p
    intro h
    simp only [List.map_cons, List.mem_cons, not_or] at h
    unfold divDirect
    rw [if_neg (fun hh => h.1 hh.symm), ih h.2]
    rfl

private theorem aux_divDirect_mem (x : Sym) :
    ∀ l : List (Sym × Int), (l.map (·.1)).Nodup → (x, (1 : Int)) ∈ l →
      ∀ s ∈ (divDirect x l).map (·.1), s ∈ l.map (·.1) ∧ s ≠ x := by
  intro l
  induction l with
  | nil => intro _ h; simp at h
  | cons p rest ih =>
    obtain ⟨s', e⟩ := p
    intro hnd hmem s hs
    simp only [List.map_cons, List.nodup_cons] at hnd
    unfold divDirect at hs
    by_cases hsx : s' = x
    · subst hsx
      rw [if_pos rfl] at hs
      have he : e = 1 := by
        rcases List.mem_cons.1 hmem with h | h
        · exact (Prod.mk.inj h).2.symm
        · exact absurd (List.mem_map_of_mem (f := (·.1)) h) hnd.1
      subst he
      rw [if_pos (by decide)] at hs
      refine ⟨List.mem_cons_of_mem _ hs, ?_⟩
      intro hh
      subst hh
      exact hnd.1 hs
    · rw [if_neg hsx] at hs
      have hmem' : (x, (1 : Int)) ∈ rest := by
        rcases List.mem_cons.1 hmem with h | h
        · exact absurd (Prod.mk.inj h).1.symm hsx
        · exact h
      simp only [List.map_cons, List.mem_cons] at hs ⊢
      rcases hs with h | h
      · subst h
        exact ⟨Or.inl rfl, hsx⟩
      · obtain ⟨h1, h2⟩ := ih hnd.2 hmem' s h
        exact ⟨Or.inr h1, h2⟩

private theorem aux_firstLinear_idxOf (params : List Sym) (t : Term) (x : Sym)
    (hx : isConstant params (divSym t x) = true) :
    ∀ (xs : List Sym) (k : Nat), x ∈ xs →
      (∀ s ∈ xs, s ≠ x → isConstant params (divSym t s) = false) →
      firstLinear params t xs k = some (k + xs.idxOf x) := by
  intro xs
  induction xs with
  | nil => intro k h; simp at h
  | cons s rest ih =>
    intro k hmem hne
    unfold firstLinear
    by_cases hsx : s = x
    · subst hsx
      simp [hx]
    · have h1 := hne s List.mem_cons_self hsx
      have hmem' : x ∈ rest := by
        rcases List.mem_cons.1 hmem with h | h
        · exact absurd h.symm hsx
        · exact h
      rw [h1, List.idxOf_cons_ne _ hsx, ih (k + 1) hmem' (fun s' hs' => hne s' (List.mem_cons_of_mem _ hs'))]
      simp
      omega

/-- **Completeness on canonical terms** (C04): a term `k · x` — the symbol `x` to the first power,
not occurring anywhere else in the term, everything else parameters — is recognised as linear in
`x`, at the position of `x` in the variable list; a term made of parameters only is the offset.
(Hypotheses: variables are not parameters; the Symbol factors of a term are distinct.) -/
theorem classify_complete_lin (params xs : List Sym) (t : Term) (x : Sym) (j : Nat)
    (hvars : ∀ s ∈ xs, s ∉ params)
    (hnd : (t.direct.map (·.1)).Nodup)
    (hx : (x, (1 : Int)) ∈ t.direct) (hxi : x ∉ t.inside)
    (hrest : ∀ s ∈ t.free, s ≠ x → s ∈ params)
    (hj : xs.idxOf x = j) (hmem : x ∈ xs) :
    classify params xs t = .lin j := by
  have hxfree : x ∈ t.free := by
    unfold Term.free
    exact List.mem_append_left _ (List.mem_map_of_mem (f := (·.1)) hx)
  have hnc : ¬ isConstant params t = true := by
    intro h
    exact hvars x hmem ((aux_isConstant_iff params t).1 h x hxfree)
  have hcx : isConstant params (divSym t x) = true := by
    rw [aux_isConstant_iff]
    intro s hs
    unfold Term.free divSym at hs
    simp only [List.mem_append] at hs
    rcases hs with hs | hs
    · obtain ⟨h1, h2⟩ := aux_divDirect_mem x t.direct hnd hx s hs
      exact hrest s (List.mem_append_left _ h1) h2
    · refine hrest s (List.mem_append_right _ hs) ?_
      intro hh
      subst hh
      exact hxi hs
  have hothers : ∀ s ∈ xs, s ≠ x → isConstant params (divSym t s) = false := by
    intro s hs hsx
    rw [Bool.eq_false_iff]
    intro hc
    rw [aux_isConstant_iff] at hc
    have hsp : s ∉ params := hvars s hs
    by_cases hd : s ∈ t.direct.map (·.1)
    · exact hsp (hrest s (List.mem_append_left _ hd) hsx)
    · apply hsp
      apply hc s
      unfold Term.free divSym
      simp only [aux_divDirect_not_mem s t.direct hd]
      simp
  unfold classify
  rw [if_neg hnc, aux_firstLinear_idxOf params t x hcx xs 0 hmem hothers]
  simp [hj]

theorem classify_complete_const (params xs : List Sym) (t : Term) (h : ∀ s ∈ t.free, s ∈ params) :
    classify params xs t = .const := by
  unfold classify
  rw [if_pos ((aux_isConstant_iff params t).2 h)]

/-- hence: a right-hand side whose expanded terms are all of one of these two forms has an empty
nonlinear part, however many terms there are and in whatever order -/
theorem canonical_linear_no_nonlin (params xs : List Sym) (ts : List Term)
    (hvars : ∀ s ∈ xs, s ∉ params)
    (hform : ∀ t ∈ ts, (∀ s ∈ t.free, s ∈ params) ∨
      (∃ x ∈ xs, (t.direct.map (·.1)).Nodup ∧ (x, (1 : Int)) ∈ t.direct ∧ x ∉ t.inside ∧ ∀ s ∈ t.free, s ≠ x → s ∈ params)) :
    ∀ p ∈ split params xs ts, p.2 ≠ Bucket.nonlin := by
  intro p hp
  unfold split at hp
  obtain ⟨t, ht, rfl⟩ := List.mem_map.1 hp
  rcases hform t ht with h | ⟨x, hx, hnd, hxd, hxi, hrest⟩
  · simp [classify_complete_const params xs t h]
  · simp [classify_complete_lin params xs t x _ hvars hnd hxd hxi hrest rfl hx]

/-! ## assembly  x' = A x + b + c  on values -/

section Values
variable {K : Type} [CommRing K]

/-- **`from_ode` is lossless**: re-attaching the foreign linear terms to the nonlinear part and
reconstituting gives back Σ_j factor_j x_j + inhom + nonlin. -/
theorem fromOde_lossless (factors x : List K) (isLocal : Nat → Bool) (inhom nonlin : K)
    (hlen : factors.length = x.length) :
    let r := fromOde factors x isLocal inhom nonlin
    reconstitute r.1 (((List.range factors.length).filter isLocal).map (fun j => x.getD j 0)) r.2.1 r.2.2
      = rowDot factors x + inhom + nonlin := by
  intro r
  show reconstitute _ _ _ _ = _
  simp only [r, fromOde, reconstitute]
  rw [aux_rowDot factors x hlen, ← hlen,
    aux_filter_split (List.range factors.length) (fun j => factors.getD j 0 * x.getD j 0) isLocal]
  unfold rowDot
  rw [aux_sumList, aux_sumList, List.zipWith_map_left, List.zipWith_map_right, List.zipWith_self]
  ring

/-- **Lower derivatives**: the row written for `x_k' = x_{k+1}` (a single `1`) evaluates to the
next-higher derivative. -/
theorem unit_row_value (x : List K) (k : Nat) (hk : k < x.length) :
    rowValue ((List.range x.length).map (fun j => if j = k then (1 : K) else 0)) x 0 0 = x.getD k 0 := by
  unfold rowValue
  rw [aux_rowDot _ x (by simp), add_zero, add_zero]
  have : (List.range x.length).map (fun j =>
      ((List.range x.length).map (fun j => if j = k then (1 : K) else 0)).getD j 0 * x.getD j 0)
      = (List.range x.length).map (fun j => if j = k then x.getD k 0 else 0) := by
    apply List.map_congr_left
    intro j hj
    rw [List.mem_range] at hj
    rw [List.getD_eq_getElem _ _ (by simpa using hj)]
    by_cases h : j = k
    · subst h; simp
    · simp [h]
  rw [this, aux_range_ite _ k _ hk]

/-- **Cutting a sub-system loses nothing**: a kept row, with the discarded columns moved into the
nonlinear part, has the same value as the row of the full system. -/
theorem subsystem_lossless (A : List (List K)) (b c x : List K) (keep : Nat → Bool) (i : Nat)
    (hrow : (A.getD i []).length = x.length) :
    subRowValue A b c x keep i = rowValue (A.getD i []) x (b.getD i 0) (c.getD i 0) := by
  unfold subRowValue subC rowValue
  simp only
  rw [aux_rowDot _ x hrow, aux_sumList, aux_sumList,
    aux_filter_split (List.range x.length) (fun j => (A.getD i []).getD j 0 * x.getD j 0) keep]
  ring

/-- **The numeric solver's expression** `Σ x_col * A[row, col] + b + c` has the value of the row. -/
theorem numericRhs_eq_row (Arow x : List K) (b c : K) :
    numericRhs Arow x b c = rowValue Arow x b c := by
  unfold numericRhs rowValue rowDot
  rw [List.zipWith_comm]
  simp only [mul_comm]

/-- **Composition** (numeric-solver expression = user's right-hand side): if the assembled row has
the value of the user's right-hand side (`from_shapes` = lossless split of the reconstituted
expression), then after cutting the numeric sub-system the expression handed out still has it. -/
theorem numericRhs_eq_userRhs (A : List (List K)) (b c x : List K) (keep : Nat → Bool) (i : Nat) (rhs : K)
    (hrow : (A.getD i []).length = x.length)
    (hsplit : rowValue (A.getD i []) x (b.getD i 0) (c.getD i 0) = rhs) :
    subRowValue A b c x keep i = rhs := by
  rw [subsystem_lossless A b c x keep i hrow, hsplit]

end Values

/-! ## Jacobian (C10) -/

section Jacobian
variable {R : Type} [CommRing R]

/-- a derivation on the ring of expressions (SymPy's `diff` w.r.t. one symbol): additive, Leibniz -/
structure Deriv (R : Type) [CommRing R] where
  D : R → R
  add : ∀ a b, D (a + b) = D a + D b
  mul : ∀ a b, D (a * b) = D a * b + a * D b

private theorem aux_D_zero (d : Deriv R) : d.D 0 = 0 := by
  have h := d.add 0 0
  rw [add_zero] at h
  exact left_eq_add.1 h

private theorem aux_D_sum (d : Deriv R) (l : List R) : d.D l.sum = (l.map d.D).sum := by
  induction l with
  | nil => simpa using aux_D_zero d
  | cons a l ih => rw [List.sum_cons, d.add, ih, List.map_cons, List.sum_cons]

/-- **The Jacobian entry is the true partial derivative**: differentiating the expression the code
builds, `c_i + Σ_k A_ik x_k`, w.r.t. `x_j` gives `A_ij + ∂c_i/∂x_j` — the derivative of the complete
right-hand side `Σ_k A_ik x_k + b_i + c_i` (the entries of `A` and `b` do not depend on the state). -/
theorem jacobian_correct (d : Deriv R) (Arow x : List R) (c : R) (j : Nat)
    (hlen : Arow.length = x.length) (hj : j < x.length)
    (hA : ∀ a ∈ Arow, d.D a = 0)
    (hx : ∀ k, k < x.length → d.D (x.getD k 0) = if k = j then 1 else 0) :
    d.D (jacobianExpr Arow x c) = Arow.getD j 0 + d.D c := by
  unfold jacobianExpr
  rw [aux_foldl_add, d.add, aux_zipWith_range Arow x hlen, aux_D_sum, List.map_map]
  have : (List.range x.length).map (d.D ∘ fun j => Arow.getD j 0 * x.getD j 0)
      = (List.range x.length).map (fun k => if k = j then Arow.getD j 0 else 0) := by
    apply List.map_congr_left
    intro k hk
    rw [List.mem_range] at hk
    have hmem : Arow.getD k 0 ∈ Arow := by
      rw [List.getD_eq_getElem _ _ (by omega)]
      exact List.getElem_mem _
    simp only [Function.comp]
    rw [d.mul, hA _ hmem, hx k hk]
    by_cases h : k = j
    · subst h; simp
    · simp [h]
  rw [this, aux_range_ite _ j _ hj]
  ring

/-- the expression the code built before the repair (finding F6: coefficients summed without being
multiplied by their variables) loses the linear part entirely -/
theorem jacobian_prefix_defect (d : Deriv R) (Arow : List R) (c : R) (hA : ∀ a ∈ Arow, d.D a = 0) :
    d.D (Arow.foldl (· + ·) c) = d.D c := by
  rw [aux_foldl_add, d.add, aux_D_sum]
  have : Arow.map d.D = Arow.map (fun _ => (0 : R)) := List.map_congr_left hA
  rw [this]
  simp

end Jacobian

/-! non-vacuity -/
-- symbols: 0 = x, 1 = y (variables); 2 = tau (parameter).  terms of  -x/tau + x*y + tau :
example : split [2] [0, 1] [⟨[(0, 1), (2, -1)], []⟩, ⟨[(0, 1), (1, 1)], []⟩, ⟨[(2, 1)], []⟩]
    = [(⟨[(0, 1), (2, -1)], []⟩, .lin 0), (⟨[(0, 1), (1, 1)], []⟩, .nonlin), (⟨[(2, 1)], []⟩, .const)] := by
  decide

example : subRowValue [[(1 : ℤ), 2], [3, 4]] [5, 6] [7, 8] [10, 100] (fun j => j == 0) 0 = 1 * 10 + 2 * 100 + 5 + 7 := by
  decide

end OdeVerif.C02
