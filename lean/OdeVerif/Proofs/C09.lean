/-
C09 — inconsistent dynamics entries are rejected, consistent ones are not.  Property theorems only.
-/
import OdeVerif.Model.Validate

namespace OdeVerif.C09
open OdeVerif.Validate

def primes (k : Nat) : Str := List.replicate k '\''

/-- an entry in the documented input format: `name'…' = rhs` with one initial value per derivative
order below the equation's order (none for a function of time), spelled `initial_value` (first
order only) or `initial_values` -/
structure WF where
  name : Str
  order : Nat
  rhs : Str
  single : Bool
  ivVals : List Str

def WF.expr (w : WF) : Str := w.name ++ primes w.order ++ " = ".toList ++ w.rhs

def WF.ivs (w : WF) : List (Str × Str) :=
  (List.range w.order).map (fun k => (w.name ++ primes k, w.ivVals.getD k []))

def WF.entry (w : WF) : Entry :=
  if w.order = 0 then { expression := some w.expr, initialValue := none, initialValues := none }
  else if w.single then { expression := some w.expr, initialValue := some (w.ivVals.getD 0 []), initialValues := none }
  else { expression := some w.expr, initialValue := none, initialValues := some w.ivs }

/-- the documented shape of an entry (identifier, single `=`, spelling of the initial values) -/
structure WF.Format (w : WF) : Prop where
  nameNonempty : w.name ≠ []
  nameStart : ∀ c, w.name.head? = some c → isIdStart c = true
  nameChars : ∀ c ∈ w.name, isIdChar c = true
  rhsNoEq : '=' ∉ w.rhs
  singleOnlyFirst : w.single = true → w.order = 1

/-- the documented format: shape + the name is neither predefined nor contains the derivative marker -/
structure WF.Valid (marker : Str) (reserved : List Str) (w : WF) : Prop where
  format : w.Format
  notReserved : w.name ∉ reserved
  noMarker : isInfix marker w.name = false

/-! ### character facts -/

private theorem idChar_eq : isIdChar '=' = false := by decide
private theorem idChar_prime : isIdChar '\'' = false := by decide
private theorem idChar_blank : isIdChar ' ' = false := by decide

private theorem idChar_not_space {c : Char} (h : isIdChar c = true) : isSpace c = false := by
  cases hs : isSpace c with
  | false => rfl
  | true =>
    simp only [isSpace, Bool.or_eq_true, beq_iff_eq] at hs
    rcases hs with ((((rfl | rfl) | rfl) | rfl) | rfl) | rfl <;> revert h <;> decide

private theorem space_prime : isSpace '\'' = false := by decide
private theorem space_blank : isSpace ' ' = true := by decide

private theorem sp_lit : " = ".toList = [' ', '=', ' '] := by decide

private theorem count_name {nm : Str} {a : Char} (hc : ∀ c ∈ nm, isIdChar c = true)
    (ha : isIdChar a = false) : nm.count a = 0 :=
  List.count_eq_zero.2 (fun hmem => by have := hc a hmem; simp [ha] at this)

/-! ### string idioms -/

private theorem firstIdent_name {nm rest : Str} (hne : nm ≠ [])
    (hs : ∀ c, nm.head? = some c → isIdStart c = true)
    (hc : ∀ c ∈ nm, isIdChar c = true)
    (hr : ∀ c, rest.head? = some c → isIdChar c = false) :
    firstIdent (nm ++ rest) = some nm := by
  cases nm with
  | nil => exact absurd rfl hne
  | cons c cs =>
    have h1 : isIdStart c = true := hs c rfl
    have h2 : ∀ a ∈ cs, isIdChar a = true := fun a ha => hc a (List.mem_cons_of_mem _ ha)
    have h3 : rest.takeWhile isIdChar = [] := by
      cases rest with
      | nil => rfl
      | cons r rs => simp [List.takeWhile, hr r rfl]
    simp [firstIdent, h1, List.takeWhile_append_of_pos h2, h3]

private theorem splitEq_append {pre post : Str} (h : '=' ∉ pre) :
    splitEq (pre ++ '=' :: post) = (pre, post) := by
  induction pre with
  | nil => simp [splitEq]
  | cons c cs ih =>
    have hc : c ≠ '=' := fun hc => h (by simp [hc])
    have h' : '=' ∉ cs := fun hm => h (List.mem_cons_of_mem _ hm)
    simp [splitEq, hc, ih h']

private theorem tokensAux_nospace (xs ys cur : Str) (h : ∀ c ∈ xs, isSpace c = false) :
    tokensAux (xs ++ ys) cur = tokensAux ys (xs.reverse ++ cur) := by
  induction xs generalizing cur with
  | nil => rfl
  | cons c cs ih =>
    have hc : isSpace c = false := h c (by simp)
    have h' : ∀ a ∈ cs, isSpace a = false := fun a ha => h a (List.mem_cons_of_mem _ ha)
    simp [tokensAux, hc, ih _ h']

private theorem tokens_one {t : Str} (hne : t ≠ []) (h : ∀ c ∈ t, isSpace c = false) :
    tokens (t ++ [' ']) = [t] := by
  unfold tokens
  rw [tokensAux_nospace _ _ _ h]
  simp [tokensAux, space_blank, hne]


/-! ### facts about a formatted entry -/

private theorem primes_head (k : Nat) (rest : Str) (hr : ∀ c, rest.head? = some c → isIdChar c = false) :
    ∀ c, (primes k ++ rest).head? = some c → isIdChar c = false := by
  cases k with
  | zero => simpa [primes] using hr
  | succ k =>
    intro c hc
    simp [primes, List.replicate_succ] at hc
    subst hc; exact idChar_prime

private theorem firstIdent_key {w : WF} (h : w.Format) (k : Nat) (rest : Str)
    (hr : ∀ c, rest.head? = some c → isIdChar c = false) :
    firstIdent (w.name ++ primes k ++ rest) = some w.name := by
  rw [List.append_assoc]
  exact firstIdent_name h.nameNonempty h.nameStart h.nameChars (primes_head k rest hr)

private theorem firstIdent_key0 {w : WF} (h : w.Format) (k : Nat) :
    firstIdent (w.name ++ primes k) = some w.name := by
  have := firstIdent_key h k [] (by simp)
  simpa using this

private theorem firstIdent_keyB {w : WF} (h : w.Format) (k : Nat) :
    firstIdent (w.name ++ primes k ++ [' ']) = some w.name :=
  firstIdent_key h k [' '] (by intro c hc; simp at hc; subst hc; exact idChar_blank)

private theorem count_key {w : WF} (h : w.Format) (k : Nat) :
    countChar '\'' (w.name ++ primes k) = k := by
  simp [countChar, List.count_append, primes, count_name h.nameChars idChar_prime]

private theorem count_keyB {w : WF} (h : w.Format) (k : Nat) :
    countChar '\'' (w.name ++ primes k ++ [' ']) = k := by
  simp [countChar, List.count_append, primes, count_name h.nameChars idChar_prime]

private theorem tok_nospace {w : WF} (h : w.Format) (k : Nat) :
    ∀ c ∈ w.name ++ primes k, isSpace c = false := by
  intro c hc
  rcases List.mem_append.1 hc with hc | hc
  · exact idChar_not_space (h.nameChars c hc)
  · have : c = '\'' := by simpa [primes] using (List.mem_replicate.1 hc).2
    subst this; exact space_prime

private theorem expr_eq (w : WF) :
    w.expr = (w.name ++ primes w.order ++ [' ']) ++ '=' :: (' ' :: w.rhs) := by
  simp [WF.expr, sp_lit]

private theorem expr_count {w : WF} (h : w.Format) : countChar '=' w.expr = 1 := by
  have h1 : List.count '=' w.rhs = 0 := List.count_eq_zero.2 h.rhsNoEq
  simp [expr_eq, countChar, List.count_append, primes, List.count_replicate,
    count_name h.nameChars idChar_eq, h1]

private theorem expr_split {w : WF} (h : w.Format) :
    splitEq w.expr = (w.name ++ primes w.order ++ [' '], ' ' :: w.rhs) := by
  rw [expr_eq]
  apply splitEq_append
  intro hm
  simp [primes] at hm
  have := h.nameChars _ hm
  simp [idChar_eq] at this

private theorem expr_tokens {w : WF} (h : w.Format) :
    tokens (w.name ++ primes w.order ++ [' ']) = [w.name ++ primes w.order] :=
  tokens_one (by simp [h.nameNonempty]) (tok_nospace h _)

private theorem expr_first {w : WF} (h : w.Format) : firstIdent w.expr = some w.name := by
  rw [WF.expr, List.append_assoc (w.name ++ primes w.order)]
  exact firstIdent_key h _ _ (by simp [sp_lit, idChar_blank])

/-! ### the checks after the expression is parsed -/

private def post (marker : Str) (reserved : List Str) (symbol : Str) (order : Nat) (e : Entry) : Outcome :=
  if e.initialValue.isNone && e.initialValues.isNone && order > 0 then .malformed .noInitialValues
  else if e.initialValue.isSome && e.initialValues.isSome then .malformed .bothSpellings
  else if e.initialValue.isSome && order ≠ 1 then .malformed .singleNotFirstOrder
  else
    let ivCheck : Option Kind := match e.initialValues with
      | none => none
      | some ivs =>
        if ivs.length ≠ order then some .wrongNumber
        else checkIvs symbol order ivs []
    match ivCheck with
    | some k => .malformed k
    | none =>
      if reserved.contains symbol then .reserved symbol
      else if isInfix marker symbol then .malformed .markerInName
      else .ok symbol order

private theorem validate_post (marker : Str) (reserved : List Str) {w : WF} (h : w.Format) (e : Entry)
    (he : e.expression = some w.expr) :
    validate marker reserved e = post marker reserved w.name w.order e := by
  unfold validate post
  rw [he]
  simp only [expr_count h, expr_split h, expr_tokens h, expr_first h, count_key h]
  rfl

/-! ### the loop over the initial values -/

/-- a prefix of well-formed keys with pairwise different, not yet seen orders below `o` is passed over -/
private theorem checkIvs_prefix (nm : Str) (o : Nat) (pre rest : List (Str × Str)) (seen : List Nat)
    (h1 : ∀ p ∈ pre, firstIdent p.1 = some nm)
    (h2 : ∀ p ∈ pre, countChar '\'' p.1 < o)
    (h3 : (pre.map (fun p => countChar '\'' p.1)).Nodup)
    (h4 : ∀ p ∈ pre, countChar '\'' p.1 ∉ seen) :
    checkIvs nm o (pre ++ rest) seen
      = checkIvs nm o rest ((pre.map (fun p => countChar '\'' p.1)).reverse ++ seen) := by
  induction pre generalizing seen with
  | nil => rfl
  | cons p ps ih =>
    obtain ⟨k, v⟩ := p
    have a1 : firstIdent k = some nm := h1 (k, v) (by simp)
    have a2 : ¬ (countChar '\'' k ≥ o) := Nat.not_le.2 (h2 (k, v) (by simp))
    have a4 : countChar '\'' k ∉ seen := h4 (k, v) (by simp)
    rw [List.map_cons, List.nodup_cons] at h3
    have ih' := ih (countChar '\'' k :: seen)
      (fun p hp => h1 p (List.mem_cons_of_mem _ hp))
      (fun p hp => h2 p (List.mem_cons_of_mem _ hp))
      h3.2
      (by
        intro p hp hm
        rcases List.mem_cons.1 hm with hm | hm
        · exact h3.1 (hm ▸ List.mem_map.2 ⟨p, hp, rfl⟩)
        · exact h4 p (List.mem_cons_of_mem _ hp) hm)
    simp only [List.cons_append, checkIvs, a1, a2, List.contains_iff_mem, a4]
    simp [ih']

private def keyOf (w : WF) (k : Nat) : Str × Str := (w.name ++ primes k, w.ivVals.getD k [])

private theorem ord_map {w : WF} (h : w.Format) (a n : Nat) :
    ((List.range' a n).map (keyOf w)).map (fun p => countChar '\'' p.1) = List.range' a n := by
  rw [List.map_map]
  conv => rhs; rw [← List.map_id (List.range' a n)]
  apply List.map_congr_left
  intro k _
  simp [keyOf, count_key h]

/-- a run `a, a+1, …, a+n-1` of well-formed keys is passed over -/
private theorem checkIvs_run {w : WF} (h : w.Format) (a n : Nat) (han : a + n ≤ w.order)
    (rest : List (Str × Str)) (seen : List Nat) (hseen : ∀ j, a ≤ j → j < a + n → j ∉ seen) :
    checkIvs w.name w.order ((List.range' a n).map (keyOf w) ++ rest) seen
      = checkIvs w.name w.order rest ((List.range' a n).reverse ++ seen) := by
  have hm : ∀ p ∈ (List.range' a n).map (keyOf w), ∃ k, a ≤ k ∧ k < a + n ∧ p = keyOf w k := by
    intro p hp
    obtain ⟨k, hk, rfl⟩ := List.mem_map.1 hp
    have := List.mem_range'_1.1 hk
    exact ⟨k, this.1, this.2, rfl⟩
  rw [checkIvs_prefix, ord_map h]
  · intro p hp
    obtain ⟨k, _, _, rfl⟩ := hm p hp
    exact firstIdent_key0 h k
  · intro p hp
    obtain ⟨k, _, hk, rfl⟩ := hm p hp
    simp only [keyOf, count_key h]; omega
  · rw [ord_map h]; exact List.nodup_range'
  · intro p hp
    obtain ⟨k, hk1, hk2, rfl⟩ := hm p hp
    simp only [keyOf, count_key h]
    exact hseen k hk1 hk2

private theorem ivs_eq (w : WF) : w.ivs = (List.range' 0 w.order).map (keyOf w) := by
  simp [WF.ivs, List.range_eq_range', keyOf]

private theorem ivs_split (w : WF) (slot : Nat) (hs : slot < w.order) :
    w.ivs = (List.range' 0 slot).map (keyOf w) ++
      keyOf w slot :: (List.range' (slot + 1) (w.order - (slot + 1))).map (keyOf w) := by
  rw [ivs_eq]
  have : List.range' 0 w.order
      = List.range' 0 slot ++ slot :: List.range' (slot + 1) (w.order - (slot + 1)) := by
    rw [← List.range'_succ]
    have := @List.range'_append_1 0 slot (w.order - (slot + 1) + 1)
    rw [Nat.zero_add] at this
    rw [this]; congr 1; omega
  rw [this]; simp

private theorem set_mid {α : Type} (A B : List α) (x y : α) (n : Nat) (hn : A.length = n) :
    (A ++ x :: B).set n y = A ++ y :: B := by
  subst hn
  induction A with
  | nil => rfl
  | cons a A ih => simp [ih]

private theorem ivs_set (w : WF) (slot : Nat) (hs : slot < w.order) (y : Str × Str) :
    w.ivs.set slot y = (List.range' 0 slot).map (keyOf w) ++
      y :: (List.range' (slot + 1) (w.order - (slot + 1))).map (keyOf w) := by
  rw [ivs_split w slot hs, set_mid]
  simp

private theorem ivs_length (w : WF) : w.ivs.length = w.order := by simp [WF.ivs]

private theorem checkIvs_ok {w : WF} (h : w.Format) : checkIvs w.name w.order w.ivs [] = none := by
  have := checkIvs_run h 0 w.order (by omega) [] [] (by simp)
  rw [ivs_eq]
  simpa [checkIvs] using this

/-- the checks reach the replaced slot with exactly the orders below it seen -/
private theorem checkIvs_set {w : WF} (h : w.Format) (slot : Nat) (hs : slot < w.order) (y : Str × Str) :
    checkIvs w.name w.order (w.ivs.set slot y) []
      = checkIvs w.name w.order
          (y :: (List.range' (slot + 1) (w.order - (slot + 1))).map (keyOf w))
          ((List.range' 0 slot).reverse ++ []) := by
  rw [ivs_set w slot hs, checkIvs_run h 0 slot (by omega) _ [] (by simp)]

private theorem range'_split (a n k : Nat) (h1 : a ≤ k) (h2 : k < a + n) :
    List.range' a n = List.range' a (k - a) ++ k :: List.range' (k + 1) (a + n - (k + 1)) := by
  rw [← List.range'_succ]
  have := @List.range'_append_1 a (k - a) (a + n - (k + 1) + 1)
  rw [show a + (k - a) = k by omega] at this
  rw [this]; congr 1; omega

private theorem checkIvs_dup {w : WF} (key val : Str) (k : Nat) (hk : k < w.order)
    (h1 : firstIdent key = some w.name) (h2 : countChar '\'' key = k)
    (rest : List (Str × Str)) (seen : List Nat) (hmem : k ∈ seen) :
    checkIvs w.name w.order ((key, val) :: rest) seen = some .ivDuplicate := by
  simp [checkIvs, h1, h2, hmem]
  omega

private theorem entry_expr (w : WF) : w.entry.expression = some w.expr := by
  unfold WF.entry
  split
  · rfl
  · split <;> rfl

/-- **Consistent entries are never rejected as malformed**: every entry in the documented format,
of any order 0, 1, 2, 3, …, passes all structural checks. -/
theorem wellformed_accepted (marker : Str) (reserved : List Str) (w : WF) (h : w.Valid marker reserved) :
    validate marker reserved w.entry = .ok w.name w.order := by
  refine (validate_post marker reserved h.format _ (by exact entry_expr w)).trans ?_
  have hr := h.notReserved
  unfold post WF.entry
  by_cases h0 : w.order = 0
  · simp [h0, hr, h.noMarker]
  · cases hsg : w.single with
    | true =>
      have := h.format.singleOnlyFirst hsg
      simp [this, hr, h.noMarker]
    | false =>
      simp [h0, ivs_length, checkIvs_ok h.format, hr, h.noMarker]

/-! ### every single structural corruption is rejected -/

theorem no_expression_rejected (marker : Str) (reserved : List Str) (e : Entry) :
    validate marker reserved { e with expression := none } = .malformed .noExpression := by
  rfl

/-- zero or at least two `=` -/
theorem eq_count_rejected (marker : Str) (reserved : List Str) (e : Entry) (s : Str) (h : countChar '=' s ≠ 1) :
    validate marker reserved { e with expression := some s } = .malformed .eqCount := by
  simp [validate, h]

theorem missing_initial_values_rejected (marker : Str) (reserved : List Str) (w : WF) (h : w.Valid marker reserved)
    (ho : 0 < w.order) :
    validate marker reserved { w.entry with initialValue := none, initialValues := none } = .malformed .noInitialValues := by
  refine (validate_post marker reserved h.format _ (by exact entry_expr w)).trans ?_
  simp [post, ho]

theorem both_spellings_rejected (marker : Str) (reserved : List Str) (w : WF) (h : w.Valid marker reserved)
    (v : Str) (ivs : List (Str × Str)) :
    validate marker reserved { w.entry with initialValue := some v, initialValues := some ivs } = .malformed .bothSpellings := by
  refine (validate_post marker reserved h.format _ (by exact entry_expr w)).trans ?_
  simp [post]

theorem single_value_wrong_order_rejected (marker : Str) (reserved : List Str) (w : WF) (h : w.Valid marker reserved)
    (ho : w.order ≠ 1) (v : Str) :
    validate marker reserved { w.entry with initialValue := some v, initialValues := none } = .malformed .singleNotFirstOrder := by
  refine (validate_post marker reserved h.format _ (by exact entry_expr w)).trans ?_
  simp [post, ho]

/-- superfluous or missing initial values: any list whose length differs from the order -/
theorem wrong_number_rejected (marker : Str) (reserved : List Str) (w : WF) (h : w.Valid marker reserved)
    (ivs : List (Str × Str)) (hl : ivs.length ≠ w.order) :
    validate marker reserved { w.entry with initialValue := none, initialValues := some ivs } = .malformed .wrongNumber := by
  refine (validate_post marker reserved h.format _ (by exact entry_expr w)).trans ?_
  simp [post, hl]

/-- at any slot: an initial value for another variable -/
theorem other_variable_rejected (marker : Str) (reserved : List Str) (w : WF) (h : w.Valid marker reserved)
    (slot : Nat) (hs : slot < w.order) (key val : Str) (other : Str)
    (hk : firstIdent key = some other) (hne : other ≠ w.name) :
    validate marker reserved { w.entry with initialValue := none, initialValues := some (w.ivs.set slot (key, val)) }
      = .malformed .ivOtherVariable := by
  refine (validate_post marker reserved h.format _ (by exact entry_expr w)).trans ?_
  simp [post, ivs_length, checkIvs_set h.format slot hs, checkIvs, hk, hne]

/-- at any slot: an initial value for a derivative not below the equation's order -/
theorem order_too_high_rejected (marker : Str) (reserved : List Str) (w : WF) (h : w.Valid marker reserved)
    (slot : Nat) (hs : slot < w.order) (m : Nat) (hm : w.order ≤ m) (val : Str) :
    validate marker reserved { w.entry with initialValue := none,
                                            initialValues := some (w.ivs.set slot (w.name ++ primes m, val)) }
      = .malformed .ivOrderTooHigh := by
  refine (validate_post marker reserved h.format _ (by exact entry_expr w)).trans ?_
  simp [post, ivs_length, checkIvs_set h.format slot hs, checkIvs, firstIdent_key0 h.format,
    count_key h.format, hm]

/-- at any slot: a second initial value for an order that is already given elsewhere (the key
spelled differently, here with a trailing blank, so that the JSON keys are distinct) -/
theorem duplicate_rejected (marker : Str) (reserved : List Str) (w : WF) (h : w.Valid marker reserved)
    (slot k : Nat) (hs : slot < w.order) (hk : k < w.order) (hne : k ≠ slot) (val : Str) :
    validate marker reserved { w.entry with initialValue := none,
                                            initialValues := some (w.ivs.set slot (w.name ++ primes k ++ [' '], val)) }
      = .malformed .ivDuplicate := by
  refine (validate_post marker reserved h.format _ (by exact entry_expr w)).trans ?_
  have key : checkIvs w.name w.order (w.ivs.set slot (w.name ++ primes k ++ [' '], val)) []
      = some .ivDuplicate := by
    rw [checkIvs_set h.format slot hs]
    by_cases hlt : k < slot
    · exact checkIvs_dup _ _ k hk (firstIdent_keyB h.format k) (count_keyB h.format k) _ _
        (by simp [List.mem_range'_1, hlt])
    · have hgt : slot < k := by omega
      have hnm : k ∉ (List.range' 0 slot).reverse ++ [] := by simp [List.mem_range'_1]; omega
      rw [checkIvs]
      simp only [firstIdent_keyB h.format k, count_keyB h.format k, List.contains_iff_mem, hnm]
      rw [range'_split (slot + 1) (w.order - (slot + 1)) k (by omega) (by omega), List.map_append,
        List.map_cons, checkIvs_run h.format (slot + 1) (k - (slot + 1)) (by omega)]
      · have hd := checkIvs_dup (w := w) (w.name ++ primes k) (w.ivVals.getD k []) k hk
          (firstIdent_key0 h.format k) (count_key h.format k)
          (List.map (keyOf w) (List.range' (k + 1) (slot + 1 + (w.order - (slot + 1)) - (k + 1))))
          ((List.range' (slot + 1) (k - (slot + 1))).reverse ++ k :: ((List.range' 0 slot).reverse ++ []))
          (by simp)
        have hk' : ¬ (k ≥ w.order) := by omega
        simp only [ne_eq, not_true, if_false, hk']
        exact hd
      · intro j hj1 hj2 hmem
        simp [List.mem_range'_1] at hmem
        omega
  simp only [List.append_assoc] at key
  simp [post, ivs_length, key]

/-- a variable name that collides with a predefined symbol is not accepted -/
theorem reserved_name_rejected (marker : Str) (reserved : List Str) (w : WF)
    (h : w.Format) (hr : w.name ∈ reserved) :
    validate marker reserved w.entry = .reserved w.name := by
  refine (validate_post marker reserved h _ (by exact entry_expr w)).trans ?_
  unfold post WF.entry
  by_cases h0 : w.order = 0
  · simp [h0, hr]
  · cases hsg : w.single with
    | true =>
      have := h.singleOnlyFirst hsg
      simp [this, hr]
    | false =>
      simp [h0, ivs_length, checkIvs_ok h, hr]

/-- a variable name containing the derivative marker is rejected -/
theorem marker_in_name_rejected (marker : Str) (reserved : List Str) (w : WF)
    (h : w.Format) (hnr : w.name ∉ reserved) (hm : isInfix marker w.name = true) :
    validate marker reserved w.entry = .malformed .markerInName := by
  refine (validate_post marker reserved h _ (by exact entry_expr w)).trans ?_
  have hr := hnr
  unfold post WF.entry
  by_cases h0 : w.order = 0
  · simp [h0, hr, hm]
  · cases hsg : w.single with
    | true =>
      have := h.singleOnlyFirst hsg
      simp [this, hr, hm]
    | false =>
      simp [h0, ivs_length, checkIvs_ok h, hr, hm]

/-- in a list of entries the first inconsistent one makes the whole input fail -/
theorem validateAll_first_bad (marker : Str) (reserved : List Str) (good : List Entry) (bad : Entry) (rest : List Entry)
    (hg : ∀ e ∈ good, ∃ nm o, validate marker reserved e = .ok nm o)
    (hb : ∀ nm o, validate marker reserved bad ≠ .ok nm o) :
    validateAll marker reserved (good ++ bad :: rest) = validate marker reserved bad := by
  induction good with
  | nil =>
    cases rest with
    | nil => rfl
    | cons r rs =>
      cases hv : validate marker reserved bad with
      | ok nm o => exact absurd hv (hb nm o)
      | malformed k => simp [validateAll, hv]
      | reserved n => simp [validateAll, hv]
  | cons g gs ih =>
    obtain ⟨nm, o, hgo⟩ := hg g (by simp)
    have ih' := ih (fun e he => hg e (List.mem_cons_of_mem _ he))
    cases hl : gs ++ bad :: rest with
    | nil => simp at hl
    | cons x xs =>
      rw [List.cons_append, hl, validateAll]
      · simp only [hgo]; rw [← hl]; exact ih'
      · simp

/-! non-vacuity -/
example : ({ name := "x__d".toList, order := 1, rhs := "-x__d".toList, single := true, ivVals := ["1".toList] } : WF).Format ∧
    isInfix "__d".toList "x__d".toList = true := by
  refine ⟨⟨by decide, by decide, by decide, by decide, by intro; rfl⟩, by decide⟩

def demo : WF := { name := "V_m".toList, order := 2, rhs := "-V_m / tau**2 - 2 * V_m' / tau".toList, single := false,
                   ivVals := ["0".toList, "e / tau".toList] }

example : validate "__d".toList ["exp".toList, "t".toList] demo.entry = .ok "V_m".toList 2 := by decide +kernel
example : validate "__d".toList [] { demo.entry with initialValues := some [("V_m".toList, []), ("V_m ".toList, [])] }
    = .malformed .ivDuplicate := by decide +kernel

end OdeVerif.C09
