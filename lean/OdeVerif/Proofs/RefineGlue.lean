import OdeVerif.Generated.PyGlue
import OdeVerif.Generated.PyInitialValues
/-!
Refinement: the regenerated glue functions (`Generated/PyGlue.lean`, `Generated/PyInitialValues.lean`) equal the hand models of
`Model/Glue.lean`, for all inputs; and the properties of those hand models that the checks rely on.
-/
namespace OdeVerif.Refine
open OdeVerif

/-! ### initial values -/

theorem shapeGetInitialValue_refines (iv : List (Glue.Sym × String)) (sym : Glue.Sym) :
    Generated.shapeGetInitialValue iv sym = iv.lookup sym := by
  unfold Generated.shapeGetInitialValue
  cases h : iv.lookup sym <;> simp

theorem glue_stateVars_for1 (symbol : String) (l : List Nat) (acc : List Glue.Sym) :
    Generated.shapeGetStateVariables_for1 symbol l acc = acc ++ l.map (fun i => (symbol, i)) := by
  induction l generalizing acc with
  | nil => simp [Generated.shapeGetStateVariables_for1]
  | cons a l ih => simp [Generated.shapeGetStateVariables_for1, ih]

theorem shapeGetStateVariables_refines (symbol : String) (n : Nat) :
    Generated.shapeGetStateVariables symbol n = (List.range n).map (fun i => (symbol, i)) := by
  simp [Generated.shapeGetStateVariables, glue_stateVars_for1]

theorem glue_sysIv_for1 (sym : Glue.Sym) (shapes : List Glue.ShapeIv) :
    Generated.systemGetInitialValue_for1 sym shapes =
      match shapes.find? (fun sh => decide (sh.symbol = sym.1)) with
      | some sh => Py.Flow.ret (sh.iv.lookup sym)
      | none => Py.Flow.next () := by
  induction shapes with
  | nil => rfl
  | cons sh rest ih =>
    by_cases h : sh.symbol = sym.1
    · simp [Generated.systemGetInitialValue_for1, h, shapeGetInitialValue_refines]
    · simp [Generated.systemGetInitialValue_for1, h, ih]

theorem systemGetInitialValue_refines (shapes : List Glue.ShapeIv) (sym : Glue.Sym) :
    Generated.systemGetInitialValue shapes sym = Glue.sysIv shapes sym := by
  unfold Generated.systemGetInitialValue Glue.sysIv
  rw [glue_sysIv_for1]
  cases shapes.find? (fun sh => decide (sh.symbol = sym.1)) <;> rfl

theorem glue_appendLastIv (pre : List (List (Glue.Sym × Option String))) (cur : List (Glue.Sym × Option String))
    (p : Glue.Sym × Option String) : Glue.appendLastIv (pre ++ [cur]) p = pre ++ [cur ++ [p]] := by
  induction pre with
  | nil => rfl
  | cons a pre ih =>
    cases pre with
    | nil => rfl
    | cons b pre =>
      have h1 : Glue.appendLastIv (a :: (b :: pre ++ [cur])) p = a :: Glue.appendLastIv (b :: pre ++ [cur]) p := by
        cases pre <;> rfl
      show Glue.appendLastIv (a :: (b :: pre ++ [cur])) p = a :: (b :: pre ++ [cur ++ [p]])
      rw [h1, ih]

theorem glue_ivCopy_for3 (shape : Glue.ShapeIv) (sv l : List Glue.Sym)
    (pre : List (List (Glue.Sym × Option String))) (cur : List (Glue.Sym × Option String)) :
    Generated.initialValueCopy_for3 shape sv l (pre ++ [cur]) =
      pre ++ [cur ++ (l.filter (fun s => decide (s ∈ sv))).map (fun s => (s, shape.iv.lookup s))] := by
  induction l generalizing cur with
  | nil => simp [Generated.initialValueCopy_for3]
  | cons a l ih =>
    by_cases h : a ∈ sv
    · simp [Generated.initialValueCopy_for3, h, glue_appendLastIv, ih, shapeGetInitialValue_refines]
    · simp [Generated.initialValueCopy_for3, h, ih]

theorem glue_ivCopy_for2 (sv : List Glue.Sym) (shapes : List Glue.ShapeIv)
    (pre : List (List (Glue.Sym × Option String))) (cur : List (Glue.Sym × Option String)) :
    Generated.initialValueCopy_for2 sv shapes (pre ++ [cur]) = pre ++ [cur ++ Glue.ivOut shapes sv] := by
  induction shapes generalizing cur with
  | nil => simp [Generated.initialValueCopy_for2, Glue.ivOut]
  | cons sh rest ih =>
    simp only [Generated.initialValueCopy_for2, glue_ivCopy_for3, ih]
    simp [Glue.ivOut, Glue.ShapeIv.syms]

theorem glue_ivCopy_for1 (shapes : List Glue.ShapeIv) (solvers : List (List Glue.Sym))
    (out : List (List (Glue.Sym × Option String))) :
    Generated.initialValueCopy_for1 shapes solvers out = out ++ solvers.map (Glue.ivOut shapes) := by
  induction solvers generalizing out with
  | nil => simp [Generated.initialValueCopy_for1]
  | cons sv rest ih =>
    simp [Generated.initialValueCopy_for1, glue_ivCopy_for2, ih]

/-- the copy loop writes, for every solver, exactly `Glue.ivOut` of its state variables -/
theorem initialValueCopy_refines (shapes : List Glue.ShapeIv) (solvers : List (List Glue.Sym)) :
    Generated.initialValueCopy shapes solvers = solvers.map (Glue.ivOut shapes) := by
  simp [Generated.initialValueCopy, glue_ivCopy_for1]

theorem glue_ivOut_keys_eq (shapes : List Glue.ShapeIv) (sv : List Glue.Sym) :
    (Glue.ivOut shapes sv).map Prod.fst = (shapes.flatMap Glue.ShapeIv.syms).filter (fun s => decide (s ∈ sv)) := by
  induction shapes with
  | nil => rfl
  | cons sh rest ih =>
    have : Glue.ivOut (sh :: rest) sv =
        (sh.syms.filter (fun s => decide (s ∈ sv))).map (fun s => (s, sh.iv.lookup s)) ++ Glue.ivOut rest sv := by
      simp [Glue.ivOut]
    rw [this, List.map_append, ih]
    simp [Function.comp_def]

/-- closed and complete: a key is written iff it is a state variable of the solver that belongs to some shape -/
theorem ivOut_keys (shapes : List Glue.ShapeIv) (sv : List Glue.Sym) (s : Glue.Sym) :
    s ∈ (Glue.ivOut shapes sv).map Prod.fst ↔ s ∈ sv ∧ ∃ sh ∈ shapes, s ∈ sh.syms := by
  rw [glue_ivOut_keys_eq]
  simp only [List.mem_filter, List.mem_flatMap, decide_eq_true_eq]
  exact ⟨fun h => ⟨h.2, h.1⟩, fun h => ⟨h.2, h.1⟩⟩

/-- faithful: a written value is the initial value the owning shape holds for that variable -/
theorem ivOut_value (shapes : List Glue.ShapeIv) (sv : List Glue.Sym) (s : Glue.Sym) (v : Option String)
    (h : (s, v) ∈ Glue.ivOut shapes sv) : ∃ sh ∈ shapes, s ∈ sh.syms ∧ v = sh.iv.lookup s := by
  simp only [Glue.ivOut, List.mem_flatMap, List.mem_map, List.mem_filter] at h
  obtain ⟨sh, hsh, s', ⟨hs', _⟩, heq⟩ := h
  have h1 : s' = s := congrArg Prod.fst heq
  have h2 : sh.iv.lookup s' = v := congrArg Prod.snd heq
  subst h1
  exact ⟨sh, hsh, hs', h2.symm⟩

/-- no key is written twice when the shapes' state variables are pairwise distinct -/
theorem ivOut_keys_nodup (shapes : List Glue.ShapeIv) (sv : List Glue.Sym)
    (h : (shapes.flatMap Glue.ShapeIv.syms).Nodup) : ((Glue.ivOut shapes sv).map Prod.fst).Nodup := by
  rw [glue_ivOut_keys_eq]
  exact h.sublist List.filter_sublist

example : Glue.ivOut [⟨"V", 1, [(("V", 0), "-70")]⟩, ⟨"g", 2, [(("g", 0), "0"), (("g", 1), "e/tau")]⟩] [("g", 0), ("g", 1)]
    = [(("g", 0), some "0"), (("g", 1), some "e/tau")] := by decide

/-! ### `_find_in_matrix` -/

theorem glue_find_for2 {β : Type} [DecidableEq β] (A : Nat → Nat → β) (el : β) (i : Nat) (l : List Nat) :
    Generated.findInMatrix_for2 A el i l =
      match (l.map (fun j => (i, j))).find? (fun p => decide (A p.1 p.2 = el)) with
      | some p => Py.Flow.ret (some p)
      | none => Py.Flow.next () := by
  induction l with
  | nil => rfl
  | cons j l ih =>
    by_cases h : A i j = el
    · simp [Generated.findInMatrix_for2, h]
    · simp [Generated.findInMatrix_for2, h, ih]

theorem glue_find_for1 {β : Type} [DecidableEq β] (A : Nat → Nat → β) (el : β) (c : Nat) (l : List Nat) :
    Generated.findInMatrix_for1 A el c l =
      match (l.flatMap (fun i => (List.range c).map (fun j => (i, j)))).find? (fun p => decide (A p.1 p.2 = el)) with
      | some p => Py.Flow.ret (some p)
      | none => Py.Flow.next () := by
  induction l with
  | nil => rfl
  | cons i l ih =>
    simp only [Generated.findInMatrix_for1, glue_find_for2, List.flatMap_cons, List.find?_append]
    cases h : ((List.range c).map (fun j => (i, j))).find? (fun p => decide (A p.1 p.2 = el)) with
    | some p => simp
    | none => simp [ih]

theorem findInMatrix_refines {β : Type} [DecidableEq β] (A : Nat → Nat → β) (r c : Nat) (el : β) :
    Generated.findInMatrix A r c el = Glue.findPos A r c el := by
  simp only [Generated.findInMatrix, glue_find_for1, Glue.findPos, Glue.positions]
  cases ((List.range r).flatMap (fun i => (List.range c).map (fun j => (i, j)))).find?
    (fun p => decide (A p.1 p.2 = el)) <;> rfl

theorem glue_mem_positions (r c : Nat) (p : Nat × Nat) : p ∈ Glue.positions r c ↔ p.1 < r ∧ p.2 < c := by
  obtain ⟨a, b⟩ := p
  simp only [Glue.positions, List.mem_flatMap, List.mem_map, List.mem_range, Prod.mk.injEq]
  constructor
  · rintro ⟨i, hi, j, hj, rfl, rfl⟩
    exact ⟨hi, hj⟩
  · rintro ⟨hi, hj⟩
    exact ⟨a, hi, b, hj, rfl, rfl⟩

theorem findPos_some {β : Type} [DecidableEq β] (A : Nat → Nat → β) (r c : Nat) (el : β) (p : Nat × Nat)
    (h : Glue.findPos A r c el = some p) : p.1 < r ∧ p.2 < c ∧ A p.1 p.2 = el := by
  unfold Glue.findPos at h
  have h1 := List.find?_some h
  have h2 := (glue_mem_positions r c p).1 (List.mem_of_find?_eq_some h)
  exact ⟨h2.1, h2.2, of_decide_eq_true h1⟩

theorem findPos_none_iff {β : Type} [DecidableEq β] (A : Nat → Nat → β) (r c : Nat) (el : β) :
    Glue.findPos A r c el = none ↔ ∀ i j, i < r → j < c → A i j ≠ el := by
  unfold Glue.findPos
  rw [List.find?_eq_none]
  constructor
  · intro h i j hi hj
    have := h (i, j) ((glue_mem_positions r c (i, j)).2 ⟨hi, hj⟩)
    simpa using this
  · intro h p hp
    have hp' := (glue_mem_positions r c p).1 hp
    simpa using h p.1 p.2 hp'.1 hp'.2

/-- in a column vector with pairwise distinct entries, the entry at row `j` is found at `(j, 0)`: the identification
`_find_in_matrix(x, x[j]) = j` that `Generated/PyDemote.lean` uses -/
theorem findPos_column_distinct {β : Type} [DecidableEq β] (x : Nat → Nat → β) (n j : Nat) (hj : j < n)
    (hd : ∀ i k, i < n → k < n → x i 0 = x k 0 → i = k) : Glue.findPos x n 1 (x j 0) = some (j, 0) := by
  cases h : Glue.findPos x n 1 (x j 0) with
  | none =>
    exact absurd rfl ((findPos_none_iff x n 1 (x j 0)).1 h j 0 hj (Nat.lt_succ_self 0))
  | some p =>
    obtain ⟨h1, h2, h3⟩ := findPos_some x n 1 (x j 0) p h
    obtain ⟨a, b⟩ := p
    have hb : b = 0 := by simp at h2; exact h2
    subst hb
    have ha : a = j := hd a j h1 hj h3
    subst ha
    rfl

/-! ### linearity flags -/

theorem glue_lookup_assoc (l : List (Glue.Sym × Bool)) (k : Glue.Sym) (v : Bool) (k' : Glue.Sym) :
    (Glue.assoc l k v).lookup k' = if k' = k then some v else l.lookup k' := by
  induction l with
  | nil =>
    by_cases h : k' = k
    · simp [Glue.assoc, h]
    · have hb : (k' == k) = false := beq_eq_false_iff_ne.2 h
      simp [Glue.assoc, List.lookup, h, hb]
  | cons hd tl ih =>
    obtain ⟨a, b⟩ := hd
    by_cases h : a = k
    · subst h
      by_cases h' : k' = a
      · simp [Glue.assoc, h']
      · have hb : (k' == a) = false := beq_eq_false_iff_ne.2 h'
        simp [Glue.assoc, List.lookup_cons, h', hb]
    · by_cases h' : k' = a
      · subst h'
        simp [Glue.assoc, h]
      · have hb : (k' == a) = false := beq_eq_false_iff_ne.2 h'
        simp [Glue.assoc, List.lookup_cons, h, hb, ih]

theorem glue_lin_for2 (b : Bool) (syms : List Glue.Sym) (acc : List (Glue.Sym × Bool)) (sym : Glue.Sym) :
    (Generated.getLinCcSymbols_for2 b syms acc).lookup sym = if sym ∈ syms then some b else acc.lookup sym := by
  induction syms generalizing acc with
  | nil => simp [Generated.getLinCcSymbols_for2]
  | cons a l ih =>
    simp only [Generated.getLinCcSymbols_for2, ih, glue_lookup_assoc, List.mem_cons]
    by_cases h1 : sym ∈ l <;> by_cases h2 : sym = a <;> simp [h1, h2]

theorem glue_mem_syms (sh : Glue.ShapeLin) (sym : Glue.Sym) :
    sym ∈ (List.range sh.order).map (fun k => (sh.symbol, k)) ↔ sh.symbol = sym.1 ∧ sym.2 < sh.order := by
  obtain ⟨a, b⟩ := sym
  simp only [List.mem_map, List.mem_range, Prod.mk.injEq]
  constructor
  · rintro ⟨k, hk, rfl, rfl⟩
    exact ⟨rfl, hk⟩
  · rintro ⟨h1, h2⟩
    exact ⟨b, h2, h1, rfl⟩

theorem glue_lin_for1 (shapes : List Glue.ShapeLin) (b : Bool) (acc : List (Glue.Sym × Bool)) (sym : Glue.Sym) :
    (Generated.getLinCcSymbols_for1 shapes b acc).2.lookup sym = (Glue.linOf shapes sym).or (acc.lookup sym) := by
  induction shapes generalizing b acc with
  | nil => simp [Generated.getLinCcSymbols_for1, Glue.linOf]
  | cons sh rest ih =>
    simp only [Generated.getLinCcSymbols_for1, ih, glue_lin_for2, glue_mem_syms]
    have hb : (if sh.lin = true then true else false) = sh.lin := by cases sh.lin <;> rfl
    rw [hb]
    simp only [Glue.linOf, List.reverse_cons, List.find?_append]
    cases List.find? (fun sh => decide (sh.symbol = sym.1 ∧ sym.2 < sh.order)) rest.reverse with
    | some s => simp
    | none =>
      by_cases h : sh.symbol = sym.1 ∧ sym.2 < sh.order
      · simp [h]
      · simp [h]

theorem getLinCcSymbols_lookup (shapes : List Glue.ShapeLin) (sym : Glue.Sym) :
    (Generated.getLinCcSymbols shapes).lookup sym = Glue.linOf shapes sym := by
  have := glue_lin_for1 shapes false [] sym
  simpa [Generated.getLinCcSymbols] using this

theorem glue_eq_of_nodup_map (shapes : List Glue.ShapeLin) (hd : (shapes.map (·.symbol)).Nodup)
    (a b : Glue.ShapeLin) (ha : a ∈ shapes) (hb : b ∈ shapes) (h : a.symbol = b.symbol) : a = b := by
  induction shapes with
  | nil => cases ha
  | cons s rest ih =>
    rw [List.map_cons, List.nodup_cons] at hd
    rcases List.mem_cons.1 ha with rfl | ha' <;> rcases List.mem_cons.1 hb with rfl | hb'
    · rfl
    · exact absurd (h ▸ List.mem_map_of_mem (f := (·.symbol)) hb') hd.1
    · exact absurd (h ▸ List.mem_map_of_mem (f := (·.symbol)) ha') hd.1
    · exact ih hd.2 ha' hb'

/-- with pairwise distinct shape symbols, every state variable of a shape carries that shape's verdict -/
theorem getLinCcSymbols_of_distinct (shapes : List Glue.ShapeLin) (hd : (shapes.map (·.symbol)).Nodup)
    (sh : Glue.ShapeLin) (hs : sh ∈ shapes) (k : Nat) (hk : k < sh.order) :
    (Generated.getLinCcSymbols shapes).lookup (sh.symbol, k) = some sh.lin := by
  rw [getLinCcSymbols_lookup]
  unfold Glue.linOf
  cases h : shapes.reverse.find? (fun s => decide (s.symbol = (sh.symbol, k).1 ∧ (sh.symbol, k).2 < s.order)) with
  | none =>
    rw [List.find?_eq_none] at h
    have := h sh (List.mem_reverse.2 hs)
    simp [hk] at this
  | some s =>
    have h1 := List.find?_some h
    have h2 := List.mem_reverse.1 (List.mem_of_find?_eq_some h)
    simp only [decide_eq_true_eq] at h1
    have : s = sh := glue_eq_of_nodup_map shapes hd s sh h2 hs h1.1
    subst this
    rfl

theorem glue_fill_for2 (anz : Nat → Nat → Bool) (i : Nat) (l : List Nat) (A : Nat → Nat → Bool) :
    Generated.shapeOrderFromSystemMatrix_for2 anz i l A =
      fun a b => if a = i ∧ b ∈ l then anz a b else A a b := by
  induction l generalizing A with
  | nil => simp [Generated.shapeOrderFromSystemMatrix_for2]
  | cons j l ih =>
    simp only [Generated.shapeOrderFromSystemMatrix_for2, ih]
    funext a b
    simp only [Py.update2, List.mem_cons]
    by_cases h1 : a = i <;> by_cases h2 : b = j <;> by_cases h3 : b ∈ l <;> simp [h1, h2, h3]

theorem glue_fill_for1 (anz : Nat → Nat → Bool) (N : Nat) (l : List Nat) (A : Nat → Nat → Bool) :
    Generated.shapeOrderFromSystemMatrix_for1 anz N l A =
      fun a b => if a ∈ l ∧ b < N then anz a b else A a b := by
  induction l generalizing A with
  | nil => simp [Generated.shapeOrderFromSystemMatrix_for1]
  | cons i l ih =>
    simp only [Generated.shapeOrderFromSystemMatrix_for1, ih, glue_fill_for2]
    funext a b
    simp only [List.mem_cons, List.mem_range]
    by_cases h1 : a = i <;> by_cases h2 : a ∈ l <;> by_cases h3 : b < N <;> simp [h1, h2, h3]

theorem glue_fill (anz : Nat → Nat → Bool) (n : Nat) :
    Generated.shapeOrderFromSystemMatrix_for1 anz n (List.range n) (fun _ _ => false) = Glue.pattern anz n := by
  rw [glue_fill_for1]
  funext a b
  simp only [List.mem_range, Glue.pattern]
  by_cases h : a < n ∧ b < n <;> simp [h]

theorem glue_conn_for2_eq (anz : Nat → Nat → Bool) (i : Nat) (l : List Nat) (A : Nat → Nat → Bool) :
    Generated.getConnectedSymbols_for2 anz i l A = Generated.shapeOrderFromSystemMatrix_for2 anz i l A := by
  induction l generalizing A with
  | nil => rfl
  | cons j l ih => simp only [Generated.getConnectedSymbols_for2, Generated.shapeOrderFromSystemMatrix_for2, ih]

theorem glue_conn_for1_eq (anz : Nat → Nat → Bool) (N : Nat) (l : List Nat) (A : Nat → Nat → Bool) :
    Generated.getConnectedSymbols_for1 anz N l A = Generated.shapeOrderFromSystemMatrix_for1 anz N l A := by
  induction l generalizing A with
  | nil => rfl
  | cons j l ih =>
    simp only [Generated.getConnectedSymbols_for1, Generated.shapeOrderFromSystemMatrix_for1, ih, glue_conn_for2_eq]

/-! ### strongly connected components of the system matrix -/

theorem shapeOrderFromSystemMatrix_refines (anz : Nat → Nat → Bool) (n : Nat) (scc : (Nat → Nat → Bool) → Nat → Nat) (idx : Nat) :
    Generated.shapeOrderFromSystemMatrix anz n scc idx = Glue.sameLabelCount (scc (Glue.pattern anz n)) n idx := by
  simp only [Generated.shapeOrderFromSystemMatrix, glue_fill]

theorem getConnectedSymbols_refines (anz : Nat → Nat → Bool) (n : Nat) (scc : (Nat → Nat → Bool) → Nat → Nat) (idx : Nat) :
    Generated.getConnectedSymbols anz n scc idx = Glue.sameLabel (scc (Glue.pattern anz n)) n idx := by
  simp only [Generated.getConnectedSymbols, glue_conn_for1_eq, glue_fill]

/-- a variable is always among its own connected symbols (the condition `x[i] in get_connected_symbols(i)` of the first demotion
rule is always true: `Generated/PyDemote.lean` renders it as `True`) -/
theorem self_mem_getConnectedSymbols (anz : Nat → Nat → Bool) (n : Nat) (scc : (Nat → Nat → Bool) → Nat → Nat) (idx : Nat) (h : idx < n) :
    idx ∈ Generated.getConnectedSymbols anz n scc idx := by
  rw [getConnectedSymbols_refines]
  simp [Glue.sameLabel, h]

/-- both functions look at the same component: the order is the number of connected symbols -/
theorem shapeOrder_eq_length_connected (anz : Nat → Nat → Bool) (n : Nat) (scc : (Nat → Nat → Bool) → Nat → Nat) (idx : Nat) :
    Generated.shapeOrderFromSystemMatrix anz n scc idx = (Generated.getConnectedSymbols anz n scc idx).length := by
  rw [getConnectedSymbols_refines, shapeOrderFromSystemMatrix_refines]
  rfl

end OdeVerif.Refine
