/-
Refinement: the term loop of `Shape.split_lin_inhom_nonlin` as regenerated from `odetoolbox/shapes.py` on every
run (`OdeVerif/Generated/PySplit.lean`) puts every term of the expanded expression into the bucket the hand model
`Terms.classify` assigns it (the model that `C02.split_lossless`, `classify_lin_lt`, `split_const_coeffs`,
`C04.classify_complete_*` are about): first matching state variable wins, each term lands in exactly one bucket,
the order of the terms is kept.
-/
import OdeVerif.Generated.PySplit
import OdeVerif.Model.Terms

namespace OdeVerif.Refine
open OdeVerif OdeVerif.Terms


theorem split_for2_spec (params : List Sym) (t : Term) (lf : List (Nat × Term)) :
    ∀ (l : List Sym) (k : Nat),
      (∀ j, firstLinear params t l k = some j →
        ∃ s, l[j - k]? = some s ∧ k ≤ j ∧
          Generated.splitLinInhomNonlin_for2 params t ((l.zipIdx k).map (fun p => (p.2, p.1))) lf false
            = (lf ++ [(j, divSym t s)], true)) ∧
      (firstLinear params t l k = none →
          Generated.splitLinInhomNonlin_for2 params t ((l.zipIdx k).map (fun p => (p.2, p.1))) lf false
            = (lf, false)) := by
  intro l
  induction l with
  | nil =>
    intro k
    constructor
    · intro j h; simp [firstLinear] at h
    · intro _; simp [Generated.splitLinInhomNonlin_for2]
  | cons a rest ih =>
    intro k
    have ih' := ih (k + 1)
    by_cases hc : isConstant params (divSym t a) = true
    · constructor
      · intro j h
        simp [firstLinear, hc] at h
        subst h
        refine ⟨a, by simp, Nat.le_refl _, ?_⟩
        simp [List.zipIdx_cons, Generated.splitLinInhomNonlin_for2, hc]
      · intro h
        simp [firstLinear, hc] at h
    · constructor
      · intro j h
        simp [firstLinear, hc] at h
        obtain ⟨s, hs, hk, he⟩ := ih'.1 j h
        refine ⟨s, ?_, by omega, ?_⟩
        · have : j - k = (j - (k + 1)) + 1 := by omega
          rw [this]; simpa using hs
        · simp only [List.zipIdx_cons, List.map_cons, Generated.splitLinInhomNonlin_for2, hc]
          simpa using he
      · intro h
        simp [firstLinear, hc] at h
        have he := ih'.2 h
        simp only [List.zipIdx_cons, List.map_cons, Generated.splitLinInhomNonlin_for2, hc]
        simpa using he

theorem split_firstLinear_lt (params xs : List Sym) (t : Term) (j : Nat)
    (h : firstLinear params t xs 0 = some j) : j < xs.length := by
  obtain ⟨s, hs, _, _⟩ := (split_for2_spec params t [] xs 0).1 j h
  simp at hs
  obtain ⟨hlt, _⟩ := List.getElem?_eq_some_iff.mp hs
  exact hlt

theorem split_for1_spec (params xs : List Sym) :
    ∀ (ts : List Term) (inh : List Term) (lf : List (Nat × Term)) (nl : List Term),
      Generated.splitLinInhomNonlin_for1 params xs ts inh lf nl =
        ( inh ++ ts.filter (fun t => classify params xs t == .const),
          lf ++ ts.filterMap (fun t => match classify params xs t with
                                | .lin j => some (j, divSym t (xs.getD j 0))
                                | _ => none),
          nl ++ ts.filter (fun t => classify params xs t == .nonlin) ) := by
  intro ts
  induction ts with
  | nil => intro inh lf nl; simp [Generated.splitLinInhomNonlin_for1]
  | cons t rest ih =>
    intro inh lf nl
    by_cases hc : isConstant params t = true
    · have hcl : classify params xs t = .const := by simp [classify, hc]
      simp [Generated.splitLinInhomNonlin_for1, hc, hcl, ih]
    · cases hf : firstLinear params t xs 0 with
      | some j =>
        have hcl : classify params xs t = .lin j := by simp [classify, hc, hf]
        obtain ⟨s, hs, _, he⟩ := (split_for2_spec params t lf xs 0).1 j hf
        have hget : xs[j]? = some s := by simpa using hs
        have he' : Generated.splitLinInhomNonlin_for2 params t (Py.enumerate xs) lf false
            = (lf ++ [(j, divSym t s)], true) := by
          simpa [Py.enumerate] using he
        simp [Generated.splitLinInhomNonlin_for1, hc, hcl, he', ih, hget]
      | none =>
        have hcl : classify params xs t = .nonlin := by simp [classify, hc, hf]
        have he := (split_for2_spec params t lf xs 0).2 hf
        have he' : Generated.splitLinInhomNonlin_for2 params t (Py.enumerate xs) lf false
            = (lf, false) := by
          simpa [Py.enumerate] using he
        simp [Generated.splitLinInhomNonlin_for1, hc, hcl, he', ih]

/-- position of the first state variable the term is linear in, as the inner loop finds it -/
theorem splitLinInhomNonlin_refines (params xs : List Sym) (ts : List Term) :
    Generated.splitLinInhomNonlin params xs ts =
      ( ts.filterMap (fun t => match classify params xs t with
                                | .lin j => some (j, divSym t (xs.getD j 0))
                                | _ => none),
        ts.filter (fun t => classify params xs t == .const),
        ts.filter (fun t => classify params xs t == .nonlin) ) := by
  simp [Generated.splitLinInhomNonlin, split_for1_spec]

/-- a linear bucket index always points into `x`, and the recorded factor is `term / x[j]` for that `j` -/
theorem splitLinInhomNonlin_lin_index (params xs : List Sym) (ts : List Term) :
    ∀ p ∈ (Generated.splitLinInhomNonlin params xs ts).1, p.1 < xs.length := by
  rw [splitLinInhomNonlin_refines]
  intro p hp
  simp only [List.mem_filterMap] at hp
  obtain ⟨t, _, ht⟩ := hp
  cases hcl : classify params xs t with
  | const => simp [hcl] at ht
  | nonlin => simp [hcl] at ht
  | lin j =>
    simp [hcl] at ht
    subst ht
    simp only
    unfold classify at hcl
    split at hcl
    · cases hcl
    · split at hcl
      · rename_i j' hf
        cases hcl
        exact split_firstLinear_lt params xs t _ hf
      · cases hcl

end OdeVerif.Refine
