/-
C03 / C04 (graph part) — the solver partition is an exact cover; analytic membership is
dependency-closed, sound, and is the GREATEST closed set of eligible variables, hence independent
of entry order.  Property theorems only.
-/
import OdeVerif.Model.Graph

namespace OdeVerif.C03
open OdeVerif.Graph

/-! ### helper lemmas -/

private theorem aux_fold (dep : Nat → Nat → Bool) (m : Nat) :
    ∀ (l : List Nat), l.Nodup → ∀ (v : Nat → Bool) (q : List Nat),
      (∀ j, (l.foldl
          (fun (st : (Nat → Bool) × List Nat) j =>
            if dep j m && st.1 j then (fun k => if k = j then false else st.1 k, st.2 ++ [j]) else st)
          (v, q)).1 j = (v j && !(decide (j ∈ l) && dep j m))) ∧
      (l.foldl
          (fun (st : (Nat → Bool) × List Nat) j =>
            if dep j m && st.1 j then (fun k => if k = j then false else st.1 k, st.2 ++ [j]) else st)
          (v, q)).2 = q ++ l.filter (fun j => dep j m && v j) := by
  intro l
  induction l with
  | nil => intro _ v q; simp
  | cons a t ih =>
    intro hnd v q
    have hat : a ∉ t := (List.nodup_cons.mp hnd).1
    have hnt : t.Nodup := (List.nodup_cons.mp hnd).2
    rw [List.foldl_cons]
    by_cases hc : (dep a m && v a) = true
    · obtain ⟨h1, h2⟩ := ih hnt (fun k => if k = a then false else v k) (q ++ [a])
      simp only [hc, if_true]
      have hd : dep a m = true := by
        cases hdm : dep a m <;> simp_all
      have hva : v a = true := by
        cases hdm : v a <;> simp_all
      constructor
      · intro j
        rw [h1]
        by_cases hj : j = a
        · subst hj; simp [hd]
        · simp [hj]
      · rw [h2]
        have : t.filter (fun j => dep j m && (if j = a then false else v j))
            = t.filter (fun j => dep j m && v j) := by
          apply List.filter_congr
          intro x hx
          have : x ≠ a := fun h => hat (h ▸ hx)
          simp [this]
        rw [this, List.filter_cons]
        simp [hc]
    · obtain ⟨h1, h2⟩ := ih hnt v q
      have hc' : (dep a m && v a) = false := by
        cases h : (dep a m && v a) <;> simp_all
      simp only [hc']
      constructor
      · intro j
        have := h1 j
        simp only [Bool.false_eq_true, if_false] at this ⊢
        rw [this]
        by_cases hj : j = a
        · subst hj
          cases hdm : dep j m <;> cases hvj : v j <;> simp_all
        · simp [hj]
      · have := h2
        simp only [Bool.false_eq_true, if_false] at this ⊢
        rw [this, List.filter_cons]
        simp [hc']

theorem aux_visit_fst (n : Nat) (dep : Nat → Nat → Bool) (m : Nat) (v : Nat → Bool) (q : List Nat)
    (j : Nat) : (visit n dep m v q).1 j = (v j && !(decide (j < n) && dep j m)) := by
  have := (aux_fold dep m (List.range n) List.nodup_range v q).1 j
  simp only [List.mem_range] at this
  exact this

theorem aux_visit_snd (n : Nat) (dep : Nat → Nat → Bool) (m : Nat) (v : Nat → Bool) (q : List Nat) :
    (visit n dep m v q).2 = q ++ (List.range n).filter (fun j => dep j m && v j) :=
  (aux_fold dep m (List.range n) List.nodup_range v q).2

theorem aux_propagate_nil (n : Nat) (dep : Nat → Nat → Bool) (fuel : Nat) (v : Nat → Bool) :
    propagate n dep fuel v [] = some v := by
  cases fuel <;> rfl

theorem aux_propagate_cons (n : Nat) (dep : Nat → Nat → Bool) (fuel : Nat) (v : Nat → Bool)
    (m : Nat) (q : List Nat) :
    propagate n dep (fuel + 1) v (m :: q) =
      if !v m then propagate n dep fuel (visit n dep m v q).1 (visit n dep m v q).2
      else propagate n dep fuel v q := rfl

theorem aux_propagate_zero (n : Nat) (dep : Nat → Nat → Bool) (v : Nat → Bool)
    (m : Nat) (q : List Nat) : propagate n dep 0 v (m :: q) = none := rfl

/-- splitting a filter count -/
private theorem aux_count_split (p c : Nat → Bool) (l : List Nat) :
    (l.filter p).length =
      (l.filter (fun j => p j && !c j)).length + (l.filter (fun j => c j && p j)).length := by
  induction l with
  | nil => simp
  | cons a t ih =>
    simp only [List.filter_cons]
    cases hp : p a <;> cases hcc : c a <;> simp [ih] <;> omega

private theorem aux_term (n : Nat) (dep : Nat → Nat → Bool) :
    ∀ (fuel : Nat) (v : Nat → Bool) (q : List Nat),
      q.length + ((List.range n).filter v).length < fuel →
      ∃ r, propagate n dep fuel v q = some r := by
  intro fuel
  induction fuel with
  | zero => intro v q h; omega
  | succ f ih =>
    intro v q h
    cases q with
    | nil => exact ⟨v, aux_propagate_nil ..⟩
    | cons m q =>
      rw [aux_propagate_cons]
      by_cases hvm : v m = true
      · simp only [hvm, Bool.not_true, Bool.false_eq_true, if_false]
        apply ih
        simp only [List.length_cons] at h
        omega
      · have hvm' : v m = false := by cases h : v m <;> simp_all
        simp only [hvm', Bool.not_false, if_true]
        apply ih
        rw [aux_visit_snd]
        have h1 : (List.range n).filter (fun j => (visit n dep m v q).1 j)
            = (List.range n).filter (fun j => v j && !(dep j m)) := by
          apply List.filter_congr
          intro x hx
          rw [aux_visit_fst]
          simp [List.mem_range.mp hx]
        have h1' : (List.range n).filter (visit n dep m v q).1
            = (List.range n).filter (fun j => v j && !(dep j m)) := h1
        rw [h1']
        have h2 := aux_count_split v (fun j => dep j m) (List.range n)
        simp only [List.length_cons, List.length_append] at h ⊢
        omega

/-- **Termination**: `n + 1` units of fuel always suffice, for every dependency graph. -/
theorem propagate_terminates (n : Nat) (dep : Nat → Nat → Bool) (v0 : Nat → Bool) :
    ∃ v, propagate n dep (n + 1) v0 (initQueue n v0) = some v := by
  apply aux_term
  have h := aux_count_split (fun _ => true) v0 (List.range n)
  have e0 : (List.range n).filter (fun _ => true) = List.range n :=
    List.filter_eq_self.mpr (fun _ _ => rfl)
  rw [e0] at h
  simp only [Bool.true_and, Bool.and_true, List.length_range] at h
  unfold initQueue
  have e : (List.range n).filter (fun j => v0 j) = (List.range n).filter v0 := rfl
  rw [e] at h
  omega

theorem verdict_total (s : Sys) : ∃ v, verdict s = some v :=
  propagate_terminates _ _ _

/-- the worklist invariant, carried to the result -/
private theorem aux_main (n : Nat) (dep : Nat → Nat → Bool) (v0 : Nat → Bool)
    (S : Nat → Prop) (hSc : ∀ i m, S i → m < n → dep i m = true → S m) :
    ∀ (fuel : Nat) (v : Nat → Bool) (q : List Nat) (r : Nat → Bool),
      propagate n dep fuel v q = some r →
      (∀ i, v i = true → v0 i = true) →
      (∀ x ∈ q, x < n) →
      (∀ i m, i < n → m < n → v m = false → dep i m = true → v i = true → m ∈ q) →
      (∀ i, S i → v i = true) →
      (∀ i, r i = true → v0 i = true) ∧
      (∀ i m, i < n → m < n → r i = true → dep i m = true → r m = true) ∧
      (∀ i, S i → r i = true) := by
  intro fuel
  induction fuel with
  | zero =>
    intro v q r h ha hb hc hd
    cases q with
    | nil =>
      rw [aux_propagate_nil] at h
      cases h
      refine ⟨ha, ?_, hd⟩
      intro i m hi hm hvi hdm
      cases hvm : v m with
      | true => rfl
      | false => exact absurd (hc i m hi hm hvm hdm hvi) (by simp)
    | cons m q => rw [aux_propagate_zero] at h; cases h
  | succ f ih =>
    intro v q r h ha hb hc hd
    cases q with
    | nil =>
      rw [aux_propagate_nil] at h
      cases h
      refine ⟨ha, ?_, hd⟩
      intro i m hi hm hvi hdm
      cases hvm : v m with
      | true => rfl
      | false => exact absurd (hc i m hi hm hvm hdm hvi) (by simp)
    | cons m q =>
      rw [aux_propagate_cons] at h
      have hmn : m < n := hb m (by simp)
      cases hvm : v m with
      | true =>
        simp only [hvm, Bool.not_true, Bool.false_eq_true, if_false] at h
        refine ih v q r h ha (fun x hx => hb x (List.mem_cons_of_mem _ hx)) ?_ hd
        intro i m' hi hm' hvm' hdm hvi
        have := hc i m' hi hm' hvm' hdm hvi
        rcases List.mem_cons.mp this with h1 | h1
        · subst h1; rw [hvm] at hvm'; cases hvm'
        · exact h1
      | false =>
        simp only [hvm, Bool.not_false, if_true] at h
        refine ih _ _ r h ?_ ?_ ?_ ?_
        · intro i hi
          rw [aux_visit_fst] at hi
          apply ha
          cases hvi : v i <;> simp_all
        · intro x hx
          rw [aux_visit_snd] at hx
          rcases List.mem_append.mp hx with h1 | h1
          · exact hb x (List.mem_cons_of_mem _ h1)
          · exact List.mem_range.mp (List.mem_filter.mp h1).1
        · intro i m' hi hm' hvm' hdm hvi
          rw [aux_visit_snd]
          rw [aux_visit_fst] at hvm' hvi
          have hvi1 : v i = true := by cases hx : v i <;> simp_all
          have hdi : dep i m = false := by cases hx : dep i m <;> simp_all
          cases hvm1 : v m' with
          | false =>
            have := hc i m' hi hm' hvm1 hdm hvi1
            rcases List.mem_cons.mp this with h1 | h1
            · subst h1; rw [hdm] at hdi; cases hdi
            · exact List.mem_append.mpr (Or.inl h1)
          | true =>
            have hdm' : dep m' m = true := by cases hx : dep m' m <;> simp_all
            apply List.mem_append.mpr
            right
            apply List.mem_filter.mpr
            exact ⟨List.mem_range.mpr hm', by simp [hdm', hvm1]⟩
        · intro i hS
          rw [aux_visit_fst]
          have hvi := hd i hS
          cases hdi : dep i m with
          | false => simp [hvi]
          | true =>
            have := hd m (hSc i m hS hmn hdi)
            rw [hvm] at this; cases this

private theorem aux_init (n : Nat) (dep : Nat → Nat → Bool) (v0 v : Nat → Bool) (fuel : Nat)
    (h : propagate n dep fuel v0 (initQueue n v0) = some v)
    (S : Nat → Prop) (hS0 : ∀ i, S i → i < n ∧ v0 i = true)
    (hSc : ∀ i m, S i → m < n → dep i m = true → S m) :
    (∀ i, v i = true → v0 i = true) ∧
    (∀ i m, i < n → m < n → v i = true → dep i m = true → v m = true) ∧
    (∀ i, S i → v i = true) := by
  refine aux_main n dep v0 S hSc fuel v0 (initQueue n v0) v h (fun _ h => h) ?_ ?_
    (fun i hi => (hS0 i hi).2)
  · intro x hx
    exact List.mem_range.mp (List.mem_filter.mp hx).1
  · intro i m _ hm hvm _ _
    exact List.mem_filter.mpr ⟨List.mem_range.mpr hm, by simp [hvm]⟩

/-- **Sound w.r.t. the starting verdict**: propagation only ever demotes. -/
theorem propagate_below (n : Nat) (dep : Nat → Nat → Bool) (v0 v : Nat → Bool) (fuel : Nat)
    (h : propagate n dep fuel v0 (initQueue n v0) = some v) :
    ∀ i, v i = true → v0 i = true :=
  (aux_init n dep v0 v fuel h (fun _ => False) (fun _ h => h.elim) (fun _ _ h => h.elim)).1

/-- **Closed**: an analytic variable depends only on analytic variables (for all graphs:
chains, fans, cycles, self-loops …). -/
theorem propagate_closed (n : Nat) (dep : Nat → Nat → Bool) (v0 v : Nat → Bool) (fuel : Nat)
    (h : propagate n dep fuel v0 (initQueue n v0) = some v) :
    ∀ i m, i < n → m < n → v i = true → dep i m = true → v m = true :=
  (aux_init n dep v0 v fuel h (fun _ => False) (fun _ h => h.elim) (fun _ _ h => h.elim)).2.1

/-- **Greatest**: every dependency-closed set of initially eligible variables survives. -/
theorem propagate_greatest (n : Nat) (dep : Nat → Nat → Bool) (v0 v : Nat → Bool) (fuel : Nat)
    (h : propagate n dep fuel v0 (initQueue n v0) = some v)
    (S : Nat → Prop) (hS0 : ∀ i, S i → i < n ∧ v0 i = true)
    (hSc : ∀ i m, S i → m < n → dep i m = true → S m) :
    ∀ i, S i → v i = true :=
  (aux_init n dep v0 v fuel h S hS0 hSc).2.2

/-- **Analytic membership is sound** (graph part): an analytic variable's shape passed the
linear-constant-coefficient test and neither documented exception applies to it. -/
theorem analytic_sound (s : Sys) (v : Nat → Bool) (h : verdict s = some v) (i : Nat) (hi : v i = true) :
    s.shapeLin i = true ∧ demote1 s i = false ∧ demote2 s i = false := by
  have he : eligible s i = true := propagate_below _ _ _ _ _ h i hi
  unfold eligible at he
  cases h1 : s.shapeLin i <;> cases h2 : demote1 s i <;> cases h3 : demote2 s i <;> simp_all

/-- **Analytic membership is closed** for the system's own dependency relation. -/
theorem analytic_closed (s : Sys) (v : Nat → Bool) (h : verdict s = some v)
    (i m : Nat) (hi : i < s.n) (hm : m < s.n) (hv : v i = true) (hd : s.dep i m = true) : v m = true :=
  propagate_closed _ _ _ _ _ h i m hi hm hv hd

/-- **Tractable variables are recognised** (C04, graph part): a variable lying in ANY
dependency-closed set of eligible variables is solved analytically — so the only way to be
tractable-but-numeric is one of the two documented exceptions (`demote1`, `demote2`) applying to
the variable or to something it (transitively) depends on. -/
theorem tractable_recognised (s : Sys) (v : Nat → Bool) (h : verdict s = some v)
    (S : Nat → Prop) (hS0 : ∀ i, S i → i < s.n ∧ eligible s i = true)
    (hSc : ∀ i m, S i → m < s.n → s.dep i m = true → S m) :
    ∀ i, S i → v i = true :=
  propagate_greatest _ _ _ _ _ h S hS0 hSc

/-- **Exact cover**: the analytic and numeric index lists partition `0 … n-1`. -/
theorem partition_exact_cover (n : Nat) (v : Nat → Bool) :
    (analyticIdx n v ++ numericIdx n v).Perm (List.range n) ∧
    (analyticIdx n v ++ numericIdx n v).Nodup ∧
    ∀ i, i ∈ analyticIdx n v → i ∉ numericIdx n v := by
  have hp : (analyticIdx n v ++ numericIdx n v).Perm (List.range n) :=
    List.filter_append_perm v (List.range n)
  refine ⟨hp, hp.nodup_iff.mpr List.nodup_range, ?_⟩
  intro i hi hi'
  have h1 := (List.mem_filter.mp hi).2
  have h2 := (List.mem_filter.mp hi').2
  simp [h1] at h2

/-- **Entry order does not matter** (C04/C06, graph part): if two presentations of the same
dependency structure are related by a permutation `σ` of the indices (with inverse `τ`), the final
verdicts correspond. -/
theorem verdict_perm_invariant (n : Nat) (dep dep' : Nat → Nat → Bool) (v0 v0' v v' : Nat → Bool)
    (σ τ : Nat → Nat)
    (hσ : ∀ i, i < n → σ i < n) (hτ : ∀ i, i < n → τ i < n)
    (hστ : ∀ i, i < n → τ (σ i) = i) (hτσ : ∀ i, i < n → σ (τ i) = i)
    (hdep : ∀ i j, i < n → j < n → dep' (σ i) (σ j) = dep i j)
    (hv0 : ∀ i, i < n → v0' (σ i) = v0 i)
    (fuel fuel' : Nat)
    (h : propagate n dep fuel v0 (initQueue n v0) = some v)
    (h' : propagate n dep' fuel' v0' (initQueue n v0') = some v') :
    ∀ i, i < n → v' (σ i) = v i := by
  have hb := propagate_below n dep v0 v fuel h
  have hb' := propagate_below n dep' v0' v' fuel' h'
  have hc := propagate_closed n dep v0 v fuel h
  have hc' := propagate_closed n dep' v0' v' fuel' h'
  -- direction 1: `v i → v' (σ i)`
  have d1 : ∀ j, (j < n ∧ v (τ j) = true) → v' j = true := by
    apply propagate_greatest n dep' v0' v' fuel' h' (fun j => j < n ∧ v (τ j) = true)
    · rintro j ⟨hj, hvj⟩
      refine ⟨hj, ?_⟩
      have := hv0 (τ j) (hτ j hj)
      rw [hτσ j hj] at this
      rw [this]
      exact hb _ hvj
    · rintro j m ⟨hj, hvj⟩ hm hd
      refine ⟨hm, ?_⟩
      have := hdep (τ j) (τ m) (hτ j hj) (hτ m hm)
      rw [hτσ j hj, hτσ m hm, hd] at this
      exact hc (τ j) (τ m) (hτ j hj) (hτ m hm) hvj this.symm
  -- direction 2: `v' (σ k) → v k`
  have d2 : ∀ k, (k < n ∧ v' (σ k) = true) → v k = true := by
    apply propagate_greatest n dep v0 v fuel h (fun k => k < n ∧ v' (σ k) = true)
    · rintro k ⟨hk, hvk⟩
      refine ⟨hk, ?_⟩
      rw [← hv0 k hk]
      exact hb' _ hvk
    · rintro k m ⟨hk, hvk⟩ hm hd
      refine ⟨hm, ?_⟩
      have := hdep k m hk hm
      rw [hd] at this
      exact hc' (σ k) (σ m) (hσ k hk) (hσ m hm) hvk this
  intro i hi
  cases hvi : v i with
  | true =>
    apply d1
    refine ⟨hσ i hi, ?_⟩
    rw [hστ i hi]; exact hvi
  | false =>
    cases hvi' : v' (σ i) with
    | false => rfl
    | true =>
      have := d2 i ⟨hi, hvi'⟩
      rw [hvi] at this; cases this

/-! non-vacuity: a 4-node system: 0 <- 1 <- 2 (chain, 2 not linear), 3 isolated -/
def demo : Sys :=
  { n := 4, anz := fun i j => (i, j) == (0, 1) || (i, j) == (1, 2) || i == j, cdep := fun _ _ => false,
    bnz := fun _ => false, shapeLin := fun i => i != 2 }

example : (verdict demo).map (fun v => (List.range 4).map v) = some [false, false, false, true] := by
  decide +kernel

end OdeVerif.C03
