/-
C11 — reported propagator singularities are genuine and none is missed (detector logic; the link
between SymPy's printed denominators and the true singular set of exp(A h) is checked on a
closed-form family by the harness, not proved).  Property theorems only.
-/
import OdeVerif.Model.Singularity

namespace OdeVerif.C11
open OdeVerif.Singularity

/-- **No negative power is overlooked, nothing else is collected**: `b` is collected from `e` iff
`Pow(b, negative)` occurs somewhere inside `e`. -/
theorem negBases_iff_sub (e b : Ex) : b ∈ negBases e ↔ Sub (.pow b true) e := by
  induction e with
  | atom n =>
    constructor
    · intro h; simp [negBases] at h
    · intro h; cases h
  | node x y ihx ihy =>
    simp only [negBases, List.mem_append, ihx, ihy]
    constructor
    · intro h
      cases h with
      | inl h => exact .left h
      | inr h => exact .right h
    · intro h
      cases h with
      | left h => exact Or.inl h
      | right h => exact Or.inr h
  | pow b' neg ih =>
    simp only [negBases, List.mem_append, ih]
    constructor
    · intro h
      cases h with
      | inl h =>
        cases neg with
        | false => simp at h
        | true =>
          simp at h
          subst h
          exact .refl _
      | inr h => exact .base h
    · intro h
      cases h with
      | refl => exact Or.inl (by simp)
      | base h => exact Or.inr h

private theorem aux_mem_dedup (cs : List Cond) (c : Cond) : c ∈ dedup cs ↔ c ∈ cs := by
  induction cs with
  | nil => simp [dedup]
  | cons x xs ih =>
    simp only [dedup, List.mem_cons, List.mem_filter, ih]
    by_cases h : c = x <;> simp [h]

private theorem aux_nodup_dedup (cs : List Cond) : (dedup cs).Nodup := by
  induction cs with
  | nil => simp [dedup]
  | cons x xs ih =>
    simp only [dedup, List.nodup_cons]
    refine ⟨?_, ih.filter _⟩
    intro h
    simp [List.mem_filter] at h

/-- **De-duplication loses nothing** and leaves no duplicates. -/
theorem dedup_no_loss (cs : List Cond) : (∀ c, c ∈ dedup cs ↔ c ∈ cs) ∧ (dedup cs).Nodup :=
  ⟨aux_mem_dedup cs, aux_nodup_dedup cs⟩

private theorem aux_mem_find (solve : Ex → List Cond) (definedA : Cond → Bool) (entries : List Ex)
    (c : Cond) :
    c ∈ findSingularities solve definedA entries ↔
      (∃ e ∈ entries, ∃ b, Sub (.pow b true) e ∧ c ∈ solve b) ∧ definedA c = true := by
  simp only [findSingularities, filterValid, List.mem_filter, aux_mem_dedup, generate,
    List.mem_flatMap, negBases_iff_sub]

/-- **Soundness**: every reported condition was returned by `solve` for the base of a negative power
occurring in some propagator entry — so, given that `solve` only returns substitutions that zero
its argument (`hsolve`), the condition makes that entry divide by zero — and leaves the system
matrix defined. -/
theorem detect_sound (solve : Ex → List Cond) (definedA : Cond → Bool) (entries : List Ex)
    (vanishes : Ex → Cond → Prop) (hsolve : ∀ b c, c ∈ solve b → vanishes b c) (c : Cond)
    (h : c ∈ findSingularities solve definedA entries) :
    definedA c = true ∧ ∃ e ∈ entries, ∃ b, Sub (.pow b true) e ∧ vanishes b c := by
  obtain ⟨⟨e, he, b, hb, hc⟩, hA⟩ := (aux_mem_find solve definedA entries c).1 h
  exact ⟨hA, e, he, b, hb, hsolve b c hc⟩

/-- **Completeness (relative to `solve`)**: if some denominator of a propagator entry vanishes under a
condition that `solve` finds for it, and the system matrix stays defined, the condition is reported. -/
theorem detect_complete (solve : Ex → List Cond) (definedA : Cond → Bool) (entries : List Ex)
    (e b : Ex) (he : e ∈ entries) (hb : Sub (.pow b true) e) (c : Cond) (hc : c ∈ solve b) (hA : definedA c = true) :
    c ∈ findSingularities solve definedA entries :=
  (aux_mem_find solve definedA entries c).2 ⟨⟨e, he, b, hb, hc⟩, hA⟩

/-- … hence, if `solve` covers every parameter equality zeroing a base *up to direction*
(`equiv c c'`: the same equality written the other way round), every such equality under which a
propagator denominator vanishes while `A` stays defined is reported in one of its directions. -/
theorem detect_complete_rel (solve : Ex → List Cond) (definedA : Cond → Bool) (entries : List Ex)
    (vanishes : Ex → Cond → Prop) (equiv : Cond → Cond → Prop)
    (hcover : ∀ b c, vanishes b c → ∃ c', c' ∈ solve b ∧ equiv c c')
    (hdef : ∀ c c', equiv c c' → definedA c = true → definedA c' = true)
    (e b : Ex) (he : e ∈ entries) (hb : Sub (.pow b true) e) (c : Cond) (hv : vanishes b c) (hA : definedA c = true) :
    ∃ c', equiv c c' ∧ c' ∈ findSingularities solve definedA entries := by
  obtain ⟨c', hc', heq⟩ := hcover b c hv
  exact ⟨c', heq, detect_complete solve definedA entries e b he hb c' hc' (hdef c c' heq hA)⟩

/-- reported conditions are distinct -/
theorem detect_nodup (solve : Ex → List Cond) (definedA : Cond → Bool) (entries : List Ex) :
    (findSingularities solve definedA entries).Nodup := by
  unfold findSingularities filterValid
  exact (aux_nodup_dedup _).filter _

/-! non-vacuity:  P entry  x / ((a - b) * c)  ~  node x (pow (node (node a b) c) neg);  solve gives cond 7 for it -/
example : findSingularities (fun b => if b = .node (.node (.atom 1) (.atom 2)) (.atom 3) then [7, 7, 8] else []) (fun c => c != 8)
    [.node (.atom 0) (.pow (.node (.node (.atom 1) (.atom 2)) (.atom 3)) true), .atom 5] = [7] := by decide

end OdeVerif.C11
