/-
Refinement: what `Shape.from_ode` does with the result of the split (keep the factors of the shape's own symbols,
re-attach the linear terms in foreign symbols to the nonlinear part), as regenerated from `odetoolbox/shapes.py` on
every run (`OdeVerif/Generated/PyFromOde.lean`), is the model function `Shapes.fromOde` that `C02.fromOde_lossless`
is about.
-/
import OdeVerif.Generated.PyFromOde
import OdeVerif.Model.Shapes
import Mathlib.Algebra.Ring.Defs
import Mathlib.Tactic.Ring

namespace OdeVerif.Refine
open OdeVerif

theorem fromOdeReattach_refines {K : Type} [CommRing K] (factors x : List K) (isLocal : Nat → Bool) (inhom nonlin : K)
    (hlen : factors.length = x.length) :
    Generated.fromOdeReattach factors x ((List.range factors.length).filter isLocal) inhom nonlin =
      Shapes.fromOde factors x isLocal inhom nonlin := by
  unfold Generated.fromOdeReattach Shapes.fromOde
  simp only
  have hf : ((List.range x.length).filter (fun i => decide (¬ i ∈ (List.range factors.length).filter isLocal)))
      = (List.range factors.length).filter (fun j => !isLocal j) := by
    rw [hlen]
    apply List.filter_congr
    intro i hi
    have hi' : i < x.length := List.mem_range.1 hi
    simp [List.mem_filter, List.mem_range, hi']
  rw [hf]
  generalize ((List.range factors.length).filter (fun j => !isLocal j)).map (fun i => factors.getD i 0 * x.getD i 0) = L
  cases L with
  | nil =>
    have h0 : Shapes.sumList ([] : List K) = 0 := rfl
    rw [h0, add_zero]
    rfl
  | cons a l =>
    have hne : (a :: l) ≠ [] := List.cons_ne_nil a l
    rw [if_pos hne]

end OdeVerif.Refine
