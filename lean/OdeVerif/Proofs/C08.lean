/-
C08 — returned solver dictionaries are complete, closed and faithful to the input.
Property theorems only.
-/
import OdeVerif.Model.SolverDict
import OdeVerif.Lemmas.MatrixFlow
import Mathlib.Data.List.Basic
import Mathlib.Data.List.Range
import Mathlib.Data.List.Infix

open Matrix NormedSpace
open scoped Matrix.Norms.Operator

namespace OdeVerif.C08
open OdeVerif.Propagator OdeVerif.SolverDict OdeVerif.MatrixFlow

variable {n : ℕ}

private theorem aux_mapM_ok {α β ε : Type} (f : α → Except ε β) :
    ∀ (l : List α) (rows : List β), l.mapM f = .ok rows →
      rows.length = l.length ∧ ∀ i (hi : i < l.length), ∃ u, rows[i]? = some u ∧ f l[i] = .ok u := by
  intro l
  induction l with
  | nil =>
    intro rows h
    simp [pure, Except.pure] at h
    subst h
    simp
  | cons a l ih =>
    intro rows h
    rw [List.mapM_cons] at h
    cases hfa : f a with
    | error e => simp [hfa, bind, Except.bind] at h
    | ok u =>
      cases hl : l.mapM f with
      | error e => simp [hfa, hl, bind, Except.bind] at h
      | ok us =>
        simp [hfa, hl, bind, Except.bind, pure, Except.pure] at h
        subst h
        obtain ⟨h1, h2⟩ := ih us hl
        refine ⟨by simp [h1], ?_⟩
        intro i hi
        cases i with
        | zero => exact ⟨u, by simp, by simpa using hfa⟩
        | succ i =>
          have hi' : i < l.length := by simpa using hi
          obtain ⟨v, hv1, hv2⟩ := h2 i hi'
          exact ⟨v, by simpa using hv1, by simpa using hv2⟩

section Asm
variable {K : Type} [DecidableEq K] [OfNat K 0]

private theorem aux_rowCols_ok (b : Fin n → K) (Pnz : Fin n → Fin n → Bool) (row : Fin n) :
    ∀ (l cols : List (Fin n)), rowCols b Pnz row l = .ok cols →
      cols = l.filter (fun c => Pnz row c) := by
  intro l
  induction l with
  | nil =>
    intro cols h
    simp [rowCols] at h
    subst h
    simp
  | cons a l ih =>
    intro cols h
    unfold rowCols at h
    by_cases hp : Pnz row a = true
    · rw [if_pos hp] at h
      by_cases hg : row ≠ a ∧ b a ≠ 0
      · rw [if_pos hg] at h
        cases h
      · rw [if_neg hg] at h
        cases hr : rowCols b Pnz row l with
        | error e => simp [hr, Except.map] at h
        | ok cs =>
          simp [hr, Except.map] at h
          subst h
          have h1 := ih cs hr
          simp [hp, h1]
    · rw [if_neg hp] at h
      have h1 := ih cols h
      simp [hp, h1]

/-- what a successful row assembly says -/
private theorem aux_assembleRow_ok (A : Fin n → Fin n → K) (b : Fin n → K) (cnz : Fin n → Bool)
    (order : Fin n → Nat) (Pnz : Fin n → Fin n → Bool) (r : Fin n) (u : UpdRow n K)
    (hu : assembleRow A b cnz order Pnz r = .ok u) :
      u.cols = (List.finRange n).filter (fun c => Pnz r c) ∧
      u.inhom = (if b r = 0 then Inhom.none else if A r r = 0 then Inhom.const (b r)
          else Inhom.affine (b r) (A r r)) := by
  unfold assembleRow at hu
  by_cases hc : cnz r = true
  · rw [if_pos hc] at hu; cases hu
  rw [if_neg hc] at hu
  by_cases h2 : b r ≠ 0 ∧ order r > 1
  · rw [if_pos h2] at hu; cases hu
  rw [if_neg h2] at hu
  cases hr : rowCols b Pnz r (List.finRange n) with
  | error e => rw [hr] at hu; cases hu
  | ok cols =>
    rw [hr] at hu
    simp only [Except.ok.injEq] at hu
    have h1 := aux_rowCols_ok b Pnz r _ _ hr
    refine ⟨?_, ?_⟩
    · rw [← hu]; exact h1
    · rw [← hu]

private theorem aux_assemble_spec (A : Fin n → Fin n → K) (b : Fin n → K) (cnz : Fin n → Bool)
    (order : Fin n → Nat) (Pnz : Fin n → Fin n → Bool) (rows : List (UpdRow n K))
    (hasm : assemble A b cnz order Pnz = .ok rows) :
    rows.length = n ∧ ∀ r : Fin n,
      ∃ u, rows[r.val]? = some u ∧ u.cols = (List.finRange n).filter (fun c => Pnz r c) ∧
        u.inhom = (if b r = 0 then Inhom.none else if A r r = 0 then Inhom.const (b r)
          else Inhom.affine (b r) (A r r)) := by
  unfold assemble at hasm
  obtain ⟨hlen, hrows⟩ := aux_mapM_ok _ _ _ hasm
  refine ⟨by simpa using hlen, ?_⟩
  intro r
  obtain ⟨u, hu1, hu2⟩ := hrows r.val (by simp)
  simp only [List.getElem_finRange, Fin.cast_mk, Fin.eta] at hu2
  obtain ⟨a4, a5⟩ := aux_assembleRow_ok A b cnz order Pnz r u hu2
  exact ⟨u, hu1, a4, a5⟩

end Asm

/-- **One update expression per state variable.** -/
theorem one_row_per_variable {K : Type} [DecidableEq K] [OfNat K 0]
    (A : Fin n → Fin n → K) (b : Fin n → K) (cnz : Fin n → Bool) (order : Fin n → Nat) (Pnz : Fin n → Fin n → Bool)
    (rows : List (UpdRow n K)) (h : assemble A b cnz order Pnz = .ok rows) : rows.length = n :=
  (aux_assemble_spec A b cnz order Pnz rows h).1

/-- **Closure**: every symbol of an assembled update expression is a state variable of this solver,
the time-step symbol, a constant of the input, or a propagator symbol `__P__r__c` of the same row. -/
theorem rowSymbols_closed {K : Type} [DecidableEq K] [OfNat K 0]
    (A : Fin n → Fin n → K) (b : Fin n → K) (cnz : Fin n → Bool) (order : Fin n → Nat) (Pnz : Fin n → Fin n → Bool)
    (freeA : Fin n → Fin n → List Nat) (freeB : Fin n → List Nat)
    (rows : List (UpdRow n K)) (h : assemble A b cnz order Pnz = .ok rows) (r : Fin n) (u : UpdRow n K)
    (hu : rows[r.val]? = some u) :
    ∀ s ∈ rowSymbols freeA freeB u r,
      (∃ i, i < n ∧ s = .state i) ∨ s = .step ∨ (∃ k, s = .const k) ∨ (∃ c, c < n ∧ s = .prop r.val c) := by
  intro s hs
  unfold rowSymbols at hs
  rw [List.mem_append] at hs
  rcases hs with hs | hs
  · rw [List.mem_flatMap] at hs
    obtain ⟨c, _, hs⟩ := hs
    simp only [List.mem_cons, List.not_mem_nil, or_false] at hs
    rcases hs with rfl | rfl
    · right; right; right; exact ⟨c.val, c.isLt, rfl⟩
    · left; exact ⟨c.val, c.isLt, rfl⟩
  · cases hi : u.inhom with
    | none => rw [hi] at hs; simp at hs
    | const b0 =>
      rw [hi] at hs
      simp only [List.mem_cons, List.mem_map] at hs
      rcases hs with rfl | ⟨k, _, rfl⟩
      · right; left; rfl
      · right; right; left; exact ⟨k, rfl⟩
    | affine b0 a0 =>
      rw [hi] at hs
      simp only [List.mem_append, List.mem_cons, List.not_mem_nil, or_false, List.mem_map] at hs
      rcases hs with (rfl | rfl) | ⟨k, _, rfl⟩
      · right; right; right; exact ⟨r.val, r.isLt, rfl⟩
      · left; exact ⟨r.val, r.isLt, rfl⟩
      · right; right; left; exact ⟨k, rfl⟩

private theorem aux_definedProp (Pnz : Fin n → Fin n → Bool) (r c : Fin n) :
    definedProp Pnz r.val c.val = Pnz r c := by
  unfold definedProp
  rw [dif_pos ⟨r.isLt, c.isLt⟩]

/-- **Every propagator symbol used is defined**, provided the diagonal propagator entries are reported
non-zero (which `diag_propagator_defined` shows for any sound zero pattern). -/
theorem used_propagators_defined {K : Type} [DecidableEq K] [OfNat K 0]
    (A : Fin n → Fin n → K) (b : Fin n → K) (cnz : Fin n → Bool) (order : Fin n → Nat) (Pnz : Fin n → Fin n → Bool)
    (freeA : Fin n → Fin n → List Nat) (freeB : Fin n → List Nat)
    (hdiag : ∀ r, Pnz r r = true)
    (rows : List (UpdRow n K)) (h : assemble A b cnz order Pnz = .ok rows) (r : Fin n) (u : UpdRow n K)
    (hu : rows[r.val]? = some u) :
    ∀ a c, Sym.prop a c ∈ rowSymbols freeA freeB u r → definedProp Pnz a c = true := by
  obtain ⟨-, hspec⟩ := aux_assemble_spec A b cnz order Pnz rows h
  obtain ⟨u0, hu0, hcols, -⟩ := hspec r
  rw [hu] at hu0
  cases hu0
  intro a c hs
  unfold rowSymbols at hs
  rw [List.mem_append] at hs
  rcases hs with hs | hs
  · rw [List.mem_flatMap] at hs
    obtain ⟨c', hc', hs⟩ := hs
    simp only [List.mem_cons, List.not_mem_nil, or_false, Sym.prop.injEq, reduceCtorEq] at hs
    obtain ⟨rfl, rfl⟩ := hs
    rw [hcols, List.mem_filter] at hc'
    rw [aux_definedProp]
    exact hc'.2
  · cases hi : u.inhom with
    | none => rw [hi] at hs; simp at hs
    | const b0 =>
      rw [hi] at hs
      simp at hs
    | affine b0 a0 =>
      rw [hi] at hs
      simp only [List.mem_append, List.mem_cons, List.not_mem_nil, or_false, List.mem_map,
        Sym.prop.injEq, reduceCtorEq, and_false, exists_false] at hs
      obtain ⟨rfl, rfl⟩ := hs
      rw [aux_definedProp]
      exact hdiag r

/-- a zero pattern that is sound for `exp (h • A)` cannot report a diagonal entry as zero
(`P(0) = 1`): the `__P__x__x` used by the `x' = a x + b` solution is always defined -/
theorem diag_propagator_defined (A : Matrix (Fin n) (Fin n) ℝ) (Pnz : Fin n → Fin n → Bool)
    (hPnz : ∀ r c, Pnz r c = false → ∀ h, P A h r c = 0) (r : Fin n) : Pnz r r = true := by
  by_contra hne
  have hf : Pnz r r = false := by simpa using hne
  have h0 := hPnz r r hf 0
  rw [P_zero, Matrix.one_apply_eq] at h0
  exact one_ne_zero h0

private theorem aux_stateName_le (marker b₁ b₂ : Str) (k₁ d : Nat)
    (h₁ : ¬ marker <:+: b₁)
    (h : stateName marker b₁ k₁ = stateName marker b₂ (d + k₁)) : b₁ = b₂ ∧ d = 0 := by
  unfold stateName at h
  rw [List.replicate_add, List.flatten_append, ← List.append_assoc] at h
  have h' := List.append_cancel_right h
  cases d with
  | zero => simpa using h'
  | succ d =>
    exfalso
    apply h₁
    rw [h', List.replicate_succ, List.flatten_cons]
    exact ⟨b₂, (List.replicate d marker).flatten, by simp⟩

/-- **State-variable names are unambiguous** when no variable name contains the derivative marker
(which validation enforces, C09 `marker_in_name_rejected`) -/
theorem stateName_injective (marker b₁ b₂ : Str) (k₁ k₂ : Nat) (hm : marker ≠ [])
    (h₁ : ¬ marker <:+: b₁) (h₂ : ¬ marker <:+: b₂)
    (h : stateName marker b₁ k₁ = stateName marker b₂ k₂) : b₁ = b₂ ∧ k₁ = k₂ := by
  rcases Nat.le_total k₁ k₂ with hle | hle
  · obtain ⟨d, rfl⟩ := Nat.exists_eq_add_of_le' hle
    obtain ⟨hb, hd⟩ := aux_stateName_le marker b₁ b₂ k₁ d h₁ h
    exact ⟨hb, by omega⟩
  · obtain ⟨d, rfl⟩ := Nat.exists_eq_add_of_le' hle
    obtain ⟨hb, hd⟩ := aux_stateName_le marker b₂ b₁ k₂ d h₂ h.symm
    exact ⟨hb.symm, by omega⟩

private theorem aux_ivKey_inj (base : Str) (j k : Nat) : ivKey base j = ivKey base k ↔ j = k := by
  constructor
  · intro h
    unfold ivKey at h
    have := congrArg List.length (List.append_cancel_left h)
    simpa using this
  · rintro rfl; rfl

private theorem aux_filter_range (o k : Nat) (hk : k < o) :
    (List.range o).filter (fun j => decide (j = k)) = [k] := by
  induction o with
  | zero => omega
  | succ o ih =>
    rw [List.range_succ, List.filter_append]
    by_cases hko : k < o
    · rw [ih hko]
      have : o ≠ k := by omega
      simp [this]
    · have hko' : k = o := by omega
      subst hko'
      have : (List.range k).filter (fun j => decide (j = k)) = [] := by
        rw [List.filter_eq_nil_iff]
        intro a ha
        rw [List.mem_range] at ha
        simp; omega
      rw [this]
      simp

/-- **The initial value the user supplied is the one looked up**: the list of initial values of a
well-formed entry of order `o` contains the key `name'…'` for every derivative order `k < o`, once -/
theorem initialValue_found (base : Str) (o : Nat) (vals : List Str) (hv : vals.length = o) (k : Nat) (hk : k < o) :
    (((List.range o).map (fun j => (ivKey base j, vals.getD j []))).filter (fun p => p.1 = ivKey base k)).map (·.2)
      = [vals.getD k []] := by
  rw [List.filter_map, List.map_map]
  have : ((fun p : Str × Str => decide (p.1 = ivKey base k)) ∘ fun j => (ivKey base j, vals.getD j []))
      = fun j => decide (j = k) := by
    funext j
    simp [aux_ivKey_inj]
  rw [this, aux_filter_range o k hk]
  rfl

/-- **Parameters**: a supplied parameter is listed for a solver iff one of its expressions or initial
values refers to it -/
theorem listed_iff_referenced (exprSyms ivSyms : List String) (p : String) :
    paramListed exprSyms ivSyms p = true ↔ (p ∈ exprSyms ∨ p ∈ ivSyms) := by
  simp [paramListed]

/-- the filter before the repair missed parameters referenced only by an initial value (F5) -/
theorem prefix_filter_misses_initial_values :
    ∃ exprSyms ivSyms p, p ∈ ivSyms ∧ paramListedPrefix exprSyms ivSyms p = false ∧ paramListed exprSyms ivSyms p = true :=
  ⟨[], ["x0"], "x0", by simp, by simp [paramListedPrefix], by simp [paramListed]⟩

end OdeVerif.C08
