/-
C15 — Stimulus spike trains honour their specification.  Property theorems only.
All statements are over an arbitrary linearly ordered field (the gap to IEEE doubles — rounding —
is the named runtime behaviour the theorems do not cover; the `Float` instance of the same
definitions is compared bit-for-bit with the code by the correspondence check).
-/
import OdeVerif.Model.Spikes
import Mathlib.Algebra.Order.Field.Basic
import Mathlib.Data.List.Chain
import Mathlib.Tactic.Linarith
import Mathlib.Tactic.Ring
import Mathlib.Tactic.Positivity

namespace OdeVerif.C15
open OdeVerif.Spikes

variable {α : Type} [Field α] [LinearOrder α] [IsStrictOrderedRing α]

private theorem aux_regularLoop_sorted (T isi : α) (hisi : 0 < isi) :
    ∀ fuel t acc out, regularLoop T isi fuel t acc = some out →
      (∀ x ∈ acc, x ≤ t ∧ x ≤ T) → acc.Pairwise (· < ·) →
      out.Pairwise (· < ·) ∧ ∀ x ∈ out, x ≤ T := by
  intro fuel
  induction fuel with
  | zero => intro t acc out h; simp [regularLoop] at h
  | succ n ih =>
    intro t acc out h hacc hs
    unfold regularLoop at h
    split at h
    · rename_i hlt
      refine ih _ _ _ h ?_ ?_
      · intro x hx
        split at hx
        · rename_i hle
          rcases List.mem_append.1 hx with hx | hx
          · exact ⟨le_trans (hacc x hx).1 (le_of_lt (lt_add_of_pos_right t hisi)), (hacc x hx).2⟩
          · simp at hx; subst hx; exact ⟨le_refl _, hle⟩
        · exact ⟨le_trans (hacc x hx).1 (le_of_lt (lt_add_of_pos_right t hisi)), (hacc x hx).2⟩
      · split
        · rw [List.pairwise_append]
          refine ⟨hs, by simp, ?_⟩
          intro a ha b hb
          simp at hb; subst hb
          exact lt_of_le_of_lt (hacc a ha).1 (lt_add_of_pos_right t hisi)
        · exact hs
    · simp at h; subst h
      exact ⟨hs, fun x hx => (hacc x hx).2⟩

private theorem aux_regularLoop_mem (T isi : α) (hisi : 0 < isi) :
    ∀ fuel (j : ℕ) acc out, regularLoop T isi fuel ((j : α) * isi) acc = some out →
      (∀ x, x ∈ acc ↔ ∃ k : ℕ, 1 ≤ k ∧ k ≤ j ∧ x = k * isi ∧ x ≤ T) →
      ∀ x, x ∈ out ↔ ∃ k : ℕ, 1 ≤ k ∧ x = k * isi ∧ x ≤ T := by
  intro fuel
  induction fuel with
  | zero => intro j acc out h; simp [regularLoop] at h
  | succ n ih =>
    intro j acc out h hacc
    unfold regularLoop at h
    split at h
    · rename_i hlt
      have ht' : (j : α) * isi + isi = ((j + 1 : ℕ) : α) * isi := by push_cast; ring
      simp only [ht'] at h
      refine ih (j + 1) _ _ h ?_
      intro x
      split
      · rename_i hle
        rw [List.mem_append, hacc x]
        constructor
        · rintro (⟨k, hk1, hkj, hx, hxT⟩ | hx)
          · exact ⟨k, hk1, Nat.le_succ_of_le hkj, hx, hxT⟩
          · simp at hx
            refine ⟨j + 1, Nat.le_add_left 1 j, le_refl _, ?_, ?_⟩
            · rw [hx]; push_cast; ring
            · rw [hx]; push_cast at hle ⊢; exact hle
        · rintro ⟨k, hk1, hkj, hx, hxT⟩
          rcases Nat.lt_or_ge k (j + 1) with hlt' | hge
          · exact Or.inl ⟨k, hk1, Nat.lt_succ_iff.1 hlt', hx, hxT⟩
          · have : k = j + 1 := le_antisymm hkj hge
            subst this
            right; simp [hx]
      · rename_i hnle
        rw [hacc x]
        constructor
        · rintro ⟨k, hk1, hkj, hx, hxT⟩
          exact ⟨k, hk1, Nat.le_succ_of_le hkj, hx, hxT⟩
        · rintro ⟨k, hk1, hkj, hx, hxT⟩
          rcases Nat.lt_or_ge k (j + 1) with hlt' | hge
          · exact ⟨k, hk1, Nat.lt_succ_iff.1 hlt', hx, hxT⟩
          · have : k = j + 1 := le_antisymm hkj hge
            subst this
            exact absurd (hx ▸ hxT) hnle
    · rename_i hnlt
      simp at h; subst h
      intro x
      rw [hacc x]
      constructor
      · rintro ⟨k, hk1, _, hx, hxT⟩
        exact ⟨k, hk1, hx, hxT⟩
      · rintro ⟨k, hk1, hx, hxT⟩
        refine ⟨k, hk1, ?_, hx, hxT⟩
        by_contra hkj
        have hjk : (j : α) < (k : α) := by exact_mod_cast Nat.lt_of_not_le hkj
        have : (j : α) * isi < (k : α) * isi := mul_lt_mul_of_pos_right hjk hisi
        have hTj : T ≤ (j : α) * isi := not_lt.1 hnlt
        rw [hx] at hxT
        exact absurd (lt_of_lt_of_le this (le_trans hxT hTj)) (lt_irrefl _)

/-- **Regular train, exact content.**  If the loop terminates within the fuel, the train consists
exactly of the multiples `k * isi`, `k ≥ 1`, that do not exceed `T` — no interior one missing, none
outside `(0, T]` — in strictly increasing order. -/
theorem regular_exact (T isi : α) (hisi : 0 < isi) (fuel : Nat) (out : List α)
    (h : regularLoop T isi fuel 0 [] = some out) :
    out.Pairwise (· < ·) ∧ ∀ x, x ∈ out ↔ ∃ k : ℕ, 1 ≤ k ∧ x = k * isi ∧ x ≤ T := by
  refine ⟨(aux_regularLoop_sorted T isi hisi fuel 0 [] out h (by simp) (by simp)).1, ?_⟩
  have h0 : (0 : α) = ((0 : ℕ) : α) * isi := by simp
  rw [h0] at h
  refine aux_regularLoop_mem T isi hisi fuel 0 [] out h ?_
  intro x
  constructor
  · intro hx; simp at hx
  · rintro ⟨k, hk1, hk0, _⟩; omega

/-- the same for the entry point: `isi = 1 / rate`, `rate > 0` -/
theorem regular_spec (T rate : α) (hr : 0 < rate) (fuel : Nat) (out : List α)
    (h : regular T rate fuel = some out) :
    out.Pairwise (· < ·) ∧ (∀ x ∈ out, 0 < x ∧ x ≤ T) ∧
      ∀ k : ℕ, 1 ≤ k → (k : α) / rate ≤ T → (k : α) / rate ∈ out := by
  have hisi : (0 : α) < 1 / rate := one_div_pos.2 hr
  obtain ⟨hs, hm⟩ := regular_exact T (1 / rate) hisi fuel out h
  refine ⟨hs, ?_, ?_⟩
  · intro x hx
    obtain ⟨k, hk1, hxk, hxT⟩ := (hm x).1 hx
    refine ⟨?_, hxT⟩
    rw [hxk]
    have : (0 : α) < (k : α) := by exact_mod_cast hk1
    exact mul_pos this hisi
  · intro k hk1 hkT
    have e : (k : α) / rate = (k : α) * (1 / rate) := by rw [mul_one_div]
    exact (hm _).2 ⟨k, hk1, e, hkT⟩

omit [IsStrictOrderedRing α] in
private theorem aux_regular_fuel (T isi : α) :
    ∀ (m j : ℕ) (acc : List α), T < ((j + m : ℕ) : α) * isi →
      ∃ out, regularLoop T isi (m + 1) ((j : α) * isi) acc = some out := by
  intro m
  induction m with
  | zero =>
    intro j acc hT
    unfold regularLoop
    rw [if_neg (not_lt.2 (le_of_lt (by simpa using hT)))]
    exact ⟨acc, rfl⟩
  | succ m ih =>
    intro j acc hT
    unfold regularLoop
    split
    · have ht' : (j : α) * isi + isi = ((j + 1 : ℕ) : α) * isi := by push_cast; ring
      simp only [ht']
      apply ih
      have : j + 1 + m = j + (m + 1) := by omega
      rw [this]; exact hT
    · exact ⟨acc, rfl⟩

/-- **Termination.**  Any `n` with `T < n * isi` bounds the number of iterations: `n + 1` units of
fuel suffice (for `rate ≤ 0` the Python loop does not terminate; that input is outside the
property's quantifier "rates" and is rejected by the generators). -/
theorem regular_fuel (T isi : α) (hisi : 0 < isi) (n : ℕ) (hn : T < n * isi) :
    ∃ out, regularLoop T isi (n + 1) 0 [] = some out := by
  have := aux_regular_fuel T isi n 0 [] (by simpa using hn)
  simpa using this

omit [Field α] [IsStrictOrderedRing α] in
private theorem aux_pyMax_ge (a b : α) : b ≤ pyMax a b := by
  unfold pyMax
  split
  · exact le_refl _
  · rename_i h; exact not_lt.1 h

private theorem aux_poissonLoop (T minIsi : α) (hm : 0 < minIsi) :
    ∀ (isis : List α) (t : α) (acc out : List α), poissonLoop T minIsi isis t acc = some out →
      (∀ x ∈ (0 : α) :: acc, x ≤ t) → (∀ x ∈ acc, x ≤ T) →
      List.IsChain (fun a b => a + minIsi ≤ b) (0 :: acc) →
      (∀ x ∈ out, x ≤ T) ∧ List.IsChain (fun a b => a + minIsi ≤ b) (0 :: out) := by
  intro isis
  induction isis with
  | nil =>
    intro t acc out h ht hT hc
    unfold poissonLoop at h
    split at h
    · simp at h
    · simp at h; subst h; exact ⟨hT, hc⟩
  | cons isi rest ih =>
    intro t acc out h ht hT hc
    unfold poissonLoop at h
    split at h
    · have hstep : t + minIsi ≤ t + pyMax isi minIsi :=
        add_le_add_right (aux_pyMax_ge isi minIsi) t
      have hlt : t ≤ t + pyMax isi minIsi := le_trans (le_of_lt (lt_add_of_pos_right t hm)) hstep
      refine ih _ _ _ h ?_ ?_ ?_
      · intro x hx
        split at hx
        · rw [← List.cons_append, List.mem_append] at hx
          rcases hx with hx | hx
          · exact le_trans (ht x hx) hlt
          · simp at hx; rw [hx]
        · exact le_trans (ht x hx) hlt
      · intro x hx
        split at hx
        · rename_i hle
          rcases List.mem_append.1 hx with hx | hx
          · exact hT x hx
          · simp at hx; rw [hx]; exact hle
        · exact hT x hx
      · split
        · rw [← List.cons_append]
          refine List.IsChain.append hc (List.isChain_singleton _) ?_
          intro x hx y hy
          simp at hy; subst hy
          have hxm : x ∈ (0 : α) :: acc := List.mem_of_getLast? hx
          exact le_trans (add_le_add_left (ht x hxm) minIsi) hstep
        · exact hc
    · simp at h; subst h; exact ⟨hT, hc⟩

/-- **Poisson train.**  For every stream of inter-spike intervals (i.e. every seed), if the loop
ends, the train is strictly increasing, lies in `(0, T]`, and consecutive spikes (and the first
spike and 0) are at least `minIsi` apart. -/
theorem poisson_spec (T minIsi : α) (hm : 0 < minIsi) (isis : List α) (out : List α)
    (h : poisson T minIsi isis = some out) :
    out.Pairwise (· < ·) ∧ (∀ x ∈ out, 0 < x ∧ x ≤ T) ∧
      List.IsChain (fun a b => a + minIsi ≤ b) (0 :: out) := by
  obtain ⟨hT, hc⟩ := aux_poissonLoop T minIsi hm isis 0 [] out h (by simp) (by simp)
    (List.isChain_singleton _)
  have hc' : List.IsChain (· < ·) ((0 : α) :: out) :=
    hc.imp (fun a b hab => lt_of_lt_of_le (lt_add_of_pos_right a hm) hab)
  have hp : List.Pairwise (· < ·) ((0 : α) :: out) := hc'.pairwise
  rw [List.pairwise_cons] at hp
  exact ⟨hp.2, fun x hx => ⟨hp.1 x hx, hT x hx⟩, hc⟩


omit [Field α] [IsStrictOrderedRing α] in
private theorem aux_insertAsc_perm (x : α) : ∀ l : List α, (insertAsc x l).Perm (x :: l) := by
  intro l
  induction l with
  | nil => exact List.Perm.refl _
  | cons y ys ih =>
    unfold insertAsc
    split
    · exact List.Perm.refl _
    · exact ((List.Perm.cons y ih).trans (List.Perm.swap x y ys))

omit [Field α] [IsStrictOrderedRing α] in
private theorem aux_insertAsc_sorted (x : α) :
    ∀ l : List α, l.Pairwise (· ≤ ·) → (insertAsc x l).Pairwise (· ≤ ·) := by
  intro l
  induction l with
  | nil => intro _; simp [insertAsc]
  | cons y ys ih =>
    intro hs
    unfold insertAsc
    split
    · rename_i hxy
      rw [List.pairwise_cons]
      refine ⟨?_, hs⟩
      intro z hz
      rcases List.mem_cons.1 hz with hz | hz
      · rw [hz]; exact hxy
      · exact le_trans hxy ((List.pairwise_cons.1 hs).1 z hz)
    · rename_i hxy
      rw [List.pairwise_cons] at hs ⊢
      refine ⟨?_, ih hs.2⟩
      intro z hz
      have hz' : z ∈ x :: ys := (aux_insertAsc_perm x ys).mem_iff.1 hz
      rcases List.mem_cons.1 hz' with hz' | hz'
      · rw [hz']; exact le_of_lt (not_le.1 hxy)
      · exact hs.1 z hz'

omit [Field α] [IsStrictOrderedRing α] in
private theorem aux_sortAsc_perm : ∀ l : List α, (sortAsc l).Perm l := by
  intro l
  induction l with
  | nil => exact List.Perm.refl _
  | cons x xs ih =>
    unfold sortAsc
    exact (aux_insertAsc_perm x _).trans (List.Perm.cons x ih)

omit [Field α] [IsStrictOrderedRing α] in
private theorem aux_sortAsc_sorted : ∀ l : List α, (sortAsc l).Pairwise (· ≤ ·) := by
  intro l
  induction l with
  | nil => simp [sortAsc]
  | cons x xs ih =>
    unfold sortAsc
    exact aux_insertAsc_sorted x _ ih

/-- **List stimulus.**  Exactly the listed times that do not exceed `T` (with multiplicity), in
ascending order, for a list of any length — including the empty and the one-element list. -/
theorem list_spec (T : α) (xs : List α) :
    (listStim T xs).Perm (xs.filter (fun t => t ≤ T)) ∧ (listStim T xs).Pairwise (· ≤ ·) :=
  ⟨aux_sortAsc_perm _, aux_sortAsc_sorted _⟩

theorem list_spec_nil (T : α) : listStim T [] = [] := by
  simp [listStim, sortAsc]

theorem list_spec_single (T x : α) : listStim T [x] = if x ≤ T then [x] else [] := by
  unfold listStim
  by_cases h : x ≤ T
  · simp [h, sortAsc, insertAsc]
  · simp [h, sortAsc]

/-! ### fromJson -/

private theorem aux_rewritePrimes_noprime (marker : List Char) (hm : '\'' ∉ marker)
    (s : List Char) : '\'' ∉ rewritePrimes marker s := by
  unfold rewritePrimes
  intro h
  rw [List.mem_flatMap] at h
  obtain ⟨c, _, hc⟩ := h
  split at hc
  · exact hm hc
  · rename_i hne
    simp at hc
    exact hne hc.symm

omit [Field α] [LinearOrder α] [IsStrictOrderedRing α] in
private theorem aux_keys_extendKey (m : Trains α) (k : List Char) (tr : List α) :
    (extendKey m k tr).map (·.1) =
      if k ∈ m.map (·.1) then m.map (·.1) else m.map (·.1) ++ [k] := by
  induction m with
  | nil => simp [extendKey]
  | cons kv rest ih =>
    obtain ⟨k', v⟩ := kv
    unfold extendKey
    by_cases hk : k' = k
    · simp [hk]
    · have hk' : ¬ k = k' := fun e => hk e.symm
      simp only [hk, if_false, List.map_cons, List.mem_cons, hk', false_or, ih]
      split <;> simp

omit [Field α] [LinearOrder α] [IsStrictOrderedRing α] in
private theorem aux_lookup_extendKey (m : Trains α) (k k' : List Char) (tr : List α) :
    lookup (extendKey m k tr) k' =
      if k = k' then some ((lookup m k').getD [] ++ tr) else lookup m k' := by
  induction m with
  | nil =>
    by_cases h : k = k' <;> simp [extendKey, lookup, h]
  | cons kv rest ih =>
    obtain ⟨k₀, v⟩ := kv
    unfold extendKey
    by_cases h0 : k₀ = k
    · subst h0
      by_cases h : k₀ = k' <;> simp [lookup, h]
    · by_cases h : k = k'
      · subst h
        simp [lookup, h0, ih]
      · by_cases h1 : k₀ = k'
        · subst h1
          simp [lookup, h0, h]
        · simp [lookup, h0, h, h1, ih]

private theorem aux_mem_distinct (x : List Char) : ∀ l : List (List Char), x ∈ distinct l ↔ x ∈ l := by
  intro l
  induction l with
  | nil => simp [distinct]
  | cons y ys ih =>
    unfold distinct
    by_cases h : x = y
    · simp [h]
    · simp [h, ih]

omit [Field α] [LinearOrder α] [IsStrictOrderedRing α] in
private theorem aux_nodup_extendKey (m : Trains α) (k : List Char) (tr : List α)
    (h : (m.map (·.1)).Nodup) : ((extendKey m k tr).map (·.1)).Nodup := by
  rw [aux_keys_extendKey]
  split
  · exact h
  · rename_i hk
    rw [List.nodup_append]
    refine ⟨h, List.nodup_singleton _, ?_⟩
    intro a ha b hb
    simp at hb; subst hb
    intro e; subst e; exact hk ha

omit [Field α] [LinearOrder α] [IsStrictOrderedRing α] in
private theorem aux_mem_keys_extendKey (m : Trains α) (k k' : List Char) (tr : List α)
    (h : k' ∈ (extendKey m k tr).map (·.1)) : k' ∈ m.map (·.1) ∨ k' = k := by
  rw [aux_keys_extendKey] at h
  split at h
  · exact Or.inl h
  · rcases List.mem_append.1 h with h | h
    · exact Or.inl h
    · simp at h; exact Or.inr h

omit [Field α] [LinearOrder α] [IsStrictOrderedRing α] in
/-- a property of keys that every rewritten name has is preserved by `addStimulus` -/
private theorem aux_addStimulus_keys (marker : List Char) (P : List Char → Prop)
    (hP : ∀ v, P (rewritePrimes marker v)) (gen : List Char → List α) :
    ∀ (vs : List (List Char)) (m : Trains α), (∀ k ∈ m.map (·.1), P k) →
      ∀ k ∈ (vs.foldl (fun m v => extendKey m (rewritePrimes marker v) (gen v)) m).map (·.1), P k := by
  intro vs
  induction vs with
  | nil => intro m hm; simpa using hm
  | cons v vs ih =>
    intro m hm
    rw [List.foldl_cons]
    apply ih
    intro k hk
    rcases aux_mem_keys_extendKey _ _ _ _ hk with hk | hk
    · exact hm k hk
    · rw [hk]; exact hP v

omit [Field α] [LinearOrder α] [IsStrictOrderedRing α] in
private theorem aux_addStimulus_nodup (marker : List Char) (gen : List Char → List α) :
    ∀ (vs : List (List Char)) (m : Trains α), (m.map (·.1)).Nodup →
      ((vs.foldl (fun m v => extendKey m (rewritePrimes marker v) (gen v)) m).map (·.1)).Nodup := by
  intro vs
  induction vs with
  | nil => intro m hm; simpa using hm
  | cons v vs ih =>
    intro m hm
    rw [List.foldl_cons]
    exact ih _ (aux_nodup_extendKey _ _ _ hm)

omit [Field α] [LinearOrder α] [IsStrictOrderedRing α] in
private theorem aux_fromJson_keys (marker : List Char) (P : List Char → Prop)
    (hP : ∀ v, P (rewritePrimes marker v)) :
    ∀ (stims : List (List (List Char) × (List Char → List α))) (m : Trains α),
      (∀ k ∈ m.map (·.1), P k) →
      ∀ k ∈ (stims.foldl (fun m s => addStimulus marker m s.1 s.2) m).map (·.1), P k := by
  intro stims
  induction stims with
  | nil => intro m hm; simpa using hm
  | cons s stims ih =>
    intro m hm
    rw [List.foldl_cons]
    apply ih
    exact aux_addStimulus_keys marker P hP s.2 _ m hm

omit [Field α] [LinearOrder α] [IsStrictOrderedRing α] in
private theorem aux_fromJson_nodup (marker : List Char) :
    ∀ (stims : List (List (List Char) × (List Char → List α))) (m : Trains α),
      (m.map (·.1)).Nodup →
      ((stims.foldl (fun m s => addStimulus marker m s.1 s.2) m).map (·.1)).Nodup := by
  intro stims
  induction stims with
  | nil => intro m hm; simpa using hm
  | cons s stims ih =>
    intro m hm
    rw [List.foldl_cons]
    exact ih _ (aux_addStimulus_nodup marker s.2 _ m hm)

/-- **Targets rewritten.**  No key of the result contains a prime, provided the marker has none. -/
theorem targets_rewritten (marker : List Char) (hm : '\'' ∉ marker)
    (stims : List (List (List Char) × (List Char → List α))) :
    ∀ kv ∈ fromJson marker stims, '\'' ∉ kv.1 := by
  intro kv hkv
  refine aux_fromJson_keys marker (fun k => '\'' ∉ k) (aux_rewritePrimes_noprime marker hm)
    stims [] (by simp) kv.1 ?_
  exact List.mem_map_of_mem hkv

/-- what one stimulus contributes to key `k`: the trains of its distinct targets that rewrite to `k` -/
def contribution (marker : List Char) (k : List Char) (s : List (List Char) × (List Char → List α)) : List α :=
  ((distinct s.1).filter (fun v => rewritePrimes marker v = k)).flatMap s.2

omit [Field α] [LinearOrder α] [IsStrictOrderedRing α] in
private theorem aux_filter_flatMap_nil {β : Type} (p : β → Bool) (g : β → List α) (l : List β)
    (h : ¬ ∃ v ∈ l, p v = true) : (l.filter p).flatMap g = [] := by
  have : l.filter p = [] := by
    rw [List.filter_eq_nil_iff]
    intro a ha hp
    exact h ⟨a, ha, hp⟩
  rw [this]; rfl

omit [Field α] [LinearOrder α] [IsStrictOrderedRing α] in
private theorem aux_lookup_addStimulus (marker : List Char) (gen : List Char → List α)
    (k : List Char) :
    ∀ (vs : List (List Char)) (m : Trains α),
      lookup (vs.foldl (fun m v => extendKey m (rewritePrimes marker v) (gen v)) m) k =
        if ∃ v ∈ vs, rewritePrimes marker v = k
        then some ((lookup m k).getD [] ++
          (vs.filter (fun v => rewritePrimes marker v = k)).flatMap gen)
        else lookup m k := by
  intro vs
  induction vs with
  | nil => intro m; simp
  | cons v vs ih =>
    intro m
    rw [List.foldl_cons, ih, aux_lookup_extendKey]
    by_cases hv : rewritePrimes marker v = k
    · by_cases hE : ∃ v ∈ vs, rewritePrimes marker v = k
      · have hE' : ∃ w ∈ v :: vs, rewritePrimes marker w = k := ⟨v, List.mem_cons_self, hv⟩
        rw [if_pos hE, if_pos hE', if_pos hv]
        simp [hv, List.append_assoc]
      · have hE' : ∃ w ∈ v :: vs, rewritePrimes marker w = k := ⟨v, List.mem_cons_self, hv⟩
        have hnil := aux_filter_flatMap_nil (fun v => decide (rewritePrimes marker v = k)) gen vs
          (by simpa using hE)
        rw [if_neg hE, if_pos hE', if_pos hv]
        simp [hv, hnil]
    · by_cases hE : ∃ v ∈ vs, rewritePrimes marker v = k
      · have hE' : ∃ w ∈ v :: vs, rewritePrimes marker w = k := by
          obtain ⟨w, hw, hwk⟩ := hE; exact ⟨w, List.mem_cons_of_mem _ hw, hwk⟩
        rw [if_pos hE, if_pos hE', if_neg hv]
        simp [hv]
      · have hE' : ¬ ∃ w ∈ v :: vs, rewritePrimes marker w = k := by
          rintro ⟨w, hw, hwk⟩
          rcases List.mem_cons.1 hw with hw | hw
          · exact hv (hw ▸ hwk)
          · exact hE ⟨w, hw, hwk⟩
        rw [if_neg hE, if_neg hE', if_neg hv]

omit [Field α] [LinearOrder α] [IsStrictOrderedRing α] in
private theorem aux_lookup_addStimulus' (marker : List Char) (k : List Char)
    (s : List (List Char) × (List Char → List α)) (m : Trains α) :
    lookup (addStimulus marker m s.1 s.2) k =
      if ∃ v ∈ s.1, rewritePrimes marker v = k
      then some ((lookup m k).getD [] ++ contribution marker k s)
      else lookup m k := by
  unfold addStimulus contribution
  rw [aux_lookup_addStimulus]
  have : (∃ v ∈ distinct s.1, rewritePrimes marker v = k) ↔ (∃ v ∈ s.1, rewritePrimes marker v = k) := by
    constructor
    · rintro ⟨v, hv, h⟩; exact ⟨v, (aux_mem_distinct v _).1 hv, h⟩
    · rintro ⟨v, hv, h⟩; exact ⟨v, (aux_mem_distinct v _).2 hv, h⟩
  simp only [this]

omit [Field α] [LinearOrder α] [IsStrictOrderedRing α] in
private theorem aux_contribution_nil (marker : List Char) (k : List Char)
    (s : List (List Char) × (List Char → List α))
    (h : ¬ ∃ v ∈ s.1, rewritePrimes marker v = k) : contribution marker k s = [] := by
  unfold contribution
  apply aux_filter_flatMap_nil
  rintro ⟨v, hv, hvk⟩
  exact h ⟨v, (aux_mem_distinct v _).1 hv, by simpa using hvk⟩

omit [Field α] [LinearOrder α] [IsStrictOrderedRing α] in
private theorem aux_lookup_fromJson (marker : List Char) (k : List Char) :
    ∀ (stims : List (List (List Char) × (List Char → List α))) (m : Trains α),
      lookup (stims.foldl (fun m s => addStimulus marker m s.1 s.2) m) k =
        if ∃ s ∈ stims, ∃ v ∈ s.1, rewritePrimes marker v = k
        then some ((lookup m k).getD [] ++ stims.flatMap (contribution marker k))
        else lookup m k := by
  intro stims
  induction stims with
  | nil => intro m; simp
  | cons s stims ih =>
    intro m
    rw [List.foldl_cons, ih, aux_lookup_addStimulus']
    by_cases hs : ∃ v ∈ s.1, rewritePrimes marker v = k
    · have hE' : ∃ s' ∈ s :: stims, ∃ v ∈ s'.1, rewritePrimes marker v = k :=
        ⟨s, List.mem_cons_self, hs⟩
      by_cases hE : ∃ s ∈ stims, ∃ v ∈ s.1, rewritePrimes marker v = k
      · rw [if_pos hE, if_pos hE', if_pos hs]
        simp [List.flatMap_cons, List.append_assoc]
      · have hnil : stims.flatMap (contribution marker k) = [] := by
          rw [List.flatMap_eq_nil_iff]
          intro s' hs'
          exact aux_contribution_nil marker k s' (fun h => hE ⟨s', hs', h⟩)
        rw [if_neg hE, if_pos hE', if_pos hs]
        simp [List.flatMap_cons, hnil]
    · have hc := aux_contribution_nil marker k s hs
      by_cases hE : ∃ s ∈ stims, ∃ v ∈ s.1, rewritePrimes marker v = k
      · have hE' : ∃ s' ∈ s :: stims, ∃ v ∈ s'.1, rewritePrimes marker v = k := by
          obtain ⟨w, hw, hwk⟩ := hE; exact ⟨w, List.mem_cons_of_mem _ hw, hwk⟩
        rw [if_pos hE, if_pos hE', if_neg hs]
        simp [List.flatMap_cons, hc]
      · have hE' : ¬ ∃ s' ∈ s :: stims, ∃ v ∈ s'.1, rewritePrimes marker v = k := by
          rintro ⟨w, hw, hwk⟩
          rcases List.mem_cons.1 hw with hw | hw
          · exact hs (hw ▸ hwk)
          · exact hE ⟨w, hw, hwk⟩
        rw [if_neg hE, if_neg hE', if_neg hs]

/-- **Own train per target, stimuli accumulate.**  The train stored under key `k` is the
concatenation, in stimulus order, of the trains generated for the targets that rewrite to `k`
(each distinct target of each stimulus gets its own call of the generator); a key is present iff
some stimulus targets it. -/
theorem fromJson_key_train (marker : List Char)
    (stims : List (List (List Char) × (List Char → List α))) (k : List Char) :
    lookup (fromJson marker stims) k =
      if ∃ s ∈ stims, ∃ v ∈ s.1, rewritePrimes marker v = k
      then some (stims.flatMap (contribution marker k)) else none := by
  unfold fromJson
  rw [aux_lookup_fromJson]
  simp [lookup]

/-- keys are unique: one entry per targeted variable -/
theorem fromJson_keys_nodup (marker : List Char)
    (stims : List (List (List Char) × (List Char → List α))) :
    ((fromJson marker stims).map (·.1)).Nodup :=
  aux_fromJson_nodup marker stims [] (by simp)

/-! non-vacuity -/
example : regular (3/10 : ℚ) 10 100 = some [1/10, 1/5, 3/10] := by decide +kernel
example : poisson (1 : ℚ) (1/10) [1/4, 1/100, 1/2, 1] = some [1/4, 7/20, 17/20] := by decide +kernel
example : listStim (5 : ℚ) [7, 3, 5, 1, 3] = [1, 3, 3, 5] := by decide +kernel

end OdeVerif.C15
