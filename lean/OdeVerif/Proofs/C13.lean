/-
C13 — Mixed integrator: event / bookkeeping logic of `integrate_ode` (PARTIAL: the accuracy of the
numerical stepper, real GSL behaviour and floating point are outside any model).
Property theorems only.  The stepper `apply` is arbitrary except for `GoodApply`:
it makes progress and never passes the requested end time.
-/
import OdeVerif.Model.MixedIntegrator
import Mathlib.Algebra.Order.Field.Basic
import Mathlib.Tactic.Linarith
import Mathlib.Tactic.SplitIfs
import Mathlib.Data.List.Basic
import Mathlib.Algebra.Order.Field.Rat

set_option linter.unusedSectionVars false

namespace OdeVerif.C13
open OdeVerif.MI

variable {α : Type} [Field α] [LinearOrder α] [IsStrictOrderedRing α] [Inhabited α]

/-- contract of `evolve.apply(t, t1, h, y)`: strictly advances, does not overshoot `t1`, keeps the dimension -/
def GoodApply (c : Cfg α) : Prop :=
  ∀ t t1 h y, t < t1 → t < (c.apply t t1 h y).1 ∧ (c.apply t t1 h y).1 ≤ t1 ∧ (c.apply t t1 h y).2.2.length = y.length

/-- spike list as produced by `set_spike_times`: strictly increasing, and (for the statements below) positive times -/
def GoodSpikes (c : Cfg α) : Prop :=
  c.spikes.Pairwise (fun a b => a.1 < b.1) ∧ ∀ sp ∈ c.spikes, 0 < sp.1

/-! ## helper lemmas -/

/-! ### helpers: `pyMin` -/

private theorem pyMin_le_right (a b : α) : pyMin a b ≤ b := by
  unfold pyMin; split_ifs with h
  · exact le_rfl
  · exact not_lt.mp h

private theorem pyMin_le_left (a b : α) : pyMin a b ≤ a := by
  unfold pyMin; split_ifs with h
  · exact h.le
  · exact le_rfl

private theorem lt_pyMin {t a b : α} (ha : t < a) (hb : t < b) : t < pyMin a b := by
  unfold pyMin; split_ifs <;> assumption

/-! ### helpers: lists -/

private theorem drop_of_getElem? {β : Type} {l : List β} {i : Nat} {x : β} (h : l[i]? = some x) :
    l.drop i = x :: l.drop (i + 1) := by
  obtain ⟨hi, rfl⟩ := List.getElem?_eq_some_iff.mp h
  exact List.drop_eq_getElem_cons hi

private theorem take_of_getElem? {β : Type} {l : List β} {i : Nat} {x : β} (h : l[i]? = some x) :
    l.take (i + 1) = l.take i ++ [x] := by
  rw [List.take_add_one, h]; rfl

private theorem filter_eq_take {β : Type} (p : β → Bool) (l : List β) (k : Nat)
    (h1 : ∀ a ∈ l.take k, p a = true) (h2 : ∀ a ∈ l.drop k, ¬ p a = true) :
    l.filter p = l.take k := by
  conv_lhs => rw [← List.take_append_drop k l]
  rw [List.filter_append, List.filter_eq_self.mpr h1, List.filter_eq_nil_iff.mpr h2, List.append_nil]

/-! ### helpers: `inner` -/

private def innerStep (c : Cfg α) (tT : α) (s : St α) : St α :=
  let tReq := pyMin (s.t + c.maxStep) tT
  let r := c.apply s.t tReq (tReq - s.t) s.y
  let b := enforceBounds c r.2.2
  { s with t := r.1, y := b.1, log := (r.1, b.1) :: s.log, crossed := s.crossed || b.2 }

private theorem inner_zero (c : Cfg α) (tT : α) (s : St α) :
    inner c tT 0 s = if s.t < tT then none else some s := rfl

private theorem inner_succ (c : Cfg α) (tT : α) (fuel : Nat) (s : St α) :
    inner c tT (fuel + 1) s = if s.t < tT then inner c tT fuel (innerStep c tT s) else some s := rfl

private theorem inner_ind (c : Cfg α) (tT : α) (P : St α → Prop)
    (hP : ∀ s, P s → s.t < tT → P (innerStep c tT s)) :
    ∀ (fuel : Nat) (s s' : St α), P s → inner c tT fuel s = some s' → P s' ∧ ¬ s'.t < tT := by
  intro fuel
  induction fuel with
  | zero =>
    intro s s' hs h
    rw [inner_zero] at h
    by_cases hlt : s.t < tT
    · rw [if_pos hlt] at h; cases h
    · rw [if_neg hlt] at h; cases h; exact ⟨hs, hlt⟩
  | succ n ih =>
    intro s s' hs h
    rw [inner_succ] at h
    by_cases hlt : s.t < tT
    · rw [if_pos hlt] at h; exact ih _ _ (hP s hs hlt) h
    · rw [if_neg hlt] at h; cases h; exact ⟨hs, hlt⟩

private theorem innerStep_log (c : Cfg α) (tT : α) (s : St α) :
    (innerStep c tT s).log = ((innerStep c tT s).t, (innerStep c tT s).y) :: s.log := rfl

private theorem innerStep_idx (c : Cfg α) (tT : α) (s : St α) : (innerStep c tT s).idx = s.idx := rfl

private theorem innerStep_applied (c : Cfg α) (tT : α) (s : St α) :
    (innerStep c tT s).applied = s.applied := rfl

private theorem innerStep_y (c : Cfg α) (tT : α) (s : St α) :
    ∃ y, (innerStep c tT s).y = (enforceBounds c y).1 := ⟨_, rfl⟩

private theorem innerStep_bounds {c : Cfg α} (hg : GoodApply c) (hstep : 0 < c.maxStep) {tT : α}
    {s : St α} (hlt : s.t < tT) :
    s.t < (innerStep c tT s).t ∧ (innerStep c tT s).t ≤ tT ∧
      (innerStep c tT s).t ≤ s.t + c.maxStep := by
  have h1 : s.t < pyMin (s.t + c.maxStep) tT := lt_pyMin (by linarith) hlt
  obtain ⟨ha, hb, _⟩ := hg s.t _ (pyMin (s.t + c.maxStep) tT - s.t) s.y h1
  exact ⟨ha, hb.trans (pyMin_le_right _ _), hb.trans (pyMin_le_left _ _)⟩

/-- `inner` reaches the target exactly, keeps `applied` and `idx`. -/

private theorem inner_spec {c : Cfg α} (hg : GoodApply c) (hstep : 0 < c.maxStep) {tT : α} {fuel : Nat}
    {s s' : St α} (h : inner c tT fuel s = some s') (hle : s.t ≤ tT) :
    s'.t = tT ∧ s'.applied = s.applied ∧ s'.idx = s.idx := by
  have := inner_ind c tT (fun x => x.t ≤ tT ∧ x.applied = s.applied ∧ x.idx = s.idx)
    (fun x hx hlt => ⟨(innerStep_bounds hg hstep hlt).2.1, hx.2.1, hx.2.2⟩) fuel s s' ⟨hle, rfl, rfl⟩ h
  exact ⟨le_antisymm this.1.1 (not_lt.mp this.2), this.1.2.1, this.1.2.2⟩

/-- without any assumption on the target: bounded by `B`, `applied`/`idx` kept, time monotone. -/

private theorem inner_le {c : Cfg α} (hg : GoodApply c) (hstep : 0 < c.maxStep) {tT B : α} {fuel : Nat}
    {s s' : St α} (h : inner c tT fuel s = some s') (hB : tT ≤ B) (hle : s.t ≤ B) : s'.t ≤ B :=
  (inner_ind c tT (fun x => x.t ≤ B)
    (fun _ _ hlt => (innerStep_bounds hg hstep hlt).2.1.trans hB) fuel s s' hle h).1

/-! ### helpers: `relog` -/

private theorem relog_t (s : St α) (y : List α) : (relog s y).t = s.t := by
  unfold relog; split <;> rfl

private theorem relog_idx (s : St α) (y : List α) : (relog s y).idx = s.idx := by
  unfold relog; split <;> rfl

private theorem relog_applied (s : St α) (y : List α) : (relog s y).applied = s.applied := by
  unfold relog; split <;> rfl

private theorem relog_times (s : St α) (y : List α) :
    (relog s y).log.map (·.1) = s.log.map (·.1) := by
  unfold relog; split
  · rfl
  · next h => simp [h]

private theorem relog_good {z : α × List α} (s : St α) (y : List α)
    (h : ∃ e pre, s.log = e :: (pre ++ [z])) : ∃ e pre, (relog s y).log = e :: (pre ++ [z]) := by
  obtain ⟨e, pre, h⟩ := h
  unfold relog
  split
  · next h0 => rw [h0] at h; cases h
  · next t y' rest h0 =>
    rw [h0] at h
    injection h with h1 h2
    exact ⟨(t, y), pre, by simp [h2]⟩

/-! ### helpers: `aliasedSpikes` -/

private def aliasApply (c : Cfg α) (s : St α) (ts : α) (syms : List Nat) : St α :=
  { relog s (applySyms c s.y syms) with
    idx := s.idx + 1, applied := (syms.map (fun i => (ts, s.t, i))).reverse ++ s.applied }

private theorem aliasedSpikes_zero (c : Cfg α) (s : St α) : aliasedSpikes c 0 s = s := rfl

private theorem aliasedSpikes_succ (c : Cfg α) (fuel : Nat) (s : St α) :
    aliasedSpikes c (fuel + 1) s =
      match c.spikes[s.idx]? with
      | none => s
      | some (ts, syms) =>
        if ts ≤ s.t then aliasedSpikes c fuel (aliasApply c s ts syms) else s := rfl

private theorem aliased_ind (c : Cfg α) (P : St α → Prop)
    (hP : ∀ s ts syms, P s → c.spikes[s.idx]? = some (ts, syms) → ts ≤ s.t → P (aliasApply c s ts syms)) :
    ∀ (fuel : Nat) (s : St α), P s → P (aliasedSpikes c fuel s) := by
  intro fuel
  induction fuel with
  | zero => intro s hs; exact hs
  | succ n ih =>
    intro s hs
    rw [aliasedSpikes_succ]
    split
    · exact hs
    · next ts syms hsp =>
      split_ifs with hle
      · exact ih _ (hP s ts syms hs hsp hle)
      · exact hs

/-! ### helpers: `outerStep`, `outer` -/

private def preciseTarget (c : Cfg α) (s : St α) : α × List Nat :=
  match c.spikes[s.idx]? with
  | none => (c.simTime, [])
  | some (ts, sy) => if ts < c.simTime then (ts, sy) else (c.simTime, [])

private theorem outerStep_aliased {c : Cfg α} (hm : c.aliasSpikes = true) {fi : Nat} {s s' : St α}
    (h : outerStep c fi s = some s') :
    ∃ s1, inner c (pyMin (s.t + c.maxStep) c.simTime) fi s = some s1 ∧
      s' = aliasedSpikes c (c.spikes.length + 1) s1 := by
  unfold outerStep at h
  rw [if_pos hm] at h
  cases hin : inner c (pyMin (s.t + c.maxStep) c.simTime) fi s with
  | none => simp only [hin] at h; cases h
  | some s1 => simp only [hin] at h; cases h; exact ⟨s1, rfl, rfl⟩

private theorem outerStep_precise {c : Cfg α} (hm : c.aliasSpikes = false) {fi : Nat} {s s' : St α}
    (h : outerStep c fi s = some s') :
    ∃ s1, inner c (preciseTarget c s).1 fi { s with idx := s.idx + 1 } = some s1 ∧
      s' = { relog s1 (applySyms c s1.y (preciseTarget c s).2) with
             applied := ((preciseTarget c s).2.map (fun i => ((preciseTarget c s).1, s1.t, i))).reverse
                          ++ s1.applied } := by
  unfold outerStep at h
  rw [if_neg (by simp [hm])] at h
  change (match preciseTarget c s with
    | (tTarget, syms) =>
      match inner c tTarget fi { s with idx := s.idx + 1 } with
      | none => none
      | some s' =>
        some { relog s' (applySyms c s'.y syms) with
               applied := (syms.map (fun i => (tTarget, s'.t, i))).reverse ++ s'.applied }) = some s' at h
  rcases hpt : preciseTarget c s with ⟨tT, syms⟩
  rw [hpt] at h
  simp only at h ⊢
  cases hin : inner c tT fi { s with idx := s.idx + 1 } with
  | none => simp only [hin] at h; cases h
  | some s1 => simp only [hin] at h; cases h; exact ⟨s1, rfl, rfl⟩

private theorem outer_zero (c : Cfg α) (fi : Nat) (s : St α) :
    outer c fi 0 s = if s.t < c.simTime then none else some s := rfl

private theorem outer_succ (c : Cfg α) (fi fuel : Nat) (s : St α) :
    outer c fi (fuel + 1) s =
      if s.t < c.simTime then
        match outerStep c fi s with
        | none => none
        | some s' => outer c fi fuel s'
      else some s := rfl

private theorem outer_ind (c : Cfg α) (fi : Nat) (P : St α → Prop)
    (hP : ∀ s s', P s → s.t < c.simTime → outerStep c fi s = some s' → P s') :
    ∀ (fuel : Nat) (s s' : St α), P s → outer c fi fuel s = some s' → P s' ∧ ¬ s'.t < c.simTime := by
  intro fuel
  induction fuel with
  | zero =>
    intro s s' hs h
    rw [outer_zero] at h
    by_cases hlt : s.t < c.simTime
    · rw [if_pos hlt] at h; cases h
    · rw [if_neg hlt] at h; cases h; exact ⟨hs, hlt⟩
  | succ n ih =>
    intro s s' hs h
    rw [outer_succ] at h
    by_cases hlt : s.t < c.simTime
    · rw [if_pos hlt] at h
      cases hos : outerStep c fi s with
      | none => simp only [hos] at h; cases h
      | some s1 => simp only [hos] at h; exact ih _ _ (hP _ _ hs hlt hos) h
    · rw [if_neg hlt] at h; cases h; exact ⟨hs, hlt⟩

/-! ### bounds -/

private theorem enforceBounds_getD (c : Cfg α) (y : List α) (i : Nat) (hi : i < y.length) :
    (enforceBounds c y).1.getD i default =
      (clampOne (c.upper.getD i none) (c.lower.getD i none) (c.y0.getD i default)
        (y.getD i default)).1 := by
  simp [enforceBounds, List.getD_eq_getElem?_getD, hi]

/-! ### time -/

private def TI (s : St α) : Prop :=
  (s.log.map (·.1)).Pairwise (· > ·) ∧ ∀ a ∈ s.log.map (·.1), a ≤ s.t

private theorem TI_innerStep {c : Cfg α} (hg : GoodApply c) (hstep : 0 < c.maxStep) {tT : α} {s : St α}
    (hs : TI s) (hlt : s.t < tT) : TI (innerStep c tT s) := by
  have hb := (innerStep_bounds hg hstep hlt).1
  unfold TI
  rw [innerStep_log, List.map_cons]
  refine ⟨List.pairwise_cons.mpr ⟨fun a ha => lt_of_le_of_lt (hs.2 a ha) hb, hs.1⟩, ?_⟩
  intro a ha
  rcases List.mem_cons.mp ha with rfl | ha
  · exact le_rfl
  · exact (hs.2 a ha).trans hb.le

private theorem TI_relog {s : St α} (y : List α) (hs : TI s) : TI (relog s y) := by
  unfold TI; rw [relog_times, relog_t]; exact hs

private theorem TI_outerStep {c : Cfg α} (hg : GoodApply c) (hstep : 0 < c.maxStep) {fi : Nat}
    {s s' : St α} (hs : TI s) (h : outerStep c fi s = some s') : TI s' := by
  cases hm : c.aliasSpikes
  · obtain ⟨s1, h1, rfl⟩ := outerStep_precise hm h
    have : TI s1 :=
      (inner_ind c _ TI (fun x hx hlt => TI_innerStep hg hstep hx hlt) fi
        { s with idx := s.idx + 1 } s1 hs h1).1
    exact TI_relog _ this
  · obtain ⟨s1, h1, rfl⟩ := outerStep_aliased hm h
    have : TI s1 :=
      (inner_ind c _ TI (fun x hx hlt => TI_innerStep hg hstep hx hlt) fi _ s1 hs h1).1
    exact aliased_ind c TI (fun _ _ _ hx _ _ => TI_relog _ hx) _ _ this

private theorem preciseTarget_le (c : Cfg α) (s : St α) : (preciseTarget c s).1 ≤ c.simTime := by
  unfold preciseTarget
  split
  · exact le_rfl
  · split_ifs with h
    · exact h.le
    · exact le_rfl

private theorem aliasedSpikes_t (c : Cfg α) (fuel : Nat) (s : St α) :
    (aliasedSpikes c fuel s).t = s.t :=
  aliased_ind c (fun x => x.t = s.t) (fun _ _ _ hx _ _ => (relog_t _ _).trans hx) fuel s rfl

private theorem le_outerStep {c : Cfg α} (hg : GoodApply c) (hstep : 0 < c.maxStep) {fi : Nat}
    {s s' : St α} (hs : s.t ≤ c.simTime) (h : outerStep c fi s = some s') : s'.t ≤ c.simTime := by
  cases hm : c.aliasSpikes
  · obtain ⟨s1, h1, rfl⟩ := outerStep_precise hm h
    have : s1.t ≤ c.simTime := inner_le hg hstep h1 (preciseTarget_le c s) hs
    exact (relog_t _ _).le.trans this
  · obtain ⟨s1, h1, rfl⟩ := outerStep_aliased hm h
    have : s1.t ≤ c.simTime := inner_le hg hstep h1 (pyMin_le_right _ _) hs
    rw [aliasedSpikes_t]; exact this

/-! ### the first log entry -/

private def Good (c : Cfg α) (s : St α) : Prop :=
  ∃ e pre, s.log = e :: (pre ++ [((0 : α), c.y0)])

private theorem Good_innerStep {c : Cfg α} {tT : α} {s : St α} (hs : Good c s) :
    Good c (innerStep c tT s) := by
  obtain ⟨e, pre, h⟩ := hs
  exact ⟨_, e :: pre, by rw [innerStep_log, h]; rfl⟩

private theorem Good_inner {c : Cfg α} {tT : α} {fuel : Nat} {s s' : St α} (hs : Good c s)
    (h : inner c tT fuel s = some s') : Good c s' :=
  (inner_ind c tT (Good c) (fun _ hx _ => Good_innerStep hx) fuel s s' hs h).1

private theorem Good_aliased {c : Cfg α} {fuel : Nat} {s : St α} (hs : Good c s) :
    Good c (aliasedSpikes c fuel s) :=
  aliased_ind c (Good c) (fun x _ _ hx _ _ => relog_good x _ hx) fuel s hs

private theorem inner_news {c : Cfg α} {tT : α} {fuel : Nat} {s s' : St α} (hlt : s.t < tT)
    (h : inner c tT fuel s = some s') : ∃ e pre, s'.log = e :: (pre ++ s.log) := by
  have := inner_ind c tT (fun x => (∃ e pre, x.log = e :: (pre ++ s.log)) ∨ x = s) ?_ fuel s s'
    (Or.inr rfl) h
  · rcases this with ⟨h1 | rfl, h2⟩
    · exact h1
    · exact absurd hlt h2
  · rintro x (⟨e, pre, hx⟩ | rfl) _
    · exact Or.inl ⟨_, e :: pre, by rw [innerStep_log, hx]; rfl⟩
    · exact Or.inl ⟨_, [], by rw [innerStep_log]; rfl⟩

private theorem Good_outerStep {c : Cfg α} {fi : Nat} {s s' : St α} (hs : Good c s)
    (h : outerStep c fi s = some s') : Good c s' := by
  cases hm : c.aliasSpikes
  · obtain ⟨s1, h1, rfl⟩ := outerStep_precise hm h
    exact relog_good s1 _ (Good_inner (s := { s with idx := s.idx + 1 }) hs h1)
  · obtain ⟨s1, h1, rfl⟩ := outerStep_aliased hm h
    exact Good_aliased (Good_inner hs h1)

private theorem preciseTarget_pos {c : Cfg α} (hs : GoodSpikes c) (hT : 0 < c.simTime) (s : St α) :
    0 < (preciseTarget c s).1 := by
  unfold preciseTarget
  split
  · exact hT
  · next ts sy hsp =>
    split_ifs with h
    · exact hs.2 (ts, sy) (List.mem_of_getElem? hsp)
    · exact hT

private theorem first_step_good {c : Cfg α} (hs : GoodSpikes c) (hstep : 0 < c.maxStep)
    (hT : 0 < c.simTime) {fi : Nat} {s' : St α} (h : outerStep c fi (initSt c) = some s') :
    Good c s' := by
  cases hm : c.aliasSpikes
  · obtain ⟨s1, h1, rfl⟩ := outerStep_precise hm h
    refine relog_good s1 _ ?_
    obtain ⟨e, pre, he⟩ := inner_news (preciseTarget_pos hs hT _) h1
    exact ⟨e, pre, he⟩
  · obtain ⟨s1, h1, rfl⟩ := outerStep_aliased hm h
    refine Good_aliased ?_
    have hpos : (initSt c).t < pyMin ((initSt c).t + c.maxStep) c.simTime :=
      lt_pyMin (by show (0 : α) < 0 + c.maxStep; linarith) hT
    obtain ⟨e, pre, he⟩ := inner_news hpos h1
    exact ⟨e, pre, he⟩

/-! ### precise mode -/

private theorem preciseTarget_cases {c : Cfg α} (hsorted : c.spikes.Pairwise (fun a b => a.1 < b.1))
    (s : St α) :
    (∃ ts sy, c.spikes[s.idx]? = some (ts, sy) ∧ ts < c.simTime ∧ preciseTarget c s = (ts, sy)) ∨
    ((∀ sp ∈ c.spikes.drop s.idx, ¬ sp.1 < c.simTime) ∧ preciseTarget c s = (c.simTime, [])) := by
  unfold preciseTarget
  cases hsp : c.spikes[s.idx]? with
  | none =>
    right
    refine ⟨?_, rfl⟩
    rw [List.drop_of_length_le (List.getElem?_eq_none_iff.mp hsp)]
    simp
  | some p =>
    obtain ⟨ts, sy⟩ := p
    simp only
    by_cases hlt : ts < c.simTime
    · left; exact ⟨ts, sy, rfl, hlt, by rw [if_pos hlt]⟩
    · right
      refine ⟨?_, by rw [if_neg hlt]⟩
      have hp := hsorted.drop (i := s.idx)
      rw [drop_of_getElem? hsp, List.pairwise_cons] at hp
      rw [drop_of_getElem? hsp]
      intro sp hsp'
      rcases List.mem_cons.mp hsp' with rfl | hm
      · exact hlt
      · intro h; exact hlt ((hp.1 sp hm).trans h)

private def PA (c : Cfg α) (s : St α) : Prop :=
  s.applied.reverse =
      (c.spikes.take s.idx).flatMap (fun sp => sp.2.map (fun i => (sp.1, sp.1, i))) ∧
  (∀ sp ∈ c.spikes.take s.idx, sp.1 < c.simTime) ∧ (∀ sp ∈ c.spikes.drop s.idx, s.t < sp.1)

private def PInv (c : Cfg α) (s : St α) : Prop :=
  PA c s ∨ (¬ s.t < c.simTime ∧ s.applied.reverse =
    (c.spikes.filter (fun sp => decide (sp.1 < c.simTime))).flatMap
      (fun sp => sp.2.map (fun i => (sp.1, sp.1, i))))

private theorem PA_outerStep {c : Cfg α} (hg : GoodApply c) (hs : GoodSpikes c) (hstep : 0 < c.maxStep)
    (hm : c.aliasSpikes = false) {fi : Nat} {s s' : St α} (hA : PA c s) (hlt : s.t < c.simTime)
    (h : outerStep c fi s = some s') : PInv c s' := by
  obtain ⟨s1, h1, rfl⟩ := outerStep_precise hm h
  obtain ⟨hA1, hA2, hA3⟩ := hA
  rcases preciseTarget_cases hs.1 s with ⟨ts, sy, hsp, hts, hpt⟩ | ⟨hdrop, hpt⟩
  · rw [hpt] at h1 ⊢
    simp only at h1 ⊢
    have hdr := drop_of_getElem? hsp
    have hlt' : s.t < ts := hA3 (ts, sy) (by rw [hdr]; exact List.mem_cons_self)
    obtain ⟨e1, e2, e3⟩ := inner_spec hg hstep h1 hlt'.le
    simp only at e2 e3
    left
    unfold PA
    simp only [relog_t, relog_idx, e1, e2, e3]
    refine ⟨?_, ?_, ?_⟩
    · rw [take_of_getElem? hsp, List.reverse_append, List.reverse_reverse, hA1, List.flatMap_append]
      simp
    · rw [take_of_getElem? hsp]
      intro sp hsp'
      rcases List.mem_append.mp hsp' with hm' | hm'
      · exact hA2 sp hm'
      · rw [List.mem_singleton.mp hm']; exact hts
    · have hp := hs.1.drop (i := s.idx)
      rw [hdr, List.pairwise_cons] at hp
      exact fun sp hsp' => hp.1 sp hsp'
  · rw [hpt] at h1 ⊢
    simp only at h1 ⊢
    obtain ⟨e1, e2, e3⟩ := inner_spec hg hstep h1 hlt.le
    simp only at e2 e3
    right
    simp only [relog_t, e1, e2]
    refine ⟨lt_irrefl _, ?_⟩
    rw [filter_eq_take _ _ s.idx (fun a ha => by simpa using hA2 a ha)
      (fun a ha => by simpa using hdrop a ha)]
    simpa using hA1

/-! ### aliased mode -/

private def Q (c : Cfg α) (e : α × α × Nat) : Prop :=
  e.1 ≤ e.2.1 ∧ e.2.1 - c.maxStep < e.1 ∧ e.2.1 ≤ c.simTime

private def AH1 (c : Cfg α) (s : St α) : Prop :=
  s.applied.reverse.map (fun e => (e.1, e.2.2)) =
    (c.spikes.take s.idx).flatMap (fun sp => sp.2.map (fun i => (sp.1, i)))

private theorem aliasedSpikes_spec {c : Cfg α} (hsorted : c.spikes.Pairwise (fun a b => a.1 < b.1))
    (τp : α) :
    ∀ (fuel : Nat) (s : St α), c.spikes.length < s.idx + fuel →
      s.t ≤ τp + c.maxStep → s.t ≤ c.simTime →
      AH1 c s → (∀ sp ∈ c.spikes.take s.idx, sp.1 ≤ s.t) →
      (∀ sp ∈ c.spikes.drop s.idx, τp < sp.1) → (∀ e ∈ s.applied, Q c e) →
      (aliasedSpikes c fuel s).t = s.t ∧ AH1 c (aliasedSpikes c fuel s) ∧
      (∀ sp ∈ c.spikes.take (aliasedSpikes c fuel s).idx, sp.1 ≤ s.t) ∧
      (∀ sp ∈ c.spikes.drop (aliasedSpikes c fuel s).idx, s.t < sp.1) ∧
      (∀ e ∈ (aliasedSpikes c fuel s).applied, Q c e) := by
  intro fuel
  induction fuel with
  | zero =>
    intro s hf _ _ h1 h2 _ h4
    rw [aliasedSpikes_zero]
    refine ⟨rfl, h1, h2, ?_, h4⟩
    rw [List.drop_of_length_le (by omega)]
    simp
  | succ n ih =>
    intro s hf hτ hT h1 h2 h3 h4
    rw [aliasedSpikes_succ]
    cases hsp : c.spikes[s.idx]? with
    | none =>
      show s.t = s.t ∧ AH1 c s ∧ (∀ sp ∈ c.spikes.take s.idx, sp.1 ≤ s.t) ∧
        (∀ sp ∈ c.spikes.drop s.idx, s.t < sp.1) ∧ (∀ e ∈ s.applied, Q c e)
      refine ⟨rfl, h1, h2, ?_, h4⟩
      rw [List.drop_of_length_le (List.getElem?_eq_none_iff.mp hsp)]
      simp
    | some p =>
      obtain ⟨ts, syms⟩ := p
      simp only
      have hdr := drop_of_getElem? hsp
      have hp := hsorted.drop (i := s.idx)
      rw [hdr, List.pairwise_cons] at hp
      by_cases hle : ts ≤ s.t
      · rw [if_pos hle]
        have ht : (aliasApply c s ts syms).t = s.t := relog_t _ _
        have hi : (aliasApply c s ts syms).idx = s.idx + 1 := rfl
        have ha : (aliasApply c s ts syms).applied =
            (syms.map (fun i => (ts, s.t, i))).reverse ++ s.applied := rfl
        have := ih (aliasApply c s ts syms) (by rw [hi]; omega) (by rw [ht]; exact hτ)
          (by rw [ht]; exact hT) ?_ ?_ ?_ ?_
        · rw [ht] at this; exact this
        · unfold AH1
          rw [hi, ha, take_of_getElem? hsp, List.reverse_append, List.reverse_reverse,
            List.map_append, h1, List.flatMap_append]
          simp
        · rw [hi, ht, take_of_getElem? hsp]
          intro sp hsp'
          rcases List.mem_append.mp hsp' with hm' | hm'
          · exact h2 sp hm'
          · rw [List.mem_singleton.mp hm']; exact hle
        · rw [hi]
          intro sp hsp'
          exact h3 sp (by rw [hdr]; exact List.mem_cons_of_mem _ hsp')
        · rw [ha]
          intro e he
          rcases List.mem_append.mp he with hm' | hm'
          · rw [List.mem_reverse, List.mem_map] at hm'
            obtain ⟨i, _, rfl⟩ := hm'
            have := h3 (ts, syms) (by rw [hdr]; exact List.mem_cons_self)
            exact ⟨hle, by show s.t - c.maxStep < ts; linarith, hT⟩
          · exact h4 e hm'
      · rw [if_neg hle]
        refine ⟨rfl, h1, h2, ?_, h4⟩
        rw [hdr]
        intro sp hsp'
        rcases List.mem_cons.mp hsp' with rfl | hm'
        · exact not_le.mp hle
        · exact (not_le.mp hle).trans (hp.1 sp hm')

private def AInv (c : Cfg α) (s : St α) : Prop :=
  AH1 c s ∧ (∀ sp ∈ c.spikes.take s.idx, sp.1 ≤ s.t) ∧ (∀ sp ∈ c.spikes.drop s.idx, s.t < sp.1) ∧
  (∀ e ∈ s.applied, Q c e) ∧ s.t ≤ c.simTime

private theorem AInv_outerStep {c : Cfg α} (hg : GoodApply c) (hs : GoodSpikes c) (hstep : 0 < c.maxStep)
    (hm : c.aliasSpikes = true) {fi : Nat} {s s' : St α} (hA : AInv c s) (hlt : s.t < c.simTime)
    (h : outerStep c fi s = some s') : AInv c s' := by
  obtain ⟨s1, h1, rfl⟩ := outerStep_aliased hm h
  obtain ⟨a1, a2, a3, a4, a5⟩ := hA
  have htgt : s.t < pyMin (s.t + c.maxStep) c.simTime := lt_pyMin (by linarith) hlt
  obtain ⟨e1, e2, e3⟩ := inner_spec hg hstep h1 htgt.le
  have hτ : s1.t ≤ s.t + c.maxStep := by rw [e1]; exact pyMin_le_left _ _
  have hT : s1.t ≤ c.simTime := by rw [e1]; exact pyMin_le_right _ _
  have hmono : s.t ≤ s1.t := by rw [e1]; exact htgt.le
  obtain ⟨r0, r1, r2, r3, r4⟩ := aliasedSpikes_spec hs.1 s.t (c.spikes.length + 1) s1 (by omega) hτ hT
    (by unfold AH1; rw [e2, e3]; exact a1)
    (by rw [e3]; exact fun sp hsp => (a2 sp hsp).trans hmono)
    (by rw [e3]; exact a3)
    (by rw [e2]; exact a4)
  refine ⟨r1, ?_, ?_, r4, ?_⟩
  · rw [r0]; exact r2
  · rw [r0]; exact r3
  · rw [r0]; exact hT

private theorem AInv_final {c : Cfg α} (hg : GoodApply c) (hs : GoodSpikes c) (hstep : 0 < c.maxStep)
    (hT : 0 ≤ c.simTime) (hm : c.aliasSpikes = true) {fo fi : Nat} {s : St α}
    (h : integrate c fo fi = some s) : AInv c s ∧ ¬ s.t < c.simTime := by
  have h0 : AInv c (initSt c) := by
    refine ⟨by simp [AH1, initSt], by simp [initSt], ?_, by simp [initSt], hT⟩
    intro sp hsp
    exact hs.2 sp (List.mem_of_mem_drop hsp)
  exact outer_ind c fi (AInv c) (fun x x' hx hlt hos => AInv_outerStep hg hs hstep hm hx hlt hos)
    fo _ s h0 h

/-! ## the theorems -/

/-- **The trajectory starts at the initial values.** -/
theorem log_starts_at_iv (c : Cfg α) (hg : GoodApply c) (hs : GoodSpikes c) (hstep : 0 < c.maxStep) (hT : 0 < c.simTime)
    (fo fi : Nat) (s : St α) (h : integrate c fo fi = some s) :
    s.log.reverse.head? = some (0, c.y0) := by
  have hT' : (initSt c).t < c.simTime := hT
  cases fo with
  | zero =>
    have : outer c fi 0 (initSt c) = some s := h
    rw [outer_zero, if_pos hT'] at this; cases this
  | succ n =>
    have h' : outer c fi (n + 1) (initSt c) = some s := h
    rw [outer_succ, if_pos hT'] at h'
    cases hos : outerStep c fi (initSt c) with
    | none => simp only [hos] at h'; cases h'
    | some s1 =>
      simp only [hos] at h'
      have hG := (outer_ind c fi (Good c) (fun x x' hx _ hxs => Good_outerStep hx hxs) n s1 s
        (first_step_good hs hstep hT hos) h').1
      obtain ⟨e, pre, he⟩ := hG
      rw [he]; simp

/-- **Time advances strictly** along the logged trajectory. -/
theorem time_strictly_increases (c : Cfg α) (hg : GoodApply c) (hstep : 0 < c.maxStep)
    (fo fi : Nat) (s : St α) (h : integrate c fo fi = some s) :
    (s.log.reverse.map (·.1)).Pairwise (· < ·) := by
  have h0 : TI (initSt c) := by simp [TI, initSt]
  have := (outer_ind c fi TI (fun x x' hx _ hos => TI_outerStep hg hstep hx hos) fo _ s h0 h).1
  rw [List.map_reverse, List.pairwise_reverse]
  exact this.1

/-- **… up to exactly the requested duration** (both modes; in aliased mode this is the repaired
behaviour: the last step is clipped to `sim_time`, finding F11). -/
theorem ends_at_simTime (c : Cfg α) (hg : GoodApply c) (hstep : 0 < c.maxStep) (hT : 0 ≤ c.simTime)
    (fo fi : Nat) (s : St α) (h : integrate c fo fi = some s) :
    s.t = c.simTime := by
  have := outer_ind c fi (fun x => x.t ≤ c.simTime)
    (fun x x' hx _ hos => le_outerStep hg hstep hx hos) fo _ s hT h
  exact le_antisymm this.1 (not_lt.mp this.2)

/-- **Precise mode: every spike before the end is applied exactly once, at its own time**, in
order; spikes at or after `sim_time` are not applied. -/
theorem precise_spike_once (c : Cfg α) (hg : GoodApply c) (hs : GoodSpikes c) (hstep : 0 < c.maxStep)
    (hmode : c.aliasSpikes = false) (fo fi : Nat) (s : St α) (h : integrate c fo fi = some s) :
    s.applied.reverse =
      (c.spikes.filter (fun sp => decide (sp.1 < c.simTime))).flatMap (fun sp => sp.2.map (fun i => (sp.1, sp.1, i))) := by
  have h0 : PInv c (initSt c) := by
    left
    refine ⟨by simp [initSt], by simp [initSt], ?_⟩
    intro sp hsp
    exact hs.2 sp (List.mem_of_mem_drop hsp)
  have := outer_ind c fi (PInv c) ?_ fo _ s h0 h
  · rcases this with ⟨⟨hA1, hA2, hA3⟩ | ⟨_, hB⟩, hend⟩
    · rw [filter_eq_take _ _ s.idx (fun a ha => by simpa using hA2 a ha)
        (fun a ha => by
          have := hA3 a ha
          have h2 := not_lt.mp hend
          simpa using h2.trans this.le)]
      exact hA1
    · exact hB
  · rintro x x' (hA | ⟨hB, _⟩) hlt hos
    · exact PA_outerStep hg hs hstep hmode hA hlt hos
    · exact absurd hlt hB

/-- **Aliased mode: every spike up to the end is applied exactly once**, in order, … -/
theorem aliased_spike_once (c : Cfg α) (hg : GoodApply c) (hs : GoodSpikes c) (hstep : 0 < c.maxStep) (hT : 0 ≤ c.simTime)
    (hmode : c.aliasSpikes = true) (fo fi : Nat) (s : St α) (h : integrate c fo fi = some s) :
    s.applied.reverse.map (fun e => (e.1, e.2.2)) =
      (c.spikes.filter (fun sp => decide (sp.1 ≤ c.simTime))).flatMap (fun sp => sp.2.map (fun i => (sp.1, i))) := by
  obtain ⟨⟨a1, a2, a3, _, a5⟩, hend⟩ := AInv_final hg hs hstep hT hmode h
  have heq : s.t = c.simTime := le_antisymm a5 (not_lt.mp hend)
  rw [filter_eq_take _ _ s.idx (fun a ha => by simpa [heq] using a2 a ha)
    (fun a ha => by simpa [heq] using a3 a ha)]
  exact a1

/-- … **at the first step boundary not before it**: the boundary `τ` at which it is applied satisfies
`τ - max_step_size < spike time ≤ τ`. -/
theorem aliased_spike_boundary (c : Cfg α) (hg : GoodApply c) (hs : GoodSpikes c) (hstep : 0 < c.maxStep) (hT : 0 ≤ c.simTime)
    (hmode : c.aliasSpikes = true) (fo fi : Nat) (s : St α) (h : integrate c fo fi = some s) :
    ∀ e ∈ s.applied, e.1 ≤ e.2.1 ∧ e.2.1 - c.maxStep < e.1 ∧ e.2.1 ≤ c.simTime :=
  (AInv_final hg hs hstep hT hmode h).1.2.2.2.1

/-- **Bounds**: after enforcement a variable that was above its upper or below its lower bound
equals its initial value; a variable within its bounds is untouched. -/
theorem enforceBounds_spec (c : Cfg α) (y : List α) (i : Nat) (hi : i < y.length) :
    let v := (enforceBounds c y).1.getD i default
    let yi := y.getD i default
    (∀ u, c.upper.getD i none = some u → u < yi → v = c.y0.getD i default) ∧
    (∀ l, c.lower.getD i none = some l → yi < l → (∀ u, c.upper.getD i none = some u → ¬ u < yi) → v = c.y0.getD i default) ∧
    ((∀ u, c.upper.getD i none = some u → ¬ u < yi) → (∀ l, c.lower.getD i none = some l → ¬ yi < l) → v = yi) := by
  intro v yi
  have hv : v = (clampOne (c.upper.getD i none) (c.lower.getD i none) (c.y0.getD i default) yi).1 :=
    enforceBounds_getD c y i hi
  rw [hv]
  refine ⟨?_, ?_, ?_⟩
  · intro u hu hlt
    rw [hu]
    cases hl : c.lower.getD i none with
    | none => simp [clampOne, hlt]
    | some l => simp only [clampOne, if_pos hlt]; split_ifs <;> rfl
  · intro l hl hlt hup
    rw [hl]
    cases hu : c.upper.getD i none with
    | none => simp [clampOne, hlt]
    | some u => simp [clampOne, hup u hu, hlt]
  · intro hup hlo
    cases hu : c.upper.getD i none with
    | none =>
      cases hl : c.lower.getD i none with
      | none => simp [clampOne]
      | some l => simp [clampOne, hlo l hl]
    | some u =>
      cases hl : c.lower.getD i none with
      | none => simp [clampOne, hup u hu]
      | some l => simp [clampOne, hup u hu, hlo l hl]

/-- every state logged by a numerical step has gone through bound enforcement -/
theorem inner_logs_enforced (c : Cfg α) (tTarget : α) (fuel : Nat) (s s' : St α)
    (h : inner c tTarget fuel s = some s') :
    ∃ news, s'.log = news ++ s.log ∧ ∀ e ∈ news, ∃ y, e.2 = (enforceBounds c y).1 := by
  refine (inner_ind c tTarget
    (fun x => ∃ news, x.log = news ++ s.log ∧ ∀ e ∈ news, ∃ y, e.2 = (enforceBounds c y).1)
    ?_ fuel s s' ⟨[], rfl, by simp⟩ h).1
  rintro x ⟨news, h1, h2⟩ _
  refine ⟨((innerStep c tTarget x).t, (innerStep c tTarget x).y) :: news,
    by rw [innerStep_log, h1]; rfl, ?_⟩
  intro e he
  rcases List.mem_cons.mp he with rfl | he
  · exact innerStep_y c tTarget x
  · exact h2 e he

/-! non-vacuity: a scripted stepper over ℚ that always covers half of the requested interval but at
least… (here: the whole interval), two spikes, precise mode -/
def demoCfg (al : Bool) : Cfg ℚ :=
  { simTime := 1, maxStep := 1/4, aliasSpikes := al, spikes := [(3/10, [0]), (1/2, [0, 1])], y0 := [1, 2], inc := [10, 20],
    upper := [some 25, none], lower := [none, none],
    apply := fun t t1 _ y => (t1, 1/8, y.map (· + (t1 - t))) }

example : (integrate (demoCfg false) 20 20).map (fun s => (s.t, s.applied.reverse)) =
    some (1, [(3/10, 3/10, 0), (1/2, 1/2, 0), (1/2, 1/2, 1)]) := by decide +kernel
example : (integrate (demoCfg true) 20 20).map (fun s => (s.t, s.applied.reverse)) =
    some (1, [(3/10, 1/2, 0), (1/2, 1/2, 0), (1/2, 1/2, 1)]) := by decide +kernel

end OdeVerif.C13
