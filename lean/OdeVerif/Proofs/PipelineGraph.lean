/-
C03 / C04 end to end on the symbolic pipeline model (`Model/Pipeline.lean`): the partition computed from
the user's expressions is an exact cover, analytic membership is sound (no nonlinear part) and closed under
dependencies, and the whole outcome depends only on the Laurent polynomials the right-hand sides denote,
not on how they are written.  Property theorems only.
-/
import OdeVerif.Lemmas.Collect
import OdeVerif.Proofs.C03

namespace OdeVerif.PipelineSpec
open OdeVerif.Poly OdeVerif.Pipeline OdeVerif.C04b

variable {n : ℕ}

/-- the worklist always terminates inside its fuel: `analyse` has a verdict -/
theorem analyse_verdict_some (s : Sys n) : (analyse s).verdict2.isSome = true := by
  obtain ⟨v, hv⟩ := C03.verdict_total s.toGraph
  simp [analyse, hv]

/-- **exact cover**: analytic ++ numeric is a permutation of the positions of `x` -/
theorem analyse_partition (s : Sys n) :
    ((analyse s).analytic ++ (analyse s).numeric).Perm (List.range s.xs.length) := by
  exact (C03.partition_exact_cover s.toGraph.n _).1

/-- **closed**: an analytic variable depends (through `A` or through `c`) on analytic variables only -/
theorem analyse_analytic_closed (s : Sys n) (i j : Nat) (hi : i ∈ (analyse s).analytic)
    (hj : j < s.xs.length) (hdep : s.toGraph.dep i j = true) : j ∈ (analyse s).analytic := by
  obtain ⟨v, hv⟩ := C03.verdict_total s.toGraph
  have hn : s.toGraph.n = s.xs.length := rfl
  have ha : (analyse s).analytic = (List.range s.toGraph.n).filter v := by
    simp [analyse, hv, Graph.analyticIdx]
  rw [ha] at hi ⊢
  rw [List.mem_filter, List.mem_range] at hi ⊢
  exact ⟨hn ▸ hj, C03.analytic_closed s.toGraph v hv i j hi.1 (hn ▸ hj) hi.2 hdep⟩

/-- **sound**: the shape of an analytic variable has no nonlinear part -/
theorem analyse_analytic_linear (s : Sys n) (i : Nat) (hi : i ∈ (analyse s).analytic) :
    s.toGraph.shapeLin i = true := by
  obtain ⟨v, hv⟩ := C03.verdict_total s.toGraph
  have ha : (analyse s).analytic = (List.range s.toGraph.n).filter v := by
    simp [analyse, hv, Graph.analyticIdx]
  rw [ha, List.mem_filter] at hi
  exact (C03.analytic_sound s.toGraph v hv i hi.2).1

/-- two systems that differ only in the spelling of their right-hand sides -/
def SameUpToSpelling (s s' : Sys n) : Prop :=
  s.time = s'.time ∧ List.Forall₂ (fun e e' => e.derivs = e'.derivs ∧ den e.rhs = den e'.rhs) s.entries s'.entries

/-! ### helpers for spelling invariance -/

/-- two rows whose entries agree up to the order of their terms -/
def RowSim (r r' : Row n) : Prop :=
  (∀ j, (r.A.getD j []).Perm (r'.A.getD j [])) ∧ r.b.Perm r'.b ∧ r.c.Perm r'.c

theorem RowSim.refl (r : Row n) : RowSim r r := ⟨fun _ => .refl _, .refl _, .refl _⟩

theorem splitRow_sim (isParam : Fin n → Bool) (xs : List (Fin n)) (e e' : Expr n) (h : den e = den e') :
    RowSim (splitRow isParam xs e) (splitRow isParam xs e') := by
  have hp : (collect (expandRaw e)).Perm (collect (expandRaw e')) :=
    collect_perm_of_denP_eq _ _ (by rw [denP_expandRaw, denP_expandRaw, h])
  refine ⟨fun j => ?_, hp.filter _, hp.filter _⟩
  simp only [splitRow, List.getD_eq_getElem?_getD, List.getElem?_map]
  cases xs.zipIdx[j]? with
  | none => exact .refl _
  | some sj => exact (hp.filter _).map _

theorem forall₂_getElem? {α β : Type} {R : α → β → Prop} {l : List α} {l' : List β}
    (h : List.Forall₂ R l l') (i : Nat) :
    (l[i]? = none ∧ l'[i]? = none) ∨ ∃ r r', l[i]? = some r ∧ l'[i]? = some r' ∧ R r r' := by
  induction h generalizing i with
  | nil => left; simp
  | cons hr _ ih =>
    cases i with
    | zero => right; exact ⟨_, _, by simp, by simp, hr⟩
    | succ i => simpa using ih i

theorem forall₂_same {α : Type} {R : α → α → Prop} (hR : ∀ a, R a a) (l : List α) : List.Forall₂ R l l := by
  induction l with
  | nil => exact .nil
  | cons a l ih => exact .cons (hR a) ih

theorem forall₂_append {α β : Type} {R : α → β → Prop} {l₁ l₂ : List α} {l₁' l₂' : List β}
    (h₁ : List.Forall₂ R l₁ l₁') (h₂ : List.Forall₂ R l₂ l₂') : List.Forall₂ R (l₁ ++ l₂) (l₁' ++ l₂') := by
  induction h₁ with
  | nil => simpa using h₂
  | cons hr _ ih => exact .cons hr ih

abbrev EntrySim (e e' : Entry n) : Prop := e.derivs = e'.derivs ∧ den e.rhs = den e'.rhs

theorem flatMap_derivs_eq {es es' : List (Entry n)} (h : List.Forall₂ EntrySim es es') :
    es.flatMap (·.derivs) = es'.flatMap (·.derivs) := by
  induction h with
  | nil => rfl
  | cons hr _ ih => simp only [List.flatMap_cons, hr.1, ih]

theorem topRows_eq {es es' : List (Entry n)} (h : List.Forall₂ EntrySim es es') (off : Nat) :
    topRows es off = topRows es' off := by
  induction h generalizing off with
  | nil => rfl
  | cons hr _ ih => simp only [topRows, hr.1, ih]

theorem entryRows_sim (s s' : Sys n) (hxs : s.xs = s'.xs) (hp : s.isParam = s'.isParam)
    {e e' : Entry n} (h : EntrySim e e') : List.Forall₂ RowSim (entryRows s e) (entryRows s' e') := by
  unfold entryRows
  rw [hxs, hp, h.1]
  refine forall₂_append (forall₂_same RowSim.refl _) ?_
  split
  · exact .nil
  · exact .cons (splitRow_sim _ _ _ _ h.2) .nil

theorem rows_sim (s s' : Sys n) (hxs : s.xs = s'.xs) (hp : s.isParam = s'.isParam)
    {es es' : List (Entry n)} (h : List.Forall₂ EntrySim es es') :
    List.Forall₂ RowSim (es.flatMap (entryRows s)) (es'.flatMap (entryRows s')) := by
  induction h with
  | nil => exact .nil
  | cons hr _ ih =>
    simp only [List.flatMap_cons]
    exact forall₂_append (entryRows_sim s s' hxs hp hr) ih

theorem toGraph_eq (s s' : Sys n) (h : SameUpToSpelling s s') :
    s.xs = s'.xs ∧ s.toGraph = s'.toGraph := by
  have hxs : s.xs = s'.xs := flatMap_derivs_eq h.2
  have hp : s.isParam = s'.isParam := by
    funext i; simp only [Sys.isParam, Sys.isVar, hxs, h.1]
  have hrows : List.Forall₂ RowSim s.rows s'.rows := rows_sim s s' hxs hp h.2
  have htop : topRows s.entries 0 = topRows s'.entries 0 := topRows_eq h.2 0
  refine ⟨hxs, ?_⟩
  unfold Sys.toGraph
  simp only [Graph.Sys.mk.injEq]
  refine ⟨by rw [hxs], ?_, ?_, ?_, ?_⟩
  · funext i j
    rcases forall₂_getElem? hrows i with ⟨h1, h2⟩ | ⟨r, r', h1, h2, hs⟩
    · rw [h1, h2]
    · rw [h1, h2]; simp only [(hs.1 j).isEmpty_eq]
  · funext i j
    rcases forall₂_getElem? hrows i with ⟨h1, h2⟩ | ⟨r, r', h1, h2, hs⟩
    · rw [h1, h2, hxs]
    · rw [h1, h2, hxs]
      cases s'.xs[j]? with
      | none => rfl
      | some x => simp only [occurs]; exact hs.2.2.any_eq
  · funext i
    rcases forall₂_getElem? hrows i with ⟨h1, h2⟩ | ⟨r, r', h1, h2, hs⟩
    · rw [h1, h2]
    · rw [h1, h2]; simp only [hs.2.1.isEmpty_eq]
  · funext i
    rw [htop]
    cases (topRows s'.entries 0)[i]? with
    | none => rfl
    | some k =>
      rcases forall₂_getElem? hrows k with ⟨h1, h2⟩ | ⟨r, r', h1, h2, hs⟩
      · simp only [h1, h2]
      · simp only [h1, h2, hs.2.2.isEmpty_eq]

/-- **however it is written** (C04 end to end): the dependency pattern, all three verdict stages and
the partition are the same for two spellings of the same system -/
theorem analyse_spelling_invariant (s s' : Sys n) (h : SameUpToSpelling s s') :
    (analyse s).xs = (analyse s').xs ∧ (analyse s).verdict0 = (analyse s').verdict0 ∧
    (analyse s).verdict1 = (analyse s').verdict1 ∧ (analyse s).verdict2 = (analyse s').verdict2 ∧
    (analyse s).analytic = (analyse s').analytic ∧ (analyse s).numeric = (analyse s').numeric := by
  obtain ⟨hxs, hg⟩ := toGraph_eq s s' h
  simp only [analyse, hg, hxs, and_self]

/-! non-vacuity: symbols 0 = x, 1 = tau, 2 = t;  `-(x/tau)` and `(-1/tau)*x` are two spellings -/
example : SameUpToSpelling (n := 3)
    { time := 2, entries := [{ derivs := [0], rhs := .neg (.mul (.sympow 0 1) (.sympow 1 (-1))) }] }
    { time := 2, entries := [{ derivs := [0], rhs := .mul (.mul (.num (-1)) (.sympow 1 (-1))) (.sympow 0 1) }] } := by
  refine ⟨rfl, List.Forall₂.cons ⟨rfl, ?_⟩ List.Forall₂.nil⟩
  simp only [den]
  have h1 : (AddMonoidAlgebra.single 0 (-1 : ℚ) : L 3) = -1 := by
    rw [AddMonoidAlgebra.single_neg, ← AddMonoidAlgebra.one_def]
  rw [h1]; ring

end OdeVerif.PipelineSpec
