import OdeVerif.Generated.PyPreserve
/-!
Refinement: the regenerated `preserve_expressions` block of `_analysis` and its two helpers (`Generated/PyPreserve.lean`) equal the
hand model of `Model/Glue.lean` for all inputs; and what the hand model guarantees (a preserved expression is the user's own text).
-/
namespace OdeVerif.Refine
open OdeVerif

theorem preserve_sel (d : Glue.Dyn) (h : d.WF) (exprs : List String) :
    (if d.hasExpression = true then [d.expression]
      else if d.hasExpressions = true then d.expressions else exprs) = d.exprs := by
  unfold Glue.Dyn.exprs
  rcases h with h | h
  · simp [h]
  · by_cases h1 : d.hasExpression = true <;> simp [h1, h]

theorem preserve_fov_for2 (parse : Glue.Parse) (es acc : List String) :
    Generated.getAllFirstOrderVariables_for2 parse es acc
      = acc ++ es.filterMap (fun e => if (parse e).2.1 = 1 then some (parse e).1 else none) := by
  induction es generalizing acc with
  | nil => simp [Generated.getAllFirstOrderVariables_for2]
  | cons e es ih =>
    simp only [Generated.getAllFirstOrderVariables_for2, List.filterMap_cons]
    by_cases h1 : (parse e).2.1 = 1
    · simp [h1, ih]
    · simp [h1, ih]

theorem preserve_fov_for1 (parse : Glue.Parse) (dyn : List Glue.Dyn) (h : ∀ d ∈ dyn, d.WF) (exprs acc : List String) :
    (Generated.getAllFirstOrderVariables_for1 parse dyn exprs acc).2
      = acc ++ (Glue.allExprs dyn).filterMap (fun e => if (parse e).2.1 = 1 then some (parse e).1 else none) := by
  induction dyn generalizing exprs acc with
  | nil => simp [Generated.getAllFirstOrderVariables_for1, Glue.allExprs]
  | cons d ds ih =>
    have hd := h d (by simp)
    have hds : ∀ d ∈ ds, d.WF := fun x hx => h x (by simp [hx])
    simp only [Generated.getAllFirstOrderVariables_for1]
    rw [preserve_sel d hd, ih hds, preserve_fov_for2]
    simp [Glue.allExprs, List.filterMap_append]

theorem getAllFirstOrderVariables_refines (parse : Glue.Parse) (dyn : List Glue.Dyn) (h : ∀ d ∈ dyn, d.WF) :
    Generated.getAllFirstOrderVariables parse dyn = Glue.firstOrderVars parse dyn := by
  have := preserve_fov_for1 parse dyn h [] []
  simpa [Generated.getAllFirstOrderVariables, Glue.firstOrderVars] using this

def preserve_flowVal {σ : Type} : Py.Flow (Option String) σ → Option String
  | Py.Flow.ret r => r
  | Py.Flow.next _ => none

theorem preserve_find_for2 (parse : Glue.Parse) (name : String) (order : Nat) (es : List String) :
    Generated.findVariableDefinition_for2 parse name order es
      = match es.find? (fun e => decide ((parse e).1 = name ∧ (parse e).2.1 = order)) with
        | some e => Py.Flow.ret (some (parse e).2.2)
        | none => Py.Flow.next () := by
  induction es with
  | nil => simp [Generated.findVariableDefinition_for2]
  | cons e es ih =>
    simp only [Generated.findVariableDefinition_for2, List.find?_cons]
    by_cases hc : (parse e).1 = name ∧ (parse e).2.1 = order
    · simp [hc]
    · simp [hc, ih]

theorem preserve_find_for1 (parse : Glue.Parse) (name : String) (order : Nat) (dyn : List Glue.Dyn)
    (h : ∀ d ∈ dyn, d.WF) (exprs : List String) :
    preserve_flowVal (Generated.findVariableDefinition_for1 parse name order dyn exprs)
      = ((Glue.allExprs dyn).find? (fun e => decide ((parse e).1 = name ∧ (parse e).2.1 = order))).map
          (fun e => (parse e).2.2) := by
  induction dyn generalizing exprs with
  | nil => simp [Generated.findVariableDefinition_for1, Glue.allExprs, preserve_flowVal]
  | cons d ds ih =>
    have hd := h d (by simp)
    have hds : ∀ d ∈ ds, d.WF := fun x hx => h x (by simp [hx])
    simp only [Generated.findVariableDefinition_for1]
    rw [preserve_sel d hd, preserve_find_for2]
    simp only [Glue.allExprs, List.flatMap_cons, List.find?_append]
    cases hf : d.exprs.find? (fun e => decide ((parse e).1 = name ∧ (parse e).2.1 = order)) with
    | some e => simp [preserve_flowVal]
    | none =>
      simp only [Option.none_or]
      exact ih hds _

theorem findVariableDefinition_refines (parse : Glue.Parse) (dyn : List Glue.Dyn) (h : ∀ d ∈ dyn, d.WF) (name : String) (order : Nat) :
    Generated.findVariableDefinition parse dyn name order = Glue.findDef parse dyn name order := by
  have := preserve_find_for1 parse name order dyn h []
  unfold Glue.findDef
  rw [← this]
  simp only [Generated.findVariableDefinition]
  generalize Generated.findVariableDefinition_for1 parse name order dyn [] = r
  cases r <;> rfl

/-- a name defined by a first-order equation has a first-order definition -/
theorem findDef_isSome_of_mem (parse : Glue.Parse) (dyn : List Glue.Dyn) (name : String)
    (h : name ∈ Glue.firstOrderVars parse dyn) : (Glue.findDef parse dyn name 1).isSome = true := by
  unfold Glue.firstOrderVars at h
  rw [List.mem_filterMap] at h
  obtain ⟨e, he, hv⟩ := h
  unfold Glue.findDef
  rw [Option.isSome_map, List.find?_isSome]
  refine ⟨e, he, ?_⟩
  by_cases h1 : (parse e).2.1 = 1
  · simp [h1] at hv
    simp [h1, hv]
  · simp [h1] at hv

/-- the definition found is the right-hand side text of a defining expression of the input with that name and order -/
theorem findDef_some (parse : Glue.Parse) (dyn : List Glue.Dyn) (name : String) (order : Nat) (rhs : String)
    (h : Glue.findDef parse dyn name order = some rhs) :
    ∃ e ∈ Glue.allExprs dyn, (parse e).1 = name ∧ (parse e).2.1 = order ∧ (parse e).2.2 = rhs := by
  unfold Glue.findDef at h
  rw [Option.map_eq_some_iff] at h
  obtain ⟨e, hf, hr⟩ := h
  have hm := List.mem_of_find?_eq_some hf
  have hp := List.find?_some hf
  simp at hp
  exact ⟨e, hm, hp.1, hp.2, hr⟩

theorem preserve_setLast {α : Type} (out : List α) (a b : α) : Glue.setLast (out ++ [a]) b = out ++ [b] := by
  simp [Glue.setLast]

theorem preserve_for2 (parse : Glue.Parse) (repl : String → String) (dyn : List Glue.Dyn) (h : ∀ d ∈ dyn, d.WF)
    (plist : List String) (hp : ∀ v ∈ plist, v ∈ Glue.firstOrderVars parse dyn) (sj : Glue.SolverP)
    (syms : List String) (out : List (Nat × String × Option String)) :
    Generated.preserveBlock_for2 parse repl dyn plist sj (syms.map (fun s => (s, ()))) out
      = .ok (out ++ syms.map (Glue.entry parse repl dyn plist sj)) := by
  induction syms generalizing out with
  | nil => simp [Generated.preserveBlock_for2]
  | cons s ss ih =>
    simp only [List.map_cons, Generated.preserveBlock_for2, preserve_setLast, findVariableDefinition_refines parse dyn h]
    by_cases hc : plist ≠ [] ∧ s ∈ plist
    · rw [if_pos hc]
      by_cases ha : sj.analytic = true
      · rw [if_pos ha, ih]
        simp [Glue.entry, ha]
      · have hs := findDef_isSome_of_mem parse dyn s (hp s hc.2)
        rw [if_neg ha, if_pos hs, ih]
        have ha' : sj.analytic = false := by simpa using ha
        simp [Glue.entry, ha', hc.2, hc.1]
    · rw [if_neg hc, ih]
      have : ¬ (plist ≠ [] ∧ s ∈ plist ∧ sj.analytic = false) := fun hh => hc ⟨hh.1, hh.2.1⟩
      simp only [Glue.entry, if_neg this]
      simp

theorem preserve_for5 (parse : Glue.Parse) (repl : String → String) (dyn : List Glue.Dyn) (h : ∀ d ∈ dyn, d.WF)
    (plist : List String) (hp : ∀ v ∈ plist, v ∈ Glue.firstOrderVars parse dyn) (sj : Glue.SolverP)
    (syms : List String) (out : List (Nat × String × Option String)) :
    Generated.preserveBlock_for5 parse repl dyn plist sj (syms.map (fun s => (s, ()))) out
      = .ok (out ++ syms.map (Glue.entry parse repl dyn plist sj)) := by
  induction syms generalizing out with
  | nil => simp [Generated.preserveBlock_for5]
  | cons s ss ih =>
    simp only [List.map_cons, Generated.preserveBlock_for5, preserve_setLast, findVariableDefinition_refines parse dyn h]
    by_cases hc : plist ≠ [] ∧ s ∈ plist
    · rw [if_pos hc]
      by_cases ha : sj.analytic = true
      · rw [if_pos ha, ih]
        simp [Glue.entry, ha]
      · have hs := findDef_isSome_of_mem parse dyn s (hp s hc.2)
        rw [if_neg ha, if_pos hs, ih]
        have ha' : sj.analytic = false := by simpa using ha
        simp [Glue.entry, ha', hc.2, hc.1]
    · rw [if_neg hc, ih]
      have : ¬ (plist ≠ [] ∧ s ∈ plist ∧ sj.analytic = false) := fun hh => hc ⟨hh.1, hh.2.1⟩
      simp only [Glue.entry, if_neg this]
      simp

theorem preserve_for1 (parse : Glue.Parse) (repl : String → String) (dyn : List Glue.Dyn) (h : ∀ d ∈ dyn, d.WF)
    (plist : List String) (hp : ∀ v ∈ plist, v ∈ Glue.firstOrderVars parse dyn)
    (solvers : List Glue.SolverP) (out : List (Nat × String × Option String)) :
    Generated.preserveBlock_for1 parse repl dyn plist solvers out
      = .ok (out ++ Glue.preserveOut parse repl dyn plist solvers) := by
  induction solvers generalizing out with
  | nil => simp [Generated.preserveBlock_for1, Glue.preserveOut]
  | cons sj rest ih =>
    simp only [Generated.preserveBlock_for1]
    by_cases hu : sj.hasUpdate = true
    · rw [if_pos hu, preserve_for2 parse repl dyn h plist hp]
      simp only [ih]
      simp [Glue.preserveOut, hu]
    · rw [if_neg hu, ih]
      simp [Glue.preserveOut, hu]

theorem preserve_for4 (parse : Glue.Parse) (repl : String → String) (dyn : List Glue.Dyn) (h : ∀ d ∈ dyn, d.WF)
    (plist : List String) (hp : ∀ v ∈ plist, v ∈ Glue.firstOrderVars parse dyn)
    (solvers : List Glue.SolverP) (out : List (Nat × String × Option String)) :
    Generated.preserveBlock_for4 parse repl dyn plist solvers out
      = .ok (out ++ Glue.preserveOut parse repl dyn plist solvers) := by
  induction solvers generalizing out with
  | nil => simp [Generated.preserveBlock_for4, Glue.preserveOut]
  | cons sj rest ih =>
    simp only [Generated.preserveBlock_for4]
    by_cases hu : sj.hasUpdate = true
    · rw [if_pos hu, preserve_for5 parse repl dyn h plist hp]
      simp only [ih]
      simp [Glue.preserveOut, hu]
    · rw [if_neg hu, ih]
      simp [Glue.preserveOut, hu]

theorem preserve_for3 (fov l : List String) :
    Generated.preserveBlock_for3 fov l
      = if ∀ v ∈ l, v ∈ fov then .ok () else .error Glue.PErr.notFirstOrder := by
  induction l with
  | nil => simp [Generated.preserveBlock_for3]
  | cons a l ih =>
    simp only [Generated.preserveBlock_for3]
    by_cases ha : a ∈ fov
    · simp [ha, ih]
    · simp [ha]

/-- the whole block: argument check, then per update expression either the solver's own or the user's text; the assertion
`var_def_str is not None` never fails -/
theorem preserveBlock_refines (parse : Glue.Parse) (repl : String → String) (dyn : List Glue.Dyn) (h : ∀ d ∈ dyn, d.WF)
    (arg : Glue.PArg) (solvers : List Glue.SolverP) :
    Generated.preserveBlock parse repl dyn arg solvers = Glue.preserveSpec parse repl dyn arg solvers := by
  cases arg with
  | flag b =>
    cases b with
    | true =>
      simp only [Generated.preserveBlock, Glue.PArg.isBool, Glue.PArg.truth, Glue.preserveSpec, Glue.preserveList,
        getAllFirstOrderVariables_refines parse dyn h, if_true]
      rw [preserve_for1 parse repl dyn h _ (fun v hv => hv)]
      simp
    | false =>
      simp only [Generated.preserveBlock, Glue.PArg.isBool, Glue.PArg.truth, Glue.preserveSpec, Glue.preserveList]
      simp only [Bool.false_eq_true, if_false, if_true]
      rw [preserve_for1 parse repl dyn h _ (fun v hv => by simp at hv)]
      simp
  | names l =>
    simp only [Generated.preserveBlock, Glue.PArg.isBool, Glue.PArg.isIterable, Glue.PArg.list, Glue.preserveSpec,
      Glue.preserveList, getAllFirstOrderVariables_refines parse dyn h, preserve_for3]
    simp only [Bool.false_eq_true, if_false, if_true]
    by_cases hl : ∀ v ∈ l, v ∈ Glue.firstOrderVars parse dyn
    · rw [if_pos hl, if_pos hl]
      simp only []
      rw [preserve_for4 parse repl dyn h _ hl]
      simp
    · rw [if_neg hl, if_neg hl]
  | other =>
    simp [Generated.preserveBlock, Glue.PArg.isBool, Glue.PArg.isIterable, Glue.preserveSpec, Glue.preserveList]

/-- the names accepted for preservation are all defined by first-order equations -/
theorem preserveList_ok (parse : Glue.Parse) (dyn : List Glue.Dyn) (arg : Glue.PArg) (plist : List String)
    (h : Glue.preserveList parse dyn arg = .ok plist) : ∀ v ∈ plist, v ∈ Glue.firstOrderVars parse dyn := by
  cases arg with
  | flag b =>
    cases b with
    | true =>
      simp only [Glue.preserveList, Except.ok.injEq] at h
      subst h; exact fun v hv => hv
    | false =>
      simp only [Glue.preserveList, Except.ok.injEq] at h
      subst h; intro v hv; simp at hv
  | names l =>
    simp only [Glue.preserveList] at h
    split at h
    · next hl =>
      simp only [Except.ok.injEq] at h
      subst h; exact hl
    · cases h
  | other => simp [Glue.preserveList] at h

/-- a requested name that is not first-order is rejected, and only then -/
theorem preserveSpec_notFirstOrder_iff (parse : Glue.Parse) (repl : String → String) (dyn : List Glue.Dyn) (arg : Glue.PArg) (solvers : List Glue.SolverP) :
    Glue.preserveSpec parse repl dyn arg solvers = .error .notFirstOrder ↔
      ∃ l, arg = .names l ∧ ∃ v ∈ l, v ∉ Glue.firstOrderVars parse dyn := by
  cases arg with
  | flag b =>
    cases b <;> simp [Glue.preserveSpec, Glue.preserveList]
  | names l =>
    simp only [Glue.preserveSpec, Glue.preserveList]
    by_cases hl : ∀ v ∈ l, v ∈ Glue.firstOrderVars parse dyn
    · rw [if_pos hl]
      constructor
      · intro hh; cases hh
      · rintro ⟨l', hl', v, hv, hn⟩
        cases hl'
        exact absurd (hl v hv) hn
    · rw [if_neg hl]
      constructor
      · intro _
        refine ⟨l, rfl, ?_⟩
        simpa using hl
      · intro _; rfl
  | other => simp [Glue.preserveSpec, Glue.preserveList]

/-- every key of every `update_expressions` gets exactly its `Glue.entry` -/
theorem preserveSpec_ok_mem (parse : Glue.Parse) (repl : String → String) (dyn : List Glue.Dyn) (arg : Glue.PArg) (solvers : List Glue.SolverP)
    (out : List (Nat × String × Option String)) (h : Glue.preserveSpec parse repl dyn arg solvers = .ok out)
    (sj : Glue.SolverP) (hs : sj ∈ solvers) (hu : sj.hasUpdate = true) (sym : String) (hsym : sym ∈ sj.update) :
    ∃ plist, Glue.preserveList parse dyn arg = .ok plist ∧ Glue.entry parse repl dyn plist sj sym ∈ out := by
  unfold Glue.preserveSpec at h
  cases hpl : Glue.preserveList parse dyn arg with
  | error e => rw [hpl] at h; cases h
  | ok plist =>
    rw [hpl] at h
    simp only [Except.ok.injEq] at h
    subst h
    refine ⟨plist, rfl, ?_⟩
    unfold Glue.preserveOut
    rw [List.mem_flatMap]
    refine ⟨sj, hs, ?_⟩
    rw [if_pos hu]
    exact List.mem_map_of_mem hsym

/-- C02 for preserved expressions: in a numeric solver, the expression of a variable to be preserved is the right-hand side text of
one of the user's first-order equations for that variable (with primes re-spelt) -/
theorem entry_numeric_is_user_text (parse : Glue.Parse) (repl : String → String) (dyn : List Glue.Dyn) (plist : List String)
    (hp : ∀ v ∈ plist, v ∈ Glue.firstOrderVars parse dyn) (sj : Glue.SolverP) (ha : sj.analytic = false) (sym : String) (hs : sym ∈ plist) :
    ∃ e ∈ Glue.allExprs dyn, (parse e).1 = sym ∧ (parse e).2.1 = 1 ∧
      (Glue.entry parse repl dyn plist sj sym).2.2 = some (repl (parse e).2.2) := by
  have hsome := findDef_isSome_of_mem parse dyn sym (hp sym hs)
  obtain ⟨rhs, hr⟩ := Option.isSome_iff_exists.mp hsome
  obtain ⟨e, he, h1, h2, h3⟩ := findDef_some parse dyn sym 1 rhs hr
  refine ⟨e, he, h1, h2, ?_⟩
  have hne : plist ≠ [] := List.ne_nil_of_mem hs
  have hc : plist ≠ [] ∧ sym ∈ plist ∧ sj.analytic = false := ⟨hne, hs, ha⟩
  simp only [Glue.entry, if_pos hc, hr, h3, Option.map_some]

/-- expressions of an analytic solver, and of variables not to be preserved, are never replaced -/
theorem entry_none (parse : Glue.Parse) (repl : String → String) (dyn : List Glue.Dyn) (plist : List String) (sj : Glue.SolverP) (sym : String)
    (h : sj.analytic = true ∨ sym ∉ plist) : (Glue.entry parse repl dyn plist sj sym).2.2 = none := by
  have hc : ¬ (plist ≠ [] ∧ sym ∈ plist ∧ sj.analytic = false) := by
    rintro ⟨_, h2, h3⟩
    rcases h with h | h
    · rw [h] at h3; cases h3
    · exact h h2
  simp only [Glue.entry, if_neg hc]

end OdeVerif.Refine
