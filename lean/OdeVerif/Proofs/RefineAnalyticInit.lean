import OdeVerif.Generated.PyAnalyticInit
import OdeVerif.Lemmas.Assoc
/-!
The dictionary handling of `AnalyticIntegrator.__init__`, regenerated (`Generated/PyAnalyticInit.lean`): spike increments, substitution
dictionary, update expressions after substitution.
-/
namespace OdeVerif.Refine
open OdeVerif

/-- the parameters the initial values are evaluated under -/
def aiSubs {α : Type} (hasParameters : Bool) (params : List (String × α)) : List (String × α) :=
  if hasParameters then Glue.updateAll [] params else []

theorem ainit_for2_eq {α : Type} (params acc : List (String × α)) :
    Generated.analyticInit_for2 params acc = Glue.updateAll acc params := by
  induction params generalizing acc with
  | nil => rfl
  | cons p rest ih =>
    obtain ⟨a, b⟩ := p
    simp only [Generated.analyticInit_for2]
    rw [ih]
    rfl

theorem ainit_for1_lookup {α V : Type} (ev : V → List (String × α) → α) (hasParameters : Bool)
    (params : List (String × α)) (l : List (String × V)) (st : List (String × α)) (k : String) :
    (Generated.analyticInit_for1 ev hasParameters params l st).lookup k =
      (match l.reverse.lookup k with
       | some v => some (ev v (aiSubs hasParameters params))
       | none => st.lookup k) := by
  induction l generalizing st with
  | nil => simp [Generated.analyticInit_for1]
  | cons p rest ih =>
    obtain ⟨a, b⟩ := p
    simp only [Generated.analyticInit_for1]
    rw [ih, List.reverse_cons, List.lookup_append]
    cases hk : rest.reverse.lookup k with
    | some v => simp
    | none =>
      simp only [Option.none_or, step_lookup_assoc, step_lookup_cons, List.lookup_nil]
      by_cases e : k = a
      · simp only [e, if_true]
        cases hasParameters <;> simp [aiSubs, ainit_for2_eq]
      · simp [e]

theorem ainit_for4_lookup {α U : Type} (l : List (String × U)) (sd : List (String × Glue.SubV U α)) (k : String) :
    (Generated.analyticInit_for4 l sd).lookup k =
      (match l.reverse.lookup k with
       | some v => some (Glue.SubV.expr v)
       | none => sd.lookup k) := by
  induction l generalizing sd with
  | nil => simp [Generated.analyticInit_for4]
  | cons p rest ih =>
    obtain ⟨a, b⟩ := p
    simp only [Generated.analyticInit_for4]
    rw [ih, List.reverse_cons, List.lookup_append]
    cases hk : rest.reverse.lookup k with
    | some v => simp
    | none =>
      simp only [Option.none_or, step_lookup_assoc, step_lookup_cons, List.lookup_nil]
      by_cases e : k = a <;> simp [e]

theorem ainit_for5_lookup {α U : Type} (l : List (String × α)) (sd : List (String × Glue.SubV U α)) (k : String) :
    (Generated.analyticInit_for5 l sd).lookup k =
      (match l.reverse.lookup k with
       | some v => some (Glue.SubV.val v)
       | none => sd.lookup k) := by
  induction l generalizing sd with
  | nil => simp [Generated.analyticInit_for5]
  | cons p rest ih =>
    obtain ⟨a, b⟩ := p
    simp only [Generated.analyticInit_for5]
    rw [ih, List.reverse_cons, List.lookup_append]
    cases hk : rest.reverse.lookup k with
    | some v => simp
    | none =>
      simp only [Option.none_or, step_lookup_assoc, step_lookup_cons, List.lookup_nil]
      by_cases e : k = a <;> simp [e]

/-- the common shape of `_for3` and `_for6` -/
def ainit_mf {U : Type} (f : U → U) : List (String × U) → List (String × U) → List (String × U)
  | [], ue => ue
  | (k, v) :: rest, ue => ainit_mf f rest (Glue.assoc ue k (f (Glue.getU ue k v)))

theorem ainit_for3_eq {U : Type} (parseU : U → U) (l ue : List (String × U)) :
    Generated.analyticInit_for3 parseU l ue = ainit_mf parseU l ue := by
  induction l generalizing ue with
  | nil => rfl
  | cons p rest ih =>
    obtain ⟨a, b⟩ := p
    simp only [Generated.analyticInit_for3, ainit_mf, if_true]
    rw [ih]

theorem ainit_for6_eq {α U : Type} (subst : U → List (String × Glue.SubV U α) → U)
    (sd : List (String × Glue.SubV U α)) (l ue : List (String × U)) :
    Generated.analyticInit_for6 subst sd l ue = ainit_mf (fun u => subst (subst u sd) sd) l ue := by
  induction l generalizing ue with
  | nil => rfl
  | cons p rest ih =>
    obtain ⟨a, b⟩ := p
    simp only [Generated.analyticInit_for6, ainit_mf]
    rw [ih]

theorem ainit_assoc_keys {β : Type} (d : List (String × β)) (k : String) (v : β)
    (h : (d.lookup k).isSome) : (Glue.assoc d k v).map Prod.fst = d.map Prod.fst := by
  induction d with
  | nil => simp at h
  | cons p rest ih =>
    obtain ⟨a, b⟩ := p
    simp only [Glue.assoc]
    by_cases hak : a = k
    · simp [hak]
    · have hne : ¬ k = a := fun e => hak e.symm
      rw [step_lookup_cons] at h
      simp only [hne, if_false] at h
      simp [hak, ih h]

theorem ainit_mf_keys {U : Type} (f : U → U) (l ue : List (String × U))
    (h : ∀ p ∈ l, (ue.lookup p.1).isSome) :
    (ainit_mf f l ue).map Prod.fst = ue.map Prod.fst := by
  induction l generalizing ue with
  | nil => rfl
  | cons p rest ih =>
    obtain ⟨a, b⟩ := p
    simp only [ainit_mf]
    rw [ih, ainit_assoc_keys]
    · exact h (a, b) (List.mem_cons_self ..)
    · intro q hq
      rw [step_lookup_assoc]
      by_cases e : q.1 = a
      · simp [e]
      · simp only [e, if_false]
        exact h q (List.mem_cons_of_mem _ hq)

theorem ainit_mf_lookup {U : Type} (f : U → U) (l ue : List (String × U))
    (hnd : (l.map Prod.fst).Nodup) (h : ∀ p ∈ l, ue.lookup p.1 = some p.2) (k : String) :
    (ainit_mf f l ue).lookup k =
      (match l.lookup k with
       | some v => some (f v)
       | none => ue.lookup k) := by
  induction l generalizing ue with
  | nil => simp [ainit_mf]
  | cons p rest ih =>
    obtain ⟨a, b⟩ := p
    simp only [List.map_cons, List.nodup_cons] at hnd
    simp only [ainit_mf]
    have hab : Glue.getU ue a b = b := by
      have := h (a, b) (List.mem_cons_self ..)
      simp only at this
      simp [Glue.getU, this]
    rw [hab, ih _ hnd.2, step_lookup_cons]
    · by_cases e : k = a
      · subst e
        have : rest.lookup k = none := (step_lookup_eq_none rest k).2 hnd.1
        simp [this, step_lookup_assoc]
      · simp [e, step_lookup_assoc]
    · intro q hq
      have hne : ¬ q.1 = a := by
        intro e
        exact hnd.1 (e ▸ List.mem_map.2 ⟨q, hq, rfl⟩)
      rw [step_lookup_assoc]
      simp only [hne, if_false]
      exact h q (List.mem_cons_of_mem _ hq)

theorem ainit_mf_self_lookup {U : Type} (f : U → U) (l : List (String × U))
    (hnd : (l.map Prod.fst).Nodup) (k : String) :
    (ainit_mf f l l).lookup k = (l.lookup k).map f := by
  rw [ainit_mf_lookup f l l hnd (fun p hp => step_lookup_of_mem_nodup l p.1 p.2 hp hnd)]
  cases l.lookup k <;> rfl

theorem ainit_mf_self_keys {U : Type} (f : U → U) (l : List (String × U))
    (hnd : (l.map Prod.fst).Nodup) :
    (ainit_mf f l l).map Prod.fst = l.map Prod.fst := by
  apply ainit_mf_keys
  intro p hp
  rw [step_lookup_of_mem_nodup l p.1 p.2 hp hnd]
  rfl

theorem ainit_ue_eq {α V U : Type} (ev : V → List (String × α) → α) (parseU : U → U)
    (subst : U → List (String × Glue.SubV U α) → U) (hasParameters : Bool) (params : List (String × α)) (ivs : List (String × V))
    (upd props : List (String × U)) :
    (Generated.analyticInit ev parseU subst hasParameters params ivs upd props).2.1 =
      ainit_mf (fun u => subst (subst u
          (Generated.analyticInit ev parseU subst hasParameters params ivs upd props).2.2)
          (Generated.analyticInit ev parseU subst hasParameters params ivs upd props).2.2)
        (ainit_mf parseU upd upd) (ainit_mf parseU upd upd) := by
  simp only [Generated.analyticInit, ainit_for3_eq, ainit_for6_eq]

/-- the increment a spike adds to a variable is the numeric value of that variable's initial value under the dictionary's own parameters -/
theorem analyticInit_starting {α V U : Type} (ev : V → List (String × α) → α) (parseU : U → U)
    (subst : U → List (String × Glue.SubV U α) → U) (hasParameters : Bool) (params : List (String × α)) (ivs : List (String × V))
    (upd props : List (String × U)) (k : String) :
    (Generated.analyticInit ev parseU subst hasParameters params ivs upd props).1.lookup k =
      (ivs.reverse.lookup k).map (fun v => ev v (aiSubs hasParameters params)) := by
  simp only [Generated.analyticInit]
  rw [ainit_for1_lookup]
  cases ivs.reverse.lookup k <;> rfl

/-- the substitution dictionary: every propagator and (when present) every parameter of the dictionary; on a name clash the parameter wins -/
theorem analyticInit_subsDict {α V U : Type} (ev : V → List (String × α) → α) (parseU : U → U)
    (subst : U → List (String × Glue.SubV U α) → U) (hasParameters : Bool) (params : List (String × α)) (ivs : List (String × V))
    (upd props : List (String × U)) (k : String) :
    (Generated.analyticInit ev parseU subst hasParameters params ivs upd props).2.2.lookup k =
      (match (if hasParameters then params.reverse.lookup k else none) with
       | some a => some (Glue.SubV.val a)
       | none => (props.reverse.lookup k).map Glue.SubV.expr) := by
  simp only [Generated.analyticInit]
  cases hasParameters with
  | false =>
    simp only [Bool.false_eq_true, if_false]
    rw [ainit_for4_lookup]
    cases props.reverse.lookup k <;> rfl
  | true =>
    simp only [if_true]
    rw [ainit_for5_lookup, ainit_for4_lookup]
    cases params.reverse.lookup k with
    | some a => rfl
    | none => cases props.reverse.lookup k <;> rfl

/-- every update expression is parsed and then substituted twice with THIS dictionary's propagators and parameters (keys distinct, as in a
Python dictionary) -/
theorem analyticInit_update {α V U : Type} (ev : V → List (String × α) → α) (parseU : U → U)
    (subst : U → List (String × Glue.SubV U α) → U) (hasParameters : Bool) (params : List (String × α)) (ivs : List (String × V))
    (upd props : List (String × U)) (hnd : (upd.map Prod.fst).Nodup) (k : String) :
    (Generated.analyticInit ev parseU subst hasParameters params ivs upd props).2.1.lookup k =
      (upd.lookup k).map (fun u =>
        subst (subst (parseU u) (Generated.analyticInit ev parseU subst hasParameters params ivs upd props).2.2)
          (Generated.analyticInit ev parseU subst hasParameters params ivs upd props).2.2) := by
  rw [ainit_ue_eq]
  have hnd' : ((ainit_mf parseU upd upd).map Prod.fst).Nodup := by
    rw [ainit_mf_self_keys parseU upd hnd]; exact hnd
  rw [ainit_mf_self_lookup _ _ hnd', ainit_mf_self_lookup _ _ hnd]
  cases upd.lookup k <;> rfl

/-- the keys (and their order) of the update expressions are those of the dictionary -/
theorem analyticInit_update_keys {α V U : Type} (ev : V → List (String × α) → α) (parseU : U → U)
    (subst : U → List (String × Glue.SubV U α) → U) (hasParameters : Bool) (params : List (String × α)) (ivs : List (String × V))
    (upd props : List (String × U)) (hnd : (upd.map Prod.fst).Nodup) :
    (Generated.analyticInit ev parseU subst hasParameters params ivs upd props).2.1.map Prod.fst = upd.map Prod.fst := by
  rw [ainit_ue_eq]
  have hnd' : ((ainit_mf parseU upd upd).map Prod.fst).Nodup := by
    rw [ainit_mf_self_keys parseU upd hnd]; exact hnd
  rw [ainit_mf_self_keys _ _ hnd', ainit_mf_self_keys parseU upd hnd]

end OdeVerif.Refine
