/-
C01 — the analytical solver is the exact flow of the input ODEs for every step size.
Property theorems only (helper lemmas on exp(h • A) are in OdeVerif.Lemmas.MatrixFlow).

SymPy's matrix exponential enters through its contract: the propagator entries are the entries of
`P A h = exp (h • A)`, and an entry reported as (symbolically) zero vanishes for every `h`.
-/
import OdeVerif.Model.Propagator
import OdeVerif.Lemmas.MatrixFlow
import Mathlib.Analysis.Calculus.Deriv.Shift

open Matrix NormedSpace
open scoped Matrix.Norms.Operator

namespace OdeVerif.C01
open OdeVerif.Propagator OdeVerif.MatrixFlow

variable {n : ℕ}

/-- the new state computed by the assembled update expressions from the old state `x`, with the
propagator symbols replaced by the entries of `Pm` and the step symbol by `h` -/
noncomputable def upd (rows : List (UpdRow n ℝ)) (Pm : Matrix (Fin n) (Fin n) ℝ) (h : ℝ) (x : Fin n → ℝ) : Fin n → ℝ :=
  fun r => match rows[r.val]? with
    | some u => evalRow u r (fun i j => Pm i j) h x
    | none => 0

private theorem aux_mapM_ok {α β ε : Type} (f : α → Except ε β) :
    ∀ (l : List α) (rows : List β), l.mapM f = .ok rows →
      rows.length = l.length ∧ ∀ i (hi : i < l.length), ∃ u, rows[i]? = some u ∧ f l[i] = .ok u := by
  intro l
  induction l with
  | nil =>
    intro rows h
    simp [pure, Except.pure] at h
    subst h
    simp
  | cons a l ih =>
    intro rows h
    rw [List.mapM_cons] at h
    cases hfa : f a with
    | error e => simp [hfa, bind, Except.bind] at h
    | ok u =>
      cases hl : l.mapM f with
      | error e => simp [hfa, hl, bind, Except.bind] at h
      | ok us =>
        simp [hfa, hl, bind, Except.bind, pure, Except.pure] at h
        subst h
        obtain ⟨h1, h2⟩ := ih us hl
        refine ⟨by simp [h1], ?_⟩
        intro i hi
        cases i with
        | zero => exact ⟨u, by simp, by simpa using hfa⟩
        | succ i =>
          have hi' : i < l.length := by simpa using hi
          obtain ⟨v, hv1, hv2⟩ := h2 i hi'
          exact ⟨v, by simpa using hv1, by simpa using hv2⟩

private theorem aux_rowCols_ok (b : Fin n → ℝ) (Pnz : Fin n → Fin n → Bool) (row : Fin n) :
    ∀ (l cols : List (Fin n)), rowCols b Pnz row l = .ok cols →
      cols = l.filter (fun c => Pnz row c) ∧ ∀ c ∈ l, Pnz row c = true → row ≠ c → b c = 0 := by
  intro l
  induction l with
  | nil =>
    intro cols h
    simp [rowCols] at h
    subst h
    simp
  | cons a l ih =>
    intro cols h
    unfold rowCols at h
    by_cases hp : Pnz row a = true
    · rw [if_pos hp] at h
      by_cases hg : row ≠ a ∧ b a ≠ 0
      · rw [if_pos hg] at h
        cases h
      · rw [if_neg hg] at h
        cases hr : rowCols b Pnz row l with
        | error e => simp [hr, Except.map] at h
        | ok cs =>
          simp [hr, Except.map] at h
          subst h
          obtain ⟨h1, h2⟩ := ih cs hr
          refine ⟨by simp [hp, h1], ?_⟩
          intro c hc hpc hne
          rcases List.mem_cons.1 hc with rfl | hc
          · by_contra hb
            exact hg ⟨hne, hb⟩
          · exact h2 c hc hpc hne
    · rw [if_neg hp] at h
      obtain ⟨h1, h2⟩ := ih cols h
      refine ⟨by simp [hp, h1], ?_⟩
      intro c hc hpc hne
      rcases List.mem_cons.1 hc with rfl | hc
      · exact absurd hpc hp
      · exact h2 c hc hpc hne

/-- structural content of a successful assembly -/
private theorem aux_assemble_spec (A : Matrix (Fin n) (Fin n) ℝ) (b : Fin n → ℝ) (cnz : Fin n → Bool)
    (order : Fin n → Nat) (Pnz : Fin n → Fin n → Bool) (rows : List (UpdRow n ℝ))
    (hasm : assemble (fun i j => A i j) b cnz order Pnz = .ok rows) :
    rows.length = n ∧ ∀ r : Fin n, cnz r = false ∧
      (∀ c, Pnz r c = true → r ≠ c → b c = 0) ∧
      ∃ u, rows[r.val]? = some u ∧ u.cols = (List.finRange n).filter (fun c => Pnz r c) ∧
        u.inhom = (if b r = 0 then Inhom.none else if A r r = 0 then Inhom.const (b r)
          else Inhom.affine (b r) (A r r)) := by
  unfold assemble at hasm
  obtain ⟨hlen, hrows⟩ := aux_mapM_ok _ _ _ hasm
  refine ⟨by simpa using hlen, ?_⟩
  intro r
  obtain ⟨u, hu1, hu2⟩ := hrows r.val (by simp)
  simp only [List.getElem_finRange, Fin.cast_mk, Fin.eta] at hu2
  unfold assembleRow at hu2
  by_cases hc : cnz r = true
  · rw [if_pos hc] at hu2; cases hu2
  rw [if_neg hc] at hu2
  by_cases h2 : b r ≠ 0 ∧ order r > 1
  · rw [if_pos h2] at hu2; cases hu2
  rw [if_neg h2] at hu2
  cases hr : rowCols b Pnz r (List.finRange n) with
  | error e => rw [hr] at hu2; cases hu2
  | ok cols =>
    rw [hr] at hu2
    simp only [Except.ok.injEq] at hu2
    obtain ⟨h1, h3⟩ := aux_rowCols_ok b Pnz r _ _ hr
    refine ⟨by simpa using hc, fun c hpc hne => h3 c (List.mem_finRange c) hpc hne, u, hu1, ?_, ?_⟩
    · rw [← hu2]; exact h1
    · rw [← hu2]


private theorem aux_foldl_filter (p : Fin n → Bool) (f : Fin n → ℝ) (hf : ∀ c, p c = false → f c = 0) :
    (((List.finRange n).filter p).map f).foldl (· + ·) 0 = ∑ c, f c := by
  rw [← List.sum_eq_foldl, Fin.sum_univ_def]
  generalize List.finRange n = l
  induction l with
  | nil => simp
  | cons a l ih =>
    by_cases hp : p a = true
    · simp [hp, ih]
    · have : f a = 0 := hf a (by simpa using hp)
      simp [hp, ih, this]

/-- the inhomogeneous part of the update -/
private noncomputable def aux_w (A : Matrix (Fin n) (Fin n) ℝ) (b : Fin n → ℝ) (h : ℝ) : Fin n → ℝ :=
  fun r => if b r = 0 then 0 else if A r r = 0 then h * b r
    else (-(b r) / A r r) * (1 - P A h r r)

private theorem aux_upd_eq (A : Matrix (Fin n) (Fin n) ℝ) (b : Fin n → ℝ) (cnz : Fin n → Bool)
    (order : Fin n → Nat) (Pnz : Fin n → Fin n → Bool) (rows : List (UpdRow n ℝ))
    (hasm : assemble (fun i j => A i j) b cnz order Pnz = .ok rows)
    (hPnz : ∀ r c, Pnz r c = false → ∀ h, P A h r c = 0) (x : Fin n → ℝ) (h : ℝ) :
    upd rows (P A h) h x = P A h *ᵥ x + aux_w A b h := by
  obtain ⟨-, hspec⟩ := aux_assemble_spec A b cnz order Pnz rows hasm
  funext r
  obtain ⟨-, -, u, hu, hcols, hinh⟩ := hspec r
  have hlin : (u.cols.map (fun c => P A h r c * x c)).foldl (· + ·) 0 = (P A h *ᵥ x) r := by
    rw [hcols, aux_foldl_filter (fun c => Pnz r c) (fun c => P A h r c * x c)
      (fun c hc => by simp [hPnz r c hc h])]
    rfl
  simp only [upd, hu, evalRow, Pi.add_apply, aux_w]
  rw [hlin, hinh]
  by_cases hb : b r = 0
  · simp [hb]
  · by_cases ha : A r r = 0
    · simp [hb, ha]
    · simp only [hb, ha, if_false]
      ring


/-- (H): an inhomogeneous column is decoupled from every other row -/
private theorem aux_H (A : Matrix (Fin n) (Fin n) ℝ) (b : Fin n → ℝ) (cnz : Fin n → Bool)
    (order : Fin n → Nat) (Pnz : Fin n → Fin n → Bool) (rows : List (UpdRow n ℝ))
    (hasm : assemble (fun i j => A i j) b cnz order Pnz = .ok rows)
    (hPnz : ∀ r c, Pnz r c = false → ∀ h, P A h r c = 0) (c : Fin n) (hb : b c ≠ 0) (r : Fin n)
    (hr : r ≠ c) : A r c = 0 ∧ ∀ h, P A h r c = 0 := by
  obtain ⟨-, hspec⟩ := aux_assemble_spec A b cnz order Pnz rows hasm
  have hP : ∀ h, P A h r c = 0 := by
    apply hPnz
    by_contra hp
    exact hb ((hspec r).2.1 c (by simpa using hp) hr)
  refine ⟨?_, hP⟩
  have h1 := hasDerivAt_P_entry A 0 r c
  have h2 : HasDerivAt (fun t => P A t r c) 0 0 := by
    have : (fun t => P A t r c) = fun _ => (0 : ℝ) := funext hP
    rw [this]
    exact hasDerivAt_const 0 0
  have := h1.unique h2
  simpa [P_zero] using this

private theorem aux_w_deriv (A : Matrix (Fin n) (Fin n) ℝ) (b : Fin n → ℝ)
    (hH : ∀ c, b c ≠ 0 → ∀ r, r ≠ c → A r c = 0 ∧ ∀ h, P A h r c = 0) (h : ℝ) :
    HasDerivAt (fun s => aux_w A b s) (A *ᵥ aux_w A b h + b) h := by
  rw [hasDerivAt_pi]
  intro r
  have hsum : (A *ᵥ aux_w A b h) r = A r r * aux_w A b h r := by
    simp only [Matrix.mulVec, dotProduct]
    apply Finset.sum_eq_single r
    · intro k _ hk
      by_cases hbk : b k = 0
      · simp [aux_w, hbk]
      · rw [(hH k hbk r (Ne.symm hk)).1]; simp
    · intro hr; exact absurd (Finset.mem_univ r) hr
  rw [Pi.add_apply, hsum]
  by_cases hb : b r = 0
  · simp only [aux_w, hb, if_true, mul_zero, add_zero]
    exact hasDerivAt_const h 0
  by_cases ha : A r r = 0
  · simp only [aux_w, hb, ha, if_true, if_false, zero_mul, zero_add]
    simpa using (hasDerivAt_id h).mul_const (b r)
  · simp only [aux_w, hb, ha, if_false]
    have hd : HasDerivAt (fun t => P A t r r) (A r r * P A h r r) h := by
      have := hasDerivAt_P_entry A h r r
      have e : (A * P A h) r r = A r r * P A h r r := by
        simp only [Matrix.mul_apply]
        apply Finset.sum_eq_single r
        · intro k _ hk
          rw [(hH r hb k hk).2 h]; simp
        · intro hr; exact absurd (Finset.mem_univ r) hr
      rwa [e] at this
    have h3 : HasDerivAt (fun t => -(b r) / A r r * (1 - P A t r r))
        (-(b r) / A r r * (0 - A r r * P A h r r)) h :=
      ((hasDerivAt_const h (1:ℝ)).sub hd).const_mul (-(b r) / A r r)
    exact h3.congr_deriv (by field_simp; ring)

/-- a successful assembly only happens for a system without nonlinear part: the equations solved
are exactly `x' = A x + b` -/
theorem assemble_ok_linear (A : Matrix (Fin n) (Fin n) ℝ) (b : Fin n → ℝ) (cnz : Fin n → Bool)
    (order : Fin n → Nat) (Pnz : Fin n → Fin n → Bool) (rows : List (UpdRow n ℝ))
    (hasm : assemble (fun i j => A i j) b cnz order Pnz = .ok rows) :
    rows.length = n ∧ ∀ r, cnz r = false := by
  obtain ⟨hlen, hspec⟩ := aux_assemble_spec A b cnz order Pnz rows hasm
  exact ⟨hlen, fun r => (hspec r).1⟩

/-- **Identity at h = 0.** -/
theorem flow_identity (A : Matrix (Fin n) (Fin n) ℝ) (b : Fin n → ℝ) (cnz : Fin n → Bool)
    (order : Fin n → Nat) (Pnz : Fin n → Fin n → Bool) (rows : List (UpdRow n ℝ))
    (hasm : assemble (fun i j => A i j) b cnz order Pnz = .ok rows)
    (hPnz : ∀ r c, Pnz r c = false → ∀ h, P A h r c = 0) (x : Fin n → ℝ) :
    upd rows (P A 0) 0 x = x := by
  rw [aux_upd_eq A b cnz order Pnz rows hasm hPnz x 0, P_zero]
  funext r
  have : aux_w A b 0 r = 0 := by
    simp only [aux_w, P_zero]
    split_ifs <;> simp
  simp [this]

/-- **The h-derivative of the update equals the user's right-hand side at the updated state**, for
every state and every step size (also negative ones). -/
theorem flow_deriv (A : Matrix (Fin n) (Fin n) ℝ) (b : Fin n → ℝ) (cnz : Fin n → Bool)
    (order : Fin n → Nat) (Pnz : Fin n → Fin n → Bool) (rows : List (UpdRow n ℝ))
    (hasm : assemble (fun i j => A i j) b cnz order Pnz = .ok rows)
    (hPnz : ∀ r c, Pnz r c = false → ∀ h, P A h r c = 0) (x : Fin n → ℝ) (h : ℝ) :
    HasDerivAt (fun s => upd rows (P A s) s x) (A *ᵥ (upd rows (P A h) h x) + b) h := by
  have hH := aux_H A b cnz order Pnz rows hasm hPnz
  have e : (fun s => upd rows (P A s) s x) = fun s => P A s *ᵥ x + aux_w A b s :=
    funext fun s => aux_upd_eq A b cnz order Pnz rows hasm hPnz x s
  rw [e, aux_upd_eq A b cnz order Pnz rows hasm hPnz x h]
  have h1 : HasDerivAt (fun s => P A s *ᵥ x) (A *ᵥ (P A h *ᵥ x)) h := by
    have := hasDerivAt_mulVec (hasDerivAt_P' A h) (hasDerivAt_const h x)
    simpa [Matrix.mulVec_mulVec] using this
  have h2 := aux_w_deriv A b hH h
  have h3 : HasDerivAt (fun s => P A s *ᵥ x + aux_w A b s)
      (A *ᵥ (P A h *ᵥ x) + (A *ᵥ aux_w A b h + b)) h := h1.add h2
  exact h3.congr_deriv (by rw [Matrix.mulVec_add, add_assoc])

/-- **Uniqueness of the inhomogeneous flow** (what makes the three formulations equivalent). -/
theorem affine_flow_unique (A : Matrix (Fin n) (Fin n) ℝ) (b : Fin n → ℝ) (F G : ℝ → Fin n → ℝ)
    (hF : ∀ t, HasDerivAt F (A *ᵥ F t + b) t) (hG : ∀ t, HasDerivAt G (A *ᵥ G t + b) t)
    (h0 : F 0 = G 0) : ∀ t, F t = G t := by
  intro t
  have hD : ∀ t, HasDerivAt (fun s => F s - G s) (A *ᵥ (F t - G t)) t := by
    intro t
    have h3 : HasDerivAt (fun s => F s - G s) ((A *ᵥ F t + b) - (A *ᵥ G t + b)) t :=
      (hF t).sub (hG t)
    exact h3.congr_deriv (by rw [Matrix.mulVec_sub]; abel)
  have := flow_unique A (fun s => F s - G s) hD t
  simp only [h0, sub_self, Matrix.mulVec_zero] at this
  exact sub_eq_zero.1 this

/-- **A step of h₁ followed by a step of h₂ equals one step of h₁ + h₂.** -/
theorem flow_semigroup (A : Matrix (Fin n) (Fin n) ℝ) (b : Fin n → ℝ) (cnz : Fin n → Bool)
    (order : Fin n → Nat) (Pnz : Fin n → Fin n → Bool) (rows : List (UpdRow n ℝ))
    (hasm : assemble (fun i j => A i j) b cnz order Pnz = .ok rows)
    (hPnz : ∀ r c, Pnz r c = false → ∀ h, P A h r c = 0) (x : Fin n → ℝ) (h₁ h₂ : ℝ) :
    upd rows (P A (h₁ + h₂)) (h₁ + h₂) x = upd rows (P A h₂) h₂ (upd rows (P A h₁) h₁ x) := by
  have hF : ∀ s, HasDerivAt (fun s => upd rows (P A (h₁ + s)) (h₁ + s) x)
      (A *ᵥ (upd rows (P A (h₁ + s)) (h₁ + s) x) + b) s := by
    intro s
    exact HasDerivAt.comp_const_add (f := fun s => upd rows (P A s) s x) h₁ s
      (flow_deriv A b cnz order Pnz rows hasm hPnz x (h₁ + s))
  have hG : ∀ s, HasDerivAt (fun s => upd rows (P A s) s (upd rows (P A h₁) h₁ x))
      (A *ᵥ (upd rows (P A s) s (upd rows (P A h₁) h₁ x)) + b) s :=
    fun s => flow_deriv A b cnz order Pnz rows hasm hPnz _ s
  have h0 : (fun s => upd rows (P A (h₁ + s)) (h₁ + s) x) 0
      = (fun s => upd rows (P A s) s (upd rows (P A h₁) h₁ x)) 0 := by
    simp only [add_zero]
    rw [flow_identity A b cnz order Pnz rows hasm hPnz]
  exact affine_flow_unique A b _ _ hF hG h0 h₂

/-- **Exactness**: the update map is THE solution operator of `y' = A y + b`: if `y` solves the
user's equations with `y 0 = x`, then `y h` is what the update expressions return for step `h`. -/
theorem analytic_solver_exact (A : Matrix (Fin n) (Fin n) ℝ) (b : Fin n → ℝ) (cnz : Fin n → Bool)
    (order : Fin n → Nat) (Pnz : Fin n → Fin n → Bool) (rows : List (UpdRow n ℝ))
    (hasm : assemble (fun i j => A i j) b cnz order Pnz = .ok rows)
    (hPnz : ∀ r c, Pnz r c = false → ∀ h, P A h r c = 0)
    (y : ℝ → Fin n → ℝ) (hy : ∀ t, HasDerivAt y (A *ᵥ y t + b) t) (h : ℝ) :
    y h = upd rows (P A h) h (y 0) := by
  have hG : ∀ s, HasDerivAt (fun s => upd rows (P A s) s (y 0))
      (A *ᵥ (upd rows (P A s) s (y 0)) + b) s :=
    fun s => flow_deriv A b cnz order Pnz rows hasm hPnz _ s
  have h0 : y 0 = (fun s => upd rows (P A s) s (y 0)) 0 := by
    simp only []
    rw [flow_identity A b cnz order Pnz rows hasm hPnz]
  exact affine_flow_unique A b y _ hy hG h0 h

/-! non-vacuity: the assembly succeeds on `x' = -x + y + 1`?  no: that depends on nothing inhomogeneous;
here `x0' = -2 x0 + x1`, `x1' = -x1`, and the inhomogeneous single `x2' = -3 x2 + 6` -/
example :
    (assemble (K := ℚ) (n := 3) (fun i j => (!![(-2 : ℚ), 1, 0; 0, -1, 0; 0, 0, -3]) i j) ![0, 0, 6] (fun _ => false)
      (fun _ => 1) (fun i j => decide (i = j) || (decide (i = 0) && decide (j = 1)))).toOption.map
      (fun rows => rows.map (fun u => u.cols.map Fin.val))
    = some [[0, 1], [1], [2]] := by
  decide +kernel



/-! ### component-wise exponentiation -/

/-- entry `(i, j)` of `exp (h • A[S, S])` for the index set `S = {k | lab k = c}`, at original indices -/
noncomputable def compExp (A : Matrix (Fin n) (Fin n) ℝ) (lab : Fin n → ℕ) (c : ℕ) (h : ℝ) (i j : Fin n) : ℝ :=
  if hi : lab i = c then
    if hj : lab j = c then
      (exp (h • (A.submatrix (Subtype.val : {k : Fin n // lab k = c} → Fin n)
                               (Subtype.val : {k : Fin n // lab k = c} → Fin n))))
        (⟨i, hi⟩ : {k : Fin n // lab k = c}) (⟨j, hj⟩ : {k : Fin n // lab k = c})
    else 0
  else 0

private lemma aux_compExp_pos (A : Matrix (Fin n) (Fin n) ℝ) (lab : Fin n → ℕ) (c : ℕ) (h : ℝ)
    (i j : Fin n) (hi : lab i = c) (hj : lab j = c) :
    compExp A lab c h i j =
      P (A.submatrix (Subtype.val : {k : Fin n // lab k = c} → Fin n) Subtype.val) h ⟨i, hi⟩ ⟨j, hj⟩ := by
  simp [compExp, hi, hj, P]

private lemma aux_labels (A : Matrix (Fin n) (Fin n) ℝ) (lab : Fin n → ℕ)
    (hlab : labelsOk (fun i j => A i j) lab = true) (i j : Fin n) (hne : lab i ≠ lab j) :
    A i j = 0 := by
  simp only [labelsOk, mirror, List.all_eq_true, List.mem_finRange, true_imp_iff] at hlab
  have := hlab i j
  by_contra hA
  simp [hA, hne] at this

private lemma aux_column (A : Matrix (Fin n) (Fin n) ℝ) (lab : Fin n → ℕ)
    (hlab : labelsOk (fun i j => A i j) lab = true) (j : Fin n) (h : ℝ) :
    (fun i => scatter lab (fun _ i j => compExp A lab (lab i) h i j) i j) = fun i => P A h i j := by
  classical
  set c := lab j with hc
  let B : Matrix {k : Fin n // lab k = c} {k : Fin n // lab k = c} ℝ :=
    A.submatrix Subtype.val Subtype.val
  let F : ℝ → Fin n → ℝ := fun t i =>
    scatter lab (fun _ i j => compExp A lab (lab i) t i j) i j
  have hFpos : ∀ t i (hi : lab i = c), F t i = P B t ⟨i, hi⟩ ⟨j, rfl⟩ := by
    intro t i hi
    simp only [F, scatter]
    rw [if_pos hi]
    have := aux_compExp_pos A lab c t i j hi rfl
    rw [← this]
    congr 1
  have hFneg : ∀ t i (hi : lab i ≠ c), F t i = 0 := by
    intro t i hi
    simp only [F, scatter]
    rw [if_neg hi]
  have hF : ∀ t, HasDerivAt F (A *ᵥ F t) t := by
    intro t
    rw [hasDerivAt_pi]
    intro i
    by_cases hi : lab i = c
    · have h1 : (fun s => F s i) = fun s => P B s ⟨i, hi⟩ ⟨j, rfl⟩ := by
        funext s; exact hFpos s i hi
      rw [h1]
      have h2 := hasDerivAt_P_entry B t ⟨i, hi⟩ ⟨j, rfl⟩
      suffices hval : (A *ᵥ F t) i = (B * P B t) ⟨i, hi⟩ ⟨j, rfl⟩ by rw [hval]; exact h2
      simp only [Matrix.mulVec, dotProduct, Matrix.mul_apply]
      have h3 : ∀ k : {k : Fin n // lab k = c}, B ⟨i, hi⟩ k * P B t k ⟨j, rfl⟩ =
          (fun k : Fin n => A i k * F t k) k.val := by
        intro k
        simp only [B, Matrix.submatrix_apply]
        rw [hFpos t k.val k.property]
      rw [Finset.sum_congr rfl (fun k _ => h3 k)]
      rw [← Finset.sum_subtype (Finset.univ.filter (fun k : Fin n => lab k = c))
        (by intro x; simp) (fun k : Fin n => A i k * F t k)]
      rw [Finset.sum_filter]
      apply Finset.sum_congr rfl
      intro k _
      by_cases hk : lab k = c
      · rw [if_pos hk]
      · rw [if_neg hk, hFneg t k hk, mul_zero]
    · have h1 : (fun s => F s i) = fun _ => (0 : ℝ) := by
        funext s; exact hFneg s i hi
      rw [h1]
      have h2 : (A *ᵥ F t) i = 0 := by
        simp only [Matrix.mulVec, dotProduct]
        apply Finset.sum_eq_zero
        intro k _
        by_cases hk : lab k = c
        · rw [aux_labels A lab hlab i k (by rw [hk]; exact hi), zero_mul]
        · rw [hFneg t k hk, mul_zero]
      rw [h2]
      exact hasDerivAt_const t 0
  have hF0 : F 0 = Pi.single j 1 := by
    funext i
    by_cases hi : lab i = c
    · rw [hFpos 0 i hi, P_zero, Matrix.one_apply]
      by_cases hij : i = j
      · subst hij; simp
      · rw [if_neg (by intro h; apply hij; exact congrArg Subtype.val h)]
        simp [hij]
    · rw [hFneg 0 i hi]
      have : i ≠ j := by intro h; apply hi; rw [h]
      simp [this]
  have := flow_unique A F hF h
  show F h = _
  rw [this, hF0]
  funext i
  simp

/-- **Block cut is sound**: for any labelling that passes the model's check (every non-zero entry
of `A` — in either direction — joins two indices with the same label), exponentiating every
component on its own index set and scattering the results gives exactly `exp (h • A)`; components
need not be index-adjacent. -/
theorem blocks_sound (A : Matrix (Fin n) (Fin n) ℝ) (lab : Fin n → ℕ)
    (hlab : labelsOk (fun i j => A i j) lab = true) (h : ℝ) :
    scatter lab (fun _ i j => compExp A lab (lab i) h i j) = fun i j => P A h i j := by
  funext i j
  exact congrFun (aux_column A lab hlab j h) i

/-- The pre-repair block test `(A + A.T) != 0` (finding F1) is unsound: for
`g'' = -g - 2 g'`, i.e. `A = !![0, 1; -1, -2]`, it separates the two coupled variables although
`A 0 1 ≠ 0`. -/
theorem sum_mirror_unsound :
    let A : Matrix (Fin 2) (Fin 2) ℚ := !![0, 1; -1, -2]
    (A 0 1 + A 1 0 = 0) ∧ A 0 1 ≠ 0 := by
  intro A
  constructor <;> simp [A]


end OdeVerif.C01
