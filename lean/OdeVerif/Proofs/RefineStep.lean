import OdeVerif.Generated.PyStep
import OdeVerif.Lemmas.Assoc
/-!
Refinement: the regenerated `MixedIntegrator.step` and `MixedIntegrator.numerical_jacobian` equal their hand model
(`Glue.stepLocals`, `Glue.stepArgs`) for all inputs; and what the hand model guarantees.
-/
namespace OdeVerif.Refine
open OdeVerif

theorem step_for2_spec {α : Type} [Inhabited α] (J : Nat → Nat → List α → α) (y : List α) (row : Nat)
    (cols : List Nat) (dfdy : Nat → Nat → α) (r c : Nat) :
    Generated.numericalJacobian_for2 J y row cols dfdy r c =
      if r = row ∧ c ∈ cols then J row c y else dfdy r c := by
  induction cols generalizing dfdy with
  | nil => simp [Generated.numericalJacobian_for2]
  | cons col rest ih =>
    simp only [Generated.numericalJacobian_for2, ih, Py.update2, List.mem_cons]
    by_cases h1 : r = row
    · by_cases h2 : c ∈ rest
      · simp [h1, h2]
      · by_cases h3 : c = col <;> simp [h1, h2, h3]
    · simp [h1]

theorem step_for1_spec {α : Type} [Inhabited α] (J : Nat → Nat → List α → α) (y : List α) (dim : Nat)
    (rows : List Nat) (dfdy : Nat → Nat → α) (r c : Nat) :
    Generated.numericalJacobian_for1 J y dim rows dfdy r c =
      if r ∈ rows ∧ c < dim then J r c y else dfdy r c := by
  induction rows generalizing dfdy with
  | nil => simp [Generated.numericalJacobian_for1]
  | cons row rest ih =>
    simp only [Generated.numericalJacobian_for1, ih, step_for2_spec, List.mem_range, List.mem_cons]
    by_cases h1 : r ∈ rest
    · by_cases h3 : c < dim <;> simp [h1, h3]
    · by_cases h2 : r = row
      · subst h2
        simp [h1]
      · simp [h1, h2]

theorem mixedStep_refines {α : Type} [Inhabited α] (locals_ : List (String × α)) (xs allSyms : List String) (hasA : Bool)
    (ana : α → List (String × α)) (f : String → List α → α) (t : α) (y : List α) :
    Generated.mixedStep locals_ xs allSyms hasA ana f t y =
      (Glue.stepLocals locals_ xs y hasA ana t, xs.map (fun s => f s (Glue.stepArgs locals_ xs allSyms y hasA ana t))) := by
  cases hasA <;> rfl

theorem numericalJacobian_locals {α : Type} [Inhabited α] (locals_ : List (String × α)) (xs allSyms : List String) (hasA : Bool)
    (ana : α → List (String × α)) (J : Nat → Nat → List α → α) (t : α) (y : List α) :
    (Generated.numericalJacobian locals_ xs allSyms hasA ana J t y).1 = Glue.stepLocals locals_ xs y hasA ana t := by
  cases hasA <;> rfl

/-- every entry of the Jacobian handed to the implicit stepper is the compiled entry evaluated at the same argument vector as the
stepping function uses at the same `(t, y)` -/
theorem numericalJacobian_entry {α : Type} [Inhabited α] (locals_ : List (String × α)) (xs allSyms : List String) (hasA : Bool)
    (ana : α → List (String × α)) (J : Nat → Nat → List α → α) (t : α) (y : List α) (r c : Nat) (hr : r < y.length) (hc : c < y.length) :
    (Generated.numericalJacobian locals_ xs allSyms hasA ana J t y).2 r c = J r c (Glue.stepArgs locals_ xs allSyms y hasA ana t) := by
  have h : (Generated.numericalJacobian locals_ xs allSyms hasA ana J t y).2 =
      Generated.numericalJacobian_for1 J (Glue.stepArgs locals_ xs allSyms y hasA ana t) y.length
        (List.range y.length) (fun _ _ => default) := by
    cases hasA <;> rfl
  rw [h, step_for1_spec]
  simp [hr, hc]

/-- an analytically solved variable is seen with its value at the requested time `t`, whatever `_locals` held before -/
theorem stepLocals_analytic {α : Type} [Inhabited α] (locals_ : List (String × α)) (xs : List String) (y : List α)
    (ana : α → List (String × α)) (t : α) (v : String) (a : α) (hmem : (v, a) ∈ ana t) (hnd : ((ana t).map Prod.fst).Nodup) :
    Glue.get (Glue.stepLocals locals_ xs y true ana t) v = a := by
  simp only [Glue.stepLocals, if_true]
  rw [step_get_updateAll, step_lookup_reverse_of_mem_nodup _ _ _ hmem hnd]

/-- a numerically solved variable that the analytic integrator does not report is seen with its current value `y[i]` -/
theorem stepLocals_numeric {α : Type} [Inhabited α] (locals_ : List (String × α)) (xs : List String) (y : List α) (hasA : Bool)
    (ana : α → List (String × α)) (t : α) (i : Nat) (hi : i < xs.length) (hy : i < y.length) (hnd : xs.Nodup)
    (hna : hasA = false ∨ xs[i] ∉ (ana t).map Prod.fst) :
    Glue.get (Glue.stepLocals locals_ xs y hasA ana t) xs[i] = y[i] := by
  have hz : (xs.zip y).reverse.lookup xs[i] = some y[i] :=
    step_lookup_reverse_of_mem_nodup _ _ _ (step_getElem_mem_zip xs y i hi hy) (step_zip_keys_nodup xs y hnd)
  cases hasA with
  | false =>
    simp only [Glue.stepLocals, Bool.false_eq_true, if_false]
    rw [step_get_updateAll, hz]
  | true =>
    have hn : xs[i] ∉ (ana t).map Prod.fst := by
      rcases hna with h | h
      · cases h
      · exact h
    simp only [Glue.stepLocals, if_true]
    rw [step_get_updateAll, (step_lookup_reverse_eq_none _ _).2 hn]
    simp only
    rw [step_get_updateAll, hz]

/-- no dependence on the history of calls: two `_locals` that agree outside the numeric and analytic variables give the same values -/
theorem stepLocals_indep_stale {α : Type} [Inhabited α] (l1 l2 : List (String × α)) (xs : List String) (y : List α) (hasA : Bool)
    (ana : α → List (String × α)) (t : α) (hlen : xs.length ≤ y.length)
    (hagree : ∀ k, k ∉ xs → (hasA = false ∨ k ∉ (ana t).map Prod.fst) → l1.lookup k = l2.lookup k) (v : String) :
    Glue.get (Glue.stepLocals l1 xs y hasA ana t) v = Glue.get (Glue.stepLocals l2 xs y hasA ana t) v := by
  have base : ∀ (hk : hasA = false ∨ v ∉ (ana t).map Prod.fst),
      Glue.get (Glue.updateAll l1 (xs.zip y)) v = Glue.get (Glue.updateAll l2 (xs.zip y)) v := by
    intro hk
    rw [step_get_updateAll, step_get_updateAll]
    cases hz : (xs.zip y).reverse.lookup v with
    | some w => rfl
    | none =>
      have hv : v ∉ xs := by
        have := (step_lookup_reverse_eq_none _ _).1 hz
        rwa [step_zip_keys_of_le xs y hlen] at this
      simp only [Glue.get, hagree v hv hk]
  cases hasA with
  | false =>
    simp only [Glue.stepLocals, Bool.false_eq_true, if_false]
    exact base (Or.inl rfl)
  | true =>
    simp only [Glue.stepLocals, if_true]
    rw [step_get_updateAll _ (ana t), step_get_updateAll _ (ana t)]
    cases ha : (ana t).reverse.lookup v with
    | some w => rfl
    | none =>
      exact base (Or.inr ((step_lookup_reverse_eq_none _ _).1 ha))

end OdeVerif.Refine
