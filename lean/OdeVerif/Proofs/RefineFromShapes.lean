/-
The row-filling loop of `SystemOfShapes.from_shapes` as regenerated from `odetoolbox/system_of_shapes.py` on every
run (`OdeVerif/Generated/PyFromShapes.lean`): the layout of `x' = A x + b + c`.  For the k-th shape, whose state
variables occupy the positions `offset k, ..., offset k + order - 1`:
 * every lower derivative is updated by exactly the next-higher one (a single 1 in its row of `A`, nothing in `b`, `c`);
 * the row of the highest derivative carries the three parts of the split of the shape's expression.
This is the clause "each lower derivative of a higher-order variable is updated by exactly the next-higher
derivative" of C02 and the row layout C06 relies on, for every number of shapes and every order.
-/
import OdeVerif.Generated.PyFromShapes
import OdeVerif.Model.Shapes

namespace OdeVerif.Refine
open OdeVerif OdeVerif.Shapes

/-- position of the first state variable of shape `k`: the sum of the orders of the shapes before it -/
def fsOffset {K : Type} (shapes : List (ShapeRow K)) (k : Nat) : Nat := ((shapes.take k).map (·.order)).sum

variable {K : Type} [OfNat K 0] [OfNat K 1] [Inhabited K]

theorem fs_for2_range' (i m : Nat) : ∀ (s : Nat) (A : Nat → Nat → K) (a b : Nat),
    Generated.fromShapesRows_for2 i (List.range' s m) A a b =
      if i + s ≤ a ∧ a < i + s + m ∧ b = a + 1 then 1 else A a b := by
  induction m with
  | zero =>
    intro s A a b
    rw [if_neg (by omega)]
    rfl
  | succ m ih =>
    intro s A a b
    rw [List.range'_succ, Generated.fromShapesRows_for2]
    dsimp only
    rw [ih]
    by_cases h1 : i + (s + 1) ≤ a ∧ a < i + (s + 1) + m ∧ b = a + 1
    · rw [if_pos h1, if_pos (by omega)]
    · rw [if_neg h1]
      unfold Py.update2
      by_cases h2 : a = i + s ∧ b = i + s + 1
      · rw [if_pos h2, if_pos (by omega)]
      · rw [if_neg h2, if_neg (by omega)]

theorem fs_for2_range (i m : Nat) (A : Nat → Nat → K) (a b : Nat) :
    Generated.fromShapesRows_for2 i (List.range m) A a b =
      if i ≤ a ∧ a < i + m ∧ b = a + 1 then 1 else A a b := by
  rw [List.range_eq_range', fs_for2_range']
  simp only [Nat.add_zero]

/-- the matrix after one pass of the outer loop -/
theorem fs_stepA (i : Nat) (sh : ShapeRow K) (A : Nat → Nat → K) (a col : Nat) :
    Generated.fromShapesRows_for2 i (List.range (sh.order - 1)) (Py.setRow A (i + sh.order - 1) sh.lin) a col =
      if i ≤ a ∧ a < i + (sh.order - 1) ∧ col = a + 1 then 1
      else if a = i + sh.order - 1 ∧ col < sh.lin.length then sh.lin.getD col default else A a col := by
  rw [fs_for2_range]
  rfl

omit [OfNat K 0] [OfNat K 1] [Inhabited K] in
theorem fs_offset_zero (shapes : List (ShapeRow K)) : fsOffset shapes 0 = 0 := by
  simp [fsOffset]

omit [OfNat K 0] [OfNat K 1] [Inhabited K] in
theorem fs_offset_succ (sh : ShapeRow K) (rest : List (ShapeRow K)) (k : Nat) :
    fsOffset (sh :: rest) (k + 1) = sh.order + fsOffset rest k := by
  simp [fsOffset, List.take_succ_cons]

theorem fs_for1_cons (sh : ShapeRow K) (rest : List (ShapeRow K)) (A : Nat → Nat → K) (b c : Nat → K) (i : Nat) :
    Generated.fromShapesRows_for1 (sh :: rest) A b c i =
      Generated.fromShapesRows_for1 rest
        (Generated.fromShapesRows_for2 i (List.range (sh.order - 1)) (Py.setRow A (i + sh.order - 1) sh.lin))
        (Py.update b (i + sh.order - 1) sh.inhom) (Py.update c (i + sh.order - 1) sh.nonlin) (i + sh.order) := by
  rw [Generated.fromShapesRows_for1]

/-- rows below the running offset are never written again -/
theorem fs_low : ∀ (shapes : List (ShapeRow K)), (∀ s ∈ shapes, 0 < s.order) →
    ∀ (A : Nat → Nat → K) (b c : Nat → K) (i a : Nat), a < i →
    (∀ col, (Generated.fromShapesRows_for1 shapes A b c i).1 a col = A a col) ∧
    (Generated.fromShapesRows_for1 shapes A b c i).2.1 a = b a ∧
    (Generated.fromShapesRows_for1 shapes A b c i).2.2.1 a = c a := by
  intro shapes
  induction shapes with
  | nil => intro _ A b c i a _; exact ⟨fun _ => rfl, rfl, rfl⟩
  | cons sh rest ih =>
    intro hpos A b c i a ha
    have hsh : 0 < sh.order := hpos sh (List.mem_cons_self)
    have hrest : ∀ s ∈ rest, 0 < s.order := fun s hs => hpos s (List.mem_cons_of_mem _ hs)
    rw [fs_for1_cons]
    obtain ⟨h1, h2, h3⟩ := ih hrest
      (Generated.fromShapesRows_for2 i (List.range (sh.order - 1)) (Py.setRow A (i + sh.order - 1) sh.lin))
      (Py.update b (i + sh.order - 1) sh.inhom) (Py.update c (i + sh.order - 1) sh.nonlin) (i + sh.order) a (by omega)
    refine ⟨fun col => ?_, ?_, ?_⟩
    · rw [h1 col, fs_stepA, if_neg (by omega), if_neg (by omega)]
    · rw [h2]; unfold Py.update; rw [if_neg (by omega)]
    · rw [h3]; unfold Py.update; rw [if_neg (by omega)]

/-- the rows of the k-th shape, for arbitrary initial contents and running offset -/
theorem fs_main : ∀ (shapes : List (ShapeRow K)), (∀ s ∈ shapes, 0 < s.order) →
    ∀ (A : Nat → Nat → K) (b c : Nat → K) (i k : Nat) (s : ShapeRow K), shapes[k]? = some s →
    (∀ r, r + 1 < s.order →
      (∀ col, (Generated.fromShapesRows_for1 shapes A b c i).1 (i + fsOffset shapes k + r) col =
          if col = i + fsOffset shapes k + r + 1 then 1 else A (i + fsOffset shapes k + r) col) ∧
      (Generated.fromShapesRows_for1 shapes A b c i).2.1 (i + fsOffset shapes k + r) = b (i + fsOffset shapes k + r) ∧
      (Generated.fromShapesRows_for1 shapes A b c i).2.2.1 (i + fsOffset shapes k + r) = c (i + fsOffset shapes k + r)) ∧
    ((∀ col, (Generated.fromShapesRows_for1 shapes A b c i).1 (i + fsOffset shapes k + s.order - 1) col =
          if col < s.lin.length then s.lin.getD col default else A (i + fsOffset shapes k + s.order - 1) col) ∧
      (Generated.fromShapesRows_for1 shapes A b c i).2.1 (i + fsOffset shapes k + s.order - 1) = s.inhom ∧
      (Generated.fromShapesRows_for1 shapes A b c i).2.2.1 (i + fsOffset shapes k + s.order - 1) = s.nonlin) := by
  intro shapes
  induction shapes with
  | nil => intro _ A b c i k s hk; simp at hk
  | cons sh rest ih =>
    intro hpos A b c i k s hk
    have hsh : 0 < sh.order := hpos sh (List.mem_cons_self)
    have hrest : ∀ s ∈ rest, 0 < s.order := fun s hs => hpos s (List.mem_cons_of_mem _ hs)
    rw [fs_for1_cons]
    cases k with
    | zero =>
      have hs : sh = s := by simpa using hk
      subst hs
      rw [fs_offset_zero]
      refine ⟨fun r hr => ?_, ?_⟩
      · obtain ⟨h1, h2, h3⟩ := fs_low rest hrest
          (Generated.fromShapesRows_for2 i (List.range (sh.order - 1)) (Py.setRow A (i + sh.order - 1) sh.lin))
          (Py.update b (i + sh.order - 1) sh.inhom) (Py.update c (i + sh.order - 1) sh.nonlin) (i + sh.order)
          (i + 0 + r) (by omega)
        refine ⟨fun col => ?_, ?_, ?_⟩
        · rw [h1 col, fs_stepA]
          by_cases hc : col = i + 0 + r + 1
          · rw [if_pos hc, if_pos (by omega)]
          · rw [if_neg hc, if_neg (by omega), if_neg (by omega)]
        · rw [h2]; unfold Py.update; rw [if_neg (by omega)]
        · rw [h3]; unfold Py.update; rw [if_neg (by omega)]
      · obtain ⟨h1, h2, h3⟩ := fs_low rest hrest
          (Generated.fromShapesRows_for2 i (List.range (sh.order - 1)) (Py.setRow A (i + sh.order - 1) sh.lin))
          (Py.update b (i + sh.order - 1) sh.inhom) (Py.update c (i + sh.order - 1) sh.nonlin) (i + sh.order)
          (i + 0 + sh.order - 1) (by omega)
        refine ⟨fun col => ?_, ?_, ?_⟩
        · rw [h1 col, fs_stepA, if_neg (by omega)]
          by_cases hc : col < sh.lin.length
          · rw [if_pos hc, if_pos ⟨by omega, hc⟩]
          · rw [if_neg hc, if_neg (fun h => hc h.2)]
        · rw [h2]; unfold Py.update; rw [if_pos (by omega)]
        · rw [h3]; unfold Py.update; rw [if_pos (by omega)]
    | succ k =>
      have hk' : rest[k]? = some s := by simpa using hk
      have hs : 0 < s.order := hrest s (List.mem_of_getElem? hk')
      rw [fs_offset_succ]
      obtain ⟨hu, ht1, ht2, ht3⟩ := ih hrest
        (Generated.fromShapesRows_for2 i (List.range (sh.order - 1)) (Py.setRow A (i + sh.order - 1) sh.lin))
        (Py.update b (i + sh.order - 1) sh.inhom) (Py.update c (i + sh.order - 1) sh.nonlin) (i + sh.order) k s hk'
      have e : ∀ r, i + (sh.order + fsOffset rest k) + r = i + sh.order + fsOffset rest k + r := by intro r; omega
      have e' : i + (sh.order + fsOffset rest k) + s.order - 1 = i + sh.order + fsOffset rest k + s.order - 1 := by omega
      refine ⟨fun r hr => ?_, ?_⟩
      · obtain ⟨h1, h2, h3⟩ := hu r hr
        rw [e r]
        refine ⟨fun col => ?_, ?_, ?_⟩
        · rw [h1 col]
          by_cases hc : col = i + sh.order + fsOffset rest k + r + 1
          · rw [if_pos hc, if_pos hc]
          · rw [if_neg hc, if_neg hc, fs_stepA, if_neg (by omega), if_neg (by omega)]
        · rw [h2]; unfold Py.update; rw [if_neg (by omega)]
        · rw [h3]; unfold Py.update; rw [if_neg (by omega)]
      · rw [e']
        refine ⟨fun col => ?_, ht2, ht3⟩
        rw [ht1 col]
        by_cases hc : col < s.lin.length
        · rw [if_pos hc, if_pos hc]
        · rw [if_neg hc, if_neg hc, fs_stepA, if_neg (by omega), if_neg (by omega)]

theorem fs_rows_eq (shapes : List (ShapeRow K)) :
    Generated.fromShapesRows shapes =
      ((Generated.fromShapesRows_for1 shapes (fun _ _ => 0) (fun _ => 0) (fun _ => 0) 0).1,
       (Generated.fromShapesRows_for1 shapes (fun _ _ => 0) (fun _ => 0) (fun _ => 0) 0).2.1,
       (Generated.fromShapesRows_for1 shapes (fun _ _ => 0) (fun _ => 0) (fun _ => 0) 0).2.2.1) := rfl

/-- rows of the lower derivatives -/
theorem fromShapesRows_unit_rows (shapes : List (ShapeRow K)) (hpos : ∀ s ∈ shapes, 0 < s.order)
    (k : Nat) (s : ShapeRow K) (hk : shapes[k]? = some s) (r : Nat) (hr : r + 1 < s.order) :
    (∀ col, (Generated.fromShapesRows shapes).1 (fsOffset shapes k + r) col = if col = fsOffset shapes k + r + 1 then 1 else 0) ∧
    (Generated.fromShapesRows shapes).2.1 (fsOffset shapes k + r) = 0 ∧
    (Generated.fromShapesRows shapes).2.2 (fsOffset shapes k + r) = 0 := by
  obtain ⟨hu, _⟩ := fs_main shapes hpos (fun _ _ => 0) (fun _ => 0) (fun _ => 0) 0 k s hk
  obtain ⟨h1, h2, h3⟩ := hu r hr
  rw [fs_rows_eq]
  simp only [Nat.zero_add] at h1 h2 h3
  exact ⟨h1, h2, h3⟩

/-- row of the highest derivative -/
theorem fromShapesRows_top_row (shapes : List (ShapeRow K)) (hpos : ∀ s ∈ shapes, 0 < s.order)
    (k : Nat) (s : ShapeRow K) (hk : shapes[k]? = some s) :
    (∀ col, (Generated.fromShapesRows shapes).1 (fsOffset shapes k + s.order - 1) col =
        if col < s.lin.length then s.lin.getD col default else 0) ∧
    (Generated.fromShapesRows shapes).2.1 (fsOffset shapes k + s.order - 1) = s.inhom ∧
    (Generated.fromShapesRows shapes).2.2 (fsOffset shapes k + s.order - 1) = s.nonlin := by
  obtain ⟨_, h1, h2, h3⟩ := fs_main shapes hpos (fun _ _ => 0) (fun _ => 0) (fun _ => 0) 0 k s hk
  rw [fs_rows_eq]
  simp only [Nat.zero_add] at h1 h2 h3
  exact ⟨h1, h2, h3⟩

end OdeVerif.Refine
