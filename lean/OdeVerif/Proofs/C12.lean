/-
C12 — Analytic integrator gives the exact spike-driven solution for any query history.
Property theorems only.
-/
import OdeVerif.Model.AnalyticIntegrator
import Mathlib.Order.Defs.LinearOrder
import Mathlib.Order.Basic
import Mathlib.Algebra.Order.Group.Defs
import Mathlib.Algebra.Order.Sub.Defs
import Mathlib.Algebra.Order.Group.Unbundled.Basic
import Mathlib.Algebra.Order.Group.Int
import Mathlib.Tactic.SplitIfs

set_option linter.unusedSectionVars false
set_option linter.unusedSimpArgs false
set_option linter.unnecessarySeqFocus false

namespace OdeVerif.C12
open OdeVerif.AI

variable {T S Sym : Type}

section SpikeTimes
variable [LinearOrder T]

private theorem mem_mergeOne_fst (acc : List (T × List Sym)) (t : T) (sym : Sym) :
    ∀ b ∈ mergeOne acc t sym, b.1 = t ∨ ∃ a ∈ acc, a.1 = b.1 := by
  induction acc with
  | nil =>
    intro b hb
    simp only [mergeOne, List.mem_singleton] at hb
    left; rw [hb]
  | cons x rest ih =>
    obtain ⟨t', syms⟩ := x
    intro b hb
    simp only [mergeOne] at hb
    split_ifs at hb with h
    · rcases List.mem_cons.mp hb with rfl | hb
      · right; exact ⟨(t', syms), List.mem_cons_self, rfl⟩
      · right; exact ⟨b, List.mem_cons_of_mem _ hb, rfl⟩
    · rcases List.mem_cons.mp hb with rfl | hb
      · right; exact ⟨_, List.mem_cons_self, rfl⟩
      · rcases ih b hb with h | ⟨a, ha, h⟩
        · left; exact h
        · right; exact ⟨a, List.mem_cons_of_mem _ ha, h⟩

private theorem mergeOne_pairwise (acc : List (T × List Sym)) (t : T) (sym : Sym)
    (h : acc.Pairwise (fun a b => a.1 ≠ b.1)) :
    (mergeOne acc t sym).Pairwise (fun a b => a.1 ≠ b.1) := by
  induction acc with
  | nil => simp [mergeOne]
  | cons x rest ih =>
    obtain ⟨t', syms⟩ := x
    obtain ⟨h1, h2⟩ := List.pairwise_cons.mp h
    simp only [mergeOne]
    split_ifs with hc
    · exact List.pairwise_cons.mpr ⟨h1, h2⟩
    · refine List.pairwise_cons.mpr ⟨?_, ih h2⟩
      intro b hb
      rcases mem_mergeOne_fst rest t sym b hb with hb1 | ⟨a, ha, hab⟩
      · rw [hb1]; exact hc
      · rw [← hab]; exact h1 a ha

private theorem foldl_mergeOne_pairwise (sym : Sym) :
    ∀ (ts : List T) (acc : List (T × List Sym)), acc.Pairwise (fun a b => a.1 ≠ b.1) →
      (ts.foldl (fun acc t => mergeOne acc t sym) acc).Pairwise (fun a b => a.1 ≠ b.1)
  | [], _, h => h
  | t :: ts, acc, h => by
    simp only [List.foldl_cons]
    exact foldl_mergeOne_pairwise sym ts _ (mergeOne_pairwise acc t sym h)

private theorem mergeAll_aux_pairwise :
    ∀ (d : List (Sym × List T)) (acc : List (T × List Sym)),
      acc.Pairwise (fun a b => a.1 ≠ b.1) →
      (d.foldl (fun acc kv => kv.2.foldl (fun acc t => mergeOne acc t kv.1) acc) acc).Pairwise
        (fun a b => a.1 ≠ b.1)
  | [], _, h => h
  | kv :: d, acc, h => by
    simp only [List.foldl_cons]
    exact mergeAll_aux_pairwise d _ (foldl_mergeOne_pairwise kv.1 kv.2 acc h)

private theorem insertByTime_perm (x : T × List Sym) :
    ∀ l : List (T × List Sym), (insertByTime x l).Perm (x :: l)
  | [] => by simp [insertByTime]
  | y :: ys => by
    simp only [insertByTime]
    split_ifs with h
    · exact List.Perm.refl _
    · exact ((insertByTime_perm x ys).cons y).trans (List.Perm.swap x y ys)

private theorem sortByTime_perm : ∀ l : List (T × List Sym), (sortByTime l).Perm l
  | [] => by simp [sortByTime]
  | x :: xs => by
    simp only [sortByTime]
    exact (insertByTime_perm x _).trans ((sortByTime_perm xs).cons x)

private theorem insertByTime_sorted (x : T × List Sym) :
    ∀ l : List (T × List Sym), l.Pairwise (fun a b => a.1 < b.1) → (∀ y ∈ l, x.1 ≠ y.1) →
      (insertByTime x l).Pairwise (fun a b => a.1 < b.1)
  | [], _, _ => by simp [insertByTime]
  | y :: ys, hs, hne => by
    obtain ⟨h1, h2⟩ := List.pairwise_cons.mp hs
    simp only [insertByTime]
    split_ifs with h
    · have hxy : x.1 < y.1 := lt_of_le_of_ne h (hne y List.mem_cons_self)
      refine List.pairwise_cons.mpr ⟨?_, hs⟩
      intro b hb
      rcases List.mem_cons.mp hb with rfl | hb
      · exact hxy
      · exact lt_trans hxy (h1 b hb)
    · have hyx : y.1 < x.1 := not_le.mp h
      refine List.pairwise_cons.mpr ⟨?_, insertByTime_sorted x ys h2
        (fun z hz => hne z (List.mem_cons_of_mem _ hz))⟩
      intro b hb
      rcases List.mem_cons.mp ((insertByTime_perm x ys).mem_iff.mp hb) with rfl | hb
      · exact hyx
      · exact h1 b hb

private theorem sortByTime_sorted :
    ∀ l : List (T × List Sym), l.Pairwise (fun a b => a.1 ≠ b.1) →
      (sortByTime l).Pairwise (fun a b => a.1 < b.1)
  | [], _ => by simp [sortByTime]
  | x :: xs, h => by
    obtain ⟨h1, h2⟩ := List.pairwise_cons.mp h
    simp only [sortByTime]
    exact insertByTime_sorted x _ (sortByTime_sorted xs h2)
      (fun y hy => h1 y ((sortByTime_perm xs).mem_iff.mp hy))

/-- **Merged event list is strictly increasing in time** (so coincident spikes share one entry). -/
theorem setSpikeTimes_sorted (d : List (Sym × List T)) :
    (setSpikeTimes d).Pairwise (fun a b => a.1 < b.1) := by
  unfold setSpikeTimes mergeAll
  exact sortByTime_sorted _ (mergeAll_aux_pairwise d [] List.Pairwise.nil)

private def cnt [DecidableEq Sym] (l : List (T × List Sym)) (t : T) (s : Sym) : Nat :=
  ((l.filter (fun e => e.1 = t)).flatMap (·.2)).count s

private theorem cnt_cons [DecidableEq Sym] (x : T × List Sym) (l : List (T × List Sym)) (t : T)
    (s : Sym) : cnt (x :: l) t s = (if x.1 = t then x.2.count s else 0) + cnt l t s := by
  unfold cnt
  by_cases h : x.1 = t
  · simp [List.filter_cons, h]
  · simp [List.filter_cons, h]

private theorem mergeOne_cnt [DecidableEq Sym] (t : T) (s : Sym) (t' : T) (s' : Sym) :
    ∀ acc : List (T × List Sym),
      cnt (mergeOne acc t' s') t s = cnt acc t s + (if t' = t ∧ s' = s then 1 else 0)
  | [] => by
    simp only [mergeOne, cnt_cons]
    by_cases h1 : t' = t <;> by_cases h2 : s' = s <;> simp [h1, h2, cnt]
  | (t'', syms) :: rest => by
    simp only [mergeOne]
    by_cases hc : t'' = t'
    · rw [if_pos hc]
      subst hc
      simp only [cnt_cons]
      by_cases h1 : t'' = t <;> by_cases h2 : s' = s <;> simp [h1, h2] <;> omega
    · rw [if_neg hc, cnt_cons, cnt_cons, mergeOne_cnt t s t' s' rest]
      omega

private theorem foldl_mergeOne_cnt [DecidableEq Sym] (t : T) (s : Sym) (s' : Sym) :
    ∀ (ts : List T) (acc : List (T × List Sym)),
      cnt (ts.foldl (fun acc t' => mergeOne acc t' s') acc) t s
        = cnt acc t s + (if s' = s then ts.count t else 0)
  | [], acc => by simp
  | t' :: ts, acc => by
    simp only [List.foldl_cons]
    rw [foldl_mergeOne_cnt t s s' ts, mergeOne_cnt, List.count_cons]
    by_cases h1 : t' = t <;> by_cases h2 : s' = s <;> simp [h1, h2] <;> omega

private theorem mergeAll_aux_cnt [DecidableEq Sym] (t : T) (s : Sym) :
    ∀ (d : List (Sym × List T)) (acc : List (T × List Sym)),
      cnt (d.foldl (fun acc kv => kv.2.foldl (fun acc t => mergeOne acc t kv.1) acc) acc) t s
        = cnt acc t s + ((d.filter (fun kv => kv.1 = s)).flatMap (·.2)).count t
  | [], acc => by simp
  | kv :: d, acc => by
    simp only [List.foldl_cons]
    rw [mergeAll_aux_cnt t s d, foldl_mergeOne_cnt]
    by_cases h : kv.1 = s
    · simp [List.filter_cons, h]; omega
    · simp [List.filter_cons, h]

/-- **Every (time, variable) occurrence is kept with its multiplicity**: the number of times `sym`
is listed at time `t` in the merged list equals the number of times `t` occurs in the spike lists
given for `sym` (unsorted, duplicated, coincident across variables — all allowed). -/
theorem setSpikeTimes_grouped [DecidableEq Sym] (d : List (Sym × List T)) (t : T) (sym : Sym) :
    (((setSpikeTimes d).filter (fun e => e.1 = t)).flatMap (·.2)).count sym
      = (((d.filter (fun kv => kv.1 = sym)).flatMap (·.2))).count t := by
  have hperm : cnt (setSpikeTimes d) t sym = cnt (mergeAll d) t sym := by
    unfold cnt setSpikeTimes
    exact (((sortByTime_perm (mergeAll d)).filter _).flatMap_right _).count_eq sym
  have h := mergeAll_aux_cnt t sym d []
  unfold cnt at hperm h
  unfold mergeAll at hperm
  rw [hperm, h]
  simp

end SpikeTimes

section GetValue
variable [AddCommGroup T] [LinearOrder T] [IsOrderedAddMonoid T]

/-- what a history of operations must answer: every query `get t` yields `spec p t` -/
def expected (p : Params T S Sym) (ops : List (Op T)) : List (Option S) :=
  ops.map (fun op => match op with
    | .get t => some (spec p t)
    | _ => none)

private def apply1 (p : Params T S Sym) (c : T × S) (sp : T × List Sym) : T × S :=
  if sp.1 ≤ c.1 then c else jump p c sp

private theorem processSpikes_eq (p : Params T S Sym) (t : T) :
    ∀ (l : List (T × List Sym)), l.Pairwise (fun a b => a.1 < b.1) → ∀ c : T × S,
      processSpikes p t l c = (l.filter (fun sp => sp.1 ≤ t)).foldl (apply1 p) c
  | [], _, c => by simp [processSpikes]
  | (st, syms) :: rest, hs, (tc, s) => by
    obtain ⟨h1, h2⟩ := List.pairwise_cons.mp hs
    have ih := processSpikes_eq p t rest h2
    simp only [processSpikes]
    by_cases hle : st ≤ tc
    · rw [if_pos hle, ih]
      by_cases ht : st ≤ t
      · simp [List.filter_cons, ht, apply1, hle]
      · simp [List.filter_cons, ht]
    · rw [if_neg hle]
      by_cases hlt : t < st
      · have hnil : rest.filter (fun sp => sp.1 ≤ t) = [] := by
          rw [List.filter_eq_nil_iff]
          intro a ha
          simpa using lt_trans hlt (h1 a ha)
        rw [if_pos hlt]
        simp [List.filter_cons, not_le.mpr hlt, hnil]
      · have ht : st ≤ t := not_lt.mp hlt
        have hpos : 0 < st - tc := sub_pos.mpr (not_le.mp hle)
        rw [if_neg hlt, if_pos hpos, ih]
        simp [List.filter_cons, ht, apply1, jump, hle]

private theorem foldl_apply1_fst (p : Params T S Sym) :
    ∀ (l : List (T × List Sym)) (c : T × S),
      c.1 ≤ (l.foldl (apply1 p) c).1 ∧ ∀ sp ∈ l, sp.1 ≤ (l.foldl (apply1 p) c).1
  | [], c => by simp
  | x :: l, c => by
    obtain ⟨h1, h2⟩ := foldl_apply1_fst p l (apply1 p c x)
    have hc : c.1 ≤ (apply1 p c x).1 ∧ x.1 ≤ (apply1 p c x).1 := by
      unfold apply1
      split_ifs with h
      · exact ⟨le_refl _, h⟩
      · exact ⟨le_of_lt (not_le.mp h), le_refl _⟩
    simp only [List.foldl_cons]
    refine ⟨le_trans hc.1 h1, ?_⟩
    intro sp hsp
    rcases List.mem_cons.mp hsp with rfl | hsp
    · exact le_trans hc.2 h1
    · exact h2 sp hsp

private theorem foldl_apply1_noop (p : Params T S Sym) :
    ∀ (l : List (T × List Sym)) (c : T × S), (∀ sp ∈ l, sp.1 ≤ c.1) → l.foldl (apply1 p) c = c
  | [], c, _ => rfl
  | x :: l, c, h => by
    have hx : apply1 p c x = c := by
      unfold apply1; rw [if_pos (h x List.mem_cons_self)]
    simp only [List.foldl_cons, hx]
    exact foldl_apply1_noop p l c (fun sp hsp => h sp (List.mem_cons_of_mem _ hsp))

private theorem foldl_apply1_eq_jump (p : Params T S Sym) :
    ∀ (l : List (T × List Sym)), l.Pairwise (fun a b => a.1 < b.1) → ∀ c : T × S, 0 ≤ c.1 →
      (∀ sp ∈ l, 0 < sp.1 → c.1 < sp.1) →
      l.foldl (apply1 p) c = (l.filter (fun sp => 0 < sp.1)).foldl (jump p) c
  | [], _, c, _, _ => by simp
  | x :: l, hs, c, hc0, hc => by
    obtain ⟨h1, h2⟩ := List.pairwise_cons.mp hs
    by_cases hx : 0 < x.1
    · have hcx : c.1 < x.1 := hc x List.mem_cons_self hx
      have ha : apply1 p c x = jump p c x := by
        unfold apply1; rw [if_neg (not_le.mpr hcx)]
      simp only [List.foldl_cons, ha, List.filter_cons, hx, decide_true, if_true]
      exact foldl_apply1_eq_jump p l h2 (jump p c x) (le_of_lt hx) (fun sp hsp _ => h1 sp hsp)
    · have hxc : x.1 ≤ c.1 := le_trans (not_lt.mp hx) hc0
      have ha : apply1 p c x = c := by
        unfold apply1; rw [if_pos hxc]
      simp only [List.foldl_cons, ha, List.filter_cons, hx, decide_false]
      exact foldl_apply1_eq_jump p l h2 c hc0 (fun sp hsp => hc sp (List.mem_cons_of_mem _ hsp))

private def G (p : Params T S Sym) (t : T) : T × S :=
  (p.spikes.filter (fun sp => sp.1 ≤ t)).foldl (apply1 p) (0, p.init)

private def out (p : Params T S Sym) (t : T) (r : T × S) : S :=
  if 0 < t - r.1 then p.step (t - r.1) r.2 else r.2

private theorem spec_eq_G (p : Params T S Sym) (hs : p.spikes.Pairwise (fun a b => a.1 < b.1))
    (t : T) : spec p t = out p t (G p t) := by
  have h := foldl_apply1_eq_jump p (p.spikes.filter (fun sp => sp.1 ≤ t)) (hs.filter _)
    (0, p.init) (le_refl _) (fun sp _ h => h)
  rw [List.filter_filter] at h
  unfold spec out G
  rw [h]

private theorem filter_le_prefix (t : T) :
    ∀ (l : List (T × List Sym)), l.Pairwise (fun a b => a.1 < b.1) →
      ∃ l2, l = l.filter (fun sp => sp.1 ≤ t) ++ l2
  | [], _ => ⟨[], by simp⟩
  | x :: l, hs => by
    obtain ⟨h1, h2⟩ := List.pairwise_cons.mp hs
    by_cases hx : x.1 ≤ t
    · obtain ⟨l2, hl2⟩ := filter_le_prefix t l h2
      refine ⟨l2, ?_⟩
      simp only [List.filter_cons, hx, decide_true, if_true, List.cons_append]
      rw [← hl2]
    · have hnil : l.filter (fun sp => sp.1 ≤ t) = [] := by
        rw [List.filter_eq_nil_iff]
        intro a ha
        simpa using lt_trans (not_le.mp hx) (h1 a ha)
      exact ⟨x :: l, by simp [List.filter_cons, hx, hnil]⟩

private def Inv (p : Params T S Sym) (c : Cache T S) : Prop :=
  ∃ l1 l2, p.spikes = l1 ++ l2 ∧ (c.tcurr, c.state) = l1.foldl (apply1 p) (0, p.init)

private theorem Inv_reset (p : Params T S Sym) (c : Cache T S) : Inv p (reset p c) :=
  ⟨[], p.spikes, rfl, rfl⟩

private theorem Inv_G (p : Params T S Sym) (hs : p.spikes.Pairwise (fun a b => a.1 < b.1))
    (t : T) (c : Cache T S) (h : (c.tcurr, c.state) = G p t) : Inv p c := by
  obtain ⟨l2, hl2⟩ := filter_le_prefix t p.spikes hs
  exact ⟨_, l2, hl2, h⟩

private theorem continue_eq_G (p : Params T S Sym) (c : Cache T S) (hc : Inv p c) (t : T)
    (ht : c.tcurr ≤ t) :
    (p.spikes.filter (fun sp => sp.1 ≤ t)).foldl (apply1 p) (c.tcurr, c.state) = G p t := by
  obtain ⟨l1, l2, hl, hc⟩ := hc
  have hfst := (foldl_apply1_fst p l1 (0, p.init)).2
  rw [← hc] at hfst
  have hfst' : ∀ sp ∈ l1, sp.1 ≤ c.tcurr := hfst
  have hf1 : l1.filter (fun sp => sp.1 ≤ t) = l1 := by
    rw [List.filter_eq_self]
    intro a ha
    simpa using le_trans (hfst' a ha) ht
  unfold G
  rw [hl, List.filter_append, hf1, List.foldl_append, List.foldl_append, ← hc,
    foldl_apply1_noop p l1 _ hfst']

private theorem getValue_spec (p : Params T S Sym)
    (hs : p.spikes.Pairwise (fun a b => a.1 < b.1)) (c : Cache T S) (hc : Inv p c) (t : T) :
    Inv p (getValue p c t).1 ∧ (getValue p c t).2 = spec p t := by
  have key : ∀ c0 : Cache T S, Inv p c0 →
      ((c0.tcurr, c0.state) = (0, p.init) ∨ c0.tcurr ≤ t) →
      Inv p (if c0.cacheUpdate then
          { c0 with tcurr := (processSpikes p t p.spikes (c0.tcurr, c0.state)).1,
                    state := (processSpikes p t p.spikes (c0.tcurr, c0.state)).2 } else c0) ∧
        out p t (processSpikes p t p.spikes (c0.tcurr, c0.state)) = spec p t := by
    intro c0 hc0 hcase
    have hr : processSpikes p t p.spikes (c0.tcurr, c0.state) = G p t := by
      rw [processSpikes_eq p t p.spikes hs]
      rcases hcase with h | h
      · rw [h]; rfl
      · exact continue_eq_G p c0 hc0 t h
    rw [hr, spec_eq_G p hs t]
    refine ⟨?_, rfl⟩
    split_ifs
    · exact Inv_G p hs t _ rfl
    · exact hc0
  by_cases hcond : ((!p.enableCaching) || decide (t < c.tcurr)) = true
  · have := key (reset p c) (Inv_reset p c) (Or.inl rfl)
    simpa only [getValue, hcond, if_true, out] using this
  · have hle : c.tcurr ≤ t := by
      simp only [Bool.or_eq_true, decide_eq_true_eq, not_or, not_lt] at hcond
      exact hcond.2
    have hcond' : ((!p.enableCaching) || decide (t < c.tcurr)) = false :=
      Bool.eq_false_iff.mpr hcond
    have := key c hc (Or.inr hle)
    simpa only [getValue, hcond', Bool.false_eq_true, if_false, out] using this

private theorem runOps_spec (p : Params T S Sym)
    (hs : p.spikes.Pairwise (fun a b => a.1 < b.1)) :
    ∀ (ops : List (Op T)) (c : Cache T S), Inv p c → runOps p c ops = expected p ops
  | [], _, _ => rfl
  | op :: ops, c, hc => by
    cases op with
    | get t =>
      obtain ⟨h1, h2⟩ := getValue_spec p hs c hc t
      have ih := runOps_spec p hs ops _ h1
      simp only [runOps, stepOp, expected, List.map_cons] at ih ⊢
      rw [ih, h2]
    | enableUpdate =>
      have ih := runOps_spec p hs ops { c with cacheUpdate := true } hc
      simp only [runOps, stepOp, expected, List.map_cons] at ih ⊢
      rw [ih]
    | disableUpdate =>
      have ih := runOps_spec p hs ops { c with cacheUpdate := false } hc
      simp only [runOps, stepOp, expected, List.map_cons] at ih ⊢
      rw [ih]
    | reset =>
      have ih := runOps_spec p hs ops (reset p c) (Inv_reset p c)
      simp only [runOps, stepOp, expected, List.map_cons] at ih ⊢
      rw [ih]

/-- **History independence / exactness.**  For *every* propagation function `step` (no law assumed,
so this also covers a floating-point `_update_step` as long as `<`, `≤` and `-` on times behave as
in an ordered group), every increment function, every strictly increasing spike list, both caching
modes, and every finite sequence of queries (increasing, repeated, backwards), cache toggles and
resets: the value returned for `t` is `spec p t` — the state obtained by propagating spike to
spike from the initial values and applying every spike in `(0, t]` — whatever was asked before. -/
theorem getValue_history_independent (p : Params T S Sym)
    (hs : p.spikes.Pairwise (fun a b => a.1 < b.1)) (ops : List (Op T)) :
    runOps p (initCache p) ops = expected p ops :=
  runOps_spec p hs ops (initCache p) ⟨[], p.spikes, rfl, rfl⟩

/-- at time 0 the integrator reports the initial values -/
theorem spec_zero (p : Params T S Sym) : spec p 0 = p.init := by
  have hnil : p.spikes.filter (fun sp => decide (0 < sp.1) && decide (sp.1 ≤ 0)) = [] := by
    rw [List.filter_eq_nil_iff]
    intro a _ h
    simp only [Bool.and_eq_true, decide_eq_true_eq] at h
    exact absurd h.1 (not_lt.mpr h.2)
  unfold spec
  simp [hnil]

private theorem foldl_jump_fst (p : Params T S Sym) :
    ∀ (l : List (T × List Sym)) (c : T × S),
      (l.foldl (jump p) c).1 = c.1 ∨ ∃ sp ∈ l, sp.1 = (l.foldl (jump p) c).1
  | [], c => Or.inl rfl
  | x :: l, c => by
    simp only [List.foldl_cons]
    rcases foldl_jump_fst p l (jump p c x) with h | ⟨sp, hsp, h⟩
    · right; exact ⟨x, List.mem_cons_self, by rw [h]; rfl⟩
    · right; exact ⟨sp, List.mem_cons_of_mem _ hsp, h⟩

/-- the time component of the fold used in `spec p t` is in `[0, t]` -/
private theorem specFold_fst_le (p : Params T S Sym) (l : List (T × List Sym)) (t : T)
    (ht : 0 ≤ t) (hl : ∀ sp ∈ l, sp.1 ≤ t) : (l.foldl (jump p) (0, p.init)).1 ≤ t := by
  rcases foldl_jump_fst p l (0, p.init) with h | ⟨sp, hsp, h⟩
  · rw [h]; exact ht
  · rw [← h]; exact hl sp hsp

private theorem flow_aux (p : Params T S Sym)
    (h0 : ∀ s, p.step 0 s = s)
    (hadd : ∀ a b s, 0 ≤ a → 0 ≤ b → p.step (a + b) s = p.step b (p.step a s))
    (r : T × S) (t t' : T) (hr : r.1 ≤ t) (htt' : t ≤ t') :
    out p t' r = p.step (t' - t) (out p t r) := by
  have ha : 0 ≤ t - r.1 := sub_nonneg.mpr hr
  have hb : 0 ≤ t' - t := sub_nonneg.mpr htt'
  have hab : t' - r.1 = (t - r.1) + (t' - t) :=
    (sub_add_sub_cancel' t r.1 t').symm
  unfold out
  by_cases hpa : 0 < t - r.1
  · have hpab : 0 < t' - r.1 := by rw [hab]; exact add_pos_of_pos_of_nonneg hpa hb
    rw [if_pos hpa, if_pos hpab, hab, hadd _ _ _ ha hb]
  · have ha0 : t - r.1 = 0 := le_antisymm (not_lt.mp hpa) ha
    rw [if_neg hpa, hab, ha0, zero_add]
    split_ifs with hpb
    · rfl
    · have hb0 : t' - t = 0 := le_antisymm (not_lt.mp hpb) hb
      rw [hb0, h0]

/-- **Between spikes the reported states are related by the flow.**  If `step` is a semigroup
action (`step 0 = id`, `step (a+b) = step b ∘ step a` for `a, b ≥ 0` — this is what C01 proves of the
propagators) and no spike lies in `(t, t']`, then `spec t' = step (t' - t) (spec t)`. -/
theorem spec_flow (p : Params T S Sym) (hs : p.spikes.Pairwise (fun a b => a.1 < b.1))
    (h0 : ∀ s, p.step 0 s = s)
    (hadd : ∀ a b s, 0 ≤ a → 0 ≤ b → p.step (a + b) s = p.step b (p.step a s))
    (t t' : T) (ht : 0 ≤ t) (htt' : t ≤ t')
    (hno : ∀ sp ∈ p.spikes, ¬ (t < sp.1 ∧ sp.1 ≤ t')) :
    spec p t' = p.step (t' - t) (spec p t) := by
  have hfil : p.spikes.filter (fun sp => decide (0 < sp.1) && decide (sp.1 ≤ t'))
      = p.spikes.filter (fun sp => decide (0 < sp.1) && decide (sp.1 ≤ t)) := by
    apply List.filter_congr
    intro sp hsp
    have : sp.1 ≤ t' ↔ sp.1 ≤ t := by
      constructor
      · intro h
        by_contra hc
        exact hno sp hsp ⟨not_le.mp hc, h⟩
      · intro h; exact le_trans h htt'
    simp [this]
  have hr : ((p.spikes.filter (fun sp => decide (0 < sp.1) && decide (sp.1 ≤ t))).foldl (jump p)
      (0, p.init)).1 ≤ t := by
    apply specFold_fst_le p _ t ht
    intro sp hsp
    have := (List.mem_filter.mp hsp).2
    simp only [Bool.and_eq_true, decide_eq_true_eq] at this
    exact this.2
  have := flow_aux p h0 hadd _ t t' hr htt'
  unfold out at this
  unfold spec
  simp only [hfil]
  exact this

/-- **At a spike the increments of all its variables are applied, once, after propagation.** -/
theorem spec_jump (p : Params T S Sym) (hs : p.spikes.Pairwise (fun a b => a.1 < b.1))
    (h0 : ∀ s, p.step 0 s = s)
    (hadd : ∀ a b s, 0 ≤ a → 0 ≤ b → p.step (a + b) s = p.step b (p.step a s))
    (sp : T × List Sym) (hsp : sp ∈ p.spikes) (hpos : 0 < sp.1)
    (t : T) (ht : 0 ≤ t) (hlt : t < sp.1)
    (hno : ∀ sp' ∈ p.spikes, ¬ (t < sp'.1 ∧ sp'.1 < sp.1)) :
    spec p sp.1 = sp.2.foldl (fun s sym => p.inc sym s) (p.step (sp.1 - t) (spec p t)) := by
  obtain ⟨l1, l2, hl⟩ := List.append_of_mem hsp
  rw [hl, List.pairwise_append, List.pairwise_cons] at hs
  obtain ⟨_, ⟨hl2, _⟩, hl1⟩ := hs
  have hl1' : ∀ a ∈ l1, a.1 < sp.1 := fun a ha => hl1 a ha sp List.mem_cons_self
  have hl1t : ∀ a ∈ l1, a.1 ≤ t := by
    intro a ha
    by_contra hc
    exact hno a (by rw [hl]; exact List.mem_append_left _ ha) ⟨not_le.mp hc, hl1' a ha⟩
  have hf1 : l1.filter (fun sp' => decide (0 < sp'.1) && decide (sp'.1 ≤ sp.1))
      = l1.filter (fun sp' => decide (0 < sp'.1) && decide (sp'.1 ≤ t)) := by
    apply List.filter_congr
    intro a ha
    simp [hl1t a ha, le_of_lt (hl1' a ha)]
  have hf2 : l2.filter (fun sp' => decide (0 < sp'.1) && decide (sp'.1 ≤ sp.1)) = [] := by
    rw [List.filter_eq_nil_iff]
    intro a ha h
    simp only [Bool.and_eq_true, decide_eq_true_eq] at h
    exact absurd h.2 (not_le.mpr (hl2 a ha))
  have hf2t : l2.filter (fun sp' => decide (0 < sp'.1) && decide (sp'.1 ≤ t)) = [] := by
    rw [List.filter_eq_nil_iff]
    intro a ha h
    simp only [Bool.and_eq_true, decide_eq_true_eq] at h
    exact absurd (lt_of_le_of_lt h.2 hlt) (not_lt.mpr (le_of_lt (hl2 a ha)))
  have hr : ((l1.filter (fun sp' => decide (0 < sp'.1) && decide (sp'.1 ≤ t))).foldl (jump p)
      (0, p.init)).1 ≤ t := by
    apply specFold_fst_le p _ t ht
    intro a ha
    exact hl1t a (List.mem_filter.mp ha).1
  have hflow := flow_aux p h0 hadd _ t sp.1 hr (le_of_lt hlt)
  have hspt : spec p t = out p t ((l1.filter (fun sp' => decide (0 < sp'.1) &&
      decide (sp'.1 ≤ t))).foldl (jump p) (0, p.init)) := by
    unfold spec out
    simp [hl, List.filter_append, List.filter_cons, hf2t, not_le.mpr hlt]
  have hsps : spec p sp.1 = sp.2.foldl (fun s sym => p.inc sym s)
      (out p sp.1 ((l1.filter (fun sp' => decide (0 < sp'.1) &&
      decide (sp'.1 ≤ t))).foldl (jump p) (0, p.init))) := by
    have hpos' : 0 < sp.1 - ((l1.filter (fun sp' => decide (0 < sp'.1) &&
      decide (sp'.1 ≤ t))).foldl (jump p) (0, p.init)).1 := sub_pos.mpr (lt_of_le_of_lt hr hlt)
    unfold spec out
    rw [if_pos hpos']
    simp [hl, List.filter_append, List.filter_cons, hf2, hf1, hpos, jump]
  rw [hsps, hflow, hspt]

end GetValue

/-! non-vacuity: a concrete history with a backwards query, a repeated query, coincident spikes and
a cache toggle, over ℤ with symbolic (string) states -/
def demoParams : Params Int String String :=
  { enableCaching := true, spikes := [(2, ["a"]), (5, ["a", "b"])], init := "x0",
    step := fun dt s => "S" ++ toString dt ++ "(" ++ s ++ ")", inc := fun sym s => sym ++ "+" ++ s }

example : runOps demoParams (initCache demoParams) [.get 3, .get 6, .disableUpdate, .get 1, .get 6, .enableUpdate, .get 6, .get 5]
    = expected demoParams [.get 3, .get 6, .disableUpdate, .get 1, .get 6, .enableUpdate, .get 6, .get 5] := by
  decide +kernel

example : setSpikeTimes [("a", [5, 2, 5]), ("b", [5])] = [((2 : Int), ["a"]), (5, ["a", "a", "b"])] := by
  decide +kernel

end OdeVerif.C12
