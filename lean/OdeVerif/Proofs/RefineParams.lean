/-
Refinement: the parameter filter of `_analysis` (which supplied parameters each returned solver lists) as
regenerated from `odetoolbox/__init__.py` on every run (`OdeVerif/Generated/PyParams.lean`) lists, per solver in
order, exactly the supplied parameters for which the model's `SolverDict.paramListed` says so -- i.e. those that
occur in an update expression, a propagator, or an initial value of that solver (`C08.listed_iff_referenced`).
-/
import OdeVerif.Generated.PyParams
import OdeVerif.Model.SolverDict

namespace OdeVerif.Refine
open OdeVerif OdeVerif.SolverDict

/-- one solver: the supplied parameters it lists, in the order they were supplied -/
def listedFor (params : List (String × String)) (v : SolverView) : List String :=
  (params.map (·.1)).filter (fun p => paramListed v.exprSyms v.ivSyms p)

theorem params_for3_eq (p : String) (l : List (String × List String)) (b : Bool) :
    Generated.parameterFilter_for3 p l b = (b || (l.flatMap (·.2)).contains p) := by
  induction l with
  | nil => simp [Generated.parameterFilter_for3]
  | cons a rest ih =>
    obtain ⟨s, e⟩ := a
    unfold Generated.parameterFilter_for3
    by_cases h : p ∈ e
    · simp [h]
    · by_cases hm : p ∈ List.flatMap (·.2) rest <;> simp [h, hm, ih]

theorem params_for4_eq (p : String) (l : List (String × List String)) (b : Bool) :
    Generated.parameterFilter_for4 p l b = (b || (l.flatMap (·.2)).contains p) := by
  induction l with
  | nil => simp [Generated.parameterFilter_for4]
  | cons a rest ih =>
    obtain ⟨s, e⟩ := a
    unfold Generated.parameterFilter_for4
    by_cases h : p ∈ e
    · simp [h]
    · by_cases hm : p ∈ List.flatMap (·.2) rest <;> simp [h, hm, ih]

theorem params_for5_eq (p : String) (l : List (String × List String)) (b : Bool) :
    Generated.parameterFilter_for5 p l b = (b || (l.flatMap (·.2)).contains p) := by
  induction l with
  | nil => simp [Generated.parameterFilter_for5]
  | cons a rest ih =>
    obtain ⟨s, e⟩ := a
    unfold Generated.parameterFilter_for5
    by_cases h : p ∈ e
    · simp [h]
    · by_cases hm : p ∈ List.flatMap (·.2) rest <;> simp [h, hm, ih]

theorem params_decide_mem_append (a b : List String) (p : String) :
    decide (p ∈ a ++ b) = (decide (p ∈ a) || decide (p ∈ b)) := by
  by_cases ha : p ∈ a <;> by_cases hb : p ∈ b <;> simp [ha, hb]

theorem params_ite_congr {α : Type} {b c : Bool} (h : b = c) (x y : α) :
    (if b then x else y) = (if c then x else y) := by
  subst h; rfl

theorem params_for2_cons (v : SolverView) (p e : String) (rest : List (String × String))
    (listed : List (List String)) :
    Generated.parameterFilter_for2 v ((p, e) :: rest) listed =
      Generated.parameterFilter_for2 v rest
        (if paramListed v.exprSyms v.ivSyms p then appendLast listed p else listed) := by
  obtain ⟨hu, hp, hi, u, pr, iv⟩ := v
  rw [Generated.parameterFilter_for2]
  simp only [params_for3_eq, params_for4_eq, params_for5_eq, paramListed,
    SolverView.exprSyms, SolverView.ivSyms]
  cases hu <;> cases hp <;> cases hi <;>
    (apply congrArg; apply params_ite_congr; simp [Bool.or_assoc, params_decide_mem_append])

theorem params_appendLast_snoc (pre : List (List String)) (cur : List String) (p : String) :
    appendLast (pre ++ [cur]) p = pre ++ [cur ++ [p]] := by
  induction pre with
  | nil => simp [appendLast]
  | cons a rest ih =>
    cases rest with
    | nil => simp [appendLast]
    | cons b rest' =>
      simp only [List.cons_append] at ih ⊢
      rw [appendLast, ih]
      simp

theorem params_for2_eq (v : SolverView) (ps : List (String × String)) (pre : List (List String))
    (cur : List String) :
    Generated.parameterFilter_for2 v ps (pre ++ [cur]) =
      pre ++ [cur ++ (ps.map (·.1)).filter (fun p => paramListed v.exprSyms v.ivSyms p)] := by
  induction ps generalizing cur with
  | nil => simp [Generated.parameterFilter_for2]
  | cons a rest ih =>
    obtain ⟨p, e⟩ := a
    rw [params_for2_cons]
    by_cases h : paramListed v.exprSyms v.ivSyms p = true
    · simp [h, params_appendLast_snoc, ih]
    · simp [h, ih]

theorem params_for1_eq (params : List (String × String)) (vs : List SolverView)
    (acc : List (List String)) :
    Generated.parameterFilter_for1 params vs acc = acc ++ vs.map (listedFor params) := by
  induction vs generalizing acc with
  | nil => simp [Generated.parameterFilter_for1]
  | cons v rest ih =>
    rw [Generated.parameterFilter_for1]
    rw [params_for2_eq, ih]
    simp [listedFor]

/-- **every supplied parameter that any expression or initial value of a solver refers to is listed by it, and no other** -/
theorem parameterFilter_refines (params : List (String × String)) (solvers : List SolverView) :
    Generated.parameterFilter true params solvers = solvers.map (listedFor params) := by
  simp [Generated.parameterFilter, params_for1_eq]

/-- without a parameters block nothing is listed -/
theorem parameterFilter_none (params : List (String × String)) (solvers : List SolverView) :
    Generated.parameterFilter false params solvers = [] := by
  simp [Generated.parameterFilter]

end OdeVerif.Refine
