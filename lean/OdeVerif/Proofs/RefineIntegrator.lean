/-
Refinement: the definitions regenerated from `odetoolbox/analytic_integrator.py` (`get_value`) and
`odetoolbox/integrator.py` (`set_spike_times`) on every run (`OdeVerif/Generated/PyIntegrator.lean`)
equal the hand-written model functions that the theorems of `Proofs/C12.lean` are about -- for every
time type, state type, propagation function, cache and query.
-/
import OdeVerif.Generated.PyIntegrator
import OdeVerif.Model.AnalyticIntegrator

namespace OdeVerif.Refine
open OdeVerif

section getValue
variable {Tm St Sy : Type} [LT Tm] [LE Tm] [Sub Tm] [OfNat Tm 0] [DecidableLT Tm] [DecidableLE Tm]

/-- the inner `for spike_sym in spike_syms` loop is the fold of the increments -/
theorem getValue_for2_refines (p : AI.Params Tm St Sy) : ∀ (syms : List Sy) (s : St),
    Generated.getValue_for2 p syms s = syms.foldl (fun s sym => p.inc sym s) s := by
  intro syms
  induction syms with
  | nil => intro s; rfl
  | cons a l ih => intro s; simp only [Generated.getValue_for2, List.foldl_cons, ih]

/-- the spike loop with its `continue` / `break` is `AI.processSpikes` (components swapped) -/
theorem getValue_for1_refines (p : AI.Params Tm St Sy) (t : Tm) : ∀ (sp : List (Tm × List Sy)) (s : St) (tc : Tm),
    Generated.getValue_for1 p t sp s tc = ((AI.processSpikes p t sp (tc, s)).2, (AI.processSpikes p t sp (tc, s)).1) := by
  intro sp
  induction sp with
  | nil => intro s tc; rfl
  | cons x rest ih =>
    intro s tc
    obtain ⟨st, syms⟩ := x
    simp only [Generated.getValue_for1, AI.processSpikes]
    by_cases h1 : st ≤ tc
    · simp only [h1, if_true, ih]
    · simp only [h1, if_false]
      by_cases h2 : t < st
      · simp only [h2, if_true]
      · simp only [h2, if_false]
        by_cases h3 : 0 < st - tc
        · simp only [h3, if_true, getValue_for2_refines, ih]
        · simp only [h3, if_false, getValue_for2_refines, ih]

/-- `AnalyticIntegrator.get_value`, as the source reads now, is the model function `AI.getValue` -/
theorem getValue_refines (p : AI.Params Tm St Sy) (c : AI.Cache Tm St) (t : Tm) :
    Generated.getValue p c t = AI.getValue p c t := by
  simp only [Generated.getValue, AI.getValue, getValue_for1_refines]
  have hc : (if ((¬ p.enableCaching) ∨ (t < c.tcurr)) then AI.reset p c else c)
      = (if (!p.enableCaching) || decide (t < c.tcurr) then AI.reset p c else c) := by
    by_cases h1 : p.enableCaching <;> by_cases h2 : t < c.tcurr <;> simp [h1, h2]
  rw [hc]
  generalize (if (!p.enableCaching) || decide (t < c.tcurr) then AI.reset p c else c) = c0
  generalize AI.processSpikes p t p.spikes (c0.tcurr, c0.state) = r
  by_cases h3 : c0.cacheUpdate = true
  · by_cases h4 : 0 < t - r.1
    · simp only [h3, h4, if_true]
    · simp only [h3, h4, if_true, if_false]
  · by_cases h4 : 0 < t - r.1
    · simp only [h3, h4, if_true]
    · simp only [h3, h4, if_false]

end getValue

section merge
variable {Tm Sy : Type} [DecidableEq Tm]

theorem zip_set_mem (t : Tm) (sym : Sy) : ∀ (times : List Tm) (syms : List (List Sy)),
    times.length = syms.length → t ∈ times →
    List.zip times (syms.set (times.idxOf t) (syms.getD (times.idxOf t) [] ++ [sym]))
      = AI.mergeOne (List.zip times syms) t sym := by
  intro times
  induction times with
  | nil => intro syms _ h; cases h
  | cons a l ih =>
    intro syms hl hm
    cases syms with
    | nil => simp at hl
    | cons b bs =>
      have hl' : l.length = bs.length := by simpa using hl
      by_cases hat : a = t
      · subst hat
        simp [AI.mergeOne]
      · have hm' : t ∈ l := by
          rcases List.mem_cons.1 hm with h | h
          · exact absurd h.symm hat
          · exact h
        have hb : (a == t) = false := by simpa using hat
        simp only [List.idxOf_cons, hb, cond_false, List.set_cons_succ, List.getD_cons_succ,
          List.zip_cons_cons, AI.mergeOne, hat, if_false, ih bs hl' hm']

theorem zip_append_not_mem (t : Tm) (sym : Sy) : ∀ (times : List Tm) (syms : List (List Sy)),
    times.length = syms.length → t ∉ times →
    List.zip (times ++ [t]) (syms ++ [[sym]]) = AI.mergeOne (List.zip times syms) t sym := by
  intro times
  induction times with
  | nil =>
    intro syms hl _
    cases syms with
    | nil => rfl
    | cons b bs => simp at hl
  | cons a l ih =>
    intro syms hl hm
    cases syms with
    | nil => simp at hl
    | cons b bs =>
      have hl' : l.length = bs.length := by simpa using hl
      have hat : ¬ a = t := fun h => hm (by simp [h])
      have hm' : t ∉ l := fun h => hm (List.mem_cons_of_mem _ h)
      simp only [List.cons_append, List.zip_cons_cons, AI.mergeOne, hat, if_false, ih bs hl' hm']

theorem mergeSpikes_for2_inv (sym : Sy) : ∀ (ts : List Tm) (syms : List (List Sy)) (times : List Tm),
    times.length = syms.length →
    (Generated.mergeSpikes_for2 sym ts syms times).2.length
        = (Generated.mergeSpikes_for2 sym ts syms times).1.length ∧
    List.zip (Generated.mergeSpikes_for2 sym ts syms times).2 (Generated.mergeSpikes_for2 sym ts syms times).1
      = ts.foldl (fun acc t => AI.mergeOne acc t sym) (List.zip times syms) := by
  intro ts
  induction ts with
  | nil => intro syms times hl; exact ⟨hl, rfl⟩
  | cons t rest ih =>
    intro syms times hl
    simp only [Generated.mergeSpikes_for2, List.foldl_cons, Py.index, Py.set, Py.getD]
    by_cases hm : t ∈ times
    · simp only [hm, if_true]
      rw [← zip_set_mem t sym times syms hl hm]
      exact ih _ _ (by simp [hl])
    · simp only [hm, if_false]
      rw [← zip_append_not_mem t sym times syms hl hm]
      exact ih _ _ (by simp [hl])

theorem mergeSpikes_for1_inv : ∀ (d : List (Sy × List Tm)) (syms : List (List Sy)) (times : List Tm),
    times.length = syms.length →
    (Generated.mergeSpikes_for1 d syms times).2.length
        = (Generated.mergeSpikes_for1 d syms times).1.length ∧
    List.zip (Generated.mergeSpikes_for1 d syms times).2 (Generated.mergeSpikes_for1 d syms times).1
      = d.foldl (fun acc kv => kv.2.foldl (fun acc t => AI.mergeOne acc t kv.1) acc) (List.zip times syms) := by
  intro d
  induction d with
  | nil => intro syms times hl; exact ⟨hl, rfl⟩
  | cons kv rest ih =>
    intro syms times hl
    obtain ⟨sym, ts⟩ := kv
    simp only [Generated.mergeSpikes_for1, List.foldl_cons]
    have h := mergeSpikes_for2_inv sym ts syms times hl
    rw [← h.2]
    exact ih _ _ h.1

/-- the two parallel lists built by the merge loops of `set_spike_times`, zipped, are the model's
list of (time, symbols) pairs; and they have the same length -/
theorem mergeSpikes_refines (d : List (Sy × List Tm)) :
    (Generated.mergeSpikes d).1.length = (Generated.mergeSpikes d).2.length ∧
    List.zip (Generated.mergeSpikes d).1 (Generated.mergeSpikes d).2 = AI.mergeAll d := by
  have h := mergeSpikes_for1_inv d ([] : List (List Sy)) ([] : List Tm) rfl
  simp only [Generated.mergeSpikes, AI.mergeAll]
  exact h

/-- hence `set_spike_times` = sort (the NumPy `argsort` contract) of the regenerated merge -/
theorem setSpikeTimes_refines [LE Tm] [DecidableLE Tm] (d : List (Sy × List Tm)) :
    AI.setSpikeTimes d = AI.sortByTime (List.zip (Generated.mergeSpikes d).1 (Generated.mergeSpikes d).2) := by
  rw [(mergeSpikes_refines d).2]; rfl

end merge

end OdeVerif.Refine
