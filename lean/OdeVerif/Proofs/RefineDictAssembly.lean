import OdeVerif.Generated.PyDictAssembly
/-!
The assembly of the two kinds of solver dictionary (`generate_numeric_solver`, tail of `generate_propagator_solver`), regenerated.
-/
namespace OdeVerif.Refine
open OdeVerif

/-- numeric solver: the state variables are those of the (sub-)system in its order, with exactly one initial value each -/
theorem generateNumericSolver_spec {β γ : Type} (x : List String) (getIv : String → β) (r : γ) :
    Generated.generateNumericSolver x getIv r = (r, x, x.map (fun s => (s, getIv s))) := rfl

/-- analytical solver: likewise, next to the propagators and update expressions of the assembly loop -/
theorem propagatorSolverDict_spec {β γ δ : Type} (x : List String) (getIv : String → β) (P : δ) (u : γ) :
    Generated.propagatorSolverDict x getIv P u = (P, u, x, x.map (fun s => (s, getIv s))) := rfl

/-- one initial value per state variable, keyed by it -/
theorem solverDict_iv_keys {β : Type} (x : List String) (getIv : String → β) :
    ((x.map (fun s => (s, getIv s))).map Prod.fst) = x := by
  simp [List.map_map, Function.comp_def]

end OdeVerif.Refine
