import OdeVerif.Generated.PyComponents
import OdeVerif.Lemmas.Assoc
/-!
Refinement: the regenerated `get_connected_component_indices`.
-/
namespace OdeVerif.Refine
open OdeVerif

/-! ### `get_connected_component_indices` -/

theorem connectedComponentIndices_refines (anz : Nat → Nat → Bool) (n : Nat) (cc : (Nat → Nat → Bool) → Nat → Nat) :
    Generated.connectedComponentIndices anz n cc = Glue.groupByLabel (cc (Glue.mirror anz)) n := by
  rfl

/-- the pattern handed to SciPy is symmetric and contains every non-zero entry of `A` (nothing cancels) -/
theorem mirror_spec (anz : Nat → Nat → Bool) (i j : Nat) :
    Glue.mirror anz i j = Glue.mirror anz j i ∧ (anz i j = true → Glue.mirror anz i j = true) ∧
      (Glue.mirror anz i j = true → anz i j = true ∨ anz j i = true) := by
  unfold Glue.mirror
  cases anz i j <;> cases anz j i <;> simp

/-- the index groups cover `0 … n-1` -/
theorem mem_groupByLabel (labels : Nat → Nat) (n i : Nat) (hi : i < n) : ∃ b ∈ Glue.groupByLabel labels n, i ∈ b := by
  have hmem : labels i ∈ (List.range n).map labels := List.mem_map.2 ⟨i, List.mem_range.2 hi, rfl⟩
  refine ⟨(List.range n).filter (fun j => decide (labels j = labels i)), ?_, ?_⟩
  · unfold Glue.groupByLabel
    refine List.mem_map.2 ⟨labels i, ?_, rfl⟩
    refine List.mem_filter.2 ⟨?_, by simpa using hmem⟩
    refine List.mem_range.2 (Nat.lt_succ_of_le ?_)
    exact (step_le_foldl_max _ 0).2 _ hmem
  · exact List.mem_filter.2 ⟨List.mem_range.2 hi, by simp⟩

/-- a group holds exactly the indices of one label -/
theorem groupByLabel_same (labels : Nat → Nat) (n : Nat) (b : List Nat) (hb : b ∈ Glue.groupByLabel labels n) (i j : Nat)
    (hi : i ∈ b) : j ∈ b ↔ (j < n ∧ labels j = labels i) := by
  unfold Glue.groupByLabel at hb
  obtain ⟨l, _, rfl⟩ := List.mem_map.1 hb
  have hil : labels i = l := by
    have := (List.mem_filter.1 hi).2
    simpa using this
  subst hil
  simp [List.mem_filter]

end OdeVerif.Refine
