/-
The scatter loop of `SystemOfShapes._generate_propagator_matrix` as regenerated from
`odetoolbox/system_of_shapes.py` on every run (`OdeVerif/Generated/PyScatter.lean`): for a partition of the indices
into components, entry (i, j) of the assembled propagator matrix is the entry of the component's own exponential at
the block-local positions of i and j when both lie in the same component, and zero otherwise - the matrix
`Propagator.scatter` / `C01.blocks_sound` are about.
-/
import OdeVerif.Generated.PyScatter
import OdeVerif.Model.Propagator
import Mathlib.Data.List.Nodup
import Mathlib.Data.List.Pairwise

namespace OdeVerif.Refine
open OdeVerif

/-- the components are index lists without repetition, pairwise disjoint (what `get_connected_component_indices` returns) -/
structure IsPartition (comps : List (List Nat)) : Prop where
  nodup : ∀ c ∈ comps, c.Nodup
  disjoint : comps.Pairwise (fun a b => ∀ x, x ∈ a → x ∉ b)


theorem scat_mem_enum (l : List Nat) (k : Nat) (p : Nat × Nat)
    (hp : p ∈ (l.zipIdx k).map (fun p => (p.2, p.1))) : p.2 ∈ l := by
  induction l generalizing k with
  | nil => simp at hp
  | cons x xs ih =>
    simp only [List.zipIdx_cons, List.map_cons, List.mem_cons] at hp
    rcases hp with hp | hp
    · subst hp; simp
    · exact List.mem_cons_of_mem _ (ih _ hp)

theorem scat_for3_untouched {K : Type} [OfNat K 0] (E : List Nat → Nat → Nat → K) (i ib : Nat) (idx : List Nat)
    (L : List (Nat × Nat)) (P : Nat → Nat → K) (a b : Nat) (h : ∀ p ∈ L, ¬ (a = i ∧ b = p.2)) :
    Generated.scatterBlocks_for3 E i ib idx L P a b = P a b := by
  induction L generalizing P with
  | nil => rfl
  | cons p L ih =>
    obtain ⟨jb, j⟩ := p
    simp only [Generated.scatterBlocks_for3]
    rw [ih _ (fun p hp => h p (List.mem_cons_of_mem _ hp))]
    have := h (jb, j) (List.mem_cons_self ..)
    simp only [Py.update2]
    rw [if_neg this]

theorem scat_for3_eq {K : Type} [OfNat K 0] (E : List Nat → Nat → Nat → K) (i ib : Nat) (idx : List Nat)
    (l : List Nat) (k : Nat) (P : Nat → Nat → K) (hl : l.Nodup) (a b : Nat) :
    Generated.scatterBlocks_for3 E i ib idx ((l.zipIdx k).map (fun p => (p.2, p.1))) P a b =
      if a = i ∧ b ∈ l then E idx ib (k + l.idxOf b) else P a b := by
  induction l generalizing k P with
  | nil => simp [Generated.scatterBlocks_for3]
  | cons x xs ih =>
    rw [List.nodup_cons] at hl
    simp only [List.zipIdx_cons, List.map_cons, Generated.scatterBlocks_for3]
    rw [ih _ _ hl.2]
    by_cases hb : b = x
    · subst hb
      simp [hl.1, Py.update2]
    · have h1 : (x :: xs).idxOf b = xs.idxOf b + 1 := List.idxOf_cons_ne _ (Ne.symm hb)
      have h2 : k + 1 + xs.idxOf b = k + (xs.idxOf b + 1) := by omega
      simp [hb, Py.update2, h1, h2]

theorem scat_for2_untouched {K : Type} [OfNat K 0] (E : List Nat → Nat → Nat → K) (idx : List Nat)
    (L : List (Nat × Nat)) (P : Nat → Nat → K) (a b : Nat) (h : ∀ p ∈ L, ¬ (a = p.2 ∧ b ∈ idx)) :
    Generated.scatterBlocks_for2 E idx L P a b = P a b := by
  induction L generalizing P with
  | nil => rfl
  | cons p L ih =>
    obtain ⟨ib, i⟩ := p
    simp only [Generated.scatterBlocks_for2]
    rw [ih _ (fun p hp => h p (List.mem_cons_of_mem _ hp))]
    apply scat_for3_untouched
    intro q hq hab
    exact h (ib, i) (List.mem_cons_self ..) ⟨hab.1, hab.2 ▸ scat_mem_enum idx 0 q hq⟩

theorem scat_for2_eq {K : Type} [OfNat K 0] (E : List Nat → Nat → Nat → K) (idx : List Nat) (hidx : idx.Nodup)
    (l : List Nat) (k : Nat) (P : Nat → Nat → K) (hl : l.Nodup) (a b : Nat) :
    Generated.scatterBlocks_for2 E idx ((l.zipIdx k).map (fun p => (p.2, p.1))) P a b =
      if a ∈ l ∧ b ∈ idx then E idx (k + l.idxOf a) (idx.idxOf b) else P a b := by
  induction l generalizing k P with
  | nil => simp [Generated.scatterBlocks_for2]
  | cons x xs ih =>
    rw [List.nodup_cons] at hl
    simp only [List.zipIdx_cons, List.map_cons, Generated.scatterBlocks_for2]
    rw [ih _ _ hl.2]
    have h3 := scat_for3_eq E x k idx idx 0 P hidx a b
    rw [Py.enumerate, h3]
    by_cases ha : a = x
    · subst ha
      simp [hl.1]
    · have h1 : (x :: xs).idxOf a = xs.idxOf a + 1 := List.idxOf_cons_ne _ (Ne.symm ha)
      have h2 : k + 1 + xs.idxOf a = k + (xs.idxOf a + 1) := by omega
      simp [ha, h1, h2]

theorem scat_for1_untouched {K : Type} [OfNat K 0] (E : List Nat → Nat → Nat → K) (comps : List (List Nat))
    (P : Nat → Nat → K) (a b : Nat) (h : ∀ c ∈ comps, ¬ (a ∈ c ∧ b ∈ c)) :
    Generated.scatterBlocks_for1 E comps P a b = P a b := by
  induction comps generalizing P with
  | nil => rfl
  | cons d ds ih =>
    simp only [Generated.scatterBlocks_for1]
    rw [ih _ (fun c hc => h c (List.mem_cons_of_mem _ hc))]
    apply scat_for2_untouched
    intro q hq hab
    exact h d (List.mem_cons_self ..) ⟨hab.1 ▸ scat_mem_enum d 0 q hq, hab.2⟩

theorem scat_for1_inside {K : Type} [OfNat K 0] (E : List Nat → Nat → Nat → K) (comps : List (List Nat))
    (h : IsPartition comps) (P : Nat → Nat → K) (c : List Nat) (hc : c ∈ comps) (a b : Nat)
    (ha : a ∈ c) (hb : b ∈ c) :
    Generated.scatterBlocks_for1 E comps P a b = E c (c.idxOf a) (c.idxOf b) := by
  induction comps generalizing P with
  | nil => simp at hc
  | cons d ds ih =>
    obtain ⟨hnd, hdis⟩ := h
    rw [List.pairwise_cons] at hdis
    simp only [Generated.scatterBlocks_for1]
    rcases List.mem_cons.1 hc with hcd | hcd
    · subst hcd
      rw [scat_for1_untouched E ds _ a b (fun c' hc' hab => hdis.1 c' hc' a ha hab.1)]
      have := scat_for2_eq E c (hnd c hc) c 0 P (hnd c hc) a b
      rw [Py.enumerate, this]
      simp [ha, hb]
    · exact ih ⟨fun c' hc' => hnd c' (List.mem_cons_of_mem _ hc'), hdis.2⟩ _ hcd

/-- inside a component: the block's entry at the positions of `i` and `j` in that component -/
theorem scatterBlocks_inside {K : Type} [OfNat K 0] (comps : List (List Nat)) (E : List Nat → Nat → Nat → K)
    (h : IsPartition comps) (c : List Nat) (hc : c ∈ comps) (i j : Nat) (hi : i ∈ c) (hj : j ∈ c) :
    Generated.scatterBlocks comps E i j = E c (c.idxOf i) (c.idxOf j) := by
  exact scat_for1_inside E comps h _ c hc i j hi hj

/-- across components, and outside every component: zero -/
theorem scatterBlocks_outside {K : Type} [OfNat K 0] (comps : List (List Nat)) (E : List Nat → Nat → Nat → K)
    (i j : Nat) (h : ∀ c ∈ comps, ¬ (i ∈ c ∧ j ∈ c)) :
    Generated.scatterBlocks comps E i j = 0 := by
  exact scat_for1_untouched E comps _ i j h


theorem scat_components_partition {n : Nat} (lab : Fin n → Nat) :
    IsPartition ((Propagator.components lab).map (fun c => c.map Fin.val)) := by
  constructor
  · intro c hc
    simp only [Propagator.components, List.map_map, List.mem_map] at hc
    obtain ⟨r, _, rfl⟩ := hc
    exact ((List.nodup_finRange n).filter _).map (fun _ _ h => Fin.ext h)
  · simp only [Propagator.components, List.map_map]
    rw [List.pairwise_map]
    have hnd : ((List.finRange n).filter (fun i => decide (lab i = i.val))).Nodup :=
      (List.nodup_finRange n).filter _
    refine List.Pairwise.imp ?_ hnd
    intro r r' hne x hx hx'
    simp only [Function.comp, List.mem_map, List.mem_filter, decide_eq_true_eq] at hx hx'
    obtain ⟨k, ⟨_, hk⟩, rfl⟩ := hx
    obtain ⟨k', ⟨_, hk'⟩, hkk⟩ := hx'
    have : k' = k := Fin.ext hkk
    subst this
    exact hne (Fin.ext (hk.symm.trans hk'))

/-- hence the model's scattered matrix: with the components of a labelling `lab` (every class listed once, by increasing
index) and `E'` the per-component exponential at original indices -/
theorem scatterBlocks_eq_scatter {n : Nat} {K : Type} [OfNat K 0] (lab : Fin n → Nat)
    (E' : List (Fin n) → Fin n → Fin n → K)
    (hroot : ∀ i : Fin n, ∃ r : Fin n, lab r = r.val ∧ lab i = r.val)
    (E : List Nat → Nat → Nat → K)
    (hE : ∀ (c : List (Fin n)) (a b : Fin n), a ∈ c → b ∈ c → c.Nodup →
      E (c.map Fin.val) ((c.map Fin.val).idxOf a.val) ((c.map Fin.val).idxOf b.val) = E' c a b)
    (i j : Fin n) :
    Generated.scatterBlocks ((Propagator.components lab).map (fun c => c.map Fin.val)) E i.val j.val =
      Propagator.scatter lab E' i j := by
  unfold Propagator.scatter
  by_cases hij : lab i = lab j
  · rw [if_pos hij]
    obtain ⟨r, hr, hir⟩ := hroot i
    have hcl : (List.finRange n).filter (fun k => decide (lab k = lab i)) =
        (List.finRange n).filter (fun k => decide (lab k = r.val)) := by rw [hir]
    have hic : i ∈ (List.finRange n).filter (fun k => decide (lab k = lab i)) := by simp
    have hjc : j ∈ (List.finRange n).filter (fun k => decide (lab k = lab i)) := by simp [hij]
    have hmem : ((List.finRange n).filter (fun k => decide (lab k = lab i))).map Fin.val ∈
        (Propagator.components lab).map (fun c => c.map Fin.val) := by
      refine List.mem_map.2 ⟨_, ?_, rfl⟩
      rw [hcl]
      exact List.mem_map.2 ⟨r, by simp [hr], rfl⟩
    rw [scatterBlocks_inside _ E (scat_components_partition lab) _ hmem i.val j.val
      (List.mem_map_of_mem hic) (List.mem_map_of_mem hjc)]
    exact hE _ i j hic hjc ((List.nodup_finRange n).filter _)
  · rw [if_neg hij]
    apply scatterBlocks_outside
    intro c hc hab
    simp only [Propagator.components, List.map_map, List.mem_map] at hc
    obtain ⟨r, _, rfl⟩ := hc
    simp only [Function.comp, List.mem_map, List.mem_filter, decide_eq_true_eq] at hab
    obtain ⟨⟨k, ⟨_, hk⟩, hki⟩, ⟨k', ⟨_, hk'⟩, hkj⟩⟩ := hab
    have e1 : k = i := Fin.ext hki
    have e2 : k' = j := Fin.ext hkj
    subst e1 e2
    exact hij (hk.trans hk'.symm)

end OdeVerif.Refine
