/-
Correctness of the executable reachability closures used by the models
(`Graph.reach` on `Nat` indices for strong components; `Propagator.reach` on `Fin n` for connected
components) and soundness of the component labelling the propagator model computes itself.
-/
import OdeVerif.Model.Graph
import OdeVerif.Model.Propagator
import Mathlib.Logic.Relation
import Mathlib.Logic.Function.Iterate
import Mathlib.Data.Finset.Card
import Mathlib.Data.Finset.Filter

namespace OdeVerif.ReachSpec

/-- edges restricted to the index range `0 … n-1` -/
def EdgeN (n : Nat) (e : Nat → Nat → Bool) (a b : Nat) : Prop := a < n ∧ b < n ∧ e a b = true

/-! ### generic relaxation over a list `L` of admissible vertices -/

section Generic

variable {α : Type}

/-- the common shape of `Graph.relax` and `Propagator.relax` -/
private def grelax (L : List α) (e r : α → α → Bool) : α → α → Bool :=
  fun i j => r i j || L.any (fun k => r i k && e k j)

private def GEdge (L : List α) (e : α → α → Bool) (a b : α) : Prop := a ∈ L ∧ b ∈ L ∧ e a b = true

private theorem aux_it_succ (L : List α) (e r0 : α → α → Bool) (m : Nat) (i j : α) :
    (grelax L e)^[m + 1] r0 i j = true ↔
      ((grelax L e)^[m] r0 i j = true ∨ ∃ k, k ∈ L ∧ (grelax L e)^[m] r0 i k = true ∧ e k j = true) := by
  rw [Function.iterate_succ_apply']
  simp only [grelax, Bool.or_eq_true, List.any_eq_true, Bool.and_eq_true]

private theorem aux_it_mono (L : List α) (e r0 : α → α → Bool) {m m' : Nat} (h : m ≤ m') (i j : α)
    (hm : (grelax L e)^[m] r0 i j = true) : (grelax L e)^[m'] r0 i j = true := by
  induction h with
  | refl => exact hm
  | step _ ih => exact (aux_it_succ L e r0 _ i j).2 (Or.inl ih)

private theorem aux_it_sound (L : List α) (e r0 : α → α → Bool) (h0 : ∀ i j, r0 i j = true ↔ i = j)
    (i : α) : ∀ (m : Nat) (j : α), j ∈ L → (grelax L e)^[m] r0 i j = true →
      Relation.ReflTransGen (GEdge L e) i j := by
  intro m
  induction m with
  | zero =>
    intro j _ h
    have : i = j := (h0 i j).1 h
    subst this
    exact Relation.ReflTransGen.refl
  | succ m ih =>
    intro j hj h
    rcases (aux_it_succ L e r0 m i j).1 h with h | ⟨k, hk, hik, hkj⟩
    · exact ih j hj h
    · exact (ih k hk hik).tail ⟨hk, hj, hkj⟩

private theorem aux_it_stable (L : List α) (e r0 : α → α → Bool) (h0 : ∀ i j, r0 i j = true ↔ i = j)
    (i : α) (m : Nat)
    (hst : ∀ j, j ∈ L → (grelax L e)^[m + 1] r0 i j = true → (grelax L e)^[m] r0 i j = true)
    (j : α) (h : Relation.ReflTransGen (GEdge L e) i j) : (grelax L e)^[m] r0 i j = true := by
  induction h with
  | refl => exact aux_it_mono L e r0 (Nat.zero_le m) i i ((h0 i i).2 rfl)
  | tail _ hkj ih =>
    obtain ⟨hk, hj, hkj⟩ := hkj
    exact hst _ hj ((aux_it_succ L e r0 m i _).2 (Or.inr ⟨_, hk, ih, hkj⟩))

private theorem aux_exists_stable [DecidableEq α] (L : List α) (e r0 : α → α → Bool) (h0 : ∀ i j, r0 i j = true ↔ i = j)
    (i : α) (hi : i ∈ L) (m : Nat) :
    (∃ m', m' < m ∧ ∀ j, j ∈ L → (grelax L e)^[m' + 1] r0 i j = true → (grelax L e)^[m'] r0 i j = true) ∨
      m + 1 ≤ (L.toFinset.filter (fun j => (grelax L e)^[m] r0 i j = true)).card := by
  induction m with
  | zero =>
    right
    apply Finset.card_pos.2
    exact ⟨i, Finset.mem_filter.2 ⟨List.mem_toFinset.2 hi, (h0 i i).2 rfl⟩⟩
  | succ m ih =>
    rcases ih with ⟨m', hm', hst⟩ | hc
    · exact Or.inl ⟨m', Nat.lt_succ_of_lt hm', hst⟩
    · by_cases hst : ∀ j, j ∈ L → (grelax L e)^[m + 1] r0 i j = true → (grelax L e)^[m] r0 i j = true
      · exact Or.inl ⟨m, Nat.lt_succ_self m, hst⟩
      · right
        push Not at hst
        obtain ⟨j, hj, hj1, hj0⟩ := hst
        have hlt : (L.toFinset.filter (fun j => (grelax L e)^[m] r0 i j = true)).card <
            (L.toFinset.filter (fun j => (grelax L e)^[m + 1] r0 i j = true)).card := by
          apply Finset.card_lt_card
          rw [Finset.ssubset_iff_of_subset]
          · exact ⟨j, Finset.mem_filter.2 ⟨List.mem_toFinset.2 hj, hj1⟩,
              fun hx => hj0 (Finset.mem_filter.1 hx).2⟩
          · intro x hx
            rw [Finset.mem_filter] at hx ⊢
            exact ⟨hx.1, aux_it_mono L e r0 (Nat.le_succ m) i x hx.2⟩
        omega

private theorem aux_generic [DecidableEq α] (L : List α) (e r0 : α → α → Bool) (h0 : ∀ i j, r0 i j = true ↔ i = j)
    (i j : α) (hi : i ∈ L) (hj : j ∈ L) :
    (grelax L e)^[L.length] r0 i j = true ↔ Relation.ReflTransGen (GEdge L e) i j := by
  constructor
  · exact aux_it_sound L e r0 h0 i _ j hj
  · intro h
    rcases aux_exists_stable L e r0 h0 i hi L.length with ⟨m', hm', hst⟩ | hc
    · exact aux_it_mono L e r0 (Nat.le_of_lt hm') i j (aux_it_stable L e r0 h0 i m' hst j h)
    · exfalso
      have h1 : (L.toFinset.filter (fun j => (grelax L e)^[L.length] r0 i j = true)).card ≤
          L.toFinset.card := Finset.card_filter_le _ _
      have h2 := List.toFinset_card_le L
      omega

end Generic

/-- **`Graph.reach` is the reflexive-transitive closure** of the edge relation inside `0 … n-1`
(`n` relaxation rounds suffice: a shortest path visits every vertex at most once). -/
theorem graph_reach_iff (n : Nat) (e : Nat → Nat → Bool) (i j : Nat) (hi : i < n) (hj : j < n) :
    Graph.reach n e i j = true ↔ Relation.ReflTransGen (EdgeN n e) i j := by
  have hE : EdgeN n e = GEdge (List.range n) e := by
    funext a b
    simp [EdgeN, GEdge, List.mem_range]
  have hR : Graph.reach n e = (grelax (List.range n) e)^[(List.range n).length] (fun i j => i == j) := by
    unfold Graph.reach
    rw [List.foldl_const]
    rfl
  rw [hE, hR]
  exact aux_generic (List.range n) e _ (by intro a b; simp) i j
    (List.mem_range.2 hi) (List.mem_range.2 hj)

/-- hence the component size used by the first demotion rule is the size of the strongly
connected component of `i` in the non-zero pattern of `A` -/
theorem sccSize_spec (s : Graph.Sys) (i : Nat) (hi : i < s.n) :
    ∃ members : List Nat, members.Nodup ∧ Graph.sccSize s i = members.length ∧
      ∀ j, j ∈ members ↔ (j < s.n ∧ Relation.ReflTransGen (EdgeN s.n s.anz) i j ∧
                                      Relation.ReflTransGen (EdgeN s.n s.anz) j i) := by
  refine ⟨(List.range s.n).filter
    (fun j => Graph.reach s.n s.anz i j && Graph.reach s.n s.anz j i), ?_, rfl, ?_⟩
  · exact List.Nodup.filter _ List.nodup_range
  · intro j
    rw [List.mem_filter, List.mem_range, Bool.and_eq_true]
    constructor
    · rintro ⟨hj, h1, h2⟩
      exact ⟨hj, (graph_reach_iff _ _ i j hi hj).1 h1, (graph_reach_iff _ _ j i hj hi).1 h2⟩
    · rintro ⟨hj, h1, h2⟩
      exact ⟨hj, (graph_reach_iff _ _ i j hi hj).2 h1, (graph_reach_iff _ _ j i hj hi).2 h2⟩

variable {n : Nat}

/-- **`Propagator.reach` is the reflexive-transitive closure** on `Fin n`. -/
theorem prop_reach_iff (e : Fin n → Fin n → Bool) (i j : Fin n) :
    Propagator.reach e i j = true ↔ Relation.ReflTransGen (fun a b => e a b = true) i j := by
  have hE : (fun a b => e a b = true) = GEdge (List.finRange n) e := by
    funext a b
    simp [GEdge, List.mem_finRange]
  have hR : Propagator.reach e =
      (grelax (List.finRange n) e)^[(List.finRange n).length] (fun i j => decide (i = j)) := by
    unfold Propagator.reach
    rw [List.foldl_const, List.length_range, List.length_finRange]
    rfl
  rw [hE, hR]
  exact aux_generic (List.finRange n) e _ (by intro a b; simp) i j
    (List.mem_finRange i) (List.mem_finRange j)

private theorem aux_rtg_symm {α : Type} {r : α → α → Prop} (hs : ∀ a b, r a b → r b a) {a b : α}
    (h : Relation.ReflTransGen r a b) : Relation.ReflTransGen r b a := by
  induction h with
  | refl => exact Relation.ReflTransGen.refl
  | tail _ hbc ih => exact Relation.ReflTransGen.head (hs _ _ hbc) ih

private theorem aux_reach_self (e : Fin n → Fin n → Bool) (i : Fin n) :
    Propagator.reach e i i = true :=
  (prop_reach_iff e i i).2 Relation.ReflTransGen.refl

private theorem aux_label_spec (e : Fin n → Fin n → Bool) (i : Fin n) :
    ∃ j0 : Fin n, Propagator.label e i = j0.val ∧ Propagator.reach e i j0 = true := by
  unfold Propagator.label
  cases hf : (List.finRange n).find? (fun j => Propagator.reach e i j) with
  | some j0 => exact ⟨j0, rfl, List.find?_some hf⟩
  | none =>
    exfalso
    rw [List.find?_eq_none] at hf
    exact hf i (List.mem_finRange i) (aux_reach_self e i)

private theorem aux_label_congr (e : Fin n → Fin n → Bool) (i j : Fin n)
    (h : ∀ k, Propagator.reach e i k = Propagator.reach e j k) :
    Propagator.label e i = Propagator.label e j := by
  have hfun : (fun k => Propagator.reach e i k) = (fun k => Propagator.reach e j k) := funext h
  unfold Propagator.label
  rw [hfun]
  cases hf : (List.finRange n).find? (fun k => Propagator.reach e j k) with
  | some j0 => rfl
  | none =>
    exfalso
    rw [List.find?_eq_none] at hf
    exact hf j (List.mem_finRange j) (aux_reach_self e j)

private theorem aux_mirror_symm {K : Type} [DecidableEq K] [OfNat K 0] (A : Fin n → Fin n → K)
    (a b : Fin n) (h : Propagator.mirror A a b = true) : Propagator.mirror A b a = true := by
  unfold Propagator.mirror at h ⊢
  rw [Bool.or_comm]
  exact h

/-- two indices get the same label iff they are connected in the symmetrised pattern -/
private theorem aux_label_eq_iff {K : Type} [DecidableEq K] [OfNat K 0] (A : Fin n → Fin n → K)
    (i j : Fin n) :
    Propagator.label (Propagator.mirror A) i = Propagator.label (Propagator.mirror A) j ↔
      Relation.ReflTransGen (fun a b => Propagator.mirror A a b = true) i j := by
  have hs : ∀ a b : Fin n, (fun a b => Propagator.mirror A a b = true) a b →
      (fun a b => Propagator.mirror A a b = true) b a := aux_mirror_symm A
  constructor
  · intro h
    obtain ⟨i0, hi0, hri⟩ := aux_label_spec (Propagator.mirror A) i
    obtain ⟨j0, hj0, hrj⟩ := aux_label_spec (Propagator.mirror A) j
    have h01 : i0 = j0 := Fin.ext (by rw [← hi0, ← hj0, h])
    subst h01
    exact ((prop_reach_iff _ _ _).1 hri).trans (aux_rtg_symm hs ((prop_reach_iff _ _ _).1 hrj))
  · intro h
    apply aux_label_congr
    intro k
    rw [Bool.eq_iff_iff, prop_reach_iff, prop_reach_iff]
    exact ⟨fun h1 => (aux_rtg_symm hs h).trans h1, fun h1 => h.trans h1⟩

/-- **The labelling the model computes always passes its own check**: for the symmetrised non-zero
pattern of any matrix, coupled indices get the same label — so the model never rejects a system
the code accepts, and `C01.blocks_sound` applies to the model's own labelling unconditionally. -/
theorem label_ok {K : Type} [DecidableEq K] [OfNat K 0] (A : Fin n → Fin n → K) :
    Propagator.labelsOk A (Propagator.label (Propagator.mirror A)) = true := by
  unfold Propagator.labelsOk
  rw [List.all_eq_true]
  intro i _
  rw [List.all_eq_true]
  intro j _
  cases hm : Propagator.mirror A i j with
  | false => rfl
  | true =>
    have : Propagator.label (Propagator.mirror A) i = Propagator.label (Propagator.mirror A) j :=
      (aux_label_eq_iff A i j).2 (Relation.ReflTransGen.single hm)
    simp [this]

/-- two indices get the same label iff they are connected in the symmetrised pattern -/
theorem label_eq_iff {K : Type} [DecidableEq K] [OfNat K 0] (A : Fin n → Fin n → K) (i j : Fin n) :
    Propagator.label (Propagator.mirror A) i = Propagator.label (Propagator.mirror A) j ↔
      Relation.ReflTransGen (fun a b => Propagator.mirror A a b = true) i j :=
  aux_label_eq_iff A i j

end OdeVerif.ReachSpec
