/-
Refinement: `SystemOfShapes.get_sub_system` as regenerated from `odetoolbox/system_of_shapes.py` on every run
(`OdeVerif/Generated/PySubSystem.lean`): the kept positions in the order of `x`, the kept rows and columns of `A`, the
kept entries of `b`, and for `c` the model's `Shapes.subC` (the nonlinear part of a kept row plus the discarded
columns of `A` times `x`) - the function `C02.subsystem_lossless` is about.
-/
import OdeVerif.Generated.PySubSystem
import OdeVerif.Model.Shapes

namespace OdeVerif.Refine
open OdeVerif OdeVerif.Shapes

variable {K : Type} [Add K] [Mul K] [OfNat K 0]

set_option linter.unusedVariables false

theorem sub_idx_keep (n : Nat) (keep : Nat → Bool) :
    (((Py.enumerateRange n).filter (fun (i, sym) => decide (keep sym = true))).map (fun (i, sym) => i))
      = (List.range n).filter keep := by
  unfold Py.enumerateRange
  rw [List.filter_map, List.map_map]
  have h1 : ((fun (x : Nat × Nat) => x.1) ∘ fun i => (i, i)) = id := by funext i; rfl
  have h2 : ((fun (x : Nat × Nat) => decide (keep x.2 = true)) ∘ fun i => (i, i)) = keep := by
    funext i; simp
  show List.map ((fun (x : Nat × Nat) => x.1) ∘ fun i => (i, i))
    (List.filter ((fun (x : Nat × Nat) => decide (keep x.2 = true)) ∘ fun i => (i, i)) (List.range n)) = _
  rw [h1, h2, List.map_id]

theorem sub_idx_compl (n : Nat) (keep : Nat → Bool) :
    (((Py.enumerateRange n).filter (fun (i, sym) => decide (keep sym = false))).map (fun (i, sym) => i))
      = (List.range n).filter (fun j => !keep j) := by
  unfold Py.enumerateRange
  rw [List.filter_map, List.map_map]
  have h1 : ((fun (x : Nat × Nat) => x.1) ∘ fun i => (i, i)) = id := by funext i; rfl
  have h2 : ((fun (x : Nat × Nat) => decide (keep x.2 = false)) ∘ fun i => (i, i)) = (fun j => !keep j) := by
    funext i; cases h : keep i <;> simp [h]
  show List.map ((fun (x : Nat × Nat) => x.1) ∘ fun i => (i, i))
    (List.filter ((fun (x : Nat × Nat) => decide (keep x.2 = false)) ∘ fun i => (i, i)) (List.range n)) = _
  rw [h1, h2, List.map_id]

theorem sub_for1_not_mem (A : Nat → Nat → K) (x : Nat → K) (compl : List Nat) :
    ∀ (l : List Nat) (c0 : Nat → K) (r : Nat), r ∉ l →
      Generated.subSystem_for1 A x compl l c0 r = c0 r := by
  intro l
  induction l with
  | nil => intro c0 r _; rfl
  | cons a t ih =>
    intro c0 r hr
    have hra : r ≠ a := fun h => hr (h ▸ List.mem_cons_self)
    have hrt : r ∉ t := fun h => hr (List.mem_cons_of_mem _ h)
    show Generated.subSystem_for1 A x compl t _ r = c0 r
    rw [ih _ r hrt]
    simp [Py.update, hra]

theorem sub_for1_mem (A : Nat → Nat → K) (x : Nat → K) (compl : List Nat) :
    ∀ (l : List Nat) (c0 : Nat → K) (r : Nat), l.Nodup → r ∈ l →
      Generated.subSystem_for1 A x compl l c0 r
        = c0 r + sumList (compl.map (fun j => A r j * x j)) := by
  intro l
  induction l with
  | nil => intro c0 r _ h; cases h
  | cons a t ih =>
    intro c0 r hnd hr
    have hat : a ∉ t := (List.nodup_cons.mp hnd).1
    have htnd : t.Nodup := (List.nodup_cons.mp hnd).2
    show Generated.subSystem_for1 A x compl t _ r = _
    rcases List.mem_cons.mp hr with h | h
    · subst h
      rw [sub_for1_not_mem A x compl t _ r hat]
      simp [Py.update]
    · have hra : r ≠ a := fun e => hat (e ▸ h)
      rw [ih _ r htnd h]
      simp [Py.update, hra]

theorem sub_nodup_filter (n : Nat) (keep : Nat → Bool) : ((List.range n).filter keep).Nodup :=
  List.Pairwise.sublist List.filter_sublist List.nodup_range

theorem sub_getD_map_range {β : Type} (n : Nat) (f : Nat → β) (d : β) (i : Nat) (h : i < n) :
    ((List.range n).map f).getD i d = f i := by
  rw [List.getD_eq_getElem?_getD, List.getElem?_map, List.getElem?_range h]
  rfl

theorem subSystem_idx (n : Nat) (keep : Nat → Bool) (A : Nat → Nat → K) (b c x : Nat → K) :
    (Generated.subSystem n keep A b c x).1 = (List.range n).filter keep := by
  show (((Py.enumerateRange n).filter (fun (i, sym) => decide (keep sym = true))).map (fun (i, sym) => i)) = _
  exact sub_idx_keep n keep

theorem subSystem_A_b (n : Nat) (keep : Nat → Bool) (A : Nat → Nat → K) (b c x : Nat → K) :
    (Generated.subSystem n keep A b c x).2.1 = ((List.range n).filter keep).map (fun r => ((List.range n).filter keep).map (fun col => A r col)) ∧
    (Generated.subSystem n keep A b c x).2.2.1 = ((List.range n).filter keep).map b := by
  constructor
  · show ((((Py.enumerateRange n).filter (fun (i, sym) => decide (keep sym = true))).map (fun (i, sym) => i)).map
      (fun r => (((Py.enumerateRange n).filter (fun (i, sym) => decide (keep sym = true))).map (fun (i, sym) => i)).map (fun col => A r col))) = _
    rw [sub_idx_keep]
  · show ((((Py.enumerateRange n).filter (fun (i, sym) => decide (keep sym = true))).map (fun (i, sym) => i)).map b) = _
    rw [sub_idx_keep]

/-- the nonlinear part of every kept row: `c[i] + sum over the discarded columns of A[i, j] * x[j]`, i.e. `Shapes.subC`
on the list representation -/
theorem subSystem_c (n : Nat) (keep : Nat → Bool) (A : Nat → Nat → K) (b c x : Nat → K) :
    (Generated.subSystem n keep A b c x).2.2.2 =
      ((List.range n).filter keep).map (fun i =>
        subC ((List.range n).map (fun r => (List.range n).map (A r))) ((List.range n).map c) ((List.range n).map x) keep i) := by
  show ((((Py.enumerateRange n).filter (fun (i, sym) => decide (keep sym = true))).map (fun (i, sym) => i)).map
      (Generated.subSystem_for1 A x
        (((Py.enumerateRange n).filter (fun (i, sym) => decide (keep sym = false))).map (fun (i, sym) => i))
        (((Py.enumerateRange n).filter (fun (i, sym) => decide (keep sym = true))).map (fun (i, sym) => i)) c)) = _
  rw [sub_idx_keep, sub_idx_compl]
  apply List.map_congr_left
  intro i hi
  have hin : i < n := List.mem_range.mp (List.mem_filter.mp hi).1
  rw [sub_for1_mem A x _ _ c i (sub_nodup_filter n keep) hi]
  unfold subC
  show _ = ((List.range n).map c).getD i 0 + sumList
    (((List.range ((List.range n).map x).length).filter (fun j => !keep j)).map
      (fun j => (((List.range n).map (fun r => (List.range n).map (A r))).getD i []).getD j 0
        * ((List.range n).map x).getD j 0))
  rw [List.length_map, List.length_range, sub_getD_map_range n c 0 i hin,
    sub_getD_map_range n (fun r => (List.range n).map (A r)) [] i hin]
  congr 2
  apply List.map_congr_left
  intro j hj
  have hjn : j < n := List.mem_range.mp (List.mem_filter.mp hj).1
  rw [sub_getD_map_range n (A i) 0 j hjn, sub_getD_map_range n x 0 j hjn]

end OdeVerif.Refine
