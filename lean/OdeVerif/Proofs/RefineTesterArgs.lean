import OdeVerif.Generated.PyTesterArgs
import OdeVerif.Lemmas.Assoc
/-!
What `_analysis` constructs the StiffnessTester with (regenerated: `Generated/PyTesterArgs.lean`).
-/
namespace OdeVerif.Refine
open OdeVerif

theorem tester_lookup_for1 {α : Type} (cfgKeys : List String) (cfg : String → α) (keys : List String)
    (kw : List (String × Glue.Kw α)) (k : String) :
    (Generated.testerKwargs_for1 cfgKeys cfg keys kw).lookup k =
      if k ∈ keys ∧ k ∈ cfgKeys then some (Glue.Kw.num (cfg k)) else kw.lookup k := by
  induction keys generalizing kw with
  | nil => simp [Generated.testerKwargs_for1]
  | cons key rest ih =>
    simp only [Generated.testerKwargs_for1]
    rw [ih]
    by_cases hr : k ∈ rest ∧ k ∈ cfgKeys
    · have : k ∈ key :: rest ∧ k ∈ cfgKeys := ⟨List.mem_cons_of_mem _ hr.1, hr.2⟩
      rw [if_pos hr, if_pos this]
    · rw [if_neg hr]
      by_cases hk : k = key
      · subst hk
        by_cases hc : k ∈ cfgKeys
        · simp [hc, step_lookup_assoc]
        · simp [hc]
      · have hiff : (k ∈ key :: rest ∧ k ∈ cfgKeys) ↔ (k ∈ rest ∧ k ∈ cfgKeys) := by
          simp [List.mem_cons, hk]
        have hn : ¬ (k ∈ key :: rest ∧ k ∈ cfgKeys) := fun h => hr (hiff.1 h)
        rw [if_neg hn]
        by_cases hc : key ∈ cfgKeys
        · simp [hc, step_lookup_assoc, hk]
        · simp [hc]

/-- the four numeric options of the stiffness test are ALWAYS taken from the option store (which holds the documented default of every
option the input does not specify) - whether or not the input has an options block (F16, S87) -/
theorem testerKwargs_numeric {α : Type} (hasOptions optionsHaveSeed : Bool) (seedVal : Int) (hasParameters hasStimuli : Bool)
    (cfgKeys : List String) (cfg : String → α) (hasAnalytic : Bool) (key : String)
    (hkey : key ∈ ["sim_time", "max_step_size", "integration_accuracy_abs", "integration_accuracy_rel"]) (hcfg : key ∈ cfgKeys) :
    (Generated.testerKwargs hasOptions optionsHaveSeed seedVal hasParameters hasStimuli cfgKeys cfg hasAnalytic).lookup key =
      some (Glue.Kw.num (cfg key)) := by
  have hne : key ≠ "analytic_solver_dict" := by
    intro e
    subst e
    revert hkey
    decide
  unfold Generated.testerKwargs
  cases hasAnalytic <;>
    simp [step_lookup_assoc, tester_lookup_for1, hne, hkey, hcfg] <;>
    simpa using hkey

/-- parameters, stimuli and the analytic solver dictionary are passed on exactly when present -/
theorem testerKwargs_passthrough {α : Type} (hasOptions optionsHaveSeed : Bool) (seedVal : Int) (hasParameters hasStimuli : Bool)
    (cfgKeys : List String) (cfg : String → α) (hasAnalytic : Bool) :
    let kw := Generated.testerKwargs hasOptions optionsHaveSeed seedVal hasParameters hasStimuli cfgKeys cfg hasAnalytic
    kw.lookup "parameters" = (if hasParameters then some Glue.Kw.ref else none) ∧
    kw.lookup "stimuli" = (if hasStimuli then some Glue.Kw.ref else none) ∧
    kw.lookup "analytic_solver_dict" = (if hasAnalytic then some Glue.Kw.ref else none) := by
  unfold Generated.testerKwargs
  cases hasOptions <;> cases optionsHaveSeed <;> cases hasParameters <;> cases hasStimuli <;> cases hasAnalytic <;>
    simp [step_lookup_assoc, tester_lookup_for1]

/-- without a seed among the options, the presence of an options block changes nothing -/
theorem testerKwargs_options_block_irrelevant {α : Type} (seedVal : Int) (hasParameters hasStimuli : Bool)
    (cfgKeys : List String) (cfg : String → α) (hasAnalytic : Bool) :
    Generated.testerKwargs true false seedVal hasParameters hasStimuli cfgKeys cfg hasAnalytic =
      Generated.testerKwargs false false seedVal hasParameters hasStimuli cfgKeys cfg hasAnalytic := by
  simp [Generated.testerKwargs]

end OdeVerif.Refine
