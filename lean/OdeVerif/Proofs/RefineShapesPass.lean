import OdeVerif.Generated.PyShapesPass
/-!
Refinement / specification of the regenerated `_from_json_to_shapes` (`Generated/PyShapesPass.lean`): which symbols become
parameters, for every iteration order of the Python set, and what the second pass is called with.
-/
namespace OdeVerif.Refine
open OdeVerif

variable {V : Type}

/-- all free symbols / marker-spelt state variables / primed state variables over the first pass -/
def fjFree (first : Nat → Option (List (String × Option V)) → Glue.FirstPass) (ps : Option (List (String × Option V))) (dyn : List Nat) : List String :=
  dyn.flatMap (fun j => (first j ps).free)
def fjVarsMarker (first : Nat → Option (List (String × Option V)) → Glue.FirstPass) (ps : Option (List (String × Option V))) (dyn : List Nat) : List String :=
  dyn.flatMap (fun j => (first j ps).stateVarsMarker)
def fjVars (first : Nat → Option (List (String × Option V)) → Glue.FirstPass) (ps : Option (List (String × Option V))) (dyn : List Nat) : List String :=
  dyn.flatMap (fun j => (first j ps).stateVars)

theorem pass_mem_setUnion (l : List String) : ∀ (s : List String) (a : String),
    a ∈ Glue.setUnion s l ↔ a ∈ s ∨ a ∈ l := by
  induction l with
  | nil => intro s a; simp [Glue.setUnion]
  | cons b t ih =>
    intro s a
    have e : Glue.setUnion s (b :: t) = Glue.setUnion (if b ∈ s then s else s ++ [b]) t := rfl
    rw [e, ih]
    by_cases hb : b ∈ s
    · simp only [hb, if_true, List.mem_cons]
      constructor
      · rintro (h | h)
        · exact Or.inl h
        · exact Or.inr (Or.inr h)
      · rintro (h | h | h)
        · exact Or.inl h
        · subst h; exact Or.inl hb
        · exact Or.inr h
    · simp only [hb, if_false, List.mem_cons, List.mem_append, List.mem_nil_iff, or_false]
      constructor
      · rintro ((h | h) | h)
        · exact Or.inl h
        · exact Or.inr (Or.inl h)
        · exact Or.inr (Or.inr h)
      · rintro (h | h | h)
        · exact Or.inl (Or.inl h)
        · exact Or.inl (Or.inr h)
        · exact Or.inr h

theorem pass_for1_fst (first : Nat → Option (List (String × Option V)) → Glue.FirstPass) (ps : Option (List (String × Option V)))
    (dyn : List Nat) : ∀ a b c : List String,
    (Generated.fromJsonToShapes_for1 first ps dyn a b c).1 = a ++ dyn.flatMap (fun j => (first j ps).stateVars) := by
  induction dyn with
  | nil => intro a b c; simp [Generated.fromJsonToShapes_for1]
  | cons j t ih => intro a b c; simp [Generated.fromJsonToShapes_for1, ih, List.append_assoc]

theorem pass_for1_snd (first : Nat → Option (List (String × Option V)) → Glue.FirstPass) (ps : Option (List (String × Option V)))
    (dyn : List Nat) : ∀ (a b c : List String) (x : String),
    x ∈ (Generated.fromJsonToShapes_for1 first ps dyn a b c).2.1 ↔ x ∈ b ∨ x ∈ dyn.flatMap (fun j => (first j ps).stateVarsMarker) := by
  induction dyn with
  | nil => intro a b c x; simp [Generated.fromJsonToShapes_for1]
  | cons j t ih =>
    intro a b c x
    simp only [Generated.fromJsonToShapes_for1, ih, pass_mem_setUnion, List.flatMap_cons, List.mem_append, or_assoc]

theorem pass_for1_trd (first : Nat → Option (List (String × Option V)) → Glue.FirstPass) (ps : Option (List (String × Option V)))
    (dyn : List Nat) : ∀ (a b c : List String) (x : String),
    x ∈ (Generated.fromJsonToShapes_for1 first ps dyn a b c).2.2 ↔ x ∈ c ∨ x ∈ dyn.flatMap (fun j => (first j ps).free) := by
  induction dyn with
  | nil => intro a b c x; simp [Generated.fromJsonToShapes_for1]
  | cons j t ih =>
    intro a b c x
    simp only [Generated.fromJsonToShapes_for1, ih, pass_mem_setUnion, List.flatMap_cons, List.mem_append, or_assoc]

theorem pass_for3 (p : Option (List (String × Option V))) (a : List String) (dyn : List Nat) :
    ∀ shapes, Generated.fromJsonToShapes_for3 p a dyn shapes = shapes ++ dyn.map (fun j => (j, a, p)) := by
  induction dyn with
  | nil => intro s; simp [Generated.fromJsonToShapes_for3]
  | cons j t ih => intro s; simp [Generated.fromJsonToShapes_for3, ih, List.append_assoc]

theorem pass_hasKey_iff (p : Option (List (String × Option V))) (k : String) :
    Glue.hasKey p k ↔ ((p.getD []).lookup k).isSome = true := by
  cases p with
  | none => simp [Glue.hasKey]
  | some d => simp [Glue.hasKey]

theorem pass_lookup_cons (t : List (String × Option V)) (a k : String) (b : Option V) :
    List.lookup k ((a, b) :: t) = if k = a then some b else List.lookup k t := by
  rw [List.lookup_cons]
  by_cases h : k = a
  · subst h; simp
  · have hb : (k == a) = false := by simpa using h
    rw [hb]; simp [h]

theorem pass_lookup_assoc (d : List (String × Option V)) (k k' : String) (v : Option V) :
    (Glue.assoc d k v).lookup k' = if k' = k then some v else d.lookup k' := by
  induction d with
  | nil =>
    by_cases h : k' = k <;> simp [Glue.assoc, pass_lookup_cons, h]
  | cons e t ih =>
    obtain ⟨a, b⟩ := e
    by_cases h1 : a = k
    · subst h1
      by_cases h : k' = a <;> simp [Glue.assoc, pass_lookup_cons, h]
    · by_cases h : k' = k
      · subst h
        have h1' : ¬ k' = a := fun e => h1 e.symm
        simp [Glue.assoc, pass_lookup_cons, h1, h1', ih]
      · simp [Glue.assoc, pass_lookup_cons, h1, h, ih]

/-- the second loop: given values kept, the listed names that were absent get `none` -/
theorem pass_for2_lookup (l : List String) : ∀ (p : Option (List (String × Option V))) (k : String),
    ((Generated.fromJsonToShapes_for2 l p).getD []).lookup k =
      (match (p.getD []).lookup k with
        | some v => some v
        | none => if k ∈ l then some none else none) := by
  induction l with
  | nil => intro p k; cases h : (p.getD []).lookup k <;> simp [Generated.fromJsonToShapes_for2, h]
  | cons a t ih =>
    intro p k
    have e1 : ∀ q : Option (List (String × Option V)), (if q.isNone = true then some [] else q).getD [] = q.getD [] := by
      intro q; cases q <;> rfl
    have e2 : ∀ q : Option (List (String × Option V)),
        ((if ¬ Glue.hasKey q a then Glue.setNone q a else q).getD []).lookup k =
          (match (q.getD []).lookup k with
            | some v => some v
            | none => if k = a then some none else none) := by
      intro q
      by_cases hq : Glue.hasKey q a
      · have hq' := (pass_hasKey_iff q a).1 hq
        simp only [hq, not_true, if_false]
        cases h : (q.getD []).lookup k with
        | some v => rfl
        | none =>
          by_cases hk : k = a
          · subst hk; rw [h] at hq'; cases hq'
          · simp [hk]
      · have hq' : ¬ ((q.getD []).lookup a).isSome = true := fun h => hq ((pass_hasKey_iff q a).2 h)
        simp only [hq, not_false_eq_true, if_true, Glue.setNone, Option.getD_some, pass_lookup_assoc]
        by_cases hk : k = a
        · subst hk
          cases h : (q.getD []).lookup k with
          | some v => rw [h] at hq'; exact absurd rfl hq'
          | none => simp
        · cases h : (q.getD []).lookup k <;> simp [hk]
    simp only [Generated.fromJsonToShapes_for2]
    rw [ih, e2, e1]
    cases h : (p.getD []).lookup k with
    | some v => rfl
    | none =>
      by_cases hk : k = a
      · simp [hk]
      · simp [hk]

theorem pass_eq (first : Nat → Option (List (String × Option V)) → Glue.FirstPass) (perm : List String → List String)
    (timeSymbol : String) (dyn : List Nat) (ps : Option (List (String × Option V))) :
    Generated.fromJsonToShapes first perm timeSymbol dyn ps =
      (Generated.fromJsonToShapes_for3
        (Generated.fromJsonToShapes_for2 (perm (((Generated.fromJsonToShapes_for1 first ps dyn [] [] []).2.2.filter
          (fun p => decide (p ∉ (Generated.fromJsonToShapes_for1 first ps dyn [] [] []).2.1))).filter (fun p => decide (p ≠ timeSymbol)))) ps)
        (Generated.fromJsonToShapes_for1 first ps dyn [] [] []).1 dyn [],
       Generated.fromJsonToShapes_for2 (perm (((Generated.fromJsonToShapes_for1 first ps dyn [] [] []).2.2.filter
          (fun p => decide (p ∉ (Generated.fromJsonToShapes_for1 first ps dyn [] [] []).2.1))).filter (fun p => decide (p ≠ timeSymbol)))) ps) := rfl

/-- a name is a key of the returned parameters iff it was given, or it is a free symbol of some shape that is neither a state variable
(marker spelling) nor the time symbol -- for every iteration order `perm` of the set -/
theorem fromJsonToShapes_keys (first : Nat → Option (List (String × Option V)) → Glue.FirstPass) (perm : List String → List String)
    (hperm : ∀ l, (perm l).Perm l) (timeSymbol : String) (dyn : List Nat) (ps : Option (List (String × Option V))) (k : String) :
    Glue.hasKey (Generated.fromJsonToShapes first perm timeSymbol dyn ps).2 k ↔
      (Glue.hasKey ps k ∨ (k ∈ fjFree first ps dyn ∧ k ∉ fjVarsMarker first ps dyn ∧ k ≠ timeSymbol)) := by
  rw [pass_eq, pass_hasKey_iff, pass_hasKey_iff, pass_for2_lookup]
  have hm : k ∈ perm (((Generated.fromJsonToShapes_for1 first ps dyn [] [] []).2.2.filter
          (fun p => decide (p ∉ (Generated.fromJsonToShapes_for1 first ps dyn [] [] []).2.1))).filter (fun p => decide (p ≠ timeSymbol))) ↔
      (k ∈ fjFree first ps dyn ∧ k ∉ fjVarsMarker first ps dyn ∧ k ≠ timeSymbol) := by
    rw [(hperm _).mem_iff]
    simp only [List.mem_filter, decide_eq_true_eq, pass_for1_snd, pass_for1_trd, fjFree, fjVarsMarker,
      List.not_mem_nil, false_or, and_assoc]
  cases h : (ps.getD []).lookup k with
  | some v => simp
  | none =>
    simp only [Option.isSome_none, Bool.false_eq_true, false_or]
    rw [← hm]
    split
    · rename_i hh; exact ⟨fun _ => hh, fun _ => rfl⟩
    · rename_i hh; exact ⟨fun h' => (by cases h'), fun h' => absurd h' hh⟩

/-- the time symbol never becomes a parameter by itself -/
theorem fromJsonToShapes_time_not_param (first : Nat → Option (List (String × Option V)) → Glue.FirstPass) (perm : List String → List String)
    (hperm : ∀ l, (perm l).Perm l) (timeSymbol : String) (dyn : List Nat) (ps : Option (List (String × Option V)))
    (h : ¬ Glue.hasKey ps timeSymbol) : ¬ Glue.hasKey (Generated.fromJsonToShapes first perm timeSymbol dyn ps).2 timeSymbol := by
  rw [fromJsonToShapes_keys first perm hperm]
  rintro (h' | ⟨_, _, h'⟩)
  · exact h h'
  · exact h' rfl

/-- no state variable becomes a parameter by itself -/
theorem fromJsonToShapes_var_not_param (first : Nat → Option (List (String × Option V)) → Glue.FirstPass) (perm : List String → List String)
    (hperm : ∀ l, (perm l).Perm l) (timeSymbol : String) (dyn : List Nat) (ps : Option (List (String × Option V))) (k : String)
    (hk : k ∈ fjVarsMarker first ps dyn) (h : ¬ Glue.hasKey ps k) : ¬ Glue.hasKey (Generated.fromJsonToShapes first perm timeSymbol dyn ps).2 k := by
  rw [fromJsonToShapes_keys first perm hperm]
  rintro (h' | ⟨_, h', _⟩)
  · exact h h'
  · exact h' hk

/-- given values are kept, added keys carry `None` -/
theorem fromJsonToShapes_values (first : Nat → Option (List (String × Option V)) → Glue.FirstPass) (perm : List String → List String)
    (timeSymbol : String) (dyn : List Nat) (ps : Option (List (String × Option V))) (k : String) (d' : List (String × Option V))
    (hres : (Generated.fromJsonToShapes first perm timeSymbol dyn ps).2 = some d') :
    d'.lookup k = (match (ps.getD []).lookup k with
      | some v => some v
      | none => if (d'.lookup k).isSome then some none else none) := by
  rw [pass_eq] at hres
  have h2 := pass_for2_lookup (perm (((Generated.fromJsonToShapes_for1 first ps dyn [] [] []).2.2.filter
          (fun p => decide (p ∉ (Generated.fromJsonToShapes_for1 first ps dyn [] [] []).2.1))).filter (fun p => decide (p ≠ timeSymbol)))) ps k
  simp only at hres
  rw [hres] at h2
  simp only [Option.getD_some] at h2
  cases h : (ps.getD []).lookup k with
  | some v => rw [h] at h2; simpa using h2
  | none =>
    rw [h] at h2
    simp only at h2 ⊢
    rw [h2]
    split <;> simp

/-- the second pass constructs one shape per entry, in input order, each with the primed state variables of all shapes (in input
order) and the completed parameters -/
theorem fromJsonToShapes_shapes (first : Nat → Option (List (String × Option V)) → Glue.FirstPass) (perm : List String → List String)
    (timeSymbol : String) (dyn : List Nat) (ps : Option (List (String × Option V))) :
    (Generated.fromJsonToShapes first perm timeSymbol dyn ps).1 =
      dyn.map (fun j => (j, fjVars first ps dyn, (Generated.fromJsonToShapes first perm timeSymbol dyn ps).2)) := by
  rw [pass_eq]
  simp only [pass_for3, pass_for1_fst, fjVars, List.nil_append]

end OdeVerif.Refine
