/-
C04 (stretch) — "however it is written": for right-hand sides in the Laurent-polynomial grammar the
verdict "no nonlinear part" computed by expand + term-wise test depends only on the Laurent
polynomial the expression denotes, not on its spelling.  Property theorems only.
-/
import OdeVerif.Model.Poly
import Mathlib.Algebra.MonoidAlgebra.Basic
import Mathlib.Algebra.MonoidAlgebra.Defs
import Mathlib.Tactic.Ring
import Mathlib.Tactic.SplitIfs

namespace OdeVerif.C04b
open OdeVerif.Poly

variable {n : ℕ}

/-- Laurent polynomials in `n` symbols over ℚ -/
abbrev L (n : ℕ) := AddMonoidAlgebra ℚ (Fin n → ℤ)

/-- denotation of an expression -/
noncomputable def den : Expr n → L n
  | .num q => AddMonoidAlgebra.single 0 q
  | .sympow s k => AddMonoidAlgebra.single (fun i => if i = s then k else 0) 1
  | .add a b => den a + den b
  | .mul a b => den a * den b
  | .neg a => - den a
  | .pow a k => den a ^ k

/-- denotation of a raw (unnormalised) polynomial -/
private noncomputable def D (p : Poly n) : L n :=
  (p.map (fun t => (AddMonoidAlgebra.single t.1 t.2 : L n))).sum

private theorem D_nil : D ([] : Poly n) = 0 := by simp [D]

private theorem D_cons (t : Mono n × Rat) (p : Poly n) :
    D (t :: p) = AddMonoidAlgebra.single t.1 t.2 + D p := by simp [D]

private theorem D_append (p q : Poly n) : D (p ++ q) = D p + D q := by
  simp [D, List.map_append, List.sum_append]

private theorem D_neg (p : Poly n) : D (p.map (fun t => (t.1, -t.2))) = - D p := by
  induction p with
  | nil => simp [D_nil]
  | cons t p ih =>
    rw [List.map_cons, D_cons, D_cons, ih, AddMonoidAlgebra.single_neg, neg_add]

private theorem monoMul_eq (a b : Mono n) : monoMul a b = a + b := by
  funext i; rfl

private theorem D_mul_single (a : Mono n × Rat) (q : Poly n) :
    D (q.map (fun b => (monoMul a.1 b.1, a.2 * b.2))) =
      (AddMonoidAlgebra.single a.1 a.2 : L n) * D q := by
  induction q with
  | nil => simp [D_nil]
  | cons b q ih =>
    rw [List.map_cons, D_cons, D_cons, ih, mul_add, AddMonoidAlgebra.single_mul_single,
      monoMul_eq]

private theorem D_polyMul (p q : Poly n) : D (polyMul p q) = D p * D q := by
  induction p with
  | nil => simp [polyMul, D_nil]
  | cons a p ih =>
    have : polyMul (a :: p) q
        = q.map (fun b => (monoMul a.1 b.1, a.2 * b.2)) ++ polyMul p q := by
      simp [polyMul, List.flatMap_cons]
    rw [this, D_append, D_mul_single, ih, D_cons, add_mul]

private theorem D_one : D ([(monoOne, 1)] : Poly n) = 1 := by
  rw [D_cons, D_nil, add_zero, AddMonoidAlgebra.one_def]
  rfl

private theorem D_polyPow (p : Poly n) (k : ℕ) : D (polyPow p k) = D p ^ k := by
  induction k with
  | zero => rw [pow_zero]; exact D_one
  | succ k ih => rw [polyPow, D_polyMul, ih, pow_succ]

private theorem expandRaw_D (e : Expr n) : D (expandRaw e) = den e := by
  induction e with
  | num q => rw [expandRaw, den, D_cons, D_nil, add_zero]; rfl
  | sympow s k => rw [expandRaw, den, D_cons, D_nil, add_zero]
  | add a b iha ihb => rw [expandRaw, den, D_append, iha, ihb]
  | mul a b iha ihb => rw [expandRaw, den, D_polyMul, iha, ihb]
  | neg a ih => rw [expandRaw, den, D_neg, ih]
  | pow a k ih => rw [expandRaw, den, D_polyPow, ih]

/-- the executable expansion denotes the same Laurent polynomial -/
theorem expandRaw_sound (e : Expr n) :
    ((expandRaw e).map (fun t => (AddMonoidAlgebra.single t.1 t.2 : L n))).sum = den e :=
  expandRaw_D e

private theorem monoEq_iff (a b : Mono n) : monoEq a b = true ↔ a = b := by
  unfold monoEq
  rw [List.all_eq_true]
  constructor
  · intro h; funext i; exact eq_of_beq (h i (List.mem_finRange i))
  · rintro rfl i _; exact beq_self_eq_true _

private theorem foldl_add_eq (l : List Rat) (acc : Rat) :
    l.foldl (· + ·) acc = acc + l.sum := by
  induction l generalizing acc with
  | nil => simp
  | cons x l ih => rw [List.foldl_cons, ih, List.sum_cons, add_assoc]

private theorem coeffOf_nil (m : Mono n) : coeffOf ([] : Poly n) m = 0 := by
  simp [coeffOf]

private theorem coeffOf_cons (t : Mono n × Rat) (p : Poly n) (m : Mono n) :
    coeffOf (t :: p) m = (if t.1 = m then t.2 else 0) + coeffOf p m := by
  unfold coeffOf
  rw [foldl_add_eq, foldl_add_eq, zero_add, zero_add, List.filter_cons]
  by_cases h : t.1 = m
  · subst h
    have : monoEq t.1 t.1 = true := (monoEq_iff _ _).2 rfl
    simp [this]
  · have : ¬ monoEq t.1 m = true := fun h' => h ((monoEq_iff _ _).1 h')
    simp [this, h]

private theorem coeffOf_D (p : Poly n) (m : Mono n) : coeffOf p m = (D p).coeff m := by
  classical
  induction p with
  | nil => simp [coeffOf_nil, D_nil]
  | cons t p ih =>
    rw [coeffOf_cons, D_cons, AddMonoidAlgebra.coeff_add, Finsupp.add_apply, ih,
      AddMonoidAlgebra.coeff_single, Finsupp.single_apply]

/-- collecting like terms computes the coefficients of the denotation -/
theorem coeffOf_eq (e : Expr n) (m : Fin n → ℤ) : coeffOf (expandRaw e) m = (den e).coeff m := by
  rw [coeffOf_D, expandRaw_D]

private theorem exists_of_coeffOf_ne (p : Poly n) (m : Mono n) (h : coeffOf p m ≠ 0) :
    ∃ t ∈ p, t.1 = m := by
  induction p with
  | nil => exact absurd (coeffOf_nil m) h
  | cons t p ih =>
    by_cases ht : t.1 = m
    · exact ⟨t, List.mem_cons_self, ht⟩
    · rw [coeffOf_cons, if_neg ht, zero_add] at h
      obtain ⟨u, hu, hum⟩ := ih h
      exact ⟨u, List.mem_cons_of_mem _ hu, hum⟩

/-- the semantic statement of "linear with constant coefficients": every monomial in the support of
the denotation is constant in the state variables or contains exactly one of them, to the first power -/
def LinearCC (isVar : Fin n → Bool) (P : L n) : Prop :=
  ∀ m ∈ P.coeff.support, termOk isVar m = true

/-- **The executable verdict is the semantic one.** -/
theorem linearCC_iff (isVar : Fin n → Bool) (e : Expr n) :
    linearCC isVar e = true ↔ LinearCC isVar (den e) := by
  unfold linearCC LinearCC
  rw [List.all_eq_true]
  constructor
  · intro h m hm
    rw [Finsupp.mem_support_iff, ← coeffOf_eq] at hm
    obtain ⟨t, ht, rfl⟩ := exists_of_coeffOf_ne _ _ hm
    have := h t ht
    rw [Bool.or_eq_true, beq_iff_eq] at this
    rcases this with h0 | h1
    · exact absurd h0 hm
    · exact h1
  · intro h t _
    rw [Bool.or_eq_true, beq_iff_eq]
    by_cases h0 : coeffOf (expandRaw e) t.1 = 0
    · exact Or.inl h0
    · refine Or.inr (h t.1 ?_)
      rw [Finsupp.mem_support_iff, ← coeffOf_eq]
      exact h0

/-- **Independent of the spelling**: two expressions that denote the same Laurent polynomial —
factored or expanded, nested parentheses, reordered, `(a+b)*x` vs `a*x + b*x`, `x*y - y*x + x`, … —
get the same verdict. -/
theorem spelling_invariant (isVar : Fin n → Bool) (e₁ e₂ : Expr n) (h : den e₁ = den e₂) :
    linearCC isVar e₁ = linearCC isVar e₂ := by
  rw [Bool.eq_iff_iff, linearCC_iff, linearCC_iff, h]

/-- the commutative-ring rewrite rules preserve the denotation (so any chain of them does) -/
theorem den_ring_rules (a b c : Expr n) :
    den (.mul a (.add b c)) = den (.add (.mul a b) (.mul a c)) ∧
    den (.mul a b) = den (.mul b a) ∧ den (.add a b) = den (.add b a) ∧
    den (.mul (.mul a b) c) = den (.mul a (.mul b c)) ∧ den (.add (.add a b) c) = den (.add a (.add b c)) ∧
    den (.neg (.neg a)) = den a ∧ den (.add a (.neg a)) = den (.num 0) ∧
    den (.mul (.num 1) a) = den a ∧ den (.add (.num 0) a) = den a ∧ den (.pow a 2) = den (.mul a a) := by
  have h1 : (AddMonoidAlgebra.single 0 1 : L n) = 1 := AddMonoidAlgebra.one_def.symm
  have h0 : (AddMonoidAlgebra.single 0 0 : L n) = 0 := AddMonoidAlgebra.single_zero 0
  simp only [den, h0, h1]
  refine ⟨by ring, by ring, by ring, by ring, by ring, by ring, by ring, by ring, by ring, by ring⟩

/-- `x * (1/x)` cancels: symbols behave as units -/
theorem den_sympow_add (s : Fin n) (j k : ℤ) : den (.mul (.sympow s j) (.sympow s k)) = den (n := n) (.sympow s (j + k)) := by
  simp only [den]
  rw [AddMonoidAlgebra.single_mul_single, mul_one]
  congr 1
  funext i
  rw [Pi.add_apply]
  split_ifs <;> simp

/-! non-vacuity: symbols 0 = x, 1 = y (variables), 2 = tau (parameter) -/
-- -(x - y*tau)/tau  is linear;  x*y - y*x + x  is linear (cancellation);  x*y is not
example : linearCC (n := 3) (fun i => i.val < 2)
    (.mul (.neg (.add (.sympow 0 1) (.neg (.mul (.sympow 1 1) (.sympow 2 1))))) (.sympow 2 (-1))) = true := by decide +kernel
example : linearCC (n := 3) (fun i => i.val < 2)
    (.add (.add (.mul (.sympow 0 1) (.sympow 1 1)) (.neg (.mul (.sympow 1 1) (.sympow 0 1)))) (.sympow 0 1)) = true := by decide +kernel
example : linearCC (n := 3) (fun i => i.val < 2) (.mul (.sympow 0 1) (.sympow 1 1)) = false := by decide +kernel

end OdeVerif.C04b
