/-
Refinement: the structural checks of `Shape.from_json` / `Shape._parse_defining_expression` as regenerated from
`odetoolbox/shapes.py` on every run (`OdeVerif/Generated/PyFromJson.lean`), followed by the two name checks of
`Shape.__init__`, are the hand-written model `Validate.validate` that the theorems of `Proofs/C09.lean` are
about -- for every entry, every marker and every list of reserved names.
-/
import OdeVerif.Generated.PyFromJson
import OdeVerif.Model.Validate

set_option linter.unusedSimpArgs false

namespace OdeVerif.Refine
open OdeVerif

/-- the name checks of `Shape.__init__` as the model has them, applied to what `from_json` hands on -/
def initChecks (marker : Validate.Str) (reserved : List Validate.Str) (symbol : Validate.Str) (order : Nat) : Validate.Outcome :=
  if reserved.contains symbol then .reserved symbol
  else if Validate.isInfix marker symbol then .malformed .markerInName
  else .ok symbol order


theorem for1_eq_for2 (order : Nat) (symbol : Validate.Str) :
    ∀ (l : List (Validate.Str × Validate.Str)) (b : List Bool),
      Generated.fromJson_for1 order symbol l b = Generated.fromJson_for2 order symbol l b := by
  intro l
  induction l with
  | nil => intro b; rfl
  | cons x rest ih =>
    intro b
    obtain ⟨k, v⟩ := x
    simp only [Generated.fromJson_for1, Generated.fromJson_for2, ih]

theorem count_set_true : ∀ (b : List Bool) (o : Nat), o < b.length → b.getD o false = false →
    (b.set o true).count true = b.count true + 1 := by
  intro b
  induction b with
  | nil => intro o h; simp at h
  | cons x xs ih =>
    intro o h hg
    cases o with
    | zero =>
      simp at hg
      subst hg
      simp
    | succ n =>
      simp at h hg
      have := ih n h (by simpa using hg)
      simp [List.set, List.count_cons, this]
      omega

theorem all_of_count : ∀ (b : List Bool), b.count true = b.length → b.all id = true := by
  intro b
  induction b with
  | nil => intro _; rfl
  | cons x xs ih =>
    intro h
    have hle := List.count_le_length (a := true) (l := xs)
    cases x with
    | false => simp [List.count_cons] at h; omega
    | true =>
      simp [List.count_cons] at h
      simpa using ih h

theorem loop_sim (order : Nat) (symbol : Validate.Str) :
    ∀ (l : List (Validate.Str × Validate.Str)) (b : List Bool) (seen : List Nat),
      b.length = order → (∀ o, o < order → (b.getD o false = true ↔ o ∈ seen)) →
      match Generated.fromJson_for1 order symbol l b with
      | .error k => Validate.checkIvs symbol order l seen = some k
      | .ok b' => Validate.checkIvs symbol order l seen = none ∧ b'.length = order ∧
          b'.count true = b.count true + l.length := by
  intro l
  induction l with
  | nil => intro b seen hl _; simp [Generated.fromJson_for1, Validate.checkIvs, hl]
  | cons x rest ih =>
    intro b seen hl hinv
    obtain ⟨k, v⟩ := x
    simp only [Generated.fromJson_for1, Validate.checkIvs]
    cases hfi : Validate.firstIdent k with
    | none => simp
    | some s =>
      simp only [Option.isNone_some, Bool.false_eq_true, if_false, Option.getD_some]
      by_cases hs : s = symbol
      · simp only [hs, not_true_eq_false, if_false, ne_eq]
        by_cases ho : Validate.countChar '\'' k ≥ order
        · simp [ho]
        · simp only [ho, if_false]
          have ho' : Validate.countChar '\'' k < order := by omega
          by_cases hd : b.getD (Validate.countChar '\'' k) false = true
          · have := (hinv _ ho').1 hd
            have hd2 := hd
            simp only [List.getD_eq_getElem?_getD] at hd2
            simp [hd2, this]
          · have hns : ¬ (Validate.countChar '\'' k ∈ seen) := fun h => hd ((hinv _ ho').2 h)
            simp only [hd, if_false, List.contains_iff_mem, hns]
            have hd' : b.getD (Validate.countChar '\'' k) false = false := by
              simpa using hd
            have := ih (b.set (Validate.countChar '\'' k) true) (Validate.countChar '\'' k :: seen)
              (by simp [hl]) (by
                intro o hoo
                by_cases heq : o = Validate.countChar '\'' k
                · subst heq; simp [hl, hoo]
                · have := hinv o hoo
                  simp [List.getD_eq_getElem?_getD, List.getElem?_set, heq, Ne.symm heq] at this ⊢
                  simpa [heq] using this)
            rw [count_set_true b _ (by omega) hd'] at this
            revert this
            cases Generated.fromJson_for1 order symbol rest (b.set (Validate.countChar '\'' k) true) with
            | error e => simp
            | ok b' => simp; intro h1 h2 h3; exact ⟨h1, h2, by omega⟩
      · simp [hs]


theorem parse_spec (s : Validate.Str) :
    Generated.parseDefiningExpression s =
      match Validate.tokens (Validate.splitEq s).1 with
      | [tok] =>
        match Validate.firstIdent s with
        | none => .error .noSymbol
        | some sym => .ok (sym, Validate.countChar '\'' tok)
      | _ => .error .lhsTokens := by
  unfold Generated.parseDefiningExpression
  cases htok : Validate.tokens (Validate.splitEq s).1 with
  | nil => simp [htok]
  | cons a t =>
    cases t with
    | nil =>
      cases hfi : Validate.firstIdent s with
      | none => simp [htok, hfi]
      | some sym => simp [htok, hfi]
    | cons a' t' => simp [htok]

theorem loop_init (order : Nat) (symbol : Validate.Str) (ivs : List (Validate.Str × Validate.Str))
    (hlen : ivs.length = order) :
    match Generated.fromJson_for1 order symbol ivs (List.replicate order false) with
    | .error k => Validate.checkIvs symbol order ivs [] = some k
    | .ok b' => Validate.checkIvs symbol order ivs [] = none ∧ b'.all id = true := by
  have := loop_sim order symbol ivs (List.replicate order false) [] (by simp) (by
    intro o ho
    simp [List.getD_eq_getElem?_getD, List.getElem?_replicate, ho])
  revert this
  cases Generated.fromJson_for1 order symbol ivs (List.replicate order false) with
  | error k => simp
  | ok b' =>
    simp only
    intro ⟨h1, h2, h3⟩
    refine ⟨h1, all_of_count b' ?_⟩
    rw [h3, h2, hlen]
    simp [List.count_replicate]


theorem checkIvs_ne_ivMissing (symbol : Validate.Str) (order : Nat) :
    ∀ (l : List (Validate.Str × Validate.Str)) (seen : List Nat),
      Validate.checkIvs symbol order l seen ≠ some .ivMissing := by
  intro l
  induction l with
  | nil => intro seen; simp [Validate.checkIvs]
  | cons x rest ih =>
    intro seen
    obtain ⟨k, v⟩ := x
    simp only [Validate.checkIvs]
    split
    · simp
    · split
      · simp
      · split
        · simp
        · split
          · simp
          · exact ih _

/-- **`validate` = regenerated `from_json`, then the name checks** -/
theorem fromJson_refines (marker : Validate.Str) (reserved : List Validate.Str) (e : Validate.Entry) :
    Validate.validate marker reserved e =
      match Generated.fromJson e with
      | .error k => .malformed k
      | .ok (symbol, order) => initChecks marker reserved symbol order := by
  unfold Validate.validate Generated.fromJson
  cases hexp : e.expression with
  | none => simp
  | some s =>
    simp only [Option.isNone_some, Bool.false_eq_true, if_false, Option.getD_some]
    by_cases heq : Validate.countChar '=' s = 1
    · simp only [heq, not_true_eq_false, if_false, ne_eq]
      rw [parse_spec]
      cases htok : Validate.tokens (Validate.splitEq s).1 with
      | nil => simp
      | cons tok t =>
        cases t with
        | cons a' t' => simp
        | nil =>
          cases hfi : Validate.firstIdent s with
          | none => simp
          | some symbol =>
            simp only
            cases hiv : e.initialValue with
            | none =>
              cases hivs : e.initialValues with
              | none =>
                by_cases ho : Validate.countChar '\'' tok = 0
                · simp [ho, initChecks]
                · have : Validate.countChar '\'' tok > 0 := by omega
                  simp [this]
              | some ivs =>
                simp only [Option.isNone_none, Option.isNone_some, Option.isSome_none, Option.isSome_some,
                  Bool.false_eq_true, false_and, and_false, if_false, if_true, Bool.and_false, Bool.false_and,
                  Option.getD_some, Bool.true_and, ne_eq]
                by_cases hlen : ivs.length = Validate.countChar '\'' tok
                · have := loop_init _ symbol ivs hlen
                  rw [for1_eq_for2] at this
                  simp only [hlen, not_true_eq_false, if_false]
                  revert this
                  cases Generated.fromJson_for2 (Validate.countChar '\'' tok) symbol ivs
                      (List.replicate (Validate.countChar '\'' tok) false) with
                  | error k => simp only; intro h; simp [h]
                  | ok b' => simp only; intro ⟨h1, h2⟩; simp [h1, h2, initChecks]
                · simp [hlen]
            | some iv =>
              cases hivs : e.initialValues with
              | none =>
                by_cases ho : Validate.countChar '\'' tok = 1
                · simp [ho, initChecks]
                · simp [ho]
              | some ivs => simp
    · simp [heq]

/-- in particular the regenerated code raises "Initial value not specified for all differential orders" on no
input at all (the count check and the duplicate check leave no room for it), as the model assumes -/
theorem fromJson_never_ivMissing (e : Validate.Entry) : Generated.fromJson e ≠ .error Validate.Kind.ivMissing := by
  unfold Generated.fromJson
  cases hexp : e.expression with
  | none => simp
  | some s =>
    simp only [Option.isNone_some, Bool.false_eq_true, if_false, Option.getD_some]
    by_cases heq : Validate.countChar '=' s = 1
    · simp only [heq, not_true_eq_false, if_false, ne_eq]
      rw [parse_spec]
      cases htok : Validate.tokens (Validate.splitEq s).1 with
      | nil => simp
      | cons tok t =>
        cases t with
        | cons a' t' => simp
        | nil =>
          cases hfi : Validate.firstIdent s with
          | none => simp
          | some symbol =>
            simp only
            cases hiv : e.initialValue with
            | none =>
              cases hivs : e.initialValues with
              | none =>
                by_cases ho : Validate.countChar '\'' tok = 0
                · simp [ho]
                · have : Validate.countChar '\'' tok > 0 := by omega
                  simp [this]
              | some ivs =>
                simp only [Option.isNone_none, Option.isNone_some, Option.isSome_none, Option.isSome_some,
                  Bool.false_eq_true, false_and, and_false, if_false, if_true, Bool.and_false, Bool.false_and,
                  Option.getD_some, Bool.true_and, ne_eq]
                by_cases hlen : ivs.length = Validate.countChar '\'' tok
                · have := loop_init _ symbol ivs hlen
                  rw [for1_eq_for2] at this
                  simp only [hlen, not_true_eq_false, if_false]
                  revert this
                  cases Generated.fromJson_for2 (Validate.countChar '\'' tok) symbol ivs
                      (List.replicate (Validate.countChar '\'' tok) false) with
                  | error k =>
                    simp only
                    intro h hk
                    injection hk with hk
                    subst hk
                    exact checkIvs_ne_ivMissing _ _ _ _ h
                  | ok b' => simp only; intro ⟨h1, h2⟩; simp [h2]
                · simp [hlen]
            | some iv =>
              cases hivs : e.initialValues with
              | none =>
                by_cases ho : Validate.countChar '\'' tok = 1
                · simp [ho]
                · simp [ho]
              | some ivs => simp
    · simp [heq]

end OdeVerif.Refine
