import OdeVerif.Generated.PyBenchmark
/-!
The benchmark protocol of `StiffnessTester._evaluate_integrator`, regenerated (`Generated/PyBenchmark.lean`).
-/
namespace OdeVerif.Refine
open OdeVerif

/-- one benchmark run: both random generators are seeded with the tester's seed, THEN the stimulus is generated, then the integrator is
built from the tester's own system, parameters and that stimulus, then it runs -/
theorem evaluateIntegrator_trace (seed : Int) (stepper : String) :
    Generated.evaluateIntegrator seed stepper =
      [.seedNumpy seed, .seedPython seed, .generateStimulus, .construct stepper, .integrate] := rfl

/-- the two candidates go through the same protocol: their traces differ in the stepper only, so with equal seeds the stimulus generator
starts from the same state of both random generators for the explicit and for the implicit candidate -/
theorem evaluateIntegrator_same_protocol (seed : Int) (a b : String) :
    (Generated.evaluateIntegrator seed a).map (fun e => match e with | .construct _ => Glue.BenchEv.construct "" | e => e) =
    (Generated.evaluateIntegrator seed b).map (fun e => match e with | .construct _ => Glue.BenchEv.construct "" | e => e) := rfl

end OdeVerif.Refine
