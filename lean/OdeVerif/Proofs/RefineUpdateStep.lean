import OdeVerif.Generated.PyUpdateStep
import OdeVerif.Lemmas.Assoc
/-!
Refinement: the regenerated `AnalyticIntegrator._update_step`.
-/
namespace OdeVerif.Refine
open OdeVerif

theorem step_updateStep_for1_spec {α : Type} [Inhabited α] (f : String → List α → α) (y : List α)
    (keys : List String) (acc : List (String × α)) (k : String) :
    (Generated.updateStep_for1 f y (keys.map (fun k => (k, ()))) acc).lookup k =
      if k ∈ keys then some (f k y) else acc.lookup k := by
  induction keys generalizing acc with
  | nil => simp [Generated.updateStep_for1]
  | cons a rest ih =>
    simp only [List.map_cons, Generated.updateStep_for1, ih, step_lookup_assoc, List.mem_cons]
    by_cases h1 : k ∈ rest
    · simp [h1]
    · by_cases h2 : k = a
      · subst h2
        simp [h1]
      · simp [h1, h2]

/-! ### `AnalyticIntegrator._update_step` -/

theorem updateStep_lookup {α : Type} [Inhabited α] (allSyms updKeys : List String) (f : String → List α → α) (dt : α)
    (iv : List (String × α)) (k : String) :
    (Generated.updateStep allSyms updKeys f dt iv).lookup k =
      if k ∈ updKeys then some (f k (dt :: allSyms.map (fun s => Glue.get iv s))) else none := by
  unfold Generated.updateStep
  rw [step_updateStep_for1_spec]
  simp

/-- the new state does not depend on the order in which the old state dictionary lists its entries -/
theorem updateStep_order_invariant {α : Type} [Inhabited α] (allSyms updKeys : List String) (f : String → List α → α) (dt : α)
    (iv iv' : List (String × α)) (h : ∀ k, iv.lookup k = iv'.lookup k) :
    Generated.updateStep allSyms updKeys f dt iv = Generated.updateStep allSyms updKeys f dt iv' := by
  have hg : Glue.get iv = Glue.get iv' := by
    funext s
    simp [Glue.get, h s]
  unfold Generated.updateStep
  rw [hg]

end OdeVerif.Refine
