/-
C07 — analysis() is a pure function of its arguments (option state machine), and
C16 — command-line tool and Python API give the same answer (script control flow).
Property theorems only.
-/
import OdeVerif.Model.Config
import OdeVerif.Model.Cli

namespace OdeVerif.C07
open OdeVerif.Config

variable {I F R : Type}

/-- the repaired code: every call starts from the defaults -/
def fixed : Policy := { resetsFirst := true }
/-- the code before the repair (finding F4) -/
def prefix_ : Policy := { resetsFirst := false }

private theorem call_fixed_indep (analyse : Store → I → F → R) (s : Store) (c : Call I F) :
    call fixed analyse s c = call fixed analyse defaults c := by
  simp [call, fixed]

private theorem aux_run_pointwise (analyse : Store → I → F → R) (calls : List (Call I F)) (s0 : Store) :
    run fixed analyse s0 calls = calls.map (fun c => (call fixed analyse defaults c).2) := by
  induction calls generalizing s0 with
  | nil => rfl
  | cons c cs ih =>
    simp only [run, List.map_cons]
    rw [ih, call_fixed_indep]

/-- **History independence.**  Whatever calls were made earlier in the process — with any options
blocks, any `simplify_expression`, failing or not — the outcome of a probe call equals the outcome
of the same call made first in a fresh interpreter. -/
theorem probe_history_independent (analyse : Store → I → F → R) (hist : List (Call I F)) (probe : Call I F) (s0 : Store) :
    (run fixed analyse s0 (hist ++ [probe])).getLast? = (run fixed analyse defaults [probe]).getLast? := by
  rw [aux_run_pointwise, aux_run_pointwise]
  simp

/-- the same for every position of a history: the i-th outcome depends on the i-th call only -/
theorem run_pointwise (analyse : Store → I → F → R) (calls : List (Call I F)) (s0 : Store) :
    run fixed analyse s0 calls = calls.map (fun c => (call fixed analyse defaults c).2) :=
  aux_run_pointwise analyse calls s0

private theorem get_cons (e : String × String) (t : Store) (k : String) :
    Store.get (e :: t) k = if e.1 = k then some e.2 else Store.get t k := by
  unfold Store.get
  rw [List.find?_cons]
  by_cases h : e.1 = k
  · simp [h]
  · have hb : (e.1 == k) = false := by simpa using h
    simp [h, hb]

private theorem set_cons (e : String × String) (t : Store) (k v : String) :
    Store.set (e :: t) k v = (if e.1 = k then (e.1, v) else e) :: Store.set t k v := by
  unfold Store.set
  by_cases h : e.1 = k <;> simp [h]

private theorem get_set_ne (s : Store) (k' v k : String) (h : k' ≠ k) :
    (s.set k' v).get k = s.get k := by
  induction s with
  | nil => rfl
  | cons e t ih =>
    rw [set_cons, get_cons, get_cons, ih]
    by_cases hk' : e.1 = k'
    · simp [hk', h]
    · simp [hk']

private theorem readOptions_get (l : List (String × String)) (s : Store) (k : String)
    (hk : ∀ kv ∈ l, kv.1 ≠ k) : (readOptions s l).1.get k = s.get k := by
  induction l generalizing s with
  | nil => rfl
  | cons kv rest ih =>
    obtain ⟨k', v⟩ := kv
    simp only [readOptions]
    split
    · rw [ih _ (fun kv h => hk kv (List.mem_cons_of_mem _ h))]
      exact get_set_ne s k' v k (hk (k', v) List.mem_cons_self)
    · rfl

/-- **Every option a call does not specify takes its default**: the effective store handed to the
analysis agrees with the defaults on every key the call's options block and `simplify_expression`
argument do not mention. -/
theorem unspecified_takes_default (analyse : Store → I → F → R) (s : Store) (c : Call I F) (k : String)
    (hk : ∀ kv ∈ c.options.getD [], kv.1 ≠ k) (hs : c.simplify = none ∨ k ≠ "simplify_expression") :
    (call fixed analyse s c).1.get k = defaults.get k := by
  have hro := readOptions_get (c.options.getD []) defaults k hk
  unfold call
  simp only [fixed, if_true]
  split
  · rfl
  · split
    · exact hro
    · cases hc : c.simplify with
      | none => simpa using hro
      | some e =>
        rcases hs with hs | hs
        · simp [hc] at hs
        · simp only []
          rw [get_set_ne _ _ _ _ (fun h => hs h.symm)]
          exact hro

/-- the defaults are the documented ones (the table is regenerated from config.py on every run; the
two accuracies are documented as 1E-9 but are 1E-6 in the code — recorded as a documentation
discrepancy, not judged) -/
theorem defaults_documented :
    defaults.get "output_timestep_symbol" = some "__h" ∧ defaults.get "differential_order_symbol" = some "__d" ∧
    defaults.get "input_time_symbol" = some "t" ∧ defaults.get "sim_time" = some "0.1" ∧
    defaults.get "max_step_size" = some "999.0" ∧ defaults.get "simplify_expression" = some "sympy.simplify(expr)" ∧
    defaults.get "expression_simplification_threshold" = some "1000" := by
  decide

/-- an unknown option key makes the call fail (and a known one does not) -/
theorem unknown_option_rejected (analyse : Store → I → F → R) (s : Store) (c : Call I F) (k v : String)
    (hd : c.hasDynamics = true) (hopt : c.options = some [(k, v)]) :
    ((call fixed analyse s c).2 = Outcome.badOption ↔ defaults.hasKey k = false) := by
  unfold call
  simp only [fixed, if_true, hd, hopt, Option.getD_some, readOptions]
  cases h : defaults.hasKey k <;> simp

/-- The repair is needed: without the reset a call that sets an option changes what a later default
call computes (witness: `output_timestep_symbol`). -/
theorem prefix_history_dependent :
    ∃ (hist : List (Call Unit Unit)) (probe : Call Unit Unit),
      (run prefix_ (fun s _ _ => s.get "output_timestep_symbol") defaults (hist ++ [probe])).getLast?
        ≠ (run prefix_ (fun s _ _ => s.get "output_timestep_symbol") defaults [probe]).getLast? := by
  refine ⟨[{ input := (), options := some [("output_timestep_symbol", "dt")], hasDynamics := true,
             simplify := none, flags := () }],
          { input := (), options := none, hasDynamics := true, simplify := none, flags := () }, ?_⟩
  decide

end OdeVerif.C07

namespace OdeVerif.C16
open OdeVerif.Cli

variable {D R : Type}

/-- **Flags are passed through**, bare `--preserve-expressions` meaning `True`. -/
theorem flags_passed_through (a : Args) :
    (apiFlags a).disableStiffness = a.disableStiffness ∧ (apiFlags a).disableAnalytic = a.disableAnalytic ∧
    (apiFlags a).logLevel = a.logLevel ∧
    (a.preserve = .absent → (apiFlags a).preserve = .no) ∧
    (a.preserve = .names [] → (apiFlags a).preserve = .all) ∧
    (∀ x xs, a.preserve = .names (x :: xs) → (apiFlags a).preserve = .list (x :: xs)) := by
  refine ⟨rfl, rfl, rfl, ?_, ?_, ?_⟩
  · intro h; simp [apiFlags, h, preserveOf]
  · intro h; simp [apiFlags, h, preserveOf]
  · intro x xs h; simp [apiFlags, h, preserveOf]

/-- **A result file is written iff everything succeeded, and its content is exactly what the API
returns for the same dictionary and flags.** -/
theorem content_eq_api (exists_ : Str → Bool) (load : Str → Option D) (api : D → ApiFlags → Option R) (a : Args) (d : D) (r : R)
    (he : exists_ a.infile = true) (hl : load a.infile = some d) (hr : api d (apiFlags a) = some r) :
    main exists_ load api a = .wrote (resultName a.infile) r := by
  simp [main, he, hl, hr]

/-- **Missing file, invalid JSON, malformed system or any exception: non-zero exit, no file.** -/
theorem failure_nonzero_no_file (exists_ : Str → Bool) (load : Str → Option D) (api : D → ApiFlags → Option R) (a : Args)
    (h : exists_ a.infile = false ∨ load a.infile = none ∨ ∀ d, load a.infile = some d → api d (apiFlags a) = none) :
    main exists_ load api a = .exitNonzero := by
  unfold main
  cases he : exists_ a.infile with
  | false => simp
  | true =>
    cases hl : load a.infile with
    | none => simp
    | some d =>
      rcases h with h | h | h
      · simp [he] at h
      · simp [hl] at h
      · simp [h d hl]

theorem written_iff_all_succeeded (exists_ : Str → Bool) (load : Str → Option D) (api : D → ApiFlags → Option R) (a : Args) :
    (∃ nm r, main exists_ load api a = .wrote nm r) ↔
      (exists_ a.infile = true ∧ ∃ d r, load a.infile = some d ∧ api d (apiFlags a) = some r) := by
  unfold main
  cases he : exists_ a.infile with
  | false => simp
  | true =>
    cases hl : load a.infile with
    | none => simp
    | some d =>
      cases hr : api d (apiFlags a) with
      | none => simp [hr]
      | some r => simp [hr]

private theorem dropWhile_dot (l rest : Str) (h : '.' ∉ l) :
    (l ++ '.' :: rest).dropWhile (· ≠ '.') = '.' :: rest := by
  induction l with
  | nil => simp
  | cons x t ih =>
    have hx : x ≠ '.' := fun e => h (e ▸ List.mem_cons_self)
    have ht : '.' ∉ t := fun m => h (List.mem_cons_of_mem _ m)
    have := ih ht
    simp at this
    simp [hx, this]

private theorem takeWhile_slash (l rest : Str) (h : '/' ∉ l) (hr : rest = [] ∨ rest.head? = some '/') :
    (l ++ rest).takeWhile (· ≠ '/') = l := by
  induction l with
  | nil =>
    rcases hr with hr | hr
    · simp [hr]
    · cases rest with
      | nil => simp
      | cons y ys =>
        simp at hr
        simp [hr]
  | cons x t ih =>
    have hx : x ≠ '/' := fun e => h (e ▸ List.mem_cons_self)
    have ht : '/' ∉ t := fun m => h (List.mem_cons_of_mem _ m)
    have := ih ht
    simp at this
    simp [hx, this]

private theorem basename_append (dir name : Str) (hname : '/' ∉ name) (hdir : dir = [] ∨ dir.getLast? = some '/') :
    basename (dir ++ name) = name := by
  unfold basename
  rw [List.reverse_append, takeWhile_slash _ _ (by simpa using hname)]
  · simp
  · rcases hdir with hd | hd
    · left; simp [hd]
    · right; rw [List.head?_reverse]; exact hd

private theorem rsplitDot_ext (stem ext : Str) (hext : '.' ∉ ext) : rsplitDot (stem ++ '.' :: ext) = stem := by
  unfold rsplitDot
  have : (stem ++ '.' :: ext).reverse = ext.reverse ++ '.' :: stem.reverse := by simp
  rw [this, dropWhile_dot _ _ (by simpa using hext)]
  simp

private theorem dropWhile_nodot (l : Str) (h : '.' ∉ l) : l.dropWhile (· ≠ '.') = [] := by
  induction l with
  | nil => rfl
  | cons x t ih =>
    have hx : x ≠ '.' := fun e => h (e ▸ List.mem_cons_self)
    have ht : '.' ∉ t := fun m => h (List.mem_cons_of_mem _ m)
    have := ih ht
    simp at this
    simp [hx, this]

private theorem rsplitDot_nodot (s : Str) (h : '.' ∉ s) : rsplitDot s = s := by
  unfold rsplitDot
  rw [dropWhile_nodot _ (by simpa using h)]

/-- **Name of the result file**: `<basename>_result.json` where the basename is the file name without
its directory and without its (last) extension; the directory part may contain dots. -/
theorem resultName_spec (dir stem ext : Str) (hstem : '/' ∉ stem ∧ '.' ∉ stem) (hne : stem ≠ []) (hext : '/' ∉ ext ∧ '.' ∉ ext)
    (hdir : dir = [] ∨ dir.getLast? = some '/') :
    resultName (dir ++ stem ++ '.' :: ext) = stem ++ "_result.json".toList := by
  have hname : '/' ∉ stem ++ '.' :: ext := by
    simp only [List.mem_append, List.mem_cons, not_or]
    exact ⟨hstem.1, by decide, hext.1⟩
  unfold resultName splitextStem
  rw [List.append_assoc, basename_append dir _ hname hdir, rsplitDot_ext stem ext hext.2]
  have : stem.all (· == '.') = false := by
    cases stem with
    | nil => exact absurd rfl hne
    | cons c cs =>
      have hc : c ≠ '.' := fun e => hstem.2 (e ▸ List.mem_cons_self)
      simp [hc]
  simp [this]

/-- a stem that itself contains dots keeps all but the last extension -/
theorem resultName_last_extension_only (dir stem ext : Str) (c : Char) (hc : c ≠ '.') (hcs : c ∈ stem) (hstem : '/' ∉ stem)
    (hext : '/' ∉ ext ∧ '.' ∉ ext) (hdir : dir = [] ∨ dir.getLast? = some '/') :
    resultName (dir ++ stem ++ '.' :: ext) = stem ++ "_result.json".toList := by
  have hname : '/' ∉ stem ++ '.' :: ext := by
    simp only [List.mem_append, List.mem_cons, not_or]
    exact ⟨hstem, by decide, hext.1⟩
  unfold resultName splitextStem
  rw [List.append_assoc, basename_append dir _ hname hdir, rsplitDot_ext stem ext hext.2]
  have : stem.all (· == '.') = false := by
    rw [Bool.eq_false_iff]
    intro hall
    rw [List.all_eq_true] at hall
    have := hall c hcs
    simp at this
    exact hc this
  simp [this]

/-- a file name without extension keeps its whole name, whatever the directory part looks like
(in particular directories with dots: the repaired case, finding F12) -/
theorem resultName_no_extension (dir stem : Str) (hstem : '/' ∉ stem ∧ '.' ∉ stem) (hdir : dir = [] ∨ dir.getLast? = some '/') :
    resultName (dir ++ stem) = stem ++ "_result.json".toList := by
  unfold resultName splitextStem
  rw [basename_append dir stem hstem.1 hdir, rsplitDot_nodot stem hstem.2]
  simp

/-- `dir.v2/input` ↦ `input_result.json` (before the repair the script computed
`basename(infile.rsplit(".", 1)[0])`, which gives `dir_result.json` here). -/
theorem resultName_dot_in_directory :
    resultName "dir.v2/input".toList = "input_result.json".toList ∧
    basename (rsplitDot "dir.v2/input".toList) ++ "_result.json".toList = "dir_result.json".toList := by
  decide +kernel

example : resultName "tests/iaf_psc_exp.json".toList = "iaf_psc_exp_result.json".toList := by decide +kernel

end OdeVerif.C16
