/-
Refinement: the assembly loop of `SystemOfShapes.generate_propagator_solver` as regenerated from
`odetoolbox/system_of_shapes.py` on every run (`OdeVerif/Generated/PyPropagator.lean`) agrees with the
hand-written model `Propagator.assemble` that the theorems of `Proofs/C01.lean` / `Proofs/C08.lean` are about:
same errors, and on success the same update map row by row, and the defined propagator symbols are exactly
the non-zero entries of `P`.
-/
import OdeVerif.Generated.PyPropagator
import OdeVerif.Model.Propagator
import Mathlib.Data.List.Forall2

namespace OdeVerif.Refine
open OdeVerif OdeVerif.Propagator

variable {n : Nat} {K : Type} [DecidableEq K] [OfNat K 0] [Neg K] [Div K]


/-! ### helper lemmas -/

theorem mapM_cons_except {α β ε : Type} (f : α → Except ε β) (a : α) (l : List α) :
    (a :: l).mapM f = match f a with
      | .error e => .error e
      | .ok b => match l.mapM f with
        | .error e => .error e
        | .ok bs => .ok (b :: bs) := by
  rw [List.mapM_cons]
  cases f a <;> cases l.mapM f <;> rfl

/-- the summands the Python loop writes for a model row -/
def termsOf (u : UpdRow n K) (row : Fin n) : List (Term n K) :=
  u.cols.map (Term.px row) ++
    match u.inhom with
    | .none => []
    | .const bv => [Term.stepB bv]
    | .affine bv a => [Term.negPx row, Term.affine row (-bv / a)]

theorem asm_for2_spec (b : Fin n → K) (Pnz : Fin n → Fin n → Bool) (row : Fin n) :
    ∀ (cs : List (Fin n)) (pe : List (Fin n × Fin n)) (ts : List (Term n K)),
      Generated.propagatorSolver_for2 b Pnz row cs pe ts =
        match rowCols b Pnz row cs with
        | .error e => .error e
        | .ok cols => .ok (pe ++ (cs.filter (fun c => Pnz row c)).map (fun c => (row, c)),
                           ts ++ cols.map (Term.px row)) := by
  intro cs
  induction cs with
  | nil => intro pe ts; simp [Generated.propagatorSolver_for2, rowCols]
  | cons col rest ih =>
    intro pe ts
    rw [Generated.propagatorSolver_for2, rowCols]
    by_cases hP : Pnz row col = true
    · by_cases hg : row ≠ col ∧ b col ≠ 0
      · simp [hP, hg]
      · simp only [hP, hg, if_true, if_false]
        rw [ih]
        cases rowCols b Pnz row rest <;> simp [Except.map, hP]
    · simp [hP, ih]

theorem asm_for1_cons (A : Fin n → Fin n → K) (b : Fin n → K) (cnz : Fin n → Bool) (order : Fin n → Nat)
    (Pnz : Fin n → Fin n → Bool) (row : Fin n) (rest : List (Fin n)) (pe : List (Fin n × Fin n))
    (upd : List (Fin n × List (Term n K))) :
    Generated.propagatorSolver_for1 A b cnz order Pnz (row :: rest) pe upd =
      match assembleRow A b cnz order Pnz row with
      | .error e => .error e
      | .ok u => Generated.propagatorSolver_for1 A b cnz order Pnz rest
          (pe ++ ((List.finRange n).filter (fun c => Pnz row c)).map (fun c => (row, c)))
          (upd ++ [(row, termsOf u row)]) := by
  rw [Generated.propagatorSolver_for1, assembleRow]
  by_cases hc : cnz row = true
  · simp [hc]
  · by_cases hg : b row ≠ 0 ∧ order row > 1
    · simp [hc, hg]
    · simp only [hc, hg, if_false]
      rw [asm_for2_spec]
      cases rowCols b Pnz row (List.finRange n) with
      | error e => simp
      | ok cols =>
        by_cases hb : b row = 0
        · simp [termsOf, hb]
        · by_cases ha : A row row = 0
          · simp [termsOf, hb, ha]
          · simp [termsOf, hb, ha]

theorem asm_for1_spec (A : Fin n → Fin n → K) (b : Fin n → K) (cnz : Fin n → Bool) (order : Fin n → Nat)
    (Pnz : Fin n → Fin n → Bool) :
    ∀ (rs : List (Fin n)) (pe : List (Fin n × Fin n)) (upd : List (Fin n × List (Term n K))),
      (∀ e, rs.mapM (assembleRow A b cnz order Pnz) = .error e →
        Generated.propagatorSolver_for1 A b cnz order Pnz rs pe upd = .error e) ∧
      (∀ rows, rs.mapM (assembleRow A b cnz order Pnz) = .ok rows →
        ∃ new : List (Fin n × List (Term n K)),
          Generated.propagatorSolver_for1 A b cnz order Pnz rs pe upd =
            .ok (pe ++ rs.flatMap (fun r => ((List.finRange n).filter (fun c => Pnz r c)).map (fun c => (r, c))),
                 upd ++ new) ∧
          new.map (·.1) = rs ∧
          List.Forall₂ (fun (t : Fin n × List (Term n K)) (u : UpdRow n K) => t.2 = termsOf u t.1) new rows) := by
  intro rs
  induction rs with
  | nil =>
    intro pe upd
    constructor
    · intro e h; simp [List.mapM_nil, pure, Except.pure] at h
    · intro rows h
      simp [List.mapM_nil, pure, Except.pure] at h
      subst h
      exact ⟨[], by simp [Generated.propagatorSolver_for1], rfl, List.Forall₂.nil⟩
  | cons r rest ih =>
    intro pe upd
    rw [asm_for1_cons, mapM_cons_except]
    cases hr : assembleRow A b cnz order Pnz r with
    | error e0 =>
      constructor
      · intro e h; simpa using h
      · intro rows h; simp at h
    | ok u =>
      obtain ⟨ihE, ihO⟩ := ih (pe ++ ((List.finRange n).filter (fun c => Pnz r c)).map (fun c => (r, c)))
        (upd ++ [(r, termsOf u r)])
      cases hm : rest.mapM (assembleRow A b cnz order Pnz) with
      | error e1 =>
        constructor
        · intro e h
          simp at h
          subst h
          exact ihE _ hm
        · intro rows h; simp at h
      | ok rows' =>
        constructor
        · intro e h; simp at h
        · intro rows h
          simp at h
          subst h
          obtain ⟨new, h1, h2, h3⟩ := ihO _ hm
          refine ⟨(r, termsOf u r) :: new, ?_, ?_, ?_⟩
          · simp [h1, List.append_assoc]
          · simp [h2]
          · exact List.Forall₂.cons rfl h3

omit [DecidableEq K] in
theorem evalTerms_termsOf [Add K] [Mul K] [Sub K] (u : UpdRow n K) (row : Fin n)
    (P : Fin n → Fin n → K) (hh : K) (x : Fin n → K) :
    evalTerms (termsOf u row) P hh x = evalRow u row P hh x := by
  have hmap : (u.cols.map (Term.px row)).map (evalTerm P hh x) = u.cols.map (fun c => P row c * x c) := by
    rw [List.map_map]; rfl
  unfold evalTerms termsOf evalRow
  rw [List.map_append, List.foldl_append, hmap]
  cases u.inhom <;> rfl

theorem solver_eq (A : Fin n → Fin n → K) (b : Fin n → K) (cnz : Fin n → Bool) (order : Fin n → Nat)
    (Pnz : Fin n → Fin n → Bool) :
    Generated.propagatorSolver A b cnz order Pnz =
      Generated.propagatorSolver_for1 A b cnz order Pnz (List.finRange n) [] [] := by
  unfold Generated.propagatorSolver
  simp only []
  generalize Generated.propagatorSolver_for1 A b cnz order Pnz (List.finRange n) [] [] = r
  cases r with
  | error e => rfl
  | ok p => cases p; rfl

/-- the three `raise` guards fire for the same rows / columns, in the same order -/
theorem propagatorSolver_error_iff (A : Fin n → Fin n → K) (b : Fin n → K) (cnz : Fin n → Bool) (order : Fin n → Nat)
    (Pnz : Fin n → Fin n → Bool) (e : AsmErr) :
    Generated.propagatorSolver A b cnz order Pnz = .error e ↔ assemble A b cnz order Pnz = .error e := by
  rw [solver_eq]
  obtain ⟨hE, hO⟩ := asm_for1_spec A b cnz order Pnz (List.finRange n) [] []
  unfold assemble
  constructor
  · intro h
    cases hm : (List.finRange n).mapM (assembleRow A b cnz order Pnz) with
    | error e' =>
      have := hE _ hm
      rw [h] at this
      cases this; rfl
    | ok rows =>
      obtain ⟨new, h1, _⟩ := hO _ hm
      rw [h] at h1
      cases h1
  · intro h; exact hE _ h

/-- on success: one update expression per state variable, in the order of `x`; as a function of the propagator
values, the step and the old state it is the model's update row; the propagator symbols defined are exactly
the pairs `(row, col)` with a non-zero propagator entry, in row-major order -/
theorem propagatorSolver_ok [Add K] [Mul K] [Sub K] (A : Fin n → Fin n → K) (b : Fin n → K) (cnz : Fin n → Bool)
    (order : Fin n → Nat) (Pnz : Fin n → Fin n → Bool)
    (pexpr : List (Fin n × Fin n)) (upd : List (Fin n × List (Term n K)))
    (h : Generated.propagatorSolver A b cnz order Pnz = .ok (pexpr, upd)) :
    ∃ rows, assemble A b cnz order Pnz = .ok rows ∧
      upd.map (·.1) = List.finRange n ∧
      List.Forall₂ (fun (t : Fin n × List (Term n K)) (u : UpdRow n K) =>
        ∀ (P : Fin n → Fin n → K) (hh : K) (x : Fin n → K), evalTerms t.2 P hh x = evalRow u t.1 P hh x) upd rows ∧
      pexpr = (List.finRange n).flatMap (fun r => ((List.finRange n).filter (fun c => Pnz r c)).map (fun c => (r, c))) := by
  rw [solver_eq] at h
  obtain ⟨hE, hO⟩ := asm_for1_spec A b cnz order Pnz (List.finRange n) [] []
  unfold assemble
  cases hm : (List.finRange n).mapM (assembleRow A b cnz order Pnz) with
  | error e' =>
    have := hE _ hm
    rw [h] at this
    cases this
  | ok rows =>
    obtain ⟨new, h1, h2, h3⟩ := hO _ hm
    rw [h] at h1
    simp only [List.nil_append, Except.ok.injEq, Prod.mk.injEq] at h1
    obtain ⟨hp, hu⟩ := h1
    subst hp hu
    refine ⟨rows, rfl, h2, ?_, rfl⟩
    refine List.Forall₂.imp ?_ h3
    intro t u ht P hh x
    rw [ht]
    exact evalTerms_termsOf u t.1 P hh x

/-- and conversely a successful model assembly is a successful run of the regenerated loop -/
theorem propagatorSolver_ok_of_model (A : Fin n → Fin n → K) (b : Fin n → K) (cnz : Fin n → Bool) (order : Fin n → Nat)
    (Pnz : Fin n → Fin n → Bool) (rows : List (UpdRow n K)) (h : assemble A b cnz order Pnz = .ok rows) :
    ∃ r, Generated.propagatorSolver A b cnz order Pnz = .ok r := by
  rw [solver_eq]
  obtain ⟨hE, hO⟩ := asm_for1_spec A b cnz order Pnz (List.finRange n) [] []
  obtain ⟨new, h1, _⟩ := hO rows h
  exact ⟨_, h1⟩

end OdeVerif.Refine
