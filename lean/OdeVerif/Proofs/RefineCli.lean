/-
`ode_analyzer.py` read as data on every run (`OdeVerif/Generated/CliTable.lean`) is what `Model/Cli.lean`
assumes: which options exist and how argparse treats them, that every keyword of the `odetoolbox.analysis`
call is fed from the parsed argument of the same name, the normalisation of a bare `--preserve-expressions`,
the expression the result name is computed from, and the order of the steps with their exits.  These are
closed facts about regenerated tables (`decide`); the theorems about the model's control flow
(`flags_passed_through`, `content_eq_api`, `failure_nonzero_no_file`, ...) are in `Proofs/C07.lean`.
-/
import OdeVerif.Generated.CliTable
import OdeVerif.Model.Cli

namespace OdeVerif.Refine
open OdeVerif

/-- every flag reaches the API under its own name: `apiFlags` of the model copies field by field -/
theorem cli_keywords_pass_through :
    Generated.cliApiKeywords =
      [("disable_stiffness_check", "parsed_args.disable_stiffness_check"),
       ("disable_analytic_solver", "parsed_args.disable_analytic_solver"),
       ("preserve_expressions", "parsed_args.preserve_expressions"),
       ("log_level", "parsed_args.log_level")] := rfl

/-- the two switches are `store_true`; `--preserve-expressions` takes zero or more names and is `False` when absent
(`PreserveArg.absent` / `.names l` of the model) -/
theorem cli_arguments_as_modelled :
    Generated.cliArguments =
      [("infile", "", "", "", "str"),
       ("--disable-stiffness-check", "'store_true'", "", "", ""),
       ("--disable-analytic-solver", "'store_true'", "", "", ""),
       ("--preserve-expressions", "'store'", "'*'", "False", ""),
       ("--log-level", "'store'", "", "'WARN'", "")] := rfl

/-- `preserveOf`: an empty list of names means `True`, nothing else is rewritten -/
theorem cli_preserve_normalisation_as_modelled :
    Generated.cliPreserveNormalisation =
      "if isinstance(parsed_args.preserve_expressions, Iterable) and len(parsed_args.preserve_expressions) == 0:\n    parsed_args.preserve_expressions = True" := rfl

/-- `resultName`: extension stripped from the base name of the path -/
theorem cli_result_stem_as_modelled :
    Generated.cliResultStem = "basename = os.path.splitext(os.path.basename(parsed_args.infile))[0]" := rfl

/-- `main`: missing file, unreadable JSON and a rejected system leave with status 1 *before* the result file is
opened; the file is written last, with the API's result -/
theorem cli_steps_as_modelled :
    Generated.cliSteps =
      ["make-parser", "parse-args", "normalise-preserve", "log", "log",
       "missing-file:not os.path.isfile(parsed_args.infile)|sys.exit(1)",
       "load-json:Exception|sys.exit(1)",
       "analysis:indict|MalformedInputException|sys.exit(1)",
       "result-stem", "result-name:'%s_result.json' % basename", "log",
       "write:open(outfname, 'w')|outfile.write(json.dumps(result, indent=2))"] := rfl

end OdeVerif.Refine
