/-
C14 — Solver recommendation is the documented function of fairly measured step sizes.

Property theorems only.  `Generated.drawDecision` is re-translated from the Python source on
every run, so `drawDecision_table` is re-checked against what `_draw_decision` says now.
-/
import OdeVerif.Model.Stiffness
import Mathlib.Algebra.Order.Field.Basic
import Mathlib.Tactic.Linarith
import Mathlib.Tactic.Ring

namespace OdeVerif.C14
open OdeVerif.Stiffness OdeVerif.Generated

/-- **Decision table.**  For every ordered field, every quadruple of step sizes and every ratio
setting, away from the two tie surfaces of the minimum-step comparisons (ties are left
unspecified by the property; the average comparison has no unspecified tie: "exceeds" is strict
and everything else is explicit), the function in the source equals the documented rule.
Positivity of the inputs is not needed. -/
theorem drawDecision_table {α : Type} [Field α] [LinearOrder α] [IsStrictOrderedRing α]
    (eps mi me ai ae dr ar : α) (h1 : mi ≠ dr * eps) (h2 : me ≠ dr * eps) :
    drawDecision eps mi me ai ae dr ar = documented eps mi me ai ae dr ar := by
  unfold drawDecision documented
  simp only [gt_iff_lt]
  rcases lt_trichotomy mi (dr * eps) with a | a | a <;>
  rcases lt_trichotomy me (dr * eps) with b | b | b <;>
  first
    | exact absurd a h1
    | exact absurd b h2
    | (by_cases c : ar * ae < ai <;> simp [a, b, c, not_lt_of_gt a, not_lt_of_gt b])

/-- The four clauses of the property statement, spelled out one by one. -/
theorem drawDecision_clauses {α : Type} [Field α] [LinearOrder α] [IsStrictOrderedRing α]
    (eps mi me ai ae dr ar : α) :
    (me < dr * eps → dr * eps < mi → drawDecision eps mi me ai ae dr ar = "implicit") ∧
    (mi < dr * eps → dr * eps < me → drawDecision eps mi me ai ae dr ar = "explicit") ∧
    (mi < dr * eps → me < dr * eps → drawDecision eps mi me ai ae dr ar = "warning") ∧
    (dr * eps < mi → dr * eps < me → ar * ae < ai → drawDecision eps mi me ai ae dr ar = "implicit") ∧
    (dr * eps < mi → dr * eps < me → ai < ar * ae → drawDecision eps mi me ai ae dr ar = "explicit") := by
  refine ⟨?_, ?_, ?_, ?_, ?_⟩ <;> intros <;> unfold drawDecision <;> simp only [gt_iff_lt] <;>
    simp [*, not_lt_of_gt, le_of_lt]

/-- The default ratios in the source are the documented ones (10 and 6). -/
theorem drawDecision_defaults :
    drawDecisionDefaults = [("machine_precision_dist_ratio", 10), ("avg_step_size_ratio", 6)] := by
  decide

/-- The argument order `_draw_decision(step_min_imp, step_min_exp, step_average_imp,
step_average_exp, …)` is the one `check_stiffness` calls it with. -/
theorem drawDecision_args :
    drawDecisionArgs = ["step_min_imp", "step_min_exp", "step_average_imp", "step_average_exp",
      "machine_precision_dist_ratio", "avg_step_size_ratio"] := by
  decide

/-- The returned solver name carries the recommendation after `numeric-`. -/
theorem solverName_suffix (r : String) : solverName (some r) = "numeric-" ++ r := by
  simp [solverName, String.append_assoc]

theorem solverName_none : solverName none = "numeric" := rfl

/-- **Fair benchmark.**  If `_evaluate_integrator` re-seeds the generator the stimulus is drawn
from, both candidates are benchmarked on the same stimulus, whatever the process' generator
states were before and whatever the stimulus generator does with its draws. -/
theorem benchmarks_same_stimulus {σ : Type} (pol : SeedPolicy) (hpy : pol.seedsPython = true)
    (seed : Nat) (g : Gen σ) (w : World) :
    let r := checkStiffness pol seed g w
    r.2.1.1 = r.2.1.2 := by
  simp [checkStiffness, evaluateIntegrator, hpy]

/-- **Reproducible.**  With that policy the stimuli (hence everything computed from them) are a
function of the seed alone: two different worlds give the same pair of stimuli. -/
theorem benchmarks_reproducible {σ : Type} (pol : SeedPolicy) (hpy : pol.seedsPython = true)
    (seed : Nat) (g : Gen σ) (w w' : World) :
    (checkStiffness pol seed g w).2.1 = (checkStiffness pol seed g w').2.1 := by
  simp [checkStiffness, evaluateIntegrator, hpy]

/-- The hypothesis is needed: a policy that seeds only NumPy (the code before the repair, finding
F8) lets the second candidate see a different stimulus. -/
theorem benchmarks_unfair_without_python_seed :
    ∃ (g : Gen Rng) (w : World),
      let r := checkStiffness { seedsNumpy := true, seedsPython := false } 123 g w
      r.2.1.1 ≠ r.2.1.2 := by
  refine ⟨{ spikes := fun s => s 0, consumed := fun _ => 1 }, { np := .ambient 0, py := .ambient 0 }, ?_⟩
  decide

/-- non-vacuity: the hypotheses of `drawDecision_table` are met by concrete rationals in each of
the 3 regimes -/
example : drawDecision (1/1000 : ℚ) 1 (1/1000000) 1 1 10 6 = "implicit" ∧
          drawDecision (1/1000 : ℚ) (1/1000000) 1 1 1 10 6 = "explicit" ∧
          drawDecision (1/1000 : ℚ) (1/1000000) (1/1000000) 1 1 10 6 = "warning" ∧
          drawDecision (1/1000 : ℚ) 1 1 7 1 10 6 = "implicit" ∧
          drawDecision (1/1000 : ℚ) 1 1 5 1 10 6 = "explicit" := by
  refine ⟨?_, ?_, ?_, ?_, ?_⟩ <;> (unfold drawDecision; norm_num)

end OdeVerif.C14
