/-
Refinement: `SystemOfShapes.get_dependency_edges` and `SystemOfShapes.propagate_lin_cc_judgements`
as regenerated from `odetoolbox/system_of_shapes.py` on every run (`OdeVerif/Generated/PyGraph.lean`)
agree with the hand-written model (`OdeVerif/Model/Graph.lean`) that the theorems of `Proofs/C03.lean`
are about -- for every system size and dependency pattern.
-/
import OdeVerif.Generated.PyGraph
import OdeVerif.Model.Graph

namespace OdeVerif.Refine
open OdeVerif

set_option linter.unusedVariables false

theorem for2_spec (s : Graph.Sys) (i : Nat) (l : List (Nat × Nat)) (E : List (Nat × Nat)) :
    Generated.dependencyEdges_for2 s i i l E =
      E ++ ((l.filter (fun p => s.dep p.1 i)).map (fun p => (p.2, i))) := by
  induction l generalizing E with
  | nil => simp [Generated.dependencyEdges_for2]
  | cons p rest ih =>
    obtain ⟨j, sym2⟩ := p
    simp only [Generated.dependencyEdges_for2]
    rw [ih]
    by_cases h : s.dep j i = true
    · have h' : (s.anz j i = true) ∨ (s.cdep j i = true) := by
        simpa [Graph.Sys.dep] using h
      simp [h', h]
    · have h' : ¬ ((s.anz j i = true) ∨ (s.cdep j i = true)) := by
        simpa [Graph.Sys.dep] using h
      simp [h', h]

theorem for2_range (s : Graph.Sys) (i : Nat) (E : List (Nat × Nat)) :
    Generated.dependencyEdges_for2 s i i (Py.enumerateRange s.n) E =
      E ++ (((List.range s.n).filter (fun j => s.dep j i)).map (fun j => (j, i))) := by
  rw [for2_spec]
  simp [Py.enumerateRange, List.filter_map, Function.comp_def]

theorem for1_spec (s : Graph.Sys) (l : List Nat) (E : List (Nat × Nat)) :
    Generated.dependencyEdges_for1 s (l.map (fun i => (i, i))) E =
      E ++ l.flatMap (fun i => ((List.range s.n).filter (fun j => s.dep j i)).map (fun j => (j, i))) := by
  induction l generalizing E with
  | nil => simp [Generated.dependencyEdges_for1]
  | cons i rest ih =>
    simp only [List.map_cons, Generated.dependencyEdges_for1]
    rw [for2_range, ih]
    simp

/-- the edge list in the order the two nested loops produce it -/
theorem dependencyEdges_spec (s : Graph.Sys) :
    Generated.dependencyEdges s =
      (List.range s.n).flatMap (fun i => ((List.range s.n).filter (fun j => s.dep j i)).map (fun j => (j, i))) := by
  unfold Generated.dependencyEdges
  show Generated.dependencyEdges_for1 s (Py.enumerateRange s.n) [] = _
  unfold Py.enumerateRange
  rw [for1_spec]
  simp

/-- `(x_j, x_i)` is an edge iff `x_j` depends on `x_i` (`A[j,i] ≠ 0` or `x_i` occurs in `c[j]`) -/
theorem mem_dependencyEdges (s : Graph.Sys) (j i : Nat) :
    (j, i) ∈ Generated.dependencyEdges s ↔ j < s.n ∧ i < s.n ∧ s.dep j i = true := by
  rw [dependencyEdges_spec]
  simp only [List.mem_flatMap, List.mem_map, List.mem_filter, List.mem_range, Prod.mk.injEq]
  constructor
  · rintro ⟨a, ha, b, ⟨hb, hd⟩, rfl, rfl⟩
    exact ⟨hb, ha, hd⟩
  · rintro ⟨hj, hi, hd⟩
    exact ⟨i, hi, j, ⟨hj, hd⟩, rfl, rfl⟩

theorem neighbours_aux (n : Nat) (dep : Nat → Nat → Bool) (m : Nat) (l : List Nat) (hl : l.Nodup) :
    ((l.flatMap (fun i => ((List.range n).filter (fun j => dep j i)).map (fun j => (j, i)))).filter
        (fun (p : Nat × Nat) => decide (p.2 = m))).map (fun p => p.1)
      = if m ∈ l then (List.range n).filter (fun j => dep j m) else [] := by
  induction l with
  | nil => simp
  | cons i rest ih =>
    have hnd := List.nodup_cons.mp hl
    simp only [List.flatMap_cons, List.filter_append, List.map_append]
    rw [ih hnd.2]
    by_cases him : i = m
    · subst him
      simp [hnd.1, List.filter_map, Function.comp_def]
    · have : ¬ m = i := fun h => him h.symm
      simp [him, this, List.filter_map, Function.comp_def]

theorem neighbours_spec (s : Graph.Sys) (m : Nat) (hm : m < s.n) :
    ((Generated.dependencyEdges s).filter (fun (n1, n2) => decide (n2 = m))).map (fun (n1, n2) => n1)
      = (List.range s.n).filter (fun j => s.dep j m) := by
  rw [dependencyEdges_spec]
  have := neighbours_aux s.n s.dep m (List.range s.n) List.nodup_range
  simp only [List.mem_range, hm, if_true] at this
  exact this

theorem for2_fold (l : List Nat) (v : Nat → Bool) (q : List Nat) :
    Generated.propagate_for2 l v q =
      l.foldl (fun (st : (Nat → Bool) × List Nat) j =>
        if st.1 j then (fun k => if k = j then false else st.1 k, st.2 ++ [j]) else st) (v, q) := by
  induction l generalizing v q with
  | nil => simp [Generated.propagate_for2]
  | cons j rest ih =>
    simp only [Generated.propagate_for2, List.foldl_cons]
    by_cases h : v j = true
    · simp only [h, if_true]
      rw [ih]
      rfl
    · simp only [h]
      rw [ih]
      rfl

theorem for2_visit (n : Nat) (dep : Nat → Nat → Bool) (m : Nat) (v : Nat → Bool) (q : List Nat) :
    Generated.propagate_for2 ((List.range n).filter (fun j => dep j m)) v q = Graph.visit n dep m v q := by
  rw [for2_fold, List.foldl_filter]
  unfold Graph.visit
  congr 1
  funext st j
  by_cases h1 : dep j m = true <;> by_cases h2 : st.1 j = true <;> simp [h1, h2]

theorem for2_mem (l : List Nat) (v : Nat → Bool) (q : List Nat) :
    ∀ x ∈ (Generated.propagate_for2 l v q).2, x ∈ q ∨ x ∈ l := by
  induction l generalizing v q with
  | nil => intro x hx; simpa [Generated.propagate_for2] using hx
  | cons j rest ih =>
    intro x hx
    simp only [Generated.propagate_for2] at hx
    by_cases h : v j = true
    · simp only [h, if_true] at hx
      rcases ih _ _ x hx with h' | h'
      · rcases List.mem_append.mp h' with h'' | h''
        · exact Or.inl h''
        · right; simp at h''; simp [h'']
      · right; simp [h']
    · simp only [h] at hx
      rcases ih _ _ x hx with h' | h'
      · exact Or.inl h'
      · right; simp [h']

theorem while_spec (s : Graph.Sys) (fuel : Nat) : ∀ (v : Nat → Bool) (q : List Nat),
    (∀ m ∈ q, m < s.n) →
    (Generated.propagate_while1 (Generated.dependencyEdges s) (fuel + 1) q v).map (fun r => r.2) =
      Graph.propagate s.n s.dep fuel v q := by
  induction fuel with
  | zero =>
    intro v q hq
    cases q with
    | nil => simp [Generated.propagate_while1, Graph.propagate]
    | cons m q' =>
      simp [Generated.propagate_while1, Graph.propagate]
  | succ fuel ih =>
    intro v q hq
    cases q with
    | nil => simp [Generated.propagate_while1, Graph.propagate]
    | cons m q' =>
      have hm : m < s.n := hq m (by simp)
      have hq' : ∀ x ∈ q', x < s.n := fun x hx => hq x (by simp [hx])
      rw [Generated.propagate_while1]
      simp only [List.length_cons, gt_iff_lt, Nat.zero_lt_succ, if_true]
      rw [Graph.propagate]
      by_cases hv : v m = true
      · simp only [hv, not_true, if_false]
        simp only [Bool.not_true, Bool.false_eq_true, if_false]
        exact ih v q' hq'
      · simp only [hv]
        have hv' : v m = false := by simpa using hv
        simp only [Bool.not_false, if_true]
        rw [neighbours_spec s m hm, for2_visit]
        apply ih
        intro x hx
        rw [← for2_visit] at hx
        rcases for2_mem _ _ _ x hx with h | h
        · exact hq' x h
        · exact List.mem_range.mp (List.mem_filter.mp h).1

theorem initQueue_spec (n : Nat) (v : Nat → Bool) :
    ((Py.items n v).filter (fun (sym, is_lin_cc) => decide (is_lin_cc = false))).map (fun (sym, is_lin_cc) => sym)
      = Graph.initQueue n v := by
  unfold Py.items Graph.initQueue
  simp only [List.filter_map, List.map_map, Function.comp_def]
  simp only [List.map_id']
  congr 1
  funext i
  cases v i <;> simp

/-- the worklist of `propagate_lin_cc_judgements`, run on the edge list of `get_dependency_edges`,
is the model's `Graph.propagate` (the generated loop spends one unit of fuel on the final test) -/
theorem propagate_refines (s : Graph.Sys) (fuel : Nat) (v : Nat → Bool) :
    Generated.propagate (fuel + 1) s.n v (Generated.dependencyEdges s) =
      Graph.propagate s.n s.dep fuel v (Graph.initQueue s.n v) := by
  rw [← while_spec s fuel v (Graph.initQueue s.n v)
    (fun m hm => List.mem_range.mp (List.mem_filter.mp hm).1)]
  unfold Generated.propagate
  simp only [initQueue_spec]
  cases Generated.propagate_while1 (Generated.dependencyEdges s) (fuel + 1) (Graph.initQueue s.n v) v with
  | none => rfl
  | some r => rfl

/-- in particular the verdict of the model is what the regenerated code computes from the eligible set -/
theorem verdict_refines (s : Graph.Sys) :
    Graph.verdict s = Generated.propagate (s.n + 2) s.n (Graph.eligible s) (Generated.dependencyEdges s) := by
  unfold Graph.verdict
  rw [propagate_refines]

end OdeVerif.Refine
