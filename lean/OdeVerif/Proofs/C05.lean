/-
C05 — function-of-time entries are reproduced exactly by the ODE that replaces them.
Property theorems only.
-/
import OdeVerif.Model.FromFunction
import OdeVerif.Lemmas.MatrixFlow

open Matrix NormedSpace
open scoped Matrix.Norms.Operator

namespace OdeVerif.C05
open OdeVerif.FromFunction OdeVerif.MatrixFlow

/-! ### the order search -/

private theorem search_some (o : Oracle) (maxT maxOrder : Nat) : ∀ fuel order k,
    search o maxT maxOrder fuel order = some k →
    order < k ∧ k ≤ maxOrder ∧ (invertible o maxT k && o.verifies k) = true ∧
      ∀ j, order < j → j < k → (invertible o maxT j && o.verifies j) = false := by
  intro fuel
  induction fuel with
  | zero => intro order k h; simp [search] at h
  | succ f ih =>
    intro order k h
    simp only [search] at h
    split at h
    · rename_i hlt
      split at h
      · rename_i htest
        injection h with h
        subst h
        refine ⟨by omega, by omega, htest, ?_⟩
        intro j h1 h2; omega
      · rename_i htest
        obtain ⟨h1, h2, h3, h4⟩ := ih _ _ h
        refine ⟨by omega, h2, h3, ?_⟩
        intro j hj1 hj2
        by_cases hj : j = order + 1
        · subst hj; simpa using htest
        · exact h4 j (by omega) hj2
    · cases h

private theorem search_none (o : Oracle) (maxT maxOrder : Nat) : ∀ fuel order,
    search o maxT maxOrder fuel order = none → maxOrder - order ≤ fuel →
      ∀ j, order < j → j ≤ maxOrder → (invertible o maxT j && o.verifies j) = false := by
  intro fuel
  induction fuel with
  | zero => intro order _ hf j h1 h2; omega
  | succ f ih =>
    intro order h hf j hj1 hj2
    simp only [search] at h
    split at h
    · rename_i hlt
      split at h
      · cases h
      · rename_i htest
        by_cases hj : j = order + 1
        · subst hj; simpa using htest
        · exact ih _ h (by omega) j (by omega) hj2
    · omega

private theorem invertible_iff (o : Oracle) (maxT k : Nat) :
    invertible o maxT k = true ↔ ∃ t, 1 ≤ t ∧ t < maxT ∧ o.invertibleAt k t = true := by
  simp only [invertible, List.any_eq_true, List.mem_range'_1]
  constructor
  · rintro ⟨t, ⟨h1, h2⟩, h3⟩; exact ⟨t, h1, by omega, h3⟩
  · rintro ⟨t, h1, h2, h3⟩; exact ⟨t, ⟨h1, by omega⟩, h3⟩

/-- **The order of the replacing equation never exceeds the documented maximum** (and is at least 1). -/
theorem order_le_max (o : Oracle) (maxT maxOrder k : Nat) (hm : 1 ≤ maxOrder) (h : fromFunction o maxT maxOrder = .ok k) :
    1 ≤ k ∧ k ≤ maxOrder := by
  unfold fromFunction at h
  split at h
  · cases h
  · split at h
    · injection h with h; subst h; exact ⟨Nat.le_refl _, hm⟩
    · split at h
      · rename_i k' hs
        injection h with h; subst h
        obtain ⟨h1, h2, _⟩ := search_some _ _ _ _ _ _ hs
        exact ⟨by omega, h2⟩
      · cases h

/-- the documented maximum is what the source says: 4 (and 100 sample times) -/
theorem defaults_documented : Generated.fromFunctionMaxOrder = 4 ∧ Generated.fromFunctionMaxT = 100 := ⟨rfl, rfl⟩

/-- **A shape is returned only with coefficients that passed the symbolic verification**: rejection is
the only alternative to an exactly satisfied ODE — nothing is approximated. -/
theorem accept_verified (o : Oracle) (maxT maxOrder k : Nat) (h : fromFunction o maxT maxOrder = .ok k) :
    (k = 1 ∧ o.order1Verifies = true) ∨
    (1 < k ∧ o.verifies k = true ∧ ∃ t, 1 ≤ t ∧ t < maxT ∧ o.invertibleAt k t = true) := by
  unfold fromFunction at h
  split at h
  · cases h
  · split at h
    · rename_i h1
      injection h with h; subst h; exact Or.inl ⟨rfl, h1⟩
    · split at h
      · rename_i k' hs
        injection h with h; subst h
        obtain ⟨h1, h2, h3, _⟩ := search_some _ _ _ _ _ _ hs
        rw [Bool.and_eq_true] at h3
        exact Or.inr ⟨h1, h3.2, (invertible_iff _ _ _).1 h3.1⟩
      · cases h

/-- the lowest verifiable order is the one returned -/
theorem accept_minimal (o : Oracle) (maxT maxOrder k : Nat) (h : fromFunction o maxT maxOrder = .ok k) (hk : 1 < k) :
    o.order1Verifies = false ∧ ∀ j, 1 < j → j < k → (invertible o maxT j && o.verifies j) = false := by
  unfold fromFunction at h
  split at h
  · cases h
  · split at h
    · injection h with h; omega
    · rename_i h1
      split at h
      · rename_i k' hs
        injection h with h; subst h
        obtain ⟨_, _, _, h4⟩ := search_some _ _ _ _ _ _ hs
        exact ⟨by simpa using h1, h4⟩
      · cases h

/-- **Rejection**: an error means no order up to the maximum could be verified (or the function
vanishes at all sample times). -/
theorem reject_means_unverified (o : Oracle) (maxT maxOrder : Nat) (e : Err) (h : fromFunction o maxT maxOrder = .error e) :
    (e = .noNonzeroSample ∧ ∀ t, t < maxT → o.nonzeroAt t = false) ∨
    (e = .noOde ∧ o.order1Verifies = false ∧ ∀ j, 1 < j → j ≤ maxOrder → (invertible o maxT j && o.verifies j) = false) := by
  unfold fromFunction at h
  split at h
  · rename_i hf
    injection h with h; subst h
    refine Or.inl ⟨rfl, ?_⟩
    intro t ht
    simp only [firstNonzero, List.find?_eq_none, List.mem_range] at hf
    simpa using hf t ht
  · split at h
    · cases h
    · rename_i h1
      split at h
      · cases h
      · rename_i hs
        injection h with h; subst h
        exact Or.inr ⟨rfl, by simpa using h1, search_none _ _ _ _ _ hs (by omega)⟩

/-! ### exactness of the replacing linear ODE -/

variable {n : ℕ}

/-- companion matrix of  g^(n) = Σ_k a_k g^(k):  rows `k < n-1` are unit super-diagonal, last row `a`
(what `from_shapes` writes for an order-n shape) -/
def companion (a : Fin n → ℝ) : Matrix (Fin n) (Fin n) ℝ :=
  fun i j => if i.val + 1 = n then a j else if j.val = i.val + 1 then 1 else 0

private theorem companion_mulVec (a : Fin n → ℝ) (d : ℕ → ℝ → ℝ)
    (hode : ∀ t, d n t = ∑ k : Fin n, a k * d k.val t) (t : ℝ) (k : Fin n) :
    (companion a *ᵥ (fun j : Fin n => d j.val t)) k = d (k.val + 1) t := by
  simp only [Matrix.mulVec, dotProduct, companion]
  by_cases hk : k.val + 1 = n
  · simp only [hk, if_true]
    exact (hode t).symm
  · simp only [hk, if_false]
    have hlt : k.val + 1 < n := by omega
    rw [Finset.sum_eq_single (⟨k.val + 1, hlt⟩ : Fin n)]
    · simp
    · intro j _ hj
      have : j.val ≠ k.val + 1 := fun h => hj (Fin.ext h)
      simp [this]
    · intro h; exact absurd (Finset.mem_univ _) h

/-- **The propagators reproduce f and its derivatives exactly**: if `d 0 = f`, `d (k+1)` is the
derivative of `d k`, and the verified identity `f^(n) = Σ_{k<n} a_k f^(k)` holds for all `t` (constant
coefficients), then the state `(f, f', …, f^(n-1))` at any time `T` is `exp(T • C)` applied to the
state at 0 — i.e. to the returned initial values `f^(k)(0)`. -/
theorem companion_flow_exact (a : Fin n → ℝ) (d : ℕ → ℝ → ℝ)
    (hd : ∀ k t, HasDerivAt (d k) (d (k + 1) t) t)
    (hode : ∀ t, d n t = ∑ k : Fin n, a k * d k.val t) (T : ℝ) :
    (fun k : Fin n => d k.val T) = P (companion a) T *ᵥ (fun k : Fin n => d k.val 0) := by
  have hF : ∀ t, HasDerivAt (fun (s : ℝ) (k : Fin n) => d k.val s)
      (companion a *ᵥ (fun k : Fin n => d k.val t)) t := by
    intro t
    rw [hasDerivAt_pi]
    intro k
    rw [companion_mulVec a d hode t k]
    exact hd k.val t
  exact flow_unique (companion a) (fun (s : ℝ) (k : Fin n) => d k.val s) hF T

/-- **Any sequence of steps totalling T gives the same state as one step of T.** -/
theorem steps_compose (C : Matrix (Fin n) (Fin n) ℝ) (hs : List ℝ) (x : Fin n → ℝ) :
    hs.foldl (fun s h => P C h *ᵥ s) x = P C hs.sum *ᵥ x := by
  induction hs generalizing x with
  | nil => simp [P_zero]
  | cons h rest ih =>
    rw [List.foldl_cons, ih, List.sum_cons, Matrix.mulVec_mulVec, add_comm, P_add]

/-- hence stepping from the returned initial values over any sequence of steps totalling `T` yields
`f(T)` and its derivatives exactly -/
theorem function_reproduced (a : Fin n → ℝ) (d : ℕ → ℝ → ℝ)
    (hd : ∀ k t, HasDerivAt (d k) (d (k + 1) t) t)
    (hode : ∀ t, d n t = ∑ k : Fin n, a k * d k.val t) (hs : List ℝ) :
    hs.foldl (fun s h => P (companion a) h *ᵥ s) (fun k : Fin n => d k.val 0) = fun k : Fin n => d k.val hs.sum := by
  rw [steps_compose, ← companion_flow_exact a d hd hode]

/-! non-vacuity of the search: order 1 fails, order 2 is singular at t=1 but not at t=2 and verifies -/
example : fromFunction { nonzeroAt := fun t => t ≥ 1, order1Verifies := false, invertibleAt := fun k t => k == 2 && t == 2,
                         verifies := fun k => k == 2 } 100 4 = .ok 2 := by decide +kernel
example : fromFunction { nonzeroAt := fun _ => true, order1Verifies := false, invertibleAt := fun _ _ => true,
                         verifies := fun _ => false } 100 4 = .error .noOde := by decide +kernel

end OdeVerif.C05
