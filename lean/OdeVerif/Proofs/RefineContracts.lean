import OdeVerif.Generated.PyContracts
/-!
The small SymPy-facing helpers, regenerated (`Generated/PyContracts.lean`): what they ask of SymPy and nothing else.  A tolerance, a fast
path or a skipped entry added to one of them changes the regenerated definition and these statements no longer prove.
-/
namespace OdeVerif.Refine
open OdeVerif

/-- `_is_zero` is the SymPy answer, with no other branch -/
theorem isZero_refines {E : Type} (oz : E → Bool) (x : E) : Generated.isZero oz x = oz x := rfl

/-- `is_constant_term`: an atomic number, or every free symbol is a given parameter -/
theorem isConstantTerm_refines (a : Bool) (free : List String) (ps : Option (List String)) :
    Generated.isConstantTerm a free ps = true ↔ (a = true ∨ ∀ s ∈ free, s ∈ ps.getD []) := by
  unfold Generated.isConstantTerm
  cases ps <;> simp

/-- a term without free symbols (`exp(-1)`, `log(2)`, `2**(1/2)`) is constant whatever parameters are given, also none -/
theorem isConstantTerm_of_closed (a : Bool) (ps : Option (List String)) : Generated.isConstantTerm a [] ps = true := by
  rw [isConstantTerm_refines]
  exact Or.inr (fun s hs => by cases hs)

theorem contracts_for2 {E : Type} (undef : E → E → E → Bool) (val : E) (cond : List (E × E)) :
    Generated.isMatrixDefinedUnderSubstitution_for2 undef val cond =
      if cond.any (fun c => undef val c.1 c.2) then Py.Flow.ret false else Py.Flow.next () := by
  induction cond with
  | nil => rfl
  | cons c rest ih =>
    obtain ⟨e, se⟩ := c
    unfold Generated.isMatrixDefinedUnderSubstitution_for2
    by_cases h : undef val e se = true
    · simp [h]
    · simp only [Bool.not_eq_true] at h
      simp only [h, ih, List.any_cons, Bool.false_or]
      simp

theorem contracts_for1 {E : Type} (undef : E → E → E → Bool) (cond : List (E × E)) (entries : List E) :
    Generated.isMatrixDefinedUnderSubstitution_for1 undef cond entries =
      if entries.any (fun v => cond.any (fun c => undef v c.1 c.2)) then Py.Flow.ret false else Py.Flow.next () := by
  induction entries with
  | nil => rfl
  | cons v rest ih =>
    unfold Generated.isMatrixDefinedUnderSubstitution_for1
    rw [contracts_for2]
    by_cases h : cond.any (fun c => undef v c.1 c.2) = true
    · simp [h]
    · simp only [Bool.not_eq_true] at h
      simp only [h, ih, List.any_cons, Bool.false_or]
      simp

/-- the system matrix counts as defined under a condition iff NO entry becomes undefined under ANY of its substitutions: no entry and no
substitution is skipped -/
theorem isMatrixDefined_refines {E : Type} (undef : E → E → E → Bool) (entries : List E) (cond : List (E × E)) :
    Generated.isMatrixDefinedUnderSubstitution undef entries cond = true ↔ ∀ v ∈ entries, ∀ c ∈ cond, undef v c.1 c.2 = false := by
  unfold Generated.isMatrixDefinedUnderSubstitution
  rw [contracts_for1]
  by_cases h : entries.any (fun v => cond.any (fun c => undef v c.1 c.2)) = true
  · simp only [h, if_true]
    constructor
    · intro hh; cases hh
    · intro hall
      rw [List.any_eq_true] at h
      obtain ⟨v, hv, hc⟩ := h
      rw [List.any_eq_true] at hc
      obtain ⟨c, hc1, hc2⟩ := hc
      have := hall v hv c hc1
      rw [this] at hc2; cases hc2
  · simp only [h]
    simp only [Bool.not_eq_true] at h
    constructor
    · intro _ v hv c hc
      rw [List.any_eq_false] at h
      have h1 := h v hv
      simp only [Bool.not_eq_true] at h1
      rw [List.any_eq_false] at h1
      have h2 := h1 c hc
      simpa using h2
    · intro _; rfl

end OdeVerif.Refine
