/-
Non-vacuity of `Refine.integrateOde_refines`: its assumptions are met by a concrete configuration over `Rat`
(a stepper that never passes `t = 1`, the sentinel `inf = 2`), and the regenerated loop really runs on it.
-/
import OdeVerif.Proofs.RefineMixed
import Mathlib.Algebra.Order.Ring.Rat
import Mathlib.Tactic.Linarith

namespace OdeVerif.Refine
open OdeVerif

def demoCfg : MI.Cfg Rat :=
  { simTime := 1, maxStep := 1/2, aliasSpikes := false, spikes := [(1/4, [0])], y0 := [1], inc := [1],
    upper := [some 3], lower := [none],
    apply := fun _ t1 h y => (if t1 < 1 then t1 else 1, h, y.map (fun v => v / 2)) }

example : Assumptions demoCfg 2 where
  le_iff_not_lt := fun a b => not_lt.symm
  inf_not_le_zero := by decide
  inf_not_le_apply := fun _ t1 _ _ => by
    simp only [demoCfg]
    split
    · rename_i h; intro h2; linarith
    · decide
  apply_length := fun _ _ _ y => by simp [demoCfg]
  spikes_in_range := by decide

example : (Generated.integrateOde 10 demoCfg 2 true false demoCfg.y0 [0] [] [] false []).isSome = true := by decide +kernel

end OdeVerif.Refine
