/-
The solver partition of `_analysis` as regenerated from `odetoolbox/__init__.py` on every run
(`OdeVerif/Generated/PyPartition.lean`): which state variables are handed to `get_sub_system` for the analytical
solver and which for the numeric one, and how the returned solvers are named.  The two requests are the model's
`Graph.analyticIdx` / `Graph.numericIdx` (whose concatenation is an exact cover of the positions of `x`,
`C03.partition_exact_cover`); the numeric solver is named `Stiffness.solverName` of the recommendation.
-/
import OdeVerif.Generated.PyPartition
import OdeVerif.Model.Graph
import OdeVerif.Model.Stiffness

namespace OdeVerif.Refine
open OdeVerif

theorem part_items_list (l : List Nat) (v : Nat → Bool) :
    ((l.map (fun i => (i, v i))).filter (fun (p : Nat × Bool) => decide (p.2 = true))).map (fun p => p.1) = l.filter v := by
  induction l with
  | nil => rfl
  | cons a t ih =>
    cases h : v a <;> simp_all

theorem py_items_filter (n : Nat) (v : Nat → Bool) :
    ((Py.items n v).filter (fun (p : Nat × Bool) => decide (p.2 = true))).map (fun p => p.1) = Graph.analyticIdx n v := by
  unfold Py.items Graph.analyticIdx
  exact part_items_list _ v

theorem part_gen_analytic (n : Nat) (v : Nat → Bool) :
    (((Py.items n v).filter (fun (_node_sym, _node_is_analytically_solvable) => decide (_node_is_analytically_solvable = true))).map (fun (node_sym, _node_is_analytically_solvable) => node_sym)) = Graph.analyticIdx n v :=
  py_items_filter n v

/-- analytic solver enabled: the sub-systems requested are the analytic positions (if any) and the rest (if any) -/
theorem solverPartition_requests (n : Nat) (v : Nat → Bool) (noStiff : Bool) (rec : Option String) :
    (Generated.solverPartition n v false noStiff rec).1 =
      (if Graph.analyticIdx n v ≠ [] then [Graph.analyticIdx n v] else []) ++
      (if (Graph.analyticIdx n v).length < n then [(List.range n).filter (fun i => decide (¬ i ∈ Graph.analyticIdx n v))] else []) := by
  unfold Generated.solverPartition
  simp only [part_gen_analytic]
  generalize Graph.analyticIdx n v = L
  by_cases h1 : L = []
  · subst h1
    by_cases h2 : 0 < n <;> simp [h2]
  · by_cases h2 : L.length < n <;> simp [h1, h2]

/-- analytic solver disabled: everything goes to the numeric solver -/
theorem solverPartition_disabled (n : Nat) (v : Nat → Bool) (noStiff : Bool) (rec : Option String) (hn : 0 < n) :
    (Generated.solverPartition n v true noStiff rec).1 = [List.range n] := by
  unfold Generated.solverPartition
  simp [hn]

/-- the names of the returned solvers: "analytical" for the first request (if any), and for the numeric one "numeric",
suffixed by the recommendation when the stiffness check ran and gave one (`Stiffness.solverName`) -/
theorem solverPartition_names (n : Nat) (v : Nat → Bool) (noStiff : Bool) (rec : Option String) :
    (Generated.solverPartition n v false noStiff rec).2 =
      (if Graph.analyticIdx n v ≠ [] then ["analytical"] else []) ++
      (if (Graph.analyticIdx n v).length < n then [Stiffness.solverName (if noStiff then none else rec)] else []) := by
  unfold Generated.solverPartition
  simp only [part_gen_analytic]
  generalize Graph.analyticIdx n v = L
  by_cases h1 : L = []
  · subst h1
    by_cases h2 : 0 < n <;> cases noStiff <;> cases rec <;> simp [h2, Stiffness.solverName]
  · by_cases h2 : L.length < n <;> cases noStiff <;> cases rec <;> simp [h1, h2, Stiffness.solverName]

end OdeVerif.Refine
