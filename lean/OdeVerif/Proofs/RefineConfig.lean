/-
Refinement: `_read_global_config` as regenerated from `odetoolbox/__init__.py` on every run
(`OdeVerif/Generated/PyConfig.lean`) is the model function `Config.readOptions` used by `Proofs/C07.lean`.
-/
import OdeVerif.Generated.PyConfig
import OdeVerif.Model.Config

namespace OdeVerif.Refine
open OdeVerif

theorem readGlobalConfig_for_refines : ∀ (opts : List (String × String)) (store : Config.Store),
    Generated.readGlobalConfig_for1 opts store = Config.readOptions store opts := by
  intro opts
  induction opts with
  | nil => intro store; rfl
  | cons kv rest ih =>
    intro store
    obtain ⟨k, v⟩ := kv
    unfold Generated.readGlobalConfig_for1 Config.readOptions
    by_cases h : store.hasKey k = true
    · simp only [h, if_true]; exact ih _
    · simp [h]

/-- options are applied in order; an unknown key stops the loop with the earlier keys already written -/
theorem readGlobalConfig_refines (store : Config.Store) (options : Option (List (String × String))) :
    Generated.readGlobalConfig store options = Config.readOptions store (options.getD []) := by
  unfold Generated.readGlobalConfig
  cases options with
  | none => simp [Config.readOptions]
  | some o =>
    simp only [Option.isSome_some, if_true, Option.getD_some]
    rw [readGlobalConfig_for_refines]
    rcases Config.readOptions store o with ⟨s, b⟩
    cases b <;> rfl

end OdeVerif.Refine
