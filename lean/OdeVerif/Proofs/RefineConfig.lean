/-
Refinement: the option handling at the start of `_analysis` (`Config.reset()`, early return without `dynamics`,
`_read_global_config`, the `simplify_expression` argument) and `_read_global_config` itself, as regenerated from
`odetoolbox/__init__.py` on every run (`OdeVerif/Generated/PyConfig.lean`), are the model functions
`Config.call` (with the policy "reset first") and `Config.readOptions` that `Proofs/C07.lean` is about.
-/
import OdeVerif.Generated.PyConfig
import OdeVerif.Model.Config

namespace OdeVerif.Refine
open OdeVerif

/-- how the model reports the outcome of reading the options -/
def readResult (r : Config.Store × Bool) : Except Config.Store Config.Store :=
  if r.2 then .ok r.1 else .error r.1

theorem readGlobalConfig_for_refines : ∀ (opts : List (String × String)) (store : Config.Store),
    Generated.readGlobalConfig_for1 opts store = readResult (Config.readOptions store opts) := by
  intro opts
  induction opts with
  | nil => intro store; rfl
  | cons kv rest ih =>
    intro store
    obtain ⟨k, v⟩ := kv
    unfold Generated.readGlobalConfig_for1 Config.readOptions
    by_cases h : store.hasKey k = true
    · simp only [h, if_true]; exact ih _
    · simp [h, readResult]

/-- options are applied in order; an unknown key stops the loop with the earlier keys already written -/
theorem readGlobalConfig_refines (store : Config.Store) (options : Option (List (String × String))) :
    Generated.readGlobalConfig store options = readResult (Config.readOptions store (options.getD [])) := by
  unfold Generated.readGlobalConfig
  cases options with
  | none => simp [Config.readOptions, readResult]
  | some o =>
    simp only [Option.isSome_some, if_true, Option.getD_some]
    rw [readGlobalConfig_for_refines]
    rcases Config.readOptions store o with ⟨s, b⟩
    cases b <;> rfl

/-- **every call starts from the default options**: the regenerated prologue of `_analysis` is the model's `call`
under the policy `resetsFirst := true` (the hypothesis of `C07.probe_history_independent`), whatever store the
previous calls left behind -/
theorem analysisPrologue_refines {I F R : Type} (analyse : Config.Store → I → F → R) (s : Config.Store) (c : Config.Call I F) :
    Config.call ⟨true⟩ analyse s c =
      match Generated.analysisPrologue s c.hasDynamics c.options c.simplify with
      | .error s' => (s', .badOption)
      | .ok (s', .empty) => (s', .empty)
      | .ok (s', .proceed) => (s', .result (analyse s' c.input c.flags)) := by
  unfold Config.call Generated.analysisPrologue
  cases hd : c.hasDynamics with
  | false => simp
  | true =>
    simp only [Bool.not_true, Bool.false_eq_true, if_false, if_true, readGlobalConfig_refines, readResult]
    rcases Config.readOptions Config.defaults (c.options.getD []) with ⟨s1, b⟩
    cases b with
    | false => simp
    | true =>
      cases c.simplify <;> simp

/-- the store the prologue leaves behind does not depend on the store it found -/
theorem analysisPrologue_ignores_store (s s' : Config.Store) (hasDynamics : Bool) (options : Option (List (String × String)))
    (simplify : Option String) :
    Generated.analysisPrologue s hasDynamics options simplify = Generated.analysisPrologue s' hasDynamics options simplify := rfl

end OdeVerif.Refine
