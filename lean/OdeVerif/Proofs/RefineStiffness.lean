/-
`StiffnessTester.check_stiffness` as regenerated from `odetoolbox/stiffness.py` on every run
(`OdeVerif/Generated/PyStiffness.lean`): the explicit candidate is benchmarked first, the implicit one second, a
benchmark that cannot run (parameters incomplete) gives no recommendation, and otherwise the recommendation is
the regenerated decision function applied to the measured step sizes IN THE RIGHT ORDER - hence, off the tie
surfaces, the documented rule (`C14.drawDecision_table`).
-/
import OdeVerif.Generated.PyStiffness
import OdeVerif.Proofs.C14

namespace OdeVerif.Refine
open OdeVerif OdeVerif.Generated

/-- what `check_stiffness` returns, in terms of the two benchmark outcomes -/
theorem checkStiffness_spec {α : Type} [Mul α] [LT α] [DecidableLT α] [OfNat α 10] [OfNat α 6]
    (eps : α) (bench : Bool → Except Unit (α × α)) :
    checkStiffness eps bench = .ok (match bench false, bench true with
      | .ok (me, ae), .ok (mi, ai) => some (drawDecision eps mi me ai ae 10 6)
      | _, _ => none) := by
  unfold checkStiffness
  rcases bench false with _ | ⟨me, ae⟩ <;> rcases bench true with _ | ⟨mi, ai⟩ <;> rfl

/-- **the recommendation is the documented function of the measured step sizes**: implicit minimum / average from the
`step_bsimp` run, explicit ones from the `step_rk4` run, ratios 10 and 6 -/
theorem recommendation_documented {α : Type} [Field α] [LinearOrder α] [IsStrictOrderedRing α]
    (eps : α) (bench : Bool → Except Unit (α × α)) (me ae mi ai : α)
    (hexp : bench false = .ok (me, ae)) (himp : bench true = .ok (mi, ai))
    (h1 : mi ≠ 10 * eps) (h2 : me ≠ 10 * eps) :
    checkStiffness eps bench = .ok (some (Stiffness.documented eps mi me ai ae 10 6)) := by
  rw [checkStiffness_spec, hexp, himp]
  simp only
  rw [C14.drawDecision_table eps mi me ai ae 10 6 h1 h2]

/-- no recommendation when a benchmark cannot run -/
theorem no_recommendation_without_benchmark {α : Type} [Mul α] [LT α] [DecidableLT α] [OfNat α 10] [OfNat α 6]
    (eps : α) (bench : Bool → Except Unit (α × α)) (h : bench false = .error () ∨ bench true = .error ()) :
    checkStiffness eps bench = .ok none := by
  rw [checkStiffness_spec]
  rcases h with h | h
  · rw [h]
  · rw [h]; rcases bench false with _ | ⟨me, ae⟩ <;> rfl

end OdeVerif.Refine
