/-
Refinement: `SystemOfShapes.get_jacobian_matrix` as regenerated from `odetoolbox/system_of_shapes.py` on every
run (`OdeVerif/Generated/PyJacobian.lean`): entry (i, j) is the derivative with respect to x_j of the row
expression `Shapes.jacobianExpr` that `C02.jacobian_correct` is about, for every i, j, in row-major order.
-/
import OdeVerif.Generated.PyJacobian
import OdeVerif.Model.Shapes
import OdeVerif.Proofs.C02

namespace OdeVerif.Refine
open OdeVerif

private theorem aux_for2 {K : Type} [Add K] [Mul K] [OfNat K 0] (a b : List K) (e : K) :
    Generated.jacobianMatrix_for2 (List.zip a b) e = (List.zipWith (· * ·) a b).foldl (· + ·) e := by
  induction a generalizing b e with
  | nil => simp [Generated.jacobianMatrix_for2]
  | cons v a ih =>
    cases b with
    | nil => simp [Generated.jacobianMatrix_for2]
    | cons w b =>
      simp only [List.zip_cons_cons, Generated.jacobianMatrix_for2, List.zipWith_cons_cons, List.foldl_cons]
      exact ih b _

private theorem aux_for3 {K : Type} [Add K] [Mul K] [OfNat K 0] (diff : K → Nat → K) (e : K) (i : Nat)
    (l : List Nat) (J : List ((Nat × Nat) × K)) :
    Generated.jacobianMatrix_for3 diff e i (l.map (fun j => (j, j))) J
      = J ++ l.map (fun j => ((i, j), diff e j)) := by
  induction l generalizing J with
  | nil => simp [Generated.jacobianMatrix_for3]
  | cons j l ih =>
    simp only [List.map_cons, Generated.jacobianMatrix_for3]
    rw [ih]
    simp

private theorem aux_for1 {K : Type} [Add K] [Mul K] [OfNat K 0] (diff : K → Nat → K) (A : List (List K)) (c x : List K)
    (l : List Nat) (J : List ((Nat × Nat) × K)) :
    Generated.jacobianMatrix_for1 diff A c x (l.map (fun i => (i, i))) J
      = J ++ l.flatMap (fun i => (List.range x.length).map (fun j =>
          ((i, j), diff (Shapes.jacobianExpr (A.getD i []) x (c.getD i 0)) j))) := by
  induction l generalizing J with
  | nil => simp [Generated.jacobianMatrix_for1]
  | cons i l ih =>
    simp only [List.map_cons, Generated.jacobianMatrix_for1]
    rw [ih, aux_for2]
    unfold Py.enumerateRange
    rw [aux_for3]
    simp [Shapes.jacobianExpr]

/-- the assignments `J[i, j] = diff(expr_i, x_j)`, all of them, in order -/
theorem jacobianMatrix_refines {K : Type} [Add K] [Mul K] [OfNat K 0] (diff : K → Nat → K) (A : List (List K)) (c x : List K) :
    Generated.jacobianMatrix diff A c x =
      (List.range x.length).flatMap (fun i => (List.range x.length).map (fun j =>
        ((i, j), diff (Shapes.jacobianExpr (A.getD i []) x (c.getD i 0)) j))) := by
  unfold Generated.jacobianMatrix Py.enumerateRange
  simp only []
  rw [aux_for1]
  simp

/-- **C10 on the regenerated code**: for derivations `d j` (one per state variable) that kill the entries of `A` and act
as Kronecker deltas on the state variables, every entry `(i, j)` the regenerated `get_jacobian_matrix` assigns is
`A[i, j] + d_j (c_i)`: the true partial derivative of the complete right-hand side of row `i` -/
theorem jacobianMatrix_correct {R : Type} [CommRing R] (d : Nat → OdeVerif.C02.Deriv R) (A : List (List R)) (c x : List R)
    (hlen : ∀ i, i < x.length → (A.getD i []).length = x.length)
    (hA : ∀ i j, ∀ a ∈ A.getD i [], (d j).D a = 0)
    (hx : ∀ j k, k < x.length → (d j).D (x.getD k 0) = if k = j then 1 else 0)
    (i j : Nat) (hi : i < x.length) (hj : j < x.length) :
    ((i, j), (A.getD i []).getD j 0 + (d j).D (c.getD i 0)) ∈ Generated.jacobianMatrix (fun e j => (d j).D e) A c x := by
  rw [jacobianMatrix_refines]
  refine List.mem_flatMap.2 ⟨i, List.mem_range.2 hi, List.mem_map.2 ⟨j, List.mem_range.2 hj, ?_⟩⟩
  rw [C02.jacobian_correct (d j) (A.getD i []) x (c.getD i 0) j (hlen i hi) hj (hA i j) (hx j)]

end OdeVerif.Refine
