/-
Refinement: the string-assembly loop of `SystemOfShapes.reconstitute_expr` (numeric solver) as regenerated from
`odetoolbox/system_of_shapes.py` on every run (`OdeVerif/Generated/PyNumeric.lean`): one expression per state
variable, in the order of `x`, and its value is the model's `Shapes.numericRhs` (which `C02.numericRhs_eq_row` /
`numericRhs_eq_userRhs` are about) -- provided a coefficient that prints as "1" is 1.
-/
import OdeVerif.Generated.PyNumeric
import OdeVerif.Model.Shapes
import Mathlib.Algebra.Ring.Defs

namespace OdeVerif.Refine
open OdeVerif


theorem numericExpressions_for2_closed {K : Type} (A : Nat → Nat → K) (one : Nat → Nat → Bool) (row : Nat)
    (l : List Nat) (acc : List (Shapes.NTerm K)) :
    Generated.numericExpressions_for2 A one row (l.map (fun i => (i, i))) acc =
      acc ++ l.map (fun col => if one row col = true then Shapes.NTerm.var col else Shapes.NTerm.scaled col (A row col)) := by
  induction l generalizing acc with
  | nil => simp [Generated.numericExpressions_for2]
  | cons a t ih =>
    simp only [List.map_cons, Generated.numericExpressions_for2]
    rw [ih]
    by_cases h : one row a = true <;> simp [h]

theorem numericExpressions_for1_closed {K : Type} (n : Nat) (A : Nat → Nat → K) (b c : Nat → K)
    (one : Nat → Nat → Bool) (l : List Nat) (acc : List (Nat × List (Shapes.NTerm K) × K × K)) :
    Generated.numericExpressions_for1 n A b c one (l.map (fun i => (i, i))) acc =
      acc ++ l.map (fun r => (r, (List.range n).map (fun col =>
        if one r col = true then Shapes.NTerm.var col else Shapes.NTerm.scaled col (A r col)), b r, c r)) := by
  induction l generalizing acc with
  | nil => simp [Generated.numericExpressions_for1]
  | cons a t ih =>
    simp only [List.map_cons, Generated.numericExpressions_for1]
    rw [ih, Py.enumerateRange, numericExpressions_for2_closed]
    simp

theorem numericExpressions_closed {K : Type} (n : Nat) (A : Nat → Nat → K) (b c : Nat → K)
    (one : Nat → Nat → Bool) :
    Generated.numericExpressions n A b c one =
      (List.range n).map (fun r => (r, (List.range n).map (fun col =>
        if one r col = true then Shapes.NTerm.var col else Shapes.NTerm.scaled col (A r col)), b r, c r)) := by
  unfold Generated.numericExpressions
  simp only [Py.enumerateRange]
  rw [numericExpressions_for1_closed]
  simp

theorem zipWith_map_same {α β γ δ : Type} (f : β → γ → δ) (g : α → β) (h : α → γ) (l : List α) :
    List.zipWith f (l.map g) (l.map h) = l.map (fun a => f (g a) (h a)) := by
  induction l with
  | nil => rfl
  | cons a t ih => simp [ih]

/-- one entry per row, rows in order, carrying that row's `b` and `c` -/
theorem numericExpressions_rows {K : Type} (n : Nat) (A : Nat → Nat → K) (b c : Nat → K) (one : Nat → Nat → Bool) :
    (Generated.numericExpressions n A b c one).map (fun e => (e.1, e.2.2.1, e.2.2.2)) =
      (List.range n).map (fun r => (r, b r, c r)) := by
  rw [numericExpressions_closed, List.map_map]
  rfl

/-- the value of the expression written for a row is `Σ_col x_col * A[row, col] + b + c` -/
theorem numericExpressions_value {K : Type} [CommRing K] (n : Nat) (A : Nat → Nat → K) (b c : Nat → K) (one : Nat → Nat → Bool)
    (hone : ∀ r col, one r col = true → A r col = 1) (x : Nat → K) :
    ∀ e ∈ Generated.numericExpressions n A b c one,
      Shapes.evalNRow x e.2.1 e.2.2.1 e.2.2.2 =
        Shapes.numericRhs ((List.range n).map (A e.1)) ((List.range n).map x) (b e.1) (c e.1) := by
  intro e he
  rw [numericExpressions_closed] at he
  obtain ⟨r, _, rfl⟩ := List.mem_map.mp he
  simp only [Shapes.evalNRow, Shapes.numericRhs]
  rw [zipWith_map_same, List.map_map]
  congr 3
  apply List.map_congr_left
  intro col _
  by_cases h : one r col = true
  · simp [h, Shapes.evalNTerm, hone r col h]
  · simp [h, Shapes.evalNTerm]

end OdeVerif.Refine
