/-
End-to-end losslessness of the symbolic pipeline model (`Model/Pipeline.lean`), C02 at full strength on the
Laurent-polynomial fragment with NO contract on `expand()`: every row of `x' = A x + b + c` denotes the
right-hand side the user wrote, every term lands in exactly one bucket, the coefficients of the linear
part and the offset contain parameters only, and the right-hand sides assembled for the numeric solver
denote the user's right-hand sides.  Property theorems only.
-/
import OdeVerif.Lemmas.Collect
import Mathlib.Tactic.Abel
import Mathlib.Algebra.BigOperators.Group.List.Basic

namespace OdeVerif.PipelineSpec
open OdeVerif.Poly OdeVerif.Pipeline OdeVerif.C04b

variable {n : ℕ}

/-- the state variable `x` as a Laurent polynomial -/
noncomputable def X (x : Fin n) : L n := AddMonoidAlgebra.single (xMono x) 1

/-- denotation of a row:  Σ_j A_j · x_j + b + c -/
noncomputable def denRow (xs : List (Fin n)) (r : Row n) : L n :=
  (List.zipWith (fun p x => denP p * X x) r.A xs).sum + denP r.b + denP r.c

/-- the right-hand sides the user wrote, per position of `x`: the next derivative for the lower
derivatives of a higher-order entry, the entry's expression for its highest derivative -/
noncomputable def userRhs (s : Sys n) : List (L n) :=
  s.entries.flatMap (fun e => (e.derivs.drop 1).map X ++ (if e.derivs.isEmpty then [] else [den e.rhs]))


/-! ### helpers -/

theorem monoDiv_add_xMono (m : Mono n) (s : Fin n) : monoDiv m s + xMono s = m := by
  funext i
  simp only [Pi.add_apply, monoDiv, xMono]
  split_ifs <;> omega

theorem single_monoDiv_mul_X (m : Mono n) (s : Fin n) (q : ℚ) :
    (AddMonoidAlgebra.single (monoDiv m s) q : L n) * X s = AddMonoidAlgebra.single m q := by
  rw [X, AddMonoidAlgebra.single_mul_single, monoDiv_add_xMono, mul_one]

theorem denP_map_monoDiv (p : Poly n) (s : Fin n) :
    denP (p.map (fun t => (monoDiv t.1 s, t.2))) * X s = denP p := by
  induction p with
  | nil => simp [denP_nil]
  | cons t p ih => rw [List.map_cons, denP_cons, denP_cons, add_mul, ih, single_monoDiv_mul_X]

theorem zipWith_map_zipIdx {α β γ : Type*} (f : β → α → γ) (F : α × Nat → β) (l : List α) (k : Nat) :
    List.zipWith f ((l.zipIdx k).map F) l = (l.zipIdx k).map (fun sj => f (F sj) sj.1) := by
  induction l generalizing k with
  | nil => simp
  | cons a l ih => simp [List.zipIdx_cons, ih]

theorem sum_zipIdx_ite {α : Type*} (l : List α) (k j : Nat) (a : L n) :
    ((l.zipIdx k).map (fun sj => if j = sj.2 then a else 0)).sum
      = if k ≤ j ∧ j < k + l.length then a else 0 := by
  induction l generalizing k with
  | nil =>
    have : ¬ (k ≤ j ∧ j < k + 0) := by omega
    simp
  | cons x l ih =>
    rw [List.zipIdx_cons, List.map_cons, List.sum_cons, ih, List.length_cons]
    split_ifs <;> first | omega | simp

theorem firstLinear_spec (isParam : Fin n → Bool) (m : Mono n) (xs : List (Fin n)) (off j : Nat)
    (h : firstLinear isParam m xs off = some j) :
    off ≤ j ∧ ∃ s, xs[j - off]? = some s ∧ monoConst isParam (monoDiv m s) = true := by
  induction xs generalizing off with
  | nil => simp [firstLinear] at h
  | cons s rest ih =>
    rw [firstLinear] at h
    split_ifs at h with hc
    · obtain rfl : off = j := by simpa using h
      exact ⟨le_rfl, s, by simp, hc⟩
    · obtain ⟨h1, s', h2, h3⟩ := ih (off + 1) h
      refine ⟨by omega, s', ?_, h3⟩
      have : j - off = (j - (off + 1)) + 1 := by omega
      rw [this, List.getElem?_cons_succ]
      exact h2

theorem classify_lin_spec (isParam : Fin n → Bool) (xs : List (Fin n)) (m : Mono n) (j : Nat)
    (h : classify isParam xs m = .lin j) :
    ∃ s, xs[j]? = some s ∧ monoConst isParam (monoDiv m s) = true := by
  unfold classify at h
  split_ifs at h
  split at h
  · rename_i j' hj
    obtain rfl : j' = j := by simpa using h
    obtain ⟨_, s, h2, h3⟩ := firstLinear_spec isParam m xs 0 j' hj
    exact ⟨s, by simpa using h2, h3⟩
  · simp at h

theorem classify_const_spec (isParam : Fin n → Bool) (xs : List (Fin n)) (m : Mono n)
    (h : classify isParam xs m = .const) : monoConst isParam m = true := by
  unfold classify at h
  split_ifs at h with hc
  · exact hc
  · split at h <;> simp at h

theorem denP_filter_cons (f : Mono n × Rat → Bool) (t : Mono n × Rat) (p : Poly n) :
    denP ((t :: p).filter f) = (if f t then AddMonoidAlgebra.single t.1 t.2 else 0) + denP (p.filter f) := by
  rw [List.filter_cons]
  split_ifs <;> simp [denP_cons]

theorem split_sum (isParam : Fin n → Bool) (xs : List (Fin n)) (p : Poly n) :
    ((xs.zipIdx).map (fun sj => denP (p.filter (fun t => classify isParam xs t.1 == .lin sj.2)))).sum
      + denP (p.filter (fun t => classify isParam xs t.1 == .const))
      + denP (p.filter (fun t => classify isParam xs t.1 == .nonlin)) = denP p := by
  induction p with
  | nil => simp [denP_nil]
  | cons t p ih =>
    simp only [denP_filter_cons, List.sum_map_add, denP_cons]
    rw [← ih]
    rcases hc : classify isParam xs t.1 with _ | j | _
    · simp
      abel
    · obtain ⟨s, hs, _⟩ := classify_lin_spec isParam xs t.1 j hc
      have hj : j < xs.length := by
        by_contra hlt
        rw [List.getElem?_eq_none (by omega)] at hs
        simp at hs
      have := sum_zipIdx_ite xs 0 j (AddMonoidAlgebra.single t.1 t.2 : L n)
      simp [this, hj]
      abel
    · simp
      abel

/-- **split_lossless, symbolic**: linear part times the variables + offset + nonlinear part is the
expression, for every expression of the grammar, every parameter set and every list of variables -/
theorem splitRow_lossless (isParam : Fin n → Bool) (xs : List (Fin n)) (e : Expr n) :
    denRow xs (splitRow isParam xs e) = den e := by
  have h := split_sum isParam xs (collect (expandRaw e))
  rw [collect_sound, denP_expandRaw] at h
  rw [← h]
  simp only [denRow, splitRow, zipWith_map_zipIdx, denP_map_monoDiv]

theorem splitRow_A_length (isParam : Fin n → Bool) (xs : List (Fin n)) (e : Expr n) :
    (splitRow isParam xs e).A.length = xs.length := by
  simp [splitRow]

/-- coefficients of the linear part contain parameters only (neither state variables nor time) -/
theorem splitRow_A_const (isParam : Fin n → Bool) (xs : List (Fin n)) (e : Expr n) :
    ∀ p ∈ (splitRow isParam xs e).A, ∀ t ∈ p, monoConst isParam t.1 = true := by
  intro p hp t ht
  simp only [splitRow, List.mem_map] at hp
  obtain ⟨sj, hsj, rfl⟩ := hp
  simp only [List.mem_map, List.mem_filter, beq_iff_eq] at ht
  obtain ⟨t0, ⟨_, hc⟩, rfl⟩ := ht
  obtain ⟨s, hs, hm⟩ := classify_lin_spec isParam xs t0.1 sj.2 hc
  have : xs[sj.2]? = some sj.1 := List.mem_zipIdx_iff_getElem?.1 hsj
  rw [this] at hs
  cases hs
  exact hm

/-- so does the offset -/
theorem splitRow_b_const (isParam : Fin n → Bool) (xs : List (Fin n)) (e : Expr n) :
    ∀ t ∈ (splitRow isParam xs e).b, monoConst isParam t.1 = true := by
  intro t ht
  simp only [splitRow, List.mem_filter, beq_iff_eq] at ht
  exact classify_const_spec isParam xs t.1 ht.2

theorem zipWith_map_self {α β γ : Type*} (f : β → α → γ) (G : α → β) (l : List α) :
    List.zipWith f (l.map G) l = l.map (fun a => f (G a) a) := by
  induction l with
  | nil => simp
  | cons a l ih => simp [ih]

theorem denP_one : denP ([(monoOne, 1)] : Poly n) = 1 := by
  rw [denP_cons, denP_nil, add_zero, AddMonoidAlgebra.one_def]
  rfl

theorem sum_map_ite_zero {α : Type*} [DecidableEq α] (l : List α) (x : α) (a : L n) (h : x ∉ l) :
    (l.map (fun s => if s = x then a else 0)).sum = 0 := by
  induction l with
  | nil => simp
  | cons y l ih =>
    rw [List.mem_cons, not_or] at h
    rw [List.map_cons, List.sum_cons, ih h.2, if_neg (fun e => h.1 e.symm), add_zero]

theorem sum_map_ite_nodup {α : Type*} [DecidableEq α] (l : List α) (x : α) (a : L n)
    (hnd : l.Nodup) (h : x ∈ l) :
    (l.map (fun s => if s = x then a else 0)).sum = a := by
  induction l with
  | nil => simp at h
  | cons y l ih =>
    rw [List.nodup_cons] at hnd
    rw [List.map_cons, List.sum_cons]
    by_cases hy : y = x
    · subst hy
      rw [if_pos rfl, sum_map_ite_zero l y a hnd.1, add_zero]
    · rw [if_neg hy, zero_add]
      rcases List.mem_cons.1 h with rfl | h'
      · exact absurd rfl hy
      · exact ih hnd.2 h'

/-- a lower derivative is updated by exactly the next-higher one -/
theorem unitRow_den (xs : List (Fin n)) (hnd : xs.Nodup) (next : Fin n) (h : next ∈ xs) :
    denRow xs (unitRow xs next) = X next := by
  simp only [denRow, unitRow, zipWith_map_self, denP_nil, add_zero]
  rw [← sum_map_ite_nodup xs next (X next) hnd h]
  congr 1
  apply List.map_congr_left
  intro a _
  split_ifs with ha
  · rw [denP_one, one_mul, ha]
  · rw [denP_nil, zero_mul]

theorem entryRows_length (s : Sys n) (e : Entry n) : (entryRows s e).length = e.derivs.length := by
  unfold entryRows
  cases e.derivs with
  | nil => simp
  | cons d rest => simp

theorem rows_length_aux (s : Sys n) (es : List (Entry n)) :
    (es.flatMap (entryRows s)).length = (es.flatMap (·.derivs)).length := by
  induction es with
  | nil => simp
  | cons e es ih => simp [List.flatMap_cons, ih, entryRows_length]

theorem entryRows_den (s : Sys n) (hnd : s.xs.Nodup) (e : Entry n) (he : e ∈ s.entries) :
    (entryRows s e).map (denRow s.xs)
      = (e.derivs.drop 1).map X ++ (if e.derivs.isEmpty then [] else [den e.rhs]) := by
  unfold entryRows
  rw [List.map_append, List.map_map]
  congr 1
  · apply List.map_congr_left
    intro x hx
    have : x ∈ s.xs := List.mem_flatMap.2 ⟨e, he, List.mem_of_mem_drop hx⟩
    simp only [Function.comp_apply]
    exact unitRow_den s.xs hnd x this
  · split_ifs
    · rfl
    · rw [List.map_singleton, splitRow_lossless]

theorem rows_lossless_aux (s : Sys n) (hnd : s.xs.Nodup) (es : List (Entry n))
    (hes : ∀ e ∈ es, e ∈ s.entries) :
    (es.flatMap (entryRows s)).map (denRow s.xs)
      = es.flatMap (fun e => (e.derivs.drop 1).map X ++ (if e.derivs.isEmpty then [] else [den e.rhs])) := by
  induction es with
  | nil => simp
  | cons e es ih =>
    rw [List.flatMap_cons, List.flatMap_cons, List.map_append,
      entryRows_den s hnd e (hes e List.mem_cons_self),
      ih (fun e' he' => hes e' (List.mem_cons_of_mem _ he'))]

theorem rows_length (s : Sys n) : s.rows.length = s.xs.length := by
  exact rows_length_aux s s.entries

/-- **from_shapes is lossless**: row by row, `A x + b + c` is what the user wrote -/
theorem rows_lossless (s : Sys n) (hnd : s.xs.Nodup) : s.rows.map (denRow s.xs) = userRhs s := by
  exact rows_lossless_aux s hnd s.entries (fun _ h => h)

theorem denP_timesX (p : Poly n) (x : Fin n) : denP (timesX p x) = denP p * X x := by
  induction p with
  | nil => simp [timesX, denP_nil]
  | cons t p ih =>
    have : timesX (t :: p) x = (monoMul t.1 (xMono x), t.2) :: timesX p x := rfl
    rw [this, denP_cons, denP_cons, ih, add_mul, X, AddMonoidAlgebra.single_mul_single, mul_one]
    rfl

theorem denP_flatMap {α : Type*} (l : List α) (g : α → Poly n) :
    denP (l.flatMap g) = (l.map (fun a => denP (g a))).sum := by
  induction l with
  | nil => simp [denP_nil]
  | cons a l ih => rw [List.flatMap_cons, denP_append, ih, List.map_cons, List.sum_cons]

theorem zipIdx_map_eq_zipWith {β γ : Type*} (f : β → Fin n → γ) (d : β) (A : List β) (xs : List (Fin n))
    (h : A.length = xs.length) :
    xs.zipIdx.map (fun xj => f (A.getD xj.2 d) xj.1) = List.zipWith f A xs := by
  apply List.ext_getElem
  · simp [h]
  · intro i h1 h2
    simp only [List.length_map, List.length_zipIdx] at h1
    simp [List.getD_eq_getElem?_getD, List.getElem?_eq_getElem (h ▸ h1 : i < A.length)]

/-- **get_sub_system + reconstitute_expr are lossless**: whatever columns are kept, the assembled
numeric right-hand side denotes the full row -/
theorem numericRhs_lossless (s : Sys n) (keep : Nat → Bool) (r : Row n) (h : r.A.length = s.xs.length) :
    denP (numericRhs s keep r) = denRow s.xs r := by
  have hsplit : denP (s.xs.zipIdx.flatMap (fun xj => if keep xj.2 then timesX (r.A.getD xj.2 []) xj.1 else []))
      + denP (s.xs.zipIdx.flatMap (fun xj => if keep xj.2 then [] else timesX (r.A.getD xj.2 []) xj.1))
      = (List.zipWith (fun p x => denP p * X x) r.A s.xs).sum := by
    rw [denP_flatMap, denP_flatMap, ← List.sum_map_add,
      ← zipIdx_map_eq_zipWith (fun p x => denP p * X x) [] r.A s.xs h]
    congr 1
    apply List.map_congr_left
    intro xj _
    split_ifs <;> simp [denP_nil, denP_timesX]
  simp only [numericRhs, subC, denRow, denP_append]
  rw [← hsplit]
  abel

/-- **C02 end to end**: every right-hand side `analyse` hands to the numeric solver denotes the
right-hand side the user wrote for that variable -/
theorem analyse_numeric_rhs (s : Sys n) (hnd : s.xs.Nodup) :
    ∀ ip ∈ (analyse s).numericRhs, (userRhs s)[ip.1]? = some (denP ip.2) := by
  intro ip hip
  simp only [analyse, List.mem_filterMap, Option.map_eq_some_iff] at hip
  obtain ⟨i, _, r, hr, rfl⟩ := hip
  have hmem : r ∈ s.rows := List.mem_of_getElem? hr
  have hlen : r.A.length = s.xs.length := by
    simp only [Sys.rows, List.mem_flatMap, entryRows, List.mem_append, List.mem_map] at hmem
    obtain ⟨e, _, h | h⟩ := hmem
    · obtain ⟨x, _, rfl⟩ := h
      simp [unitRow]
    · split_ifs at h
      · simp at h
      · rw [List.mem_singleton] at h
        subst h
        exact splitRow_A_length _ _ _
  rw [← rows_lossless s hnd, List.getElem?_map, hr, Option.map_some, numericRhs_lossless s _ r hlen]

/-! non-vacuity: symbols 0 = x, 1 = y, 2 = tau, 3 = t;  x' = -x/tau + y,  y' = -y*y -/
example : (analyse (n := 4) { time := 3, entries := [
      { derivs := [0], rhs := .add (.mul (.neg (.sympow 0 1)) (.sympow 2 (-1))) (.sympow 1 1) },
      { derivs := [1], rhs := .neg (.mul (.sympow 1 1) (.sympow 1 1)) }] }).numeric = [0, 1] := by decide +kernel

end OdeVerif.PipelineSpec
