/-
Refinement: `SpikeGenerator.spike_times_from_json` as regenerated from `odetoolbox/spike_generator.py` on
every run (`OdeVerif/Generated/PySpikesJson.lean`) is the model function `Spikes.fromJson` that the theorems
`targets_rewritten`, `fromJson_key_train`, `fromJson_keys_nodup` of `Proofs/C15.lean` are about.
-/
import OdeVerif.Generated.PySpikesJson
import OdeVerif.Model.Spikes

namespace OdeVerif.Refine
open OdeVerif

variable {α : Type} [LE α] [DecidableLE α]

/-- per stimulus: its targets as written, and the train each target receives (dispatch on the type;
the list branch filters `<= sim_time` and sorts) -/
def stimView (marker : List Char) (T : α) (s : Spikes.Stim α) : List (List Char) × (List Char → List α) :=
  (s.variables, fun v => s.train T (Spikes.rewritePrimes marker v))


theorem lookup_setKey_self {β : Type} (m : Spikes.Trains β) (k : List Char) (v : List β) :
    Spikes.lookup (Spikes.setKey m k v) k = some v := by
  induction m with
  | nil => simp [Spikes.setKey, Spikes.lookup]
  | cons hd rest ih =>
    obtain ⟨k', v'⟩ := hd
    by_cases h : k' = k
    · simp [Spikes.setKey, Spikes.lookup, h]
    · simp [Spikes.setKey, Spikes.lookup, h, ih]

theorem setKey_setKey_none {β : Type} (m : Spikes.Trains β) (k : List Char) (tr : List β)
    (hm : Spikes.lookup m k = none) :
    Spikes.setKey (Spikes.setKey m k []) k tr = Spikes.extendKey m k tr := by
  induction m with
  | nil => simp [Spikes.setKey, Spikes.extendKey]
  | cons hd rest ih =>
    obtain ⟨k', v'⟩ := hd
    by_cases h : k' = k
    · simp [Spikes.lookup, h] at hm
    · simp [Spikes.lookup, h] at hm
      simp [Spikes.setKey, Spikes.extendKey, h, ih hm]

theorem setKey_some {β : Type} (m : Spikes.Trains β) (k : List Char) (v tr : List β)
    (hm : Spikes.lookup m k = some v) :
    Spikes.setKey m k (v ++ tr) = Spikes.extendKey m k tr := by
  induction m with
  | nil => simp [Spikes.lookup] at hm
  | cons hd rest ih =>
    obtain ⟨k', v'⟩ := hd
    by_cases h : k' = k
    · simp [Spikes.lookup, h] at hm
      simp [Spikes.setKey, Spikes.extendKey, h, hm]
    · simp [Spikes.lookup, h] at hm
      simp [Spikes.setKey, Spikes.extendKey, h, ih hm]

theorem setKey_none_nil {β : Type} (m : Spikes.Trains β) (k : List Char)
    (hm : Spikes.lookup m k = none) :
    Spikes.setKey m k [] = Spikes.extendKey m k [] := by
  induction m with
  | nil => simp [Spikes.setKey, Spikes.extendKey]
  | cons hd rest ih =>
    obtain ⟨k', v'⟩ := hd
    by_cases h : k' = k
    · simp [Spikes.lookup, h] at hm
    · simp [Spikes.lookup, h] at hm
      simp [Spikes.setKey, Spikes.extendKey, h, ih hm]

theorem extendKey_some_nil {β : Type} (m : Spikes.Trains β) (k : List Char) (v : List β)
    (hm : Spikes.lookup m k = some v) :
    Spikes.extendKey m k [] = m := by
  induction m with
  | nil => simp [Spikes.lookup] at hm
  | cons hd rest ih =>
    obtain ⟨k', v'⟩ := hd
    by_cases h : k' = k
    · simp [Spikes.extendKey, h]
    · simp [Spikes.lookup, h] at hm
      simp [Spikes.extendKey, h, ih hm]

/-- `if not sym in d: d[sym] = []` -/
def ensure {β : Type} (m : Spikes.Trains β) (k : List Char) : Spikes.Trains β :=
  if (Spikes.lookup m k).isNone = true then Spikes.setKey m k [] else m

theorem ensure_extend {β : Type} (m : Spikes.Trains β) (k : List Char) (tr : List β) :
    Spikes.setKey (ensure m k) k (((Spikes.lookup (ensure m k) k).getD []) ++ tr)
      = Spikes.extendKey m k tr := by
  unfold ensure
  cases hm : Spikes.lookup m k with
  | none =>
    simp [lookup_setKey_self]
    exact setKey_setKey_none m k tr hm
  | some v =>
    simp [hm]
    exact setKey_some m k v tr hm

theorem ensure_nil {β : Type} (m : Spikes.Trains β) (k : List Char) :
    ensure m k = Spikes.extendKey m k [] := by
  unfold ensure
  cases hm : Spikes.lookup m k with
  | none =>
    simp
    exact setKey_none_nil m k hm
  | some v =>
    simp
    exact (extendKey_some_nil m k v hm).symm

theorem for2_eq (marker : List Char) (T : α) (s : Spikes.Stim α) (l : List (List Char))
    (m : Spikes.Trains α) :
    Generated.spikeTimesFromJson_for2 marker T s l m
      = l.foldl (fun m v => Spikes.extendKey m (Spikes.rewritePrimes marker v)
          ((stimView marker T s).2 v)) m := by
  induction l generalizing m with
  | nil => simp [Generated.spikeTimesFromJson_for2]
  | cons v rest ih =>
    rw [Generated.spikeTimesFromJson_for2, List.foldl_cons]
    simp only []
    rw [ih]
    congr 1
    change _ = Spikes.extendKey m _ (s.train T _)
    unfold Spikes.Stim.train
    have hE := ensure_extend m (Spikes.rewritePrimes marker v)
    have hN := ensure_nil m (Spikes.rewritePrimes marker v)
    unfold ensure at hE hN
    by_cases h1 : s.type = "poisson_generator"
    · simp only [h1, if_true]
      exact hE _
    · by_cases h2 : s.type = "regular"
      · simp only [h2, if_true]
        exact hE _
      · by_cases h3 : s.type = "list"
        · simp only [h3, if_true]
          rw [← hE]
          simp [Spikes.listStim]
        · simp only [h1, h2, h3, if_false]
          exact hN

theorem for1_eq (marker : List Char) (T : α) (stims : List (Spikes.Stim α)) (m : Spikes.Trains α) :
    Generated.spikeTimesFromJson_for1 marker T stims m
      = (stims.map (stimView marker T)).foldl (fun m s => Spikes.addStimulus marker m s.1 s.2) m := by
  induction stims generalizing m with
  | nil => simp [Generated.spikeTimesFromJson_for1]
  | cons s rest ih =>
    rw [Generated.spikeTimesFromJson_for1, List.map_cons, List.foldl_cons]
    rw [ih, for2_eq]
    rfl

/-- `spike_times_from_json`, as the source reads now, is `Spikes.fromJson` -/
theorem spikeTimesFromJson_refines (marker : List Char) (T : α) (stims : List (Spikes.Stim α)) :
    Generated.spikeTimesFromJson marker T stims = Spikes.fromJson marker (stims.map (stimView marker T)) := by
  unfold Generated.spikeTimesFromJson Spikes.fromJson
  exact for1_eq marker T stims []

end OdeVerif.Refine
