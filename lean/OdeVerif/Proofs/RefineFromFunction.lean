/-
Refinement: the control flow of `Shape.from_function` (the order search) as regenerated from
`odetoolbox/shapes.py` on every run (`OdeVerif/Generated/PyFromFunction.lean`) is the hand-written model
`FromFunction.fromFunction` that the theorems of `Proofs/C05.lean` are about, for every oracle (every
combination of SymPy answers), every `max_t` and `max_order`, as soon as the fuel exceeds `max_order`.
-/
import OdeVerif.Generated.PyFromFunction
import OdeVerif.Model.FromFunction

namespace OdeVerif.Refine
open OdeVerif

theorem fromFunction_for1_eq (o : FromFunction.Oracle) (l : List Nat) :
    Generated.fromFunction_for1 o l none = l.find? o.nonzeroAt := by
  induction l with
  | nil => rfl
  | cons t rest ih =>
    simp only [Generated.fromFunction_for1, List.find?_cons]
    cases ht : o.nonzeroAt t <;> simp [ih]

theorem fromFunction_for3_eq (o : FromFunction.Oracle) (order : Nat) (l : List Nat) :
    Generated.fromFunction_for3 o order l false = l.any (o.invertibleAt order) := by
  induction l with
  | nil => rfl
  | cons t rest ih =>
    simp only [Generated.fromFunction_for3, List.any_cons]
    cases ht : o.invertibleAt order t <;> simp [ih]

/-- what `from_function` does with the result of the loop -/
def genPost : Except FromFunction.Err (Nat × Bool) → Except FromFunction.Err Nat
  | .error e => .error e
  | .ok (order, found_ode) => if (found_ode = false) then .error FromFunction.Err.noOde else .ok order

def modelPost : Option Nat → Except FromFunction.Err Nat
  | some k => .ok k
  | none => .error FromFunction.Err.noOde

theorem fromFunction_while2_eq (o : FromFunction.Oracle) (max_t max_order : Nat) :
    ∀ (fuel order f' : Nat), max_order - order < fuel → max_order - order ≤ f' →
      genPost (Generated.fromFunction_while2 o max_t max_order fuel order false)
        = modelPost (FromFunction.search o max_t max_order f' order) := by
  intro fuel
  induction fuel with
  | zero => intro order f' h1 _; exact absurd h1 (Nat.not_lt_zero _)
  | succ fuel ih =>
    intro order f' h1 h2
    by_cases hlt : order < max_order
    · cases f' with
      | zero => omega
      | succ f'' =>
        have h1' : max_order - (order + 1) < fuel := by omega
        have h2' : max_order - (order + 1) ≤ f'' := by omega
        have ihh := ih (order + 1) f'' h1' h2'
        simp only [Generated.fromFunction_while2, FromFunction.search, hlt, and_self, if_true,
          fromFunction_for3_eq, FromFunction.invertible]
        by_cases hi : (List.range' 1 (max_t - 1)).any (o.invertibleAt (order + 1)) = true
        · by_cases hv : o.verifies (order + 1) = true
          · simp [hi, hv, genPost, modelPost]
          · simpa [hi, hv] using ihh
        · simpa [hi] using ihh
    · cases f' with
      | zero => simp [Generated.fromFunction_while2, FromFunction.search, hlt, genPost, modelPost]
      | succ f'' => simp [Generated.fromFunction_while2, FromFunction.search, hlt, genPost, modelPost]

theorem fromFunction_refines (o : FromFunction.Oracle) (max_t max_order fuel : Nat) (h : max_order < fuel) :
    Generated.fromFunction fuel o max_t max_order = FromFunction.fromFunction o max_t max_order := by
  unfold Generated.fromFunction FromFunction.fromFunction FromFunction.firstNonzero
  simp only [fromFunction_for1_eq]
  cases hf : (List.range max_t).find? o.nonzeroAt with
  | none => simp
  | some t =>
    simp only [Option.isNone_some, Bool.false_eq_true, if_false]
    cases ho : o.order1Verifies
    · have := fromFunction_while2_eq o max_t max_order fuel 1 max_order (by omega) (by omega)
      refine Eq.trans (show _ = genPost _ from ?_) (this.trans ?_)
      · generalize Generated.fromFunction_while2 o max_t max_order fuel 1 false = r
        rcases r with e | ⟨k, b⟩ <;> rfl
      · simp only [Bool.false_eq_true, if_false]
        cases FromFunction.search o max_t max_order max_order 1 <;> rfl
    · cases fuel with
      | zero => omega
      | succ fuel => simp [Generated.fromFunction_while2]

/-- with the defaults written in the source (`max_t = 100`, `max_order = 4`, regenerated into `Generated/Constants.lean`) -/
theorem fromFunction_refines_default (o : FromFunction.Oracle) :
    Generated.fromFunction (Generated.fromFunctionMaxOrder + 1) o Generated.fromFunctionMaxT Generated.fromFunctionMaxOrder
      = FromFunction.fromFunctionDefault o := by
  unfold FromFunction.fromFunctionDefault
  exact fromFunction_refines o _ _ _ (Nat.lt_succ_self _)

end OdeVerif.Refine
