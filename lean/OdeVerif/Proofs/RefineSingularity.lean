/-
Refinement: `SingularityDetection` (`_generate_singularity_conditions`, `_flatten_conditions`,
`_filter_valid_conditions`, `find_singularities`) as regenerated from `odetoolbox/singularity_detection.py`
on every run (`OdeVerif/Generated/PySingularity.lean`) is the hand-written model `Singularity.findSingularities`
that the theorems of `Proofs/C11.lean` are about -- for every solve oracle, validity oracle and propagator matrix.
-/
import OdeVerif.Generated.PySingularity
import OdeVerif.Model.Singularity

namespace OdeVerif.Refine
open OdeVerif OdeVerif.Singularity

/-- walking the pre-order traversal and keeping the bases of negative powers = `negBases` -/
theorem preorder_negBases (e : Ex) :
    ((preorder e).filter isNegPow).map powBase = negBases e := by
  induction e with
  | atom i => simp [preorder, isNegPow, negBases]
  | node a b iha ihb =>
    simp [preorder, isNegPow, negBases, List.filter_append, List.map_append, iha, ihb]
  | pow b neg ih =>
    cases neg <;> simp [preorder, isNegPow, negBases, powBase, List.filter_cons, ih]

theorem generateSingularityConditions_for2_eq (solve : Ex → List Cond) (l : List Ex) (acc : List Cond) :
    Generated.generateSingularityConditions_for2 solve l acc
      = acc ++ ((l.filter isNegPow).map powBase).flatMap solve := by
  induction l generalizing acc with
  | nil => simp [Generated.generateSingularityConditions_for2]
  | cons x xs ih =>
    simp only [Generated.generateSingularityConditions_for2]
    rw [ih]
    cases h : isNegPow x <;> simp [h]

theorem generateSingularityConditions_for1_eq (solve : Ex → List Cond) (es : List Ex) (acc : List Cond) :
    Generated.generateSingularityConditions_for1 solve es acc
      = acc ++ es.flatMap (fun e => (negBases e).flatMap solve) := by
  induction es generalizing acc with
  | nil => simp [Generated.generateSingularityConditions_for1]
  | cons x xs ih =>
    simp only [Generated.generateSingularityConditions_for1]
    rw [ih, generateSingularityConditions_for2_eq, preorder_negBases]
    simp

theorem generateSingularityConditions_refines (solve : Ex → List Cond) (P : List Ex) :
    Generated.generateSingularityConditions solve P = generate solve P := by
  unfold Generated.generateSingularityConditions generate
  simp [generateSingularityConditions_for1_eq]

/-- reading a list through its indices gives the list back -/
theorem map_getD_range (cs : List Cond) :
    (List.range cs.length).map (fun i => cs.getD i 0) = cs := by
  apply List.ext_getElem
  · simp
  · intro i h1 h2
    simp at h1
    simp [h1]

/-- the element-wise loop of `_flatten_conditions` -/
def walk : List Cond → List Cond → List Cond
  | [], lst => lst
  | c :: cs, lst => walk cs (if c ∈ lst then lst else lst ++ [c])

theorem flattenConditions_for1_eq_walk (cs : List Cond) (idx : List Nat) (lst : List Cond) :
    Generated.flattenConditions_for1 cs idx lst = walk (idx.map (fun i => cs.getD i 0)) lst := by
  induction idx generalizing lst with
  | nil => simp [Generated.flattenConditions_for1, walk]
  | cons i rest ih =>
    simp only [Generated.flattenConditions_for1, List.map_cons, walk]
    rw [ih]
    by_cases h : cs.getD i 0 ∈ lst <;> simp

theorem walk_eq (cs lst : List Cond) :
    walk cs lst = lst ++ (dedup cs).filter (fun c => decide (c ∉ lst)) := by
  induction cs generalizing lst with
  | nil => simp [walk, dedup]
  | cons c cs ih =>
    simp only [walk, dedup]
    rw [ih]
    by_cases h : c ∈ lst
    · simp only [h, if_true, List.filter_cons, not_true, decide_false, List.filter_filter]
      congr 1
      apply List.filter_congr
      intro x _
      by_cases hx : x ∈ lst
      · simp [hx]
      · have : x ≠ c := fun e => hx (e ▸ h)
        simp [hx, this]
    · simp only [h, if_false, List.filter_cons, not_false_eq_true, decide_true, if_true,
        List.filter_filter, List.append_assoc, List.singleton_append]
      congr 2
      apply List.filter_congr
      intro x _
      by_cases hx : x ∈ lst <;> by_cases hc : x = c <;> simp [hx, hc]

theorem flattenConditions_refines (cs : List Cond) : Generated.flattenConditions cs = dedup cs := by
  show Generated.flattenConditions_for1 cs (List.range cs.length) [] = dedup cs
  rw [flattenConditions_for1_eq_walk, map_getD_range, walk_eq]
  simp

theorem filterValidConditions_for1_eq (definedA : Cond → Bool) (cs : List Cond) (idx : List Nat)
    (lst : List Cond) :
    Generated.filterValidConditions_for1 definedA cs idx lst
      = lst ++ (idx.map (fun i => cs.getD i 0)).filter definedA := by
  induction idx generalizing lst with
  | nil => simp [Generated.filterValidConditions_for1]
  | cons i rest ih =>
    simp only [Generated.filterValidConditions_for1, List.map_cons]
    rw [ih]
    cases h : definedA (cs.getD i 0) <;> simp only [List.filter_cons, h] <;> simp

theorem filterValidConditions_refines (definedA : Cond → Bool) (cs : List Cond) :
    Generated.filterValidConditions definedA cs = filterValid definedA cs := by
  show Generated.filterValidConditions_for1 definedA cs (List.range cs.length) [] = cs.filter definedA
  rw [filterValidConditions_for1_eq, map_getD_range]
  simp

/-- **`find_singularities`, as the source reads now, is the model** -/
theorem findSingularities_refines (solve : Ex → List Cond) (definedA : Cond → Bool) (P : List Ex) :
    Generated.findSingularities solve definedA P = findSingularities solve definedA P := by
  unfold Generated.findSingularities findSingularities
  simp only [generateSingularityConditions_refines, flattenConditions_refines, filterValidConditions_refines]

end OdeVerif.Refine
