/-
Refinement: the definitions regenerated from `odetoolbox/spike_generator.py` on every run
(`OdeVerif/Generated/PySpikes.lean`) equal the hand-written model functions that the theorems of
`Proofs/C15.lean` are about -- for every number type, every input and every fuel.
-/
import OdeVerif.Generated.PySpikes
import OdeVerif.Model.Spikes

namespace OdeVerif.Refine
open OdeVerif

theorem pyMax_eq {α : Type} [LT α] [DecidableLT α] (a b : α) : Py.max a b = Spikes.pyMax a b := rfl

section regular
variable {α : Type} [Add α] [Div α] [OfNat α 0] [OfNat α 1] [LT α] [LE α] [DecidableLT α] [DecidableLE α]

theorem regular_while_refines (T isi : α) : ∀ (fuel : Nat) (t : α) (acc : List α),
    (Generated.regularSpikes_while1 T isi fuel t acc).map (·.2) = Spikes.regularLoop T isi fuel t acc := by
  intro fuel
  induction fuel with
  | zero => intro t acc; rfl
  | succ n ih =>
    intro t acc
    unfold Generated.regularSpikes_while1 Spikes.regularLoop
    by_cases h : t < T
    · simp only [h, if_true]
      by_cases h2 : t + isi ≤ T
      · simp only [h2, if_true]; exact ih _ _
      · simp only [h2, if_false]; exact ih _ _
    · simp [h]

/-- `_generate_regular_spikes`, as the source reads now, is the model function `Spikes.regular` -/
theorem regularSpikes_refines (fuel : Nat) (T rate : α) :
    Generated.regularSpikes fuel T rate = Spikes.regular T rate fuel := by
  have h := regular_while_refines T (1 / rate) fuel 0 []
  unfold Generated.regularSpikes Spikes.regular
  dsimp only
  rw [← h]
  rcases Generated.regularSpikes_while1 T (1 / rate) fuel 0 [] with _ | ⟨a, b⟩ <;> rfl

end regular

section poisson
variable {α : Type} [Add α] [OfNat α 0] [LT α] [LE α] [DecidableLT α] [DecidableLE α]

theorem poisson_while_refines (T minIsi : α) : ∀ (fuel : Nat) (isis : List α) (t : α) (acc : List α),
    isis.length < fuel →
    (Generated.poissonSpikes_while1 T minIsi fuel isis t acc).map (·.2.2) = Spikes.poissonLoop T minIsi isis t acc := by
  intro fuel
  induction fuel with
  | zero => intro isis t acc h; omega
  | succ n ih =>
    intro isis t acc h
    unfold Generated.poissonSpikes_while1
    cases isis with
    | nil =>
      unfold Spikes.poissonLoop
      by_cases h1 : t < T <;> simp [h1]
    | cons isi rest =>
      unfold Spikes.poissonLoop
      by_cases h1 : t < T
      · simp only [h1, if_true, pyMax_eq]
        have hl : rest.length < n := by simp at h; omega
        by_cases h2 : t + Spikes.pyMax isi minIsi ≤ T
        · simp only [h2, if_true]
          exact ih rest _ _ hl
        · simp only [h2, if_false]
          exact ih rest _ _ hl
      · simp [h1]

/-- `_generate_homogeneous_poisson_spikes`, as the source reads now (exponential draws supplied as the
stream `isis`), is the model function `Spikes.poisson`, as soon as the fuel exceeds the stream length -/
theorem poissonSpikes_refines (fuel : Nat) (T minIsi : α) (isis : List α) (h : isis.length < fuel) :
    Generated.poissonSpikes fuel T minIsi isis = Spikes.poisson T minIsi isis := by
  have h' := poisson_while_refines T minIsi fuel isis 0 [] h
  unfold Generated.poissonSpikes Spikes.poisson
  dsimp only
  rw [← h']
  rcases Generated.poissonSpikes_while1 T minIsi fuel isis 0 [] with _ | ⟨a, b, c⟩ <;> rfl

end poisson

/-- non-vacuity / smoke test of the generated definitions at `Rat` -/
example : Generated.regularSpikes 10 (3/10 : Rat) 10 = some [1/10, 1/5, 3/10] := by decide +kernel

end OdeVerif.Refine
