/-
C06 — the result depends on the dynamical system, not on how it is presented: equivariance of
the models under renaming of symbols and permutation of the entries.  Property theorems only.
(The graph part, `verdict_perm_invariant`, is in OdeVerif.Proofs.C03.)
-/
import OdeVerif.Model.Terms
import OdeVerif.Model.Graph
import OdeVerif.Model.Propagator
import OdeVerif.Lemmas.MatrixFlow
import Mathlib.Data.List.Basic
import Mathlib.Data.List.Perm.Subperm
import Mathlib.Data.List.Nodup
import Mathlib.Data.List.Range
import Mathlib.Data.List.Count
import Mathlib.Logic.Function.Basic
import Mathlib.Algebra.BigOperators.Group.Finset.Basic
import Mathlib.Algebra.BigOperators.Fin
import Mathlib.Algebra.Field.Basic

open Matrix NormedSpace
open scoped Matrix.Norms.Operator

namespace OdeVerif.C06
open OdeVerif.Terms OdeVerif.Graph OdeVerif.Propagator OdeVerif.MatrixFlow

/-! ### renaming -/

def renameTerm (ρ : Sym → Sym) (t : Term) : Term :=
  { direct := t.direct.map (fun p => (ρ p.1, p.2)), inside := t.inside.map ρ }

private theorem aux_isConstant_iff (params : List Sym) (t : Term) :
    isConstant params t = true ↔ ∀ s ∈ t.free, s ∈ params := by
  simp [isConstant, List.all_eq_true]

private theorem aux_free_rename (ρ : Sym → Sym) (t : Term) :
    (renameTerm ρ t).free = t.free.map ρ := by
  simp [renameTerm, Term.free, Function.comp_def]

private theorem aux_isConstant_rename (ρ : Sym → Sym) (hρ : Function.Injective ρ)
    (params : List Sym) (t : Term) :
    isConstant (params.map ρ) (renameTerm ρ t) = isConstant params t := by
  rw [Bool.eq_iff_iff, aux_isConstant_iff, aux_isConstant_iff, aux_free_rename]
  constructor
  · intro h s hs
    have := h (ρ s) (List.mem_map_of_mem hs)
    obtain ⟨s', hs', he⟩ := List.mem_map.1 this
    rw [← hρ he]; exact hs'
  · intro h s hs
    obtain ⟨s', hs', rfl⟩ := List.mem_map.1 hs
    exact List.mem_map_of_mem (h s' hs')

private theorem aux_divDirect_rename (ρ : Sym → Sym) (hρ : Function.Injective ρ) (s : Sym) :
    ∀ l : List (Sym × Int),
      divDirect (ρ s) (l.map (fun p => (ρ p.1, p.2))) = (divDirect s l).map (fun p => (ρ p.1, p.2)) := by
  intro l
  induction l with
  | nil => rfl
  | cons p rest ih =>
    obtain ⟨s', e⟩ := p
    simp only [List.map_cons, divDirect]
    by_cases hs : s' = s
    · subst hs
      simp only [if_true]
      by_cases he : e - 1 = 0
      · simp [he]
      · simp [he]
    · have : ρ s' ≠ ρ s := fun h => hs (hρ h)
      simp only [if_neg hs, if_neg this, List.map_cons, ih]

private theorem aux_divSym_rename (ρ : Sym → Sym) (hρ : Function.Injective ρ) (t : Term) (s : Sym) :
    divSym (renameTerm ρ t) (ρ s) = renameTerm ρ (divSym t s) := by
  simp only [divSym, renameTerm, aux_divDirect_rename ρ hρ]

private theorem aux_firstLinear_rename (ρ : Sym → Sym) (hρ : Function.Injective ρ)
    (params : List Sym) (t : Term) :
    ∀ (xs : List Sym) (k : Nat),
      firstLinear (params.map ρ) (renameTerm ρ t) (xs.map ρ) k = firstLinear params t xs k := by
  intro xs
  induction xs with
  | nil => intro k; rfl
  | cons s rest ih =>
    intro k
    simp only [List.map_cons, firstLinear]
    rw [aux_divSym_rename ρ hρ, aux_isConstant_rename ρ hρ, ih]

/-- **Renaming**: the split only ever compares symbols for equality and membership, so any injective
renaming of variables and parameters leaves the bucket of every term unchanged. -/
theorem classify_rename_invariant (ρ : Sym → Sym) (hρ : Function.Injective ρ) (params xs : List Sym) (t : Term) :
    classify (params.map ρ) (xs.map ρ) (renameTerm ρ t) = classify params xs t := by
  unfold classify
  rw [aux_isConstant_rename ρ hρ, aux_firstLinear_rename ρ hρ]

/-! ### permutation of the entries -/

private theorem aux_any_perm (n : Nat) (σ τ : Nat → Nat)
    (hτ : ∀ i, i < n → τ i < n) (hσ : ∀ i, i < n → σ i < n)
    (hτσ : ∀ i, i < n → σ (τ i) = i) (f g : Nat → Bool) (hfg : ∀ k, k < n → g (σ k) = f k) :
    (List.range n).any g = (List.range n).any f := by
  rw [Bool.eq_iff_iff, List.any_eq_true, List.any_eq_true]
  constructor
  · rintro ⟨k, hk, hg⟩
    rw [List.mem_range] at hk
    refine ⟨τ k, List.mem_range.2 (hτ k hk), ?_⟩
    rw [← hfg (τ k) (hτ k hk), hτσ k hk]; exact hg
  · rintro ⟨k, hk, hf⟩
    rw [List.mem_range] at hk
    refine ⟨σ k, List.mem_range.2 (hσ k hk), ?_⟩
    rw [hfg k hk]; exact hf

private theorem aux_relax_perm (n : Nat) (σ τ : Nat → Nat)
    (hσ : ∀ i, i < n → σ i < n) (hτ : ∀ i, i < n → τ i < n)
    (hτσ : ∀ i, i < n → σ (τ i) = i) (e e' r r' : Nat → Nat → Bool)
    (he : ∀ i j, i < n → j < n → e' (σ i) (σ j) = e i j)
    (hr : ∀ i j, i < n → j < n → r' (σ i) (σ j) = r i j) :
    ∀ i j, i < n → j < n → relax n e' r' (σ i) (σ j) = relax n e r i j := by
  intro i j hi hj
  unfold Graph.relax
  rw [hr i j hi hj]
  congr 1
  apply aux_any_perm n σ τ hτ hσ hτσ
  intro k hk
  rw [hr i k hi hk, he k j hk hj]

private theorem aux_foldl_perm (n : Nat) (σ τ : Nat → Nat)
    (hσ : ∀ i, i < n → σ i < n) (hτ : ∀ i, i < n → τ i < n)
    (hτσ : ∀ i, i < n → σ (τ i) = i) (e e' : Nat → Nat → Bool)
    (he : ∀ i j, i < n → j < n → e' (σ i) (σ j) = e i j) :
    ∀ (l : List Nat) (r r' : Nat → Nat → Bool),
      (∀ i j, i < n → j < n → r' (σ i) (σ j) = r i j) →
      ∀ i j, i < n → j < n →
        l.foldl (fun r _ => relax n e' r) r' (σ i) (σ j) = l.foldl (fun r _ => relax n e r) r i j := by
  intro l
  induction l with
  | nil => intro r r' hr; exact hr
  | cons a l ih =>
    intro r r' hr
    simp only [List.foldl_cons]
    exact ih _ _ (aux_relax_perm n σ τ hσ hτ hτσ e e' r r' he hr)

private theorem aux_reach_perm (n : Nat) (σ τ : Nat → Nat)
    (hσ : ∀ i, i < n → σ i < n) (hτ : ∀ i, i < n → τ i < n)
    (hστ : ∀ i, i < n → τ (σ i) = i)
    (hτσ : ∀ i, i < n → σ (τ i) = i) (e e' : Nat → Nat → Bool)
    (he : ∀ i j, i < n → j < n → e' (σ i) (σ j) = e i j) :
    ∀ i j, i < n → j < n → reach n e' (σ i) (σ j) = reach n e i j := by
  unfold Graph.reach
  apply aux_foldl_perm n σ τ hσ hτ hτσ e e' he
  intro i j hi hj
  rw [Bool.eq_iff_iff]
  simp only [beq_iff_eq]
  constructor
  · intro h
    have := congrArg τ h
    rwa [hστ i hi, hστ j hj] at this
  · intro h; rw [h]

private theorem aux_map_perm (n : Nat) (σ τ : Nat → Nat)
    (hσ : ∀ i, i < n → σ i < n) (hστ : ∀ i, i < n → τ (σ i) = i) :
    ((List.range n).map σ).Perm (List.range n) := by
  apply List.Subperm.perm_of_length_le
  · apply List.subperm_of_subset
    · apply List.Nodup.map_on _ List.nodup_range
      intro x hx y hy hxy
      rw [List.mem_range] at hx hy
      have := congrArg τ hxy
      rwa [hστ x hx, hστ y hy] at this
    · intro y hy
      obtain ⟨x, hx, rfl⟩ := List.mem_map.1 hy
      rw [List.mem_range] at hx ⊢
      exact hσ x hx
  · simp

private theorem aux_count_perm (n : Nat) (σ τ : Nat → Nat)
    (hσ : ∀ i, i < n → σ i < n) (hστ : ∀ i, i < n → τ (σ i) = i)
    (p p' : Nat → Bool) (hp : ∀ j, j < n → p' (σ j) = p j) :
    ((List.range n).filter p').length = ((List.range n).filter p).length := by
  rw [← List.countP_eq_length_filter, ← List.countP_eq_length_filter,
    ← (aux_map_perm n σ τ hσ hστ).countP_eq p', List.countP_map]
  apply List.countP_congr
  intro j hj
  rw [List.mem_range] at hj
  simp [hp j hj]

/-- **Eligibility is permutation-equivariant** (strong components, both demotion rules and the shape
verdict are): if `s'` is `s` with its state variables re-ordered by a permutation `σ` of `0 … n-1`
(inverse `τ`), the pre-propagation verdicts correspond.  Together with
`C03.verdict_perm_invariant` the final analytic set does not depend on entry order. -/
theorem eligible_perm_invariant (s s' : Sys) (σ τ : Nat → Nat) (hn : s'.n = s.n)
    (hσ : ∀ i, i < s.n → σ i < s.n) (hτ : ∀ i, i < s.n → τ i < s.n)
    (hστ : ∀ i, i < s.n → τ (σ i) = i) (hτσ : ∀ i, i < s.n → σ (τ i) = i)
    (hanz : ∀ i j, i < s.n → j < s.n → s'.anz (σ i) (σ j) = s.anz i j)
    (hb : ∀ i, i < s.n → s'.bnz (σ i) = s.bnz i)
    (hl : ∀ i, i < s.n → s'.shapeLin (σ i) = s.shapeLin i) :
    ∀ i, i < s.n → eligible s' (σ i) = eligible s i := by
  intro i hi
  have hreach := aux_reach_perm s.n σ τ hσ hτ hστ hτσ s.anz s'.anz hanz
  have hscc : sccSize s' (σ i) = sccSize s i := by
    unfold sccSize
    simp only [hn]
    apply aux_count_perm s.n σ τ hσ hστ
    intro j hj
    rw [hreach i j hi hj, hreach j i hj hi]
  have hd1 : demote1 s' (σ i) = demote1 s i := by
    unfold demote1
    rw [hscc, hb i hi]
  have hd2 : demote2 s' (σ i) = demote2 s i := by
    unfold demote2
    rw [hn]
    apply aux_any_perm s.n σ τ hτ hσ hτσ
    intro k hk
    rw [hanz i k hi hk, hb k hk]
    congr 2
    rw [Bool.eq_iff_iff]
    simp only [bne_iff_ne, ne_eq]
    constructor
    · intro h h2; exact h (by rw [h2])
    · intro h h2
      apply h
      have := congrArg τ h2
      rwa [hστ k hk, hστ i hi] at this
  unfold eligible
  rw [hl i hi, hd1, hd2]

variable {n : ℕ}

/-- **The propagator matrix of the re-ordered system is the re-ordered propagator matrix.** -/
theorem P_perm_equivariant (A : Matrix (Fin n) (Fin n) ℝ) (σ : Equiv.Perm (Fin n)) (h : ℝ) :
    P (A.submatrix σ σ) h = (P A h).submatrix σ σ := by
  ext i j
  let F : ℝ → Fin n → ℝ := fun t i => P A t (σ i) (σ j)
  have hF : ∀ t, HasDerivAt F ((A.submatrix σ σ) *ᵥ F t) t := by
    intro t
    rw [hasDerivAt_pi]
    intro i
    have h2 := hasDerivAt_P_entry A t (σ i) (σ j)
    have hval : ((A.submatrix σ σ) *ᵥ F t) i = (A * P A t) (σ i) (σ j) := by
      simp only [Matrix.mulVec, dotProduct, Matrix.mul_apply, Matrix.submatrix_apply, F]
      exact Equiv.sum_comp σ (fun k => A (σ i) k * P A t k (σ j))
    rw [hval]
    exact h2
  have hF0 : F 0 = Pi.single j 1 := by
    funext i
    simp only [F, P_zero, Matrix.one_apply]
    by_cases hij : i = j
    · subst hij; simp
    · have : σ i ≠ σ j := fun h => hij (σ.injective h)
      simp [hij, this]
  have := flow_unique (A.submatrix σ σ) F hF h
  rw [hF0] at this
  have h3 := congrFun this i
  simp only [F] at h3
  rw [Matrix.submatrix_apply, h3]
  simp

/-! ### assembly -/

private theorem aux_mapM_ok {α β ε : Type} (f : α → Except ε β) :
    ∀ (l : List α) (rows : List β), l.mapM f = .ok rows →
      rows.length = l.length ∧ ∀ i (hi : i < l.length), ∃ u, rows[i]? = some u ∧ f l[i] = .ok u := by
  intro l
  induction l with
  | nil =>
    intro rows h
    simp [pure, Except.pure] at h
    subst h
    simp
  | cons a l ih =>
    intro rows h
    rw [List.mapM_cons] at h
    cases hfa : f a with
    | error e => simp [hfa, bind, Except.bind] at h
    | ok u =>
      cases hl : l.mapM f with
      | error e => simp [hfa, hl, bind, Except.bind] at h
      | ok us =>
        simp [hfa, hl, bind, Except.bind, pure, Except.pure] at h
        subst h
        obtain ⟨h1, h2⟩ := ih us hl
        refine ⟨by simp [h1], ?_⟩
        intro i hi
        cases i with
        | zero => exact ⟨u, by simp, by simpa using hfa⟩
        | succ i =>
          have hi' : i < l.length := by simpa using hi
          obtain ⟨v, hv1, hv2⟩ := h2 i hi'
          exact ⟨v, by simpa using hv1, by simpa using hv2⟩

private theorem aux_mapM_of_all {α β ε : Type} (f : α → Except ε β) :
    ∀ (l : List α), (∀ a ∈ l, ∃ u, f a = .ok u) → ∃ rows, l.mapM f = .ok rows := by
  intro l
  induction l with
  | nil => intro _; exact ⟨[], by simp [pure, Except.pure]⟩
  | cons a l ih =>
    intro h
    obtain ⟨u, hu⟩ := h a List.mem_cons_self
    obtain ⟨us, hus⟩ := ih (fun a ha => h a (List.mem_cons_of_mem _ ha))
    refine ⟨u :: us, ?_⟩
    rw [List.mapM_cons]
    simp [hu, hus, bind, Except.bind, pure, Except.pure]

section Asm
variable {K : Type} [DecidableEq K] [OfNat K 0]

private theorem aux_rowCols_ok (b : Fin n → K) (Pnz : Fin n → Fin n → Bool) (row : Fin n) :
    ∀ (l cols : List (Fin n)), rowCols b Pnz row l = .ok cols →
      cols = l.filter (fun c => Pnz row c) ∧ ∀ c ∈ l, Pnz row c = true → row ≠ c → b c = 0 := by
  intro l
  induction l with
  | nil =>
    intro cols h
    simp [rowCols] at h
    subst h
    simp
  | cons a l ih =>
    intro cols h
    unfold rowCols at h
    by_cases hp : Pnz row a = true
    · rw [if_pos hp] at h
      by_cases hg : row ≠ a ∧ b a ≠ 0
      · rw [if_pos hg] at h
        cases h
      · rw [if_neg hg] at h
        cases hr : rowCols b Pnz row l with
        | error e => simp [hr, Except.map] at h
        | ok cs =>
          simp [hr, Except.map] at h
          subst h
          obtain ⟨h1, h2⟩ := ih cs hr
          refine ⟨by simp [hp, h1], ?_⟩
          intro c hc hpc hne
          rcases List.mem_cons.1 hc with rfl | hc
          · by_contra hb
            exact hg ⟨hne, hb⟩
          · exact h2 c hc hpc hne
    · rw [if_neg hp] at h
      obtain ⟨h1, h2⟩ := ih cols h
      refine ⟨by simp [hp, h1], ?_⟩
      intro c hc hpc hne
      rcases List.mem_cons.1 hc with rfl | hc
      · exact absurd hpc hp
      · exact h2 c hc hpc hne

private theorem aux_rowCols_of (b : Fin n → K) (Pnz : Fin n → Fin n → Bool) (row : Fin n) :
    ∀ (l : List (Fin n)), (∀ c ∈ l, Pnz row c = true → row ≠ c → b c = 0) →
      ∃ cols, rowCols b Pnz row l = .ok cols := by
  intro l
  induction l with
  | nil => intro _; exact ⟨[], rfl⟩
  | cons a l ih =>
    intro h
    obtain ⟨cs, hcs⟩ := ih (fun c hc => h c (List.mem_cons_of_mem _ hc))
    unfold rowCols
    by_cases hp : Pnz row a = true
    · rw [if_pos hp]
      have hg : ¬ (row ≠ a ∧ b a ≠ 0) := fun hg => hg.2 (h a List.mem_cons_self hp hg.1)
      rw [if_neg hg, hcs]
      exact ⟨a :: cs, rfl⟩
    · rw [if_neg hp]
      exact ⟨cs, hcs⟩

/-- what a successful row assembly says -/
private theorem aux_assembleRow_ok (A : Fin n → Fin n → K) (b : Fin n → K) (cnz : Fin n → Bool)
    (order : Fin n → Nat) (Pnz : Fin n → Fin n → Bool) (r : Fin n) (u : UpdRow n K)
    (hu : assembleRow A b cnz order Pnz r = .ok u) :
    cnz r = false ∧ ¬ (b r ≠ 0 ∧ order r > 1) ∧ (∀ c, Pnz r c = true → r ≠ c → b c = 0) ∧
      u.cols = (List.finRange n).filter (fun c => Pnz r c) ∧
      u.inhom = (if b r = 0 then Inhom.none else if A r r = 0 then Inhom.const (b r)
          else Inhom.affine (b r) (A r r)) := by
  unfold assembleRow at hu
  by_cases hc : cnz r = true
  · rw [if_pos hc] at hu; cases hu
  rw [if_neg hc] at hu
  by_cases h2 : b r ≠ 0 ∧ order r > 1
  · rw [if_pos h2] at hu; cases hu
  rw [if_neg h2] at hu
  cases hr : rowCols b Pnz r (List.finRange n) with
  | error e => rw [hr] at hu; cases hu
  | ok cols =>
    rw [hr] at hu
    simp only [Except.ok.injEq] at hu
    obtain ⟨h1, h3⟩ := aux_rowCols_ok b Pnz r _ _ hr
    refine ⟨by simpa using hc, h2, fun c hpc hne => h3 c (List.mem_finRange c) hpc hne, ?_, ?_⟩
    · rw [← hu]; exact h1
    · rw [← hu]

private theorem aux_assembleRow_of (A : Fin n → Fin n → K) (b : Fin n → K) (cnz : Fin n → Bool)
    (order : Fin n → Nat) (Pnz : Fin n → Fin n → Bool) (r : Fin n)
    (h1 : cnz r = false) (h2 : ¬ (b r ≠ 0 ∧ order r > 1))
    (h3 : ∀ c, Pnz r c = true → r ≠ c → b c = 0) :
    ∃ u, assembleRow A b cnz order Pnz r = .ok u := by
  unfold assembleRow
  rw [if_neg (by simp [h1]), if_neg h2]
  obtain ⟨cs, hcs⟩ := aux_rowCols_of b Pnz r (List.finRange n) (fun c _ => h3 c)
  rw [hcs]
  exact ⟨_, rfl⟩

private theorem aux_assemble_spec (A : Fin n → Fin n → K) (b : Fin n → K) (cnz : Fin n → Bool)
    (order : Fin n → Nat) (Pnz : Fin n → Fin n → Bool) (rows : List (UpdRow n K))
    (hasm : assemble A b cnz order Pnz = .ok rows) :
    ∀ r : Fin n, cnz r = false ∧ ¬ (b r ≠ 0 ∧ order r > 1) ∧
      (∀ c, Pnz r c = true → r ≠ c → b c = 0) ∧
      ∃ u, rows[r.val]? = some u ∧ u.cols = (List.finRange n).filter (fun c => Pnz r c) ∧
        u.inhom = (if b r = 0 then Inhom.none else if A r r = 0 then Inhom.const (b r)
          else Inhom.affine (b r) (A r r)) := by
  unfold assemble at hasm
  obtain ⟨hlen, hrows⟩ := aux_mapM_ok _ _ _ hasm
  intro r
  obtain ⟨u, hu1, hu2⟩ := hrows r.val (by simp)
  simp only [List.getElem_finRange, Fin.cast_mk, Fin.eta] at hu2
  obtain ⟨a1, a2, a3, a4, a5⟩ := aux_assembleRow_ok A b cnz order Pnz r u hu2
  exact ⟨a1, a2, a3, u, hu1, a4, a5⟩

end Asm

/-- **Re-ordering never turns a successful assembly into an error.** -/
theorem assemble_perm_ok {K : Type} [DecidableEq K] [OfNat K 0]
    (A : Fin n → Fin n → K) (b : Fin n → K) (cnz : Fin n → Bool) (order : Fin n → Nat) (Pnz : Fin n → Fin n → Bool)
    (σ : Equiv.Perm (Fin n)) (rows : List (UpdRow n K))
    (h : assemble A b cnz order Pnz = .ok rows) :
    ∃ rows', assemble (fun i j => A (σ i) (σ j)) (fun i => b (σ i)) (fun i => cnz (σ i)) (fun i => order (σ i))
      (fun i j => Pnz (σ i) (σ j)) = .ok rows' := by
  have hspec := aux_assemble_spec A b cnz order Pnz rows h
  unfold assemble
  apply aux_mapM_of_all
  intro r _
  obtain ⟨a1, a2, a3, -⟩ := hspec (σ r)
  apply aux_assembleRow_of
  · exact a1
  · exact a2
  · intro c hpc hne
    exact a3 (σ c) hpc (fun h => hne (σ.injective h))

private theorem aux_foldl_filter {K : Type} [Field K] (p : Fin n → Bool) (f : Fin n → K) :
    (((List.finRange n).filter p).map f).foldl (· + ·) 0 = ∑ c, if p c = true then f c else 0 := by
  rw [← List.sum_eq_foldl, Fin.sum_univ_def]
  generalize List.finRange n = l
  induction l with
  | nil => simp
  | cons a l ih =>
    by_cases hp : p a = true
    · simp [hp, ih]
    · simp [hp, ih]

/-- **… and the update maps agree up to the permutation**: the value computed for row `σ r` of the
original system equals the value computed for row `r` of the re-ordered system at the re-ordered
state and propagator values. -/
theorem evalRow_perm_equivariant {K : Type} [Field K] [DecidableEq K]
    (A : Fin n → Fin n → K) (b : Fin n → K) (cnz : Fin n → Bool) (order : Fin n → Nat) (Pnz : Fin n → Fin n → Bool)
    (σ : Equiv.Perm (Fin n)) (rows rows' : List (UpdRow n K))
    (h : assemble A b cnz order Pnz = .ok rows)
    (h' : assemble (fun i j => A (σ i) (σ j)) (fun i => b (σ i)) (fun i => cnz (σ i)) (fun i => order (σ i))
      (fun i j => Pnz (σ i) (σ j)) = .ok rows')
    (Pv : Fin n → Fin n → K) (hstep : K) (x : Fin n → K) (r : Fin n)
    (u : UpdRow n K) (u' : UpdRow n K) (hu : rows[(σ r).val]? = some u) (hu' : rows'[r.val]? = some u') :
    evalRow u' r (fun i j => Pv (σ i) (σ j)) hstep (fun i => x (σ i)) = evalRow u (σ r) Pv hstep x := by
  obtain ⟨-, -, -, u0, hu0, hcols, hinh⟩ := aux_assemble_spec A b cnz order Pnz rows h (σ r)
  obtain ⟨-, -, -, u0', hu0', hcols', hinh'⟩ := aux_assemble_spec _ _ _ _ _ rows' h' r
  rw [hu] at hu0
  rw [hu'] at hu0'
  cases hu0
  cases hu0'
  have hlin : (u'.cols.map (fun c => Pv (σ r) (σ c) * x (σ c))).foldl (· + ·) 0
      = (u.cols.map (fun c => Pv (σ r) c * x c)).foldl (· + ·) 0 := by
    rw [hcols, hcols', aux_foldl_filter, aux_foldl_filter]
    exact Equiv.sum_comp σ (fun d => if Pnz (σ r) d = true then Pv (σ r) d * x d else 0)
  simp only [evalRow]
  rw [hlin, hinh, hinh']

/-- **Equivalent formulations**: in a chain of first-order equations the row `g_k' = g_{k+1}` is
classified as linear in `g_{k+1}` with coefficient 1 — the same unit super-diagonal row that
`from_shapes` writes for an n-th order equation. -/
theorem chain_row_is_unit (params xs : List Sym) (x : Sym) (hvars : ∀ s ∈ xs, s ∉ params) (hmem : x ∈ xs) :
    classify params xs { direct := [(x, 1)], inside := [] } = .lin (xs.idxOf x) := by
  have hnc : isConstant params { direct := [(x, 1)], inside := [] } = false := by
    rw [Bool.eq_false_iff, Ne, aux_isConstant_iff]
    intro h
    exact hvars x hmem (h x (by simp [Term.free]))
  have hx : isConstant params (divSym { direct := [(x, 1)], inside := [] } x) = true := by
    simp [divSym, divDirect, isConstant, Term.free]
  have hne : ∀ s, s ≠ x → isConstant params (divSym { direct := [(x, 1)], inside := [] } s) = false := by
    intro s hs
    rw [Bool.eq_false_iff, Ne, aux_isConstant_iff]
    intro h
    have hxs : x ≠ s := fun h => hs h.symm
    exact hvars x hmem (h x (by simp [divSym, divDirect, Term.free, hxs]))
  have key : ∀ (l : List Sym) (k : Nat), x ∈ l →
      firstLinear params { direct := [(x, 1)], inside := [] } l k = some (k + l.idxOf x) := by
    intro l
    induction l with
    | nil => intro k h; simp at h
    | cons s rest ih =>
      intro k hm
      unfold firstLinear
      by_cases hsx : s = x
      · subst hsx; simp [hx]
      · have hm' : x ∈ rest := by
          rcases List.mem_cons.1 hm with h | h
          · exact absurd h.symm hsx
          · exact h
        rw [hne s hsx, List.idxOf_cons_ne _ hsx, ih (k + 1) hm']
        simp
        omega
  unfold classify
  rw [hnc, key xs 0 hmem]
  simp

end OdeVerif.C06
