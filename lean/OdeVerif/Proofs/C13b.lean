/-
C13 (link to C12) — the analytically solved variables seen by the numeric part equal their exact
solution: during one numerical step `integrate_ode` disables the cache update, lets the stepper
evaluate the derivative function at arbitrary intermediate times (each evaluation queries the
analytic integrator), re-enables the update and queries the step's end time.  Whatever the stepper
does, every one of those queries returns `spec` — a corollary of `C12.getValue_history_independent`,
which was stated for arbitrary histories of queries and toggles for exactly this reason.
-/
import OdeVerif.Proofs.C12

namespace OdeVerif.C13
open OdeVerif.AI OdeVerif.C12

variable {T S Sym : Type} [AddCommGroup T] [LinearOrder T] [IsOrderedAddMonoid T]

/-- the analytic-integrator operations one numerical step of `integrate_ode` performs: `qs` are the
times at which the stepper evaluates the derivative function, `tEnd` the time reached -/
def stepPattern (qs : List T) (tEnd : T) : List (Op T) :=
  [Op.disableUpdate] ++ qs.map Op.get ++ [Op.enableUpdate, Op.get tEnd]

/-- a whole simulation: one pattern per numerical step, plus the query after each outer iteration -/
def simPattern (steps : List (List T × T)) : List (Op T) :=
  steps.flatMap (fun s => stepPattern s.1 s.2 ++ [Op.get s.2])

/-- **Analytic values seen by the numeric part are exact**, for every stepper behaviour (any
evaluation times, in any order, also going backwards), every spike list and every propagation
function. -/
theorem analytic_seen_exact (p : Params T S Sym) (hs : p.spikes.Pairwise (fun a b => a.1 < b.1))
    (steps : List (List T × T)) :
    runOps p (initCache p) (simPattern steps) = expected p (simPattern steps) :=
  getValue_history_independent p hs (simPattern steps)

/-- in particular the value used at the end of each step is `spec` at that time -/
theorem analytic_seen_exact_at (p : Params T S Sym) (hs : p.spikes.Pairwise (fun a b => a.1 < b.1))
    (steps : List (List T × T)) (o : Option S) (ho : o ∈ runOps p (initCache p) (simPattern steps)) :
    o = none ∨ ∃ t, o = some (spec p t) := by
  rw [analytic_seen_exact p hs steps] at ho
  unfold expected at ho
  rcases List.mem_map.1 ho with ⟨op, _, rfl⟩
  cases op with
  | get t => exact Or.inr ⟨t, rfl⟩
  | enableUpdate => exact Or.inl rfl
  | disableUpdate => exact Or.inl rfl
  | reset => exact Or.inl rfl

end OdeVerif.C13
