import OdeVerif.Generated.PyIntegratorInit
import OdeVerif.Lemmas.Assoc
/-!
Refinement / specification of the regenerated constructor glue: `MixedIntegrator.__init__` (parameters, the analytic solver dictionary's
`parameters` entry, the list of all variable symbols) and `AnalyticIntegrator.set_initial_values`.
-/
namespace OdeVerif.Refine
open OdeVerif

/-! ### `MixedIntegrator.__init__` -/

/-- the evaluated parameters, and `_locals` starts as a copy of them -/
theorem mixedInit_params {α V : Type} (ev : V → α) (respell : String → String) (xs : List String) (ps : Option (List (String × V)))
    (asd : Option (Glue.AnaDict α)) :
    (Generated.mixedInit ev respell xs ps asd).1 = (ps.getD []).map (fun kv => (kv.1, ev kv.2)) ∧
    (Generated.mixedInit ev respell xs ps asd).2.1 = (ps.getD []).map (fun kv => (kv.1, ev kv.2)) := by
  cases ps <;> simp [Generated.mixedInit]

/-- the parameters the analytic integrator will use: a value given to the constructor WINS over the one stored in the dictionary;
parameters only the dictionary has are kept -/
theorem mixedInit_analytic_params {α V : Type} (ev : V → α) (respell : String → String) (xs : List String) (ps : Option (List (String × V)))
    (a : Glue.AnaDict α) (k : String) :
    ∃ a', (Generated.mixedInit ev respell xs ps (some a)).2.2.1 = some a' ∧ a'.hasParams = true ∧ a'.stateVars = a.stateVars ∧
      a'.params.lookup k =
        (match (((ps.getD []).map (fun kv => (kv.1, ev kv.2))).reverse).lookup k with
         | some v => some v
         | none => if a.hasParams then a.params.lookup k else none) := by
  obtain ⟨hp, pr, sv⟩ := a
  cases ps <;> cases hp <;>
    simp [Generated.mixedInit, Glue.AnaDict.lacksParams, Glue.AnaDict.setParams, Glue.AnaDict.paramsOf, lookup_updateAll]
  · simp [Glue.updateAll]
  · rename_i l; cases List.lookup k (List.map (fun (kv : String × V) => (kv.fst, ev kv.snd)) l).reverse <;> rfl
  · rename_i l; cases List.lookup k (List.map (fun (kv : String × V) => (kv.fst, ev kv.snd)) l).reverse <;> rfl

theorem mixedInit_no_analytic {α V : Type} (ev : V → α) (respell : String → String) (xs : List String) (ps : Option (List (String × V))) :
    (Generated.mixedInit ev respell xs ps (none : Option (Glue.AnaDict α))).2.2.1 = none ∧
    (Generated.mixedInit ev respell xs ps (none : Option (Glue.AnaDict α))).2.2.2 = xs.map respell := by
  cases ps <;> simp [Generated.mixedInit]

/-- the argument order of the compiled functions: the numeric variables, then the analytic solver's state variables, re-spelt -/
theorem mixedInit_allSyms {α V : Type} (ev : V → α) (respell : String → String) (xs : List String) (ps : Option (List (String × V)))
    (a : Glue.AnaDict α) :
    (Generated.mixedInit ev respell xs ps (some a)).2.2.2 = (xs ++ a.stateVars).map respell := by
  obtain ⟨hp, pr, sv⟩ := a
  cases ps <;> cases hp <;>
    simp [Generated.mixedInit, Glue.AnaDict.lacksParams, Glue.AnaDict.setParams, Glue.AnaDict.paramsOf, Glue.AnaDict.stateVarsOf]

/-! ### helpers -/

theorem init_for2_eq {α : Type} (params acc : List (String × α)) :
    Generated.setInitialValues_for2 params acc = Glue.updateAll acc params := by
  induction params generalizing acc with
  | nil => rfl
  | cons p rest ih =>
    obtain ⟨a, b⟩ := p
    simp only [Generated.setInitialValues_for2]
    rw [ih]
    rfl

theorem init_assoc_keys {β : Type} (d : List (String × β)) (k : String) (v : β) (h : (d.lookup k).isSome = true) :
    (Glue.assoc d k v).map Prod.fst = d.map Prod.fst := by
  induction d with
  | nil => simp at h
  | cons p rest ih =>
    obtain ⟨a, b⟩ := p
    simp only [Glue.assoc]
    by_cases hak : a = k
    · simp [hak]
    · have hne : ¬ k = a := fun e => hak e.symm
      rw [step_lookup_cons] at h
      simp only [hne, if_false] at h
      simp [hak, ih h]

/-! ### `AnalyticIntegrator.set_initial_values` -/

/-- the substitution dictionary handed to `evalf` -/
def ivSubs {α : Type} (hasParameters : Bool) (params : List (String × α)) : List (String × α) :=
  if hasParameters then Glue.updateAll [] params else []

/-- one assignment after the other, left to right; the first unknown key / non-numeric value aborts -/
def setIvSpec {α V : Type} (ev : V → List (String × α) → Option α) (hasParameters : Bool) (params : List (String × α)) :
    List (String × V) → List (String × α) → Except Glue.IvErr (List (String × α))
  | [], iv => .ok iv
  | (k, v) :: rest, iv =>
    if (iv.lookup k).isSome then
      match ev v (ivSubs hasParameters params) with
      | some a => setIvSpec ev hasParameters params rest (Glue.assoc iv k a)
      | none => .error .notNumeric
    else .error .unknownKey

theorem init_for1_eq {α V : Type} (ev : V → List (String × α) → Option α) (hasParameters : Bool) (params : List (String × α))
    (vals : List (String × V)) (iv : List (String × α)) :
    Generated.setInitialValues_for1 ev hasParameters params vals iv = setIvSpec ev hasParameters params vals iv := by
  induction vals generalizing iv with
  | nil => rfl
  | cons p rest ih =>
    obtain ⟨k0, v0⟩ := p
    simp only [Generated.setInitialValues_for1, setIvSpec]
    by_cases hk : (iv.lookup k0).isSome = true
    · simp only [hk, if_true]
      have hs : (if hasParameters = true then Generated.setInitialValues_for2 params [] else []) = ivSubs hasParameters params := by
        unfold ivSubs
        rw [init_for2_eq]
      rw [hs]
      cases hev : ev v0 (ivSubs hasParameters params) with
      | none => simp [Glue.evalInto]
      | some a => simp [Glue.evalInto, ih]
    · simp [hk]

theorem setInitialValues_refines {α V : Type} (ev : V → List (String × α) → Option α) (hasParameters : Bool) (params : List (String × α))
    (iv : List (String × α)) (vals : List (String × V)) :
    Generated.setInitialValues ev hasParameters params iv vals = setIvSpec ev hasParameters params vals iv := by
  unfold Generated.setInitialValues
  rw [init_for1_eq]
  cases setIvSpec ev hasParameters params vals iv <;> rfl

/-- on success every key keeps its place, a key that was set carries the value of its LAST assignment, the others keep theirs -/
theorem setIvSpec_lookup {α V : Type} (ev : V → List (String × α) → Option α) (hasParameters : Bool) (params : List (String × α))
    (vals : List (String × V)) (iv iv' : List (String × α)) (h : setIvSpec ev hasParameters params vals iv = .ok iv') (k : String) :
    iv'.lookup k = (match vals.reverse.lookup k with
      | some v => (ev v (ivSubs hasParameters params))
      | none => iv.lookup k) ∧ iv'.map Prod.fst = iv.map Prod.fst := by
  induction vals generalizing iv with
  | nil =>
    simp only [setIvSpec] at h
    cases h
    simp
  | cons p rest ih =>
    obtain ⟨k0, v0⟩ := p
    simp only [setIvSpec] at h
    by_cases hk : (iv.lookup k0).isSome = true
    · simp only [hk, if_true] at h
      cases hev : ev v0 (ivSubs hasParameters params) with
      | none => simp [hev] at h
      | some a =>
        simp only [hev] at h
        obtain ⟨h1, h2⟩ := ih _ h
        refine ⟨?_, by rw [h2, init_assoc_keys iv k0 a hk]⟩
        rw [h1, List.reverse_cons, List.lookup_append]
        cases hr : rest.reverse.lookup k with
        | some v => simp
        | none =>
          simp only [Option.none_or, step_lookup_assoc, step_lookup_cons, List.lookup_nil]
          by_cases e : k = k0
          · subst e; simp [hev]
          · simp [e]
    · simp [hk] at h

/-- a key the integrator does not know is rejected -/
theorem setIvSpec_unknown {α V : Type} (ev : V → List (String × α) → Option α) (hasParameters : Bool) (params : List (String × α))
    (vals : List (String × V)) (iv iv' : List (String × α)) (h : setIvSpec ev hasParameters params vals iv = .ok iv') :
    ∀ kv ∈ vals, (iv.lookup kv.1).isSome = true := by
  induction vals generalizing iv with
  | nil => intro kv hkv; cases hkv
  | cons p rest ih =>
    obtain ⟨k0, v0⟩ := p
    simp only [setIvSpec] at h
    by_cases hk : (iv.lookup k0).isSome = true
    · simp only [hk, if_true] at h
      cases hev : ev v0 (ivSubs hasParameters params) with
      | none => simp [hev] at h
      | some a =>
        simp only [hev] at h
        intro kv hkv
        rcases List.mem_cons.1 hkv with rfl | hm
        · exact hk
        · have := ih _ h kv hm
          rw [step_lookup_assoc] at this
          by_cases e : kv.1 = k0
          · rw [e]; exact hk
          · simpa [e] using this
    · simp [hk] at h

end OdeVerif.Refine
