/-
Refinement: the two demotion rules of `_find_analytically_solvable_equations` as regenerated from
`odetoolbox/__init__.py` on every run (`OdeVerif/Generated/PyDemote.lean`) compute the model's `Graph.eligible`
from the per-shape judgement, and the regenerated pipeline  demotion rules -> `propagate_lin_cc_judgements`
on the edges of `get_dependency_edges`  is the model's `Graph.verdict` (on the positions of `x`).
-/
import OdeVerif.Generated.PyDemote
import OdeVerif.Proofs.RefineGraph
import OdeVerif.Proofs.C03

namespace OdeVerif.Refine
open OdeVerif

theorem demote_for2_spec (s : Graph.Sys) (i : Nat) (l : List Nat) (v : Nat → Bool) (k : Nat) :
    Generated.demote_for2 s i l v k =
      if k = i then (v i && !(l.any (fun j => j != i && s.anz i j && s.bnz j))) else v k := by
  induction l generalizing v with
  | nil => by_cases hk : k = i <;> simp [Generated.demote_for2, hk]
  | cons j rest ih =>
    simp only [Generated.demote_for2]
    rw [ih]
    by_cases hk : k = i
    · subst hk
      by_cases hc : (¬ k = j) ∧ (s.anz k j = true) ∧ (s.bnz j = true)
      · have hjk : ¬ j = k := fun h => hc.1 h.symm
        simp [hc, Py.update, hjk]
      · simp only [hc, if_false, if_true, List.any_cons]
        have : (j != k && s.anz k j && s.bnz j) = false := by
          cases h1 : s.anz k j <;> cases h2 : s.bnz j <;> simp
          apply Classical.byContradiction
          intro h
          exact hc ⟨fun e => h e.symm, h1, h2⟩
        rw [this]; simp
    · by_cases hc : (¬ i = j) ∧ (s.anz i j = true) ∧ (s.bnz j = true)
      · simp [hc, Py.update, hk]
      · simp [hc, hk]

theorem demote_for1_spec (s : Graph.Sys) (l : List Nat) (hl : l.Nodup) (v : Nat → Bool) (k : Nat) :
    Generated.demote_for1 s l v k =
      if k ∈ l then (v k && !Graph.demote1 s k && !Graph.demote2 s k) else v k := by
  induction l generalizing v with
  | nil => simp [Generated.demote_for1]
  | cons i rest ih =>
    have hnd := List.nodup_cons.mp hl
    simp only [Generated.demote_for1]
    rw [ih hnd.2, demote_for2_spec]
    by_cases hk : k = i
    · subst hk
      simp only [hnd.1, if_false, if_true, List.mem_cons, true_or]
      by_cases hc : (s.bnz k = true) ∧ ((Graph.sccSize s k) > 1) ∧ True
      · have : Graph.demote1 s k = true := by
          simp [Graph.demote1, hc.1, hc.2.1]
        simp [hc, Py.update, this]
      · have : Graph.demote1 s k = false := by
          cases h1 : s.bnz k
          · simp [Graph.demote1, h1]
          · simp only [Graph.demote1, h1, Bool.true_and, decide_eq_false_iff_not]
            intro h; exact hc ⟨h1, h, trivial⟩
        simp only [hc, if_false, this, Graph.demote2]
        simp
    · have hki : ¬ k = i := hk
      simp only [List.mem_cons, hk, false_or, if_false]
      have : (if s.bnz i = true ∧ Graph.sccSize s i > 1 ∧ True then Py.update v i false else v) k = v k := by
        split
        · simp [Py.update, hk]
        · rfl
      rw [this]

theorem visit_congr (n : Nat) (dep : Nat → Nat → Bool) (m : Nat) (v₁ v₂ : Nat → Bool) (q : List Nat)
    (hv : ∀ i, i < n → v₁ i = v₂ i) (hq : ∀ x ∈ q, x < n) :
    (∀ i, i < n → (Graph.visit n dep m v₁ q).1 i = (Graph.visit n dep m v₂ q).1 i) ∧
    (Graph.visit n dep m v₁ q).2 = (Graph.visit n dep m v₂ q).2 ∧
    (∀ x ∈ (Graph.visit n dep m v₁ q).2, x < n) := by
  refine ⟨?_, ?_, ?_⟩
  · intro i hi
    rw [C03.aux_visit_fst, C03.aux_visit_fst, hv i hi]
  · rw [C03.aux_visit_snd, C03.aux_visit_snd]
    congr 1
    apply List.filter_congr
    intro x hx
    rw [hv x (List.mem_range.mp hx)]
  · intro x hx
    rw [C03.aux_visit_snd] at hx
    rcases List.mem_append.mp hx with h | h
    · exact hq x h
    · exact List.mem_range.mp (List.mem_filter.mp h).1

theorem propagate_congr (n : Nat) (dep : Nat → Nat → Bool) (fuel : Nat) :
    ∀ (v₁ v₂ : Nat → Bool) (q : List Nat), (∀ i, i < n → v₁ i = v₂ i) → (∀ x ∈ q, x < n) →
    ∀ r₁, Graph.propagate n dep fuel v₁ q = some r₁ →
      ∃ r₂, Graph.propagate n dep fuel v₂ q = some r₂ ∧ ∀ i, i < n → r₁ i = r₂ i := by
  induction fuel with
  | zero =>
    intro v₁ v₂ q hv hq r₁ h
    cases q with
    | nil =>
      rw [C03.aux_propagate_nil] at h
      cases h
      exact ⟨v₂, C03.aux_propagate_nil .., hv⟩
    | cons m q => rw [C03.aux_propagate_zero] at h; cases h
  | succ fuel ih =>
    intro v₁ v₂ q hv hq r₁ h
    cases q with
    | nil =>
      rw [C03.aux_propagate_nil] at h
      cases h
      exact ⟨v₂, C03.aux_propagate_nil .., hv⟩
    | cons m q =>
      have hm : m < n := hq m (by simp)
      have hq' : ∀ x ∈ q, x < n := fun x hx => hq x (by simp [hx])
      rw [C03.aux_propagate_cons] at h ⊢
      rw [← hv m hm]
      by_cases hvm : v₁ m = true
      · simp only [hvm, Bool.not_true, Bool.false_eq_true, if_false] at h ⊢
        exact ih v₁ v₂ q hv hq' r₁ h
      · have hvm' : v₁ m = false := by cases h' : v₁ m <;> simp_all
        simp only [hvm', Bool.not_false, if_true] at h ⊢
        obtain ⟨c1, c2, c3⟩ := visit_congr n dep m v₁ v₂ q hv hq'
        rw [← c2]
        exact ih _ _ _ c1 c3 r₁ h

theorem initQueue_congr (n : Nat) (v₁ v₂ : Nat → Bool) (hv : ∀ i, i < n → v₁ i = v₂ i) :
    Graph.initQueue n v₁ = Graph.initQueue n v₂ := by
  unfold Graph.initQueue
  apply List.filter_congr
  intro x hx
  rw [hv x (List.mem_range.mp hx)]

theorem propagate_init_congr (n : Nat) (dep : Nat → Nat → Bool) (fuel : Nat) (v₁ v₂ : Nat → Bool)
    (hv : ∀ i, i < n → v₁ i = v₂ i) (r₁ : Nat → Bool)
    (h : Graph.propagate n dep fuel v₁ (Graph.initQueue n v₁) = some r₁) :
    ∃ r₂, Graph.propagate n dep fuel v₂ (Graph.initQueue n v₂) = some r₂ ∧ ∀ i, i < n → r₁ i = r₂ i := by
  rw [← initQueue_congr n v₁ v₂ hv]
  exact propagate_congr n dep fuel v₁ v₂ _ hv
    (fun x hx => List.mem_range.mp (List.mem_filter.mp hx).1) r₁ h

/-- the loop over `i`, `j` switches a variable off iff one of the two documented exceptions applies to it -/
theorem demote_refines (s : Graph.Sys) (v : Nat → Bool) (i : Nat) (hi : i < s.n) :
    Generated.demote s v i = (v i && !Graph.demote1 s i && !Graph.demote2 s i) := by
  unfold Generated.demote
  show Generated.demote_for1 s (List.range s.n) v i = _
  rw [demote_for1_spec s _ List.nodup_range]
  simp [hi]

/-- nothing outside the positions of `x` is touched -/
theorem demote_above (s : Graph.Sys) (v : Nat → Bool) (i : Nat) (hi : s.n ≤ i) : Generated.demote s v i = v i := by
  unfold Generated.demote
  show Generated.demote_for1 s (List.range s.n) v i = _
  rw [demote_for1_spec s _ List.nodup_range]
  have : ¬ i < s.n := by omega
  simp [this]

theorem demote_eligible (s : Graph.Sys) (i : Nat) (hi : i < s.n) :
    Generated.demote s s.shapeLin i = Graph.eligible s i := by
  rw [demote_refines s _ i hi]
  rfl

/-- **`_find_analytically_solvable_equations`, regenerated end to end** (per-shape judgement given): demotion rules,
then the worklist over the regenerated dependency edges, is the model's verdict on every position of `x` -/
theorem findAnalytic_refines (s : Graph.Sys) (v : Nat → Bool)
    (h : Generated.propagate (s.n + 2) s.n (Generated.demote s s.shapeLin) (Generated.dependencyEdges s) = some v) :
    ∃ v', Graph.verdict s = some v' ∧ ∀ i, i < s.n → v i = v' i := by
  rw [propagate_refines] at h
  obtain ⟨r₂, h2, hag⟩ := propagate_init_congr s.n s.dep (s.n + 1) _ (Graph.eligible s)
    (fun i hi => demote_eligible s i hi) v h
  exact ⟨r₂, h2, hag⟩

/-- and the regenerated pipeline always terminates within that fuel -/
theorem findAnalytic_total (s : Graph.Sys) :
    ∃ v, Generated.propagate (s.n + 2) s.n (Generated.demote s s.shapeLin) (Generated.dependencyEdges s) = some v := by
  rw [propagate_refines]
  obtain ⟨v, hv⟩ := C03.verdict_total s
  obtain ⟨r₂, h2, _⟩ := propagate_init_congr s.n s.dep (s.n + 1) (Graph.eligible s) _
    (fun i hi => (demote_eligible s i hi).symm) v hv
  exact ⟨r₂, h2⟩

end OdeVerif.Refine
