def hello := "world"
