/-
Dispatch table of the model driver: JSON payload -> model function -> JSON answer.
Core Lean + Lean.Data.Json only.
-/
import Lean.Data.Json
import OdeVerif.Generated.DrawDecision
import OdeVerif.Generated.Constants
import OdeVerif.Model.Stiffness

open Lean

namespace OdeVerif.Driver

/-! ### JSON helpers -/

def jerr (msg : String) : Json := Json.mkObj [("error", Json.str msg)]

def getStr (j : Json) (k : String) : Except String String := j.getObjValAs? String k
def getNat (j : Json) (k : String) : Except String Nat := j.getObjValAs? Nat k
def getInt (j : Json) (k : String) : Except String Int := j.getObjValAs? Int k
def getBool (j : Json) (k : String) : Except String Bool := j.getObjValAs? Bool k
def getArr (j : Json) (k : String) : Except String (Array Json) := j.getObjValAs? (Array Json) k

/-- floats travel as decimal strings of their IEEE-754 bit pattern -/
def floatOfBits (s : String) : Except String Float :=
  match s.toNat? with
  | some n => .ok (Float.ofBits (UInt64.ofNat n))
  | none => .error ("bad float bits: " ++ s)

def bitsOfFloat (f : Float) : String := toString f.toBits.toNat

def getFloat (j : Json) (k : String) : Except String Float := do floatOfBits (← getStr j k)

def getFloats (j : Json) (k : String) : Except String (List Float) := do
  let a ← getArr j k
  a.toList.mapM (fun x => do floatOfBits (← (x.getStr?)))

def jFloats (l : List Float) : Json := Json.arr (l.map (fun f => Json.str (bitsOfFloat f))).toArray

def run (r : Except String Json) : Json :=
  match r with
  | .ok j => j
  | .error e => jerr e

/-! ### ops -/

def opDraw (j : Json) : Except String Json := do
  let a ← getFloats j "args"
  match a with
  | [eps, mi, me, ai, ae, dr, ar] =>
    pure (Json.mkObj [("decision", Json.str (Generated.drawDecision eps mi me ai ae dr ar))])
  | _ => .error "draw: need 7 floats"

def evName : Stiffness.Ev → String
  | .npSeed s => "np.seed " ++ toString s
  | .pySeed s => "py.seed " ++ toString s
  | .pyRandom => "py.random"

/-- protocol trace of check_stiffness given the number of draws each run consumes -/
def opStiffProto (j : Json) : Except String Json := do
  let seed ← getNat j "seed"
  let n1 ← getNat j "n1"
  let n2 ← getNat j "n2"
  let pol : Stiffness.SeedPolicy := { seedsNumpy := (← getBool j "seeds_numpy"), seedsPython := (← getBool j "seeds_python") }
  -- the generator consumes n1 draws on its first use and n2 on the second: emulate with a
  -- consumption function of the stream head (first run starts at the seeded/ambient head)
  let w0 : Stiffness.World := { np := .ambient 0, py := .ambient 0 }
  let g1 : Stiffness.Gen Unit := { spikes := fun _ => (), consumed := fun _ => n1 }
  let g2 : Stiffness.Gen Unit := { spikes := fun _ => (), consumed := fun _ => n2 }
  let r1 := Stiffness.evaluateIntegrator pol seed g1 w0
  let r2 := Stiffness.evaluateIntegrator pol seed g2 r1.1
  let evs := r1.2.2 ++ r2.2.2
  let same := (decide (r1.1.py = (Stiffness.Rng.seeded seed n1)) : Bool)
  pure (Json.mkObj [("events", Json.arr (evs.map (fun e => Json.str (evName e))).toArray),
                    ("py_state_after_first_is_seeded", Json.bool same),
                    ("name", Json.str (Stiffness.solverName (some "x")))])

def opSolverName (j : Json) : Except String Json := do
  let r := (j.getObjValAs? String "rec").toOption
  pure (Json.mkObj [("name", Json.str (Stiffness.solverName r))])

def opConstants (_ : Json) : Except String Json := do
  pure (Json.mkObj [
    ("config", Json.arr (Generated.configDefaults.map (fun (k, kind, v) => Json.arr #[Json.str k, Json.str kind, Json.str v])).toArray),
    ("reserved", Json.arr (Generated.reservedNames.map Json.str).toArray),
    ("max_t", Json.num Generated.fromFunctionMaxT),
    ("max_order", Json.num Generated.fromFunctionMaxOrder),
    ("draw_defaults", Json.arr (Generated.drawDecisionDefaults.map (fun (k, v) => Json.arr #[Json.str k, Json.num v])).toArray)])

def dispatch (op : String) (j : Json) : Json :=
  match op with
  | "ping" => Json.mkObj [("pong", j)]
  | "draw" => run (opDraw j)
  | "stiff-proto" => run (opStiffProto j)
  | "solver-name" => run (opSolverName j)
  | "constants" => run (opConstants j)
  | _ => jerr ("unknown-op: " ++ op)

end OdeVerif.Driver
