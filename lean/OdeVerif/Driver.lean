/-
Dispatch table of the model driver: JSON payload -> model function -> JSON answer.
Core Lean + Lean.Data.Json only.
-/
import Lean.Data.Json
import OdeVerif.Generated.DrawDecision
import OdeVerif.Generated.Constants
import OdeVerif.Model.Stiffness
import OdeVerif.Model.Spikes
import OdeVerif.Model.AnalyticIntegrator
import OdeVerif.Model.Graph
import OdeVerif.Model.MixedIntegrator
import OdeVerif.Model.Terms
import OdeVerif.Model.Shapes
import OdeVerif.Model.Propagator
import OdeVerif.Model.Validate
import OdeVerif.Model.Config
import OdeVerif.Model.Cli
import OdeVerif.Model.FromFunction
import OdeVerif.Model.Singularity
import OdeVerif.Model.Poly
import OdeVerif.Model.Pipeline
import OdeVerif.Model.Glue

open Lean

namespace OdeVerif.Driver

/-! ### JSON helpers -/

def jerr (msg : String) : Json := Json.mkObj [("error", Json.str msg)]

def getStr (j : Json) (k : String) : Except String String := j.getObjValAs? String k
def getNat (j : Json) (k : String) : Except String Nat := j.getObjValAs? Nat k
def getInt (j : Json) (k : String) : Except String Int := j.getObjValAs? Int k
def getBool (j : Json) (k : String) : Except String Bool := j.getObjValAs? Bool k
def getArr (j : Json) (k : String) : Except String (Array Json) := j.getObjValAs? (Array Json) k

/-- floats travel as decimal strings of their IEEE-754 bit pattern -/
def floatOfBits (s : String) : Except String Float :=
  match s.toNat? with
  | some n => .ok (Float.ofBits (UInt64.ofNat n))
  | none => .error ("bad float bits: " ++ s)

def bitsOfFloat (f : Float) : String := toString f.toBits.toNat

def getFloat (j : Json) (k : String) : Except String Float := do floatOfBits (← getStr j k)

def getFloats (j : Json) (k : String) : Except String (List Float) := do
  let a ← getArr j k
  a.toList.mapM (fun x => do floatOfBits (← (x.getStr?)))

def jFloats (l : List Float) : Json := Json.arr (l.map (fun f => Json.str (bitsOfFloat f))).toArray

def run (r : Except String Json) : Json :=
  match r with
  | .ok j => j
  | .error e => jerr e

/-! ### ops -/

def opDraw (j : Json) : Except String Json := do
  let a ← getFloats j "args"
  match a with
  | [eps, mi, me, ai, ae, dr, ar] =>
    pure (Json.mkObj [("decision", Json.str (Generated.drawDecision eps mi me ai ae dr ar))])
  | _ => .error "draw: need 7 floats"

def evName : Stiffness.Ev → String
  | .npSeed s => "np.seed " ++ toString s
  | .pySeed s => "py.seed " ++ toString s
  | .pyRandom => "py.random"

/-- protocol trace of check_stiffness given the number of draws each run consumes -/
def opStiffProto (j : Json) : Except String Json := do
  let seed ← getNat j "seed"
  let n1 ← getNat j "n1"
  let n2 ← getNat j "n2"
  let pol : Stiffness.SeedPolicy := { seedsNumpy := (← getBool j "seeds_numpy"), seedsPython := (← getBool j "seeds_python") }
  -- the generator consumes n1 draws on its first use and n2 on the second: emulate with a
  -- consumption function of the stream head (first run starts at the seeded/ambient head)
  let w0 : Stiffness.World := { np := .ambient 0, py := .ambient 0 }
  let g1 : Stiffness.Gen Unit := { spikes := fun _ => (), consumed := fun _ => n1 }
  let g2 : Stiffness.Gen Unit := { spikes := fun _ => (), consumed := fun _ => n2 }
  let r1 := Stiffness.evaluateIntegrator pol seed g1 w0
  let r2 := Stiffness.evaluateIntegrator pol seed g2 r1.1
  let evs := r1.2.2 ++ r2.2.2
  let same := (decide (r1.1.py = (Stiffness.Rng.seeded seed n1)) : Bool)
  pure (Json.mkObj [("events", Json.arr (evs.map (fun e => Json.str (evName e))).toArray),
                    ("py_state_after_first_is_seeded", Json.bool same),
                    ("name", Json.str (Stiffness.solverName (some "x")))])

def opSolverName (j : Json) : Except String Json := do
  let r := (j.getObjValAs? String "rec").toOption
  pure (Json.mkObj [("name", Json.str (Stiffness.solverName r))])

def opConstants (_ : Json) : Except String Json := do
  pure (Json.mkObj [
    ("config", Json.arr (Generated.configDefaults.map (fun (k, kind, v) => Json.arr #[Json.str k, Json.str kind, Json.str v])).toArray),
    ("reserved", Json.arr (Generated.reservedNames.map Json.str).toArray),
    ("max_t", Json.num Generated.fromFunctionMaxT),
    ("max_order", Json.num Generated.fromFunctionMaxOrder),
    ("draw_defaults", Json.arr (Generated.drawDecisionDefaults.map (fun (k, v) => Json.arr #[Json.str k, Json.num v])).toArray)])

/-! ### C15 spikes -/

/-- rationals travel as "p/q" (or "p") -/
def ratOfString (s : String) : Except String Rat :=
  match s.splitOn "/" with
  | [p] => match p.toInt? with
    | some n => .ok (n : Rat)
    | none => .error ("bad rat: " ++ s)
  | [p, q] => match p.toInt?, q.toNat? with
    | some n, some d => if d = 0 then .error "zero denominator" else .ok (mkRat n d)
    | _, _ => .error ("bad rat: " ++ s)
  | _ => .error ("bad rat: " ++ s)

def stringOfRat (r : Rat) : String :=
  if r.den = 1 then toString r.num else toString r.num ++ "/" ++ toString r.den

def getRat (j : Json) (k : String) : Except String Rat := do ratOfString (← getStr j k)
def getRats (j : Json) (k : String) : Except String (List Rat) := do
  let a ← getArr j k
  a.toList.mapM (fun x => do ratOfString (← x.getStr?))
def jRats (l : List Rat) : Json := Json.arr (l.map (fun r => Json.str (stringOfRat r))).toArray

def jOptF (o : Option (List Float)) : Json := match o with
  | none => Json.mkObj [("out_of_fuel", Json.bool true)]
  | some l => Json.mkObj [("spikes", jFloats l)]
def jOptR (o : Option (List Rat)) : Json := match o with
  | none => Json.mkObj [("out_of_fuel", Json.bool true)]
  | some l => Json.mkObj [("spikes", jRats l)]

def opRegular (j : Json) : Except String Json := do
  let fuel ← getNat j "fuel"
  if (← getStr j "num") == "rat" then
    pure (jOptR (Spikes.regular (← getRat j "T") (← getRat j "rate") fuel))
  else
    pure (jOptF (Spikes.regular (← getFloat j "T") (← getFloat j "rate") fuel))

def opPoisson (j : Json) : Except String Json := do
  if (← getStr j "num") == "rat" then
    let T ← getRat j "T"; let m ← getRat j "min_isi"; let isis ← getRats j "isis"
    match Spikes.poisson T m isis with
    | none => pure (Json.mkObj [("out_of_draws", Json.bool true)])
    | some l => pure (Json.mkObj [("spikes", jRats l), ("consumed", Json.num (Spikes.poissonConsumed T m isis 0 0))])
  else
    let T ← getFloat j "T"; let m ← getFloat j "min_isi"; let isis ← getFloats j "isis"
    match Spikes.poisson T m isis with
    | none => pure (Json.mkObj [("out_of_draws", Json.bool true)])
    | some l => pure (Json.mkObj [("spikes", jFloats l), ("consumed", Json.num (Spikes.poissonConsumed T m isis 0 0))])

def opListStim (j : Json) : Except String Json := do
  if (← getStr j "num") == "rat" then
    pure (Json.mkObj [("spikes", jRats (Spikes.listStim (← getRat j "T") (← getRats j "xs")))])
  else
    pure (Json.mkObj [("spikes", jFloats (Spikes.listStim (← getFloat j "T") (← getFloats j "xs")))])

/-- stims: [{"vars":[names as written], "trains": {name: [float bits]}}]; the per-target trains are
what the type-specific generator produced for that target (recorded from the real run or
produced by the model ops above) -/
def opFromJson (j : Json) : Except String Json := do
  let marker := (← getStr j "marker").toList
  let stims ← getArr j "stims"
  let parsed ← stims.toList.mapM (fun s => do
    let vars := (← getArr s "vars").toList
    let vars ← vars.mapM (fun v => do pure (← v.getStr?).toList)
    let trains ← s.getObjVal? "trains"
    let gen : List Char → List String := fun v =>
      match (trains.getObjValAs? (Array String) (String.ofList v)) with
      | .ok a => a.toList
      | .error _ => ["missing-train"]
    pure (vars, gen))
  let res := Spikes.fromJson marker parsed
  pure (Json.mkObj (res.map (fun (k, v) => (String.ofList k, Json.arr (v.map Json.str).toArray))))

/-! ### C12 analytic integrator -/

/-- IEEE double with *bitwise* decidable equality (agrees with Python's `==` except on ±0 and NaN,
which the generators exclude); order and subtraction are the `Float` ones. -/
structure FT where
  bits : UInt64
deriving DecidableEq

namespace FT
def toF (x : FT) : Float := Float.ofBits x.bits
def ofF (f : Float) : FT := ⟨f.toBits⟩
instance : LT FT := ⟨fun a b => a.toF < b.toF⟩
instance : LE FT := ⟨fun a b => a.toF ≤ b.toF⟩
instance : DecidableLT FT := fun a b => inferInstanceAs (Decidable (a.toF < b.toF))
instance : DecidableLE FT := fun a b => inferInstanceAs (Decidable (a.toF ≤ b.toF))
instance : Sub FT := ⟨fun a b => ofF (a.toF - b.toF)⟩
instance : Add FT := ⟨fun a b => ofF (a.toF + b.toF)⟩
instance : OfNat FT 0 := ⟨ofF 0.0⟩
end FT

def ftOfString (s : String) : Except String FT :=
  match s.toNat? with
  | some n => .ok ⟨UInt64.ofNat n⟩
  | none => .error ("bad float bits: " ++ s)

def parseAiOp (j : Json) : Except String (AI.Op FT) := do
  let a ← j.getArr?
  match a.toList with
  | [k, t] => if (← k.getStr?) == "get" then do pure (.get (← ftOfString (← t.getStr?))) else .error "bad op"
  | [k] => match (← k.getStr?) with
    | "enable" => pure .enableUpdate
    | "disable" => pure .disableUpdate
    | "reset" => pure .reset
    | _ => .error "bad op"
  | _ => .error "bad op"

/-- symbolic states: the history of propagation steps and increments, as a term -/
def opAiRun (j : Json) : Except String Json := do
  let vars ← j.getObjValAs? (List String) "vars"
  let st ← getArr j "spike_times"
  let d ← st.toList.mapM (fun kv => do
    let a ← kv.getArr?
    match a.toList with
    | [k, ts] => do
      let ts ← ts.getArr?
      let ts ← ts.toList.mapM (fun t => do ftOfString (← t.getStr?))
      pure ((← k.getStr?), ts)
    | _ => .error "bad spike_times")
  let spikes := AI.setSpikeTimes d
  let p : AI.Params FT String String :=
    { enableCaching := (← getBool j "enable_caching"), spikes := spikes, init := "INIT",
      step := fun dt s => "S(" ++ toString dt.bits.toNat ++ "," ++ s ++ ")",
      inc := fun sym s => if vars.contains sym then "I(" ++ sym ++ "," ++ s ++ ")" else s }
  let ops ← (← getArr j "ops").toList.mapM parseAiOp
  let outs := AI.runOps p (AI.initCache p) ops
  pure (Json.mkObj [
    ("spikes", Json.arr (spikes.map (fun (t, syms) => Json.arr #[Json.str (toString t.bits.toNat), Json.arr (syms.map Json.str).toArray])).toArray),
    ("outs", Json.arr (outs.map (fun o => match o with | none => Json.null | some s => Json.str s)).toArray)])

/-! ### C03 / C04 graph -/

def getBoolMat (j : Json) (k : String) : Except String (Nat → Nat → Bool) := do
  let rows ← j.getObjValAs? (Array (Array Bool)) k
  pure (fun i c => ((rows[i]?).getD #[])[c]?.getD false)

def getBoolVec (j : Json) (k : String) : Except String (Nat → Bool) := do
  let v ← j.getObjValAs? (Array Bool) k
  pure (fun i => v[i]?.getD false)

def opVerdict (j : Json) : Except String Json := do
  let s : Graph.Sys := { n := (← getNat j "n"), anz := (← getBoolMat j "anz"), cdep := (← getBoolMat j "cdep"),
                         bnz := (← getBoolVec j "bnz"), shapeLin := (← getBoolVec j "shape_lin") }
  let idx := List.range s.n
  let bools (f : Nat → Bool) : Json := Json.arr (idx.map (fun i => Json.bool (f i))).toArray
  let nats (l : List Nat) : Json := Json.arr (l.map (fun (i : Nat) => Json.num (JsonNumber.fromNat i))).toArray
  let base := [("eligible", bools (Graph.eligible s)), ("scc", nats (idx.map (Graph.sccSize s))),
               ("demote1", bools (Graph.demote1 s)), ("demote2", bools (Graph.demote2 s))]
  match Graph.verdict s with
  | none => pure (Json.mkObj (base ++ [("out_of_fuel", Json.bool true)]))
  | some v => pure (Json.mkObj (base ++ [("verdict", bools v), ("analytic", nats (Graph.analyticIdx s.n v)),
                                          ("numeric", nats (Graph.numericIdx s.n v))]))

/-! ### C13 mixed integrator (scripted stepper) -/

def getOptFloats (j : Json) (k : String) : Except String (List (Option Float)) := do
  let a ← getArr j k
  a.toList.mapM (fun x => match x with
    | Json.null => pure none
    | _ => do pure (some (← floatOfBits (← x.getStr?))))

/-- the scripted `evolve.apply` shared with the Python stand-in: covers 1, 1/2 or 1/4 of the requested
interval depending on `floor(t * 4096) mod 3`; state moves linearly with fixed rates; suggests 2·dt -/
def scriptedApply (rates : List Float) (t t1 _h : Float) (y : List Float) : Float × Float × List Float :=
  let k := (t * 4096.0).toUInt64 % 3
  let frac : Float := if k == 0 then 1.0 else if k == 1 then 0.5 else 0.25
  let t' := if k == 0 then t1 else t + frac * (t1 - t)
  let dt := t' - t
  (t', dt * 2.0, (List.zipWith (fun v r => v + dt * r) y rates))

def opMiRun (j : Json) : Except String Json := do
  let spikes ← (← getArr j "spikes").toList.mapM (fun e => do
    let a ← e.getArr?
    match a.toList with
    | [t, syms] => do pure ((← floatOfBits (← t.getStr?)), (← fromJson? syms : List Nat))
    | _ => .error "bad spike")
  let rates ← getFloats j "rates"
  let c : MI.Cfg Float := {
    simTime := (← getFloat j "sim_time"), maxStep := (← getFloat j "max_step"), aliasSpikes := (← getBool j "alias"),
    spikes := spikes, y0 := (← getFloats j "y0"), inc := (← getFloats j "inc"),
    upper := (← getOptFloats j "upper"), lower := (← getOptFloats j "lower"), apply := scriptedApply rates }
  match MI.integrate c (← getNat j "outer_fuel") (← getNat j "inner_fuel") with
  | none => pure (Json.mkObj [("out_of_fuel", Json.bool true)])
  | some s => pure (Json.mkObj [
      ("t_log", jFloats (s.log.reverse.map (·.1))),
      ("y_log", Json.arr (s.log.reverse.map (fun e => jFloats e.2)).toArray),
      ("crossed", Json.bool s.crossed),
      ("t_end", Json.str (bitsOfFloat s.t)),
      ("applied", Json.arr (s.applied.reverse.map (fun e => Json.arr #[Json.str (bitsOfFloat e.1), Json.str (bitsOfFloat e.2.1), Json.num (JsonNumber.fromNat e.2.2)])).toArray)])

/-! ### C02 / C04 / C10: split on terms, assembly on values -/

def parseTerm (j : Json) : Except String Terms.Term := do
  let d ← getArr j "direct"
  let direct ← d.toList.mapM (fun e => do
    let a ← e.getArr?
    match a.toList with
    | [s, ex] => do pure ((← fromJson? s : Nat), (← fromJson? ex : Int))
    | _ => .error "bad direct")
  pure { direct := direct, inside := (← j.getObjValAs? (List Nat) "inside") }

def bucketJson : Terms.Bucket → Json
  | .const => Json.str "c"
  | .lin j => Json.arr #[Json.str "l", Json.num (JsonNumber.fromNat j)]
  | .nonlin => Json.str "n"

def opSplit (j : Json) : Except String Json := do
  let params ← j.getObjValAs? (List Nat) "params"
  let xs ← j.getObjValAs? (List Nat) "xs"
  let ts ← (← getArr j "terms").toList.mapM parseTerm
  pure (Json.mkObj [("buckets", Json.arr ((Terms.split params xs ts).map (fun p => bucketJson p.2)).toArray)])

def opParamSyms (j : Json) : Except String Json := do
  let r := Terms.parameterSymbols (← j.getObjValAs? (List Nat) "all_free") (← j.getObjValAs? (List Nat) "vars") (← getNat j "time")
  pure (Json.mkObj [("params", Json.arr (r.map (fun (i : Nat) => Json.num (JsonNumber.fromNat i))).toArray)])

def getRatMat (j : Json) (k : String) : Except String (List (List Rat)) := do
  let rows ← getArr j k
  rows.toList.mapM (fun r => do
    let a ← r.getArr?
    a.toList.mapM (fun x => do ratOfString (← x.getStr?)))

instance : Inhabited Rat := ⟨0⟩

def opSubsys (j : Json) : Except String Json := do
  let A ← getRatMat j "A"
  let b ← getRats j "b"; let c ← getRats j "c"; let x ← getRats j "x"
  let keepL ← j.getObjValAs? (List Nat) "keep"
  let keep : Nat → Bool := fun i => keepL.contains i
  let rows := keepL.map (fun i => Json.mkObj [
    ("i", Json.num (JsonNumber.fromNat i)),
    ("c_sub", Json.str (stringOfRat (Shapes.subC A c x keep i))),
    ("row_value", Json.str (stringOfRat (Shapes.subRowValue A b c x keep i))),
    ("full_row_value", Json.str (stringOfRat (Shapes.rowValue (A.getD i []) x (b.getD i 0) (c.getD i 0)))),
    ("numeric_rhs", Json.str (stringOfRat (Shapes.numericRhs ((List.range x.length).filter keep |>.map (fun jj => (A.getD i []).getD jj 0))
                                             ((List.range x.length).filter keep |>.map (fun jj => x.getD jj 0)) (b.getD i 0) (Shapes.subC A c x keep i)))),
    ("jac_expr", Json.str (stringOfRat (Shapes.jacobianExpr (A.getD i []) x (c.getD i 0))))])
  pure (Json.mkObj [("rows", Json.arr rows.toArray)])

/-! ### C01 / C06 / C08: components and assembly -/

def finFun {α : Type} (n : Nat) (l : List α) (d : α) : Fin n → α := fun i => l.getD i.val d
def finFun2 {α : Type} (n : Nat) (l : List (List α)) (d : α) : Fin n → Fin n → α := fun i j => (l.getD i.val []).getD j.val d

def opComponents (j : Json) : Except String Json := do
  let n ← getNat j "n"
  let A ← getRatMat j "A"
  let Af : Fin n → Fin n → Rat := finFun2 n A 0
  let lab := Propagator.label (Propagator.mirror Af)
  let comps := Propagator.components lab
  pure (Json.mkObj [
    ("labels", Json.arr ((List.finRange n).map (fun i => Json.num (JsonNumber.fromNat (lab i)))).toArray),
    ("ok", Json.bool (Propagator.labelsOk Af lab)),
    ("components", Json.arr (comps.map (fun c => Json.arr (c.map (fun (i : Fin n) => Json.num (JsonNumber.fromNat i.val))).toArray)).toArray)])

def asmErrJson : Propagator.AsmErr → Json
  | .nonlinear r => Json.mkObj [("error", Json.str "nonlinear"), ("row", Json.num (JsonNumber.fromNat r))]
  | .higherOrderInhom r => Json.mkObj [("error", Json.str "higher-order-inhomogeneous"), ("row", Json.num (JsonNumber.fromNat r))]
  | .dependsOnInhom r c => Json.mkObj [("error", Json.str "depends-on-inhomogeneous"), ("row", Json.num (JsonNumber.fromNat r)), ("col", Json.num (JsonNumber.fromNat c))]

def opAssemble (j : Json) : Except String Json := do
  let n ← getNat j "n"
  let A ← getRatMat j "A"; let b ← getRats j "b"; let x ← getRats j "x"; let Pm ← getRatMat j "P"
  let h ← getRat j "h"
  let cnz ← j.getObjValAs? (List Bool) "cnz"
  let order ← j.getObjValAs? (List Nat) "order"
  let pnz ← j.getObjValAs? (List (List Bool)) "Pnz"
  let Af : Fin n → Fin n → Rat := finFun2 n A 0
  let Pf : Fin n → Fin n → Rat := finFun2 n Pm 0
  match Propagator.assemble Af (finFun n b 0) (finFun n cnz false) (finFun n order 1) (finFun2 n pnz false) with
  | .error e => pure (asmErrJson e)
  | .ok rows =>
    let vals := (List.finRange n).map (fun r => match rows[r.val]? with
      | some u => stringOfRat (Propagator.evalRow u r Pf h (finFun n x 0))
      | none => "missing-row")
    let kinds := rows.map (fun u => match u.inhom with | .none => "none" | .const _ => "const" | .affine _ _ => "affine")
    pure (Json.mkObj [("values", Json.arr (vals.map Json.str).toArray),
                      ("cols", Json.arr (rows.map (fun u => Json.arr (u.cols.map (fun (c : Fin n) => Json.num (JsonNumber.fromNat c.val))).toArray)).toArray),
                      ("kinds", Json.arr (kinds.map Json.str).toArray)])

/-! ### C09 validate, C07 config, C16 cli -/

def optStr (j : Json) (k : String) : Option (List Char) :=
  match j.getObjValAs? String k with
  | .ok s => some s.toList
  | .error _ => none

def parseEntry (j : Json) : Except String Validate.Entry := do
  let ivs : Option (List (List Char × List Char)) ← match j.getObjVal? "initial_values" with
    | .ok (Json.arr a) => do
      let l ← a.toList.mapM (fun e => do
        let p ← e.getArr?
        match p.toList with
        | [k, v] => do pure ((← k.getStr?).toList, (← v.getStr?).toList)
        | _ => .error "bad iv pair")
      pure (some l)
    | _ => pure none
  pure { expression := optStr j "expression", initialValue := optStr j "initial_value", initialValues := ivs }

def kindName : Validate.Kind → String
  | .noExpression => "no-expression" | .eqCount => "eq-count" | .lhsTokens => "lhs-tokens" | .noSymbol => "no-symbol"
  | .noInitialValues => "no-initial-values" | .bothSpellings => "both-spellings" | .singleNotFirstOrder => "single-not-first-order"
  | .wrongNumber => "wrong-number" | .ivNoSymbol => "iv-no-symbol" | .ivOtherVariable => "iv-other-variable"
  | .ivOrderTooHigh => "iv-order-too-high" | .ivDuplicate => "iv-duplicate" | .ivMissing => "iv-missing" | .markerInName => "marker-in-name"

def outcomeJson : Validate.Outcome → Json
  | .ok nm o => Json.mkObj [("kind", Json.str "ok"), ("name", Json.str (String.ofList nm)), ("order", Json.num (JsonNumber.fromNat o))]
  | .malformed k => Json.mkObj [("kind", Json.str "malformed"), ("what", Json.str (kindName k))]
  | .reserved nm => Json.mkObj [("kind", Json.str "reserved"), ("name", Json.str (String.ofList nm))]

def opValidate (j : Json) : Except String Json := do
  let marker := (← getStr j "marker").toList
  let reserved := Generated.reservedNames.map String.toList
  let entries ← (← getArr j "entries").toList.mapM parseEntry
  pure (Json.mkObj [("all", outcomeJson (Validate.validateAll marker reserved entries)),
                    ("each", Json.arr (entries.map (fun e => outcomeJson (Validate.validate marker reserved e))).toArray)])

def storeJson (s : Config.Store) : Json := Json.arr (s.map (fun (k, v) => Json.arr #[Json.str k, Json.str v])).toArray

def opConfigRun (j : Json) : Except String Json := do
  let pol : Config.Policy := { resetsFirst := (← getBool j "resets_first") }
  let calls ← (← getArr j "calls").toList.mapM (fun c => do
    let opts : Option (List (String × String)) ← match c.getObjVal? "options" with
      | .ok (Json.arr a) => do
        let l ← a.toList.mapM (fun e => do
          let p ← e.getArr?
          match p.toList with
          | [k, v] => do pure ((← k.getStr?), (← v.getStr?))
          | _ => .error "bad option pair")
        pure (some l)
      | _ => pure none
    let simp : Option String := (c.getObjValAs? String "simplify").toOption
    pure ({ input := (), options := opts, hasDynamics := (← getBool c "has_dynamics"), simplify := simp, flags := () } : Config.Call Unit Unit))
  -- thread the store explicitly to report it after every call
  let rec go (s : Config.Store) : List (Config.Call Unit Unit) → List Json
    | [] => []
    | c :: cs =>
      let r := Config.call pol (fun st _ _ => st) s c
      let o := match r.2 with
        | .empty => Json.mkObj [("outcome", Json.str "empty"), ("store", storeJson r.1)]
        | .badOption => Json.mkObj [("outcome", Json.str "bad-option"), ("store", storeJson r.1)]
        | .result eff => Json.mkObj [("outcome", Json.str "result"), ("store", storeJson r.1), ("effective", storeJson eff)]
      o :: go r.1 cs
  pure (Json.mkObj [("calls", Json.arr (go Config.defaults calls).toArray)])

def opCli (j : Json) : Except String Json := do
  let pres : Cli.PreserveArg ← match j.getObjVal? "preserve" with
    | .ok (Json.arr a) => do pure (.names (← a.toList.mapM (fun x => x.getStr?)))
    | _ => pure .absent
  let a : Cli.Args := { infile := (← getStr j "infile").toList, disableStiffness := (← getBool j "disable_stiffness"),
                        disableAnalytic := (← getBool j "disable_analytic"), preserve := pres, logLevel := (← getStr j "log_level") }
  let ex ← getBool j "exists"; let lo ← getBool j "load_ok"; let ao ← getBool j "api_ok"
  let r := Cli.main (D := Unit) (R := Cli.ApiFlags) (fun _ => ex) (fun _ => if lo then some () else none)
             (fun _ f => if ao then some f else none) a
  match r with
  | .exitNonzero => pure (Json.mkObj [("outcome", Json.str "exit-nonzero")])
  | .wrote nm f =>
    let p : Json := match f.preserve with
      | .no => Json.bool false | .all => Json.bool true | .list l => Json.arr (l.map Json.str).toArray
    pure (Json.mkObj [("outcome", Json.str "wrote"), ("name", Json.str (String.ofList nm)),
      ("flags", Json.mkObj [("disable_stiffness_check", Json.bool f.disableStiffness), ("disable_analytic_solver", Json.bool f.disableAnalytic),
                            ("preserve_expressions", p), ("log_level", Json.str f.logLevel)])])

/-! ### C05 from_function order search -/

def opFromFunction (j : Json) : Except String Json := do
  let nz ← j.getObjValAs? (List Bool) "nonzero"            -- nonzeroAt t for t = 0, 1, …  (missing = false)
  let inv ← j.getObjValAs? (List (List Bool)) "invertible"  -- invertible[k][t] for order k, sample start t (missing = false)
  let ver ← j.getObjValAs? (List Bool) "verifies"           -- verifies[k]
  let o : FromFunction.Oracle := {
    nonzeroAt := fun t => nz.getD t false, order1Verifies := (← getBool j "order1"),
    invertibleAt := fun k t => (inv.getD k []).getD t false, verifies := fun k => ver.getD k false }
  let r := match j.getObjValAs? Nat "max_order" with
    | .ok mo => FromFunction.fromFunction o ((j.getObjValAs? Nat "max_t").toOption.getD Generated.fromFunctionMaxT) mo
    | .error _ => FromFunction.fromFunctionDefault o
  match r with
  | .ok k => pure (Json.mkObj [("order", Json.num (JsonNumber.fromNat k))])
  | .error .noNonzeroSample => pure (Json.mkObj [("error", Json.str "no-nonzero-sample")])
  | .error .noOde => pure (Json.mkObj [("error", Json.str "no-ode")])

/-! ### C11 singularity detection -/

partial def parseEx (j : Json) : Except String Singularity.Ex := do
  match j.getObjVal? "a" with
  | .ok a => pure (.atom (← fromJson? a : Nat))
  | .error _ =>
    match j.getObjVal? "n" with
    | .ok (Json.arr #[l, r]) => pure (.node (← parseEx l) (← parseEx r))
    | _ =>
      match j.getObjVal? "p" with
      | .ok (Json.arr #[b, ng]) => pure (.pow (← parseEx b) (← fromJson? ng : Bool))
      | _ => .error "bad expression tree"

def opSingularities (j : Json) : Except String Json := do
  let entries ← (← getArr j "entries").toList.mapM parseEx
  let table ← (← getArr j "solve").toList.mapM (fun e => do
    let a ← e.getArr?
    match a.toList with
    | [b, cs] => do pure ((← parseEx b), (← fromJson? cs : List Nat))
    | _ => .error "bad solve entry")
  let undefinedA ← j.getObjValAs? (List Nat) "undefined_A"
  let solve : Singularity.Ex → List Nat := fun b => match table.find? (fun p => p.1 == b) with
    | some p => p.2
    | none => []
  let r := Singularity.findSingularities solve (fun c => !undefinedA.contains c) entries
  pure (Json.mkObj [("conditions", Json.arr (r.map (fun (c : Nat) => Json.num (JsonNumber.fromNat c))).toArray),
                    ("n_bases", Json.num (JsonNumber.fromNat ((entries.flatMap Singularity.negBases).length)))])

/-! ### C04: expand + linearity test on the Laurent-polynomial grammar -/

partial def parsePolyExpr (n : Nat) (j : Json) : Except String (Poly.Expr n) := do
  match j.getObjVal? "num" with
  | .ok q => pure (.num (← ratOfString (← q.getStr?)))
  | .error _ =>
  match j.getObjVal? "sym" with
  | .ok (Json.arr #[i, k]) => do
    let i ← (fromJson? i : Except String Nat)
    if h : i < n then pure (.sympow ⟨i, h⟩ (← fromJson? k : Int)) else .error "symbol index out of range"
  | _ =>
  match j.getObjVal? "add" with
  | .ok (Json.arr #[a, b]) => pure (.add (← parsePolyExpr n a) (← parsePolyExpr n b))
  | _ =>
  match j.getObjVal? "mul" with
  | .ok (Json.arr #[a, b]) => pure (.mul (← parsePolyExpr n a) (← parsePolyExpr n b))
  | _ =>
  match j.getObjVal? "neg" with
  | .ok a => pure (.neg (← parsePolyExpr n a))
  | .error _ =>
  match j.getObjVal? "pow" with
  | .ok (Json.arr #[a, k]) => pure (.pow (← parsePolyExpr n a) (← fromJson? k : Nat))
  | _ => .error "bad polynomial expression"

def opPolyVerdict (j : Json) : Except String Json := do
  let n ← getNat j "n"
  let isVarL ← j.getObjValAs? (List Bool) "is_var"
  let e ← parsePolyExpr n (← j.getObjVal? "expr")
  let isVar : Fin n → Bool := fun i => isVarL.getD i.val false
  pure (Json.mkObj [("linear_cc", Json.bool (Poly.linearCC isVar e)),
                    ("n_raw_terms", Json.num (JsonNumber.fromNat (Poly.expandRaw e).length))])

def opFromOde (j : Json) : Except String Json := do
  let factors ← getRats j "factors"; let x ← getRats j "x"
  let locals_ ← j.getObjValAs? (List Nat) "local"
  let inhom ← getRat j "inhom"; let nonlin ← getRat j "nonlin"
  let isLocal : Nat → Bool := fun i => locals_.contains i
  let r := Shapes.fromOde factors x isLocal inhom nonlin
  let localX := ((List.range factors.length).filter isLocal).map (fun jj => x.getD jj 0)
  pure (Json.mkObj [("local_factors", jRats r.1), ("inhom", Json.str (stringOfRat r.2.1)), ("nonlin", Json.str (stringOfRat r.2.2)),
                    ("reconstituted", Json.str (stringOfRat (Shapes.reconstitute r.1 localX r.2.1 r.2.2)))])


/-! ### whole-pipeline model on the Laurent-polynomial fragment -/

def jBools (l : List Bool) : Json := Json.arr (l.map Json.bool).toArray
def jNats (l : List Nat) : Json := Json.arr (l.map (fun (k : Nat) => Json.num (JsonNumber.fromNat k))).toArray

def opPipeline (j : Json) : Except String Json := do
  let n ← getNat j "n"
  let time ← getNat j "time"
  let pts ← getRats j "point"
  let ents ← getArr j "entries"
  if h : time < n then
    let entries ← ents.toList.mapM (fun e => do
      let ds ← e.getObjValAs? (List Nat) "derivs"
      let ds' ← ds.mapM (fun i => if h : i < n then pure (⟨i, h⟩ : Fin n) else .error "symbol index out of range")
      let rhs ← parsePolyExpr n (← e.getObjVal? "expr")
      pure ({ derivs := ds', rhs := rhs } : Pipeline.Entry n))
    let sys : Pipeline.Sys n := { time := ⟨time, h⟩, entries := entries }
    let r := Pipeline.analyse sys
    let pt : Fin n → Rat := fun i => pts.getD i.val 0
    let ev := Pipeline.evalPoly pt
    pure (Json.mkObj [
      ("xs", jNats (r.xs.map (·.val))),
      ("verdict0", jBools r.verdict0), ("verdict1", jBools r.verdict1),
      ("verdict2", match r.verdict2 with | some v => jBools v | none => Json.null),
      ("analytic", jNats r.analytic), ("numeric", jNats r.numeric),
      ("A", Json.arr (r.rows.map (fun row => jRats (row.A.map ev))).toArray),
      ("b", jRats (r.rows.map (fun row => ev row.b))),
      ("c", jRats (r.rows.map (fun row => ev row.c))),
      ("Anz", Json.arr (r.rows.map (fun row => jBools (row.A.map (fun p => !p.isEmpty)))).toArray),
      ("bnz", jBools (r.rows.map (fun row => !row.b.isEmpty))),
      ("cnz", jBools (r.rows.map (fun row => !row.c.isEmpty))),
      ("numeric_rhs", Json.arr (r.numericRhs.map (fun ir => Json.arr #[Json.num (JsonNumber.fromNat ir.1), Json.str (stringOfRat (ev ir.2))])).toArray)])
  else .error "time symbol index out of range"


/-! ### glue around the core of `_analysis` (Model/Glue.lean) -/

def parseSym (j : Json) : Except String Glue.Sym := do
  let a ← j.getArr?
  match a.toList with
  | [n, k] => pure ((← n.getStr?), (← k.getNat?))
  | _ => throw "bad symbol"

def symJson (s : Glue.Sym) : List Json := [Json.str s.1, Json.num (JsonNumber.fromNat s.2)]

def opGlueIv (j : Json) : Except String Json := do
  let shapes ← (← getArr j "shapes").toList.mapM (fun sj => do
    let iv ← (← getArr sj "iv").toList.mapM (fun e => do
      match (← e.getArr?).toList with
      | [n, k, v] => pure (((← n.getStr?), (← k.getNat?)), (← v.getStr?))
      | _ => throw "bad initial value")
    pure ({ symbol := (← getStr sj "symbol"), order := (← getNat sj "order"), iv := iv } : Glue.ShapeIv))
  let solvers ← (← getArr j "solvers").toList.mapM (fun sv => do (← sv.getArr?).toList.mapM parseSym)
  let out := solvers.map (Glue.ivOut shapes)
  let sys ← (← getArr j "queries").toList.mapM (fun q => do
    let s ← parseSym q
    pure (match Glue.sysIv shapes s with
      | none => Json.str "unknown"
      | some none => Json.null
      | some (some v) => Json.arr #[Json.str v]))
  pure (Json.mkObj [("out", Json.arr (out.map (fun l => Json.arr (l.map (fun p =>
      Json.arr (symJson p.1 ++ [match p.2 with | some v => Json.str v | none => Json.null]).toArray)).toArray)).toArray),
    ("sys", Json.arr sys.toArray)])

def opGluePreserve (j : Json) : Except String Json := do
  let dyn ← (← getArr j "dyn").toList.mapM (fun d => do
    let e := (d.getObjValAs? String "expression").toOption
    let es := (d.getObjValAs? (List String) "expressions").toOption
    pure ({ hasExpression := e.isSome, expression := e.getD "", hasExpressions := es.isSome, expressions := es.getD [] } : Glue.Dyn))
  let table ← (← getArr j "parse").toList.mapM (fun r => do
    match (← r.getArr?).toList with
    | [e, n, k, rhs] => pure ((← e.getStr?), ((← n.getStr?), (← k.getNat?), (← rhs.getStr?)))
    | _ => throw "bad parse row")
  let parse : Glue.Parse := fun e => (table.lookup e).getD ("", 0, "")
  let marker ← getStr j "marker"
  let repl : String → String := fun s => s.replace "'" marker
  let argj ← j.getObjVal? "arg"
  let arg : Glue.PArg := match argj with
    | Json.bool b => .flag b
    | Json.arr a => .names (a.toList.filterMap (fun x => x.getStr?.toOption))
    | _ => .other
  let solvers ← (← getArr j "solvers").toList.mapM (fun sj => do
    pure ({ id := (← getNat sj "id"), hasUpdate := (← getBool sj "hasUpdate"), analytic := (← getBool sj "analytic"),
            update := (← sj.getObjValAs? (List String) "update") } : Glue.SolverP))
  match Glue.preserveSpec parse repl dyn arg solvers with
  | .error e => pure (Json.mkObj [("error", Json.str (match e with
      | .notFirstOrder => "notFirstOrder" | .badArgument => "badArgument" | .assertFailed => "assertFailed"))])
  | .ok out => pure (Json.mkObj [("ok", Json.arr (out.map (fun p =>
      Json.arr #[Json.num (JsonNumber.fromNat p.1), Json.str p.2.1, match p.2.2 with | some t => Json.str t | none => Json.null])).toArray),
      ("first_order", Json.arr ((Glue.firstOrderVars parse dyn).map Json.str).toArray)])

def opGlueLin (j : Json) : Except String Json := do
  let shapes ← (← getArr j "shapes").toList.mapM (fun sj => do
    pure ({ symbol := (← getStr sj "symbol"), order := (← getNat sj "order"), lin := (← getBool sj "lin") } : Glue.ShapeLin))
  let qs ← (← getArr j "queries").toList.mapM parseSym
  pure (Json.mkObj [("lin", Json.arr (qs.map (fun q => match Glue.linOf shapes q with
    | some b => Json.bool b | none => Json.null)).toArray)])


def dispatch (op : String) (j : Json) : Json :=
  match op with
  | "ping" => Json.mkObj [("pong", j)]
  | "draw" => run (opDraw j)
  | "stiff-proto" => run (opStiffProto j)
  | "solver-name" => run (opSolverName j)
  | "constants" => run (opConstants j)
  | "regular" => run (opRegular j)
  | "poisson" => run (opPoisson j)
  | "list-stim" => run (opListStim j)
  | "from-json" => run (opFromJson j)
  | "ai-run" => run (opAiRun j)
  | "verdict" => run (opVerdict j)
  | "mi-run" => run (opMiRun j)
  | "split" => run (opSplit j)
  | "param-syms" => run (opParamSyms j)
  | "subsys" => run (opSubsys j)
  | "from-ode" => run (opFromOde j)
  | "components" => run (opComponents j)
  | "assemble" => run (opAssemble j)
  | "validate" => run (opValidate j)
  | "config-run" => run (opConfigRun j)
  | "cli" => run (opCli j)
  | "from-function" => run (opFromFunction j)
  | "singularities" => run (opSingularities j)
  | "poly-verdict" => run (opPolyVerdict j)
  | "pipeline" => run (opPipeline j)
  | "glue_iv" => run (opGlueIv j)
  | "glue_preserve" => run (opGluePreserve j)
  | "glue_lin" => run (opGlueLin j)
  | _ => jerr ("unknown-op: " ++ op)

end OdeVerif.Driver
