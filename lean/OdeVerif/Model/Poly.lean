/-
A model of `expand()` followed by the term-wise linearity test, for right-hand sides in the
Laurent-polynomial grammar {rational number, symbol^k (k any integer), +, *, unary -, (.)^k (k natural)}:
what SymPy's `expr.expand()` + `Shape.split_lin_inhom_nonlin` decide about such an expression,
independently of how it is written.  Symbols are `Fin n`; a monomial is its exponent vector.
Core Lean only.
-/
namespace OdeVerif.Poly

variable {n : Nat}

inductive Expr (n : Nat) where
  | num (q : Rat)
  | sympow (s : Fin n) (k : Int)          -- `s**k`; `s` is `sympow s 1`, `1/s` is `sympow s (-1)`
  | add (a b : Expr n)
  | mul (a b : Expr n)
  | neg (a : Expr n)
  | pow (a : Expr n) (k : Nat)
deriving Repr

abbrev Mono (n : Nat) := Fin n → Int
abbrev Poly (n : Nat) := List (Mono n × Rat)        -- unnormalised: like terms are combined by `coeffOf`

def monoMul (a b : Mono n) : Mono n := fun i => a i + b i
def monoOne : Mono n := fun _ => 0

def polyMul (p q : Poly n) : Poly n :=
  p.flatMap (fun a => q.map (fun b => (monoMul a.1 b.1, a.2 * b.2)))

def polyPow (p : Poly n) : Nat → Poly n
  | 0 => [(monoOne, 1)]
  | k + 1 => polyMul (polyPow p k) p

/-- distribute products over sums (no collection of like terms yet) -/
def expandRaw : Expr n → Poly n
  | .num q => [(monoOne, q)]
  | .sympow s k => [(fun i => if i = s then k else 0, 1)]
  | .add a b => expandRaw a ++ expandRaw b
  | .mul a b => polyMul (expandRaw a) (expandRaw b)
  | .neg a => (expandRaw a).map (fun t => (t.1, -t.2))
  | .pow a k => polyPow (expandRaw a) k

/-- equality of exponent vectors -/
def monoEq (a b : Mono n) : Bool := (List.finRange n).all (fun i => a i == b i)

/-- coefficient of monomial `m` after collecting like terms -/
def coeffOf (p : Poly n) (m : Mono n) : Rat :=
  ((p.filter (fun t => monoEq t.1 m)).map (·.2)).foldl (· + ·) 0

/-- degree of a monomial in the state variables: how a term is judged by the split — constant
(degree 0: only parameters), linear (one variable to the first power, everything else parameters),
anything else is nonlinear.  A negative or higher power of a variable, or two variables, is nonlinear. -/
def termOk (isVar : Fin n → Bool) (m : Mono n) : Bool :=
  let es := (List.finRange n).filter isVar |>.map m
  es.all (fun e => e == 0 || e == 1) && decide ((es.filter (· == 1)).length ≤ 1)

/-- `True` iff the nonlinear part of the expanded expression is empty: every monomial that survives
the collection of like terms is constant or linear in exactly one state variable -/
def linearCC (isVar : Fin n → Bool) (e : Expr n) : Bool :=
  (expandRaw e).all (fun t => coeffOf (expandRaw e) t.1 == 0 || termOk isVar t.1)

end OdeVerif.Poly
