/-
Model of odetoolbox/integrator.py (Integrator.set_spike_times) and
odetoolbox/analytic_integrator.py (AnalyticIntegrator.get_value / reset / cache toggles).

Polymorphic in the time type `T`, the state type `S`, the propagation `step : T → S → S`
(`_update_step`) and the spike increment `inc` -- no law is assumed about `step` here.
Core Lean only.
-/
namespace OdeVerif.AI

variable {T S Sym : Type}

/-! ### `Integrator.set_spike_times` -/

/-- `if t_sp in all_spike_times: all_spike_times_sym[idx].extend([sym]) else: append` -/
def mergeOne [DecidableEq T] (acc : List (T × List Sym)) (t : T) (sym : Sym) : List (T × List Sym) :=
  match acc with
  | [] => [(t, [sym])]
  | (t', syms) :: rest => if t' = t then (t', syms ++ [sym]) :: rest else (t', syms) :: mergeOne rest t sym

/-- the two nested `for` loops over `spike_times.items()` -/
def mergeAll [DecidableEq T] (d : List (Sym × List T)) : List (T × List Sym) :=
  d.foldl (fun acc kv => kv.2.foldl (fun acc t => mergeOne acc t kv.1) acc) []

def insertByTime [LE T] [DecidableLE T] (x : T × List Sym) : List (T × List Sym) → List (T × List Sym)
  | [] => [x]
  | y :: ys => if x.1 ≤ y.1 then x :: y :: ys else y :: insertByTime x ys

/-- `np.argsort(all_spike_times)` applied to both lists (times are distinct after merging) -/
def sortByTime [LE T] [DecidableLE T] : List (T × List Sym) → List (T × List Sym)
  | [] => []
  | x :: xs => insertByTime x (sortByTime xs)

def setSpikeTimes [DecidableEq T] [LE T] [DecidableLE T] (d : List (Sym × List T)) : List (T × List Sym) :=
  sortByTime (mergeAll d)

/-! ### `AnalyticIntegrator` -/

structure Params (T S Sym : Type) where
  enableCaching : Bool
  spikes : List (T × List Sym)      -- zip(all_spike_times, all_spike_times_sym)
  init : S                           -- initial values = state at t = 0
  step : T → S → S                   -- `_update_step(delta_t, state)`
  inc : Sym → S → S                  -- `state[sym] += shape_starting_values[sym]` (identity for unknown `sym`)

structure Cache (T S : Type) where
  tcurr : T
  state : S
  cacheUpdate : Bool                 -- `enable_cache_update_`

def initCache [OfNat T 0] (p : Params T S Sym) : Cache T S :=
  { tcurr := 0, state := p.init, cacheUpdate := true }

/-- `reset()` -/
def reset [OfNat T 0] (p : Params T S Sym) (c : Cache T S) : Cache T S :=
  { c with tcurr := 0, state := p.init }

/-- the `for spike_t, spike_syms in zip(...)` loop of `get_value` with its `continue` / `break` -/
def processSpikes [LT T] [LE T] [Sub T] [OfNat T 0] [DecidableLT T] [DecidableLE T]
    (p : Params T S Sym) (t : T) : List (T × List Sym) → T × S → T × S
  | [], c => c
  | (st, syms) :: rest, (tc, s) =>
    if st ≤ tc then processSpikes p t rest (tc, s)          -- continue
    else if t < st then (tc, s)                             -- break
    else
      let dt := st - tc
      let c' : T × S := if 0 < dt then (st, p.step dt s) else (tc, s)
      processSpikes p t rest (c'.1, syms.foldl (fun s sym => p.inc sym s) c'.2)

/-- `get_value(t)`: returns the new cache and the state reported for `t` -/
def getValue [LT T] [LE T] [Sub T] [OfNat T 0] [DecidableLT T] [DecidableLE T]
    (p : Params T S Sym) (c : Cache T S) (t : T) : Cache T S × S :=
  let c0 := if (!p.enableCaching) || decide (t < c.tcurr) then reset p c else c
  let r := processSpikes p t p.spikes (c0.tcurr, c0.state)
  let c1 := if c0.cacheUpdate then { c0 with tcurr := r.1, state := r.2 } else c0
  let dt := t - r.1
  (c1, if 0 < dt then p.step dt r.2 else r.2)

inductive Op (T : Type) where
  | get (t : T)
  | enableUpdate
  | disableUpdate
  | reset

def stepOp [LT T] [LE T] [Sub T] [OfNat T 0] [DecidableLT T] [DecidableLE T]
    (p : Params T S Sym) (c : Cache T S) : Op T → Cache T S × Option S
  | .get t => let r := getValue p c t; (r.1, some r.2)
  | .enableUpdate => ({ c with cacheUpdate := true }, none)
  | .disableUpdate => ({ c with cacheUpdate := false }, none)
  | .reset => (reset p c, none)

/-- run a history of operations from the freshly constructed integrator; outputs of the queries -/
def runOps [LT T] [LE T] [Sub T] [OfNat T 0] [DecidableLT T] [DecidableLE T]
    (p : Params T S Sym) : Cache T S → List (Op T) → List (Option S)
  | _, [] => []
  | c, op :: ops => let r := stepOp p c op; r.2 :: runOps p r.1 ops

/-! ### specification: the exact impulse-driven solution -/

/-- jump to spike `(st, syms)`: propagate from the current time to `st`, then add the increments -/
def jump [Sub T] (p : Params T S Sym) (c : T × S) (sp : T × List Sym) : T × S :=
  (sp.1, sp.2.foldl (fun s sym => p.inc sym s) (p.step (sp.1 - c.1) c.2))

/-- the state at `t` of the system started from `init` at time 0 with an impulse at every spike
time `s`, `0 < s ≤ t` (coincident spikes all applied, in list order), propagated spike to spike -/
def spec [LT T] [LE T] [Sub T] [OfNat T 0] [DecidableLT T] [DecidableLE T]
    (p : Params T S Sym) (t : T) : S :=
  let r := (p.spikes.filter (fun sp => decide (0 < sp.1) && decide (sp.1 ≤ t))).foldl (jump p) (0, p.init)
  if 0 < t - r.1 then p.step (t - r.1) r.2 else r.2

end OdeVerif.AI
