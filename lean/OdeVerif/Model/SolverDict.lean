/-
Model of the bookkeeping around the returned solver dictionaries:
  symbols occurring in the assembled update expressions (system_of_shapes.py:256-283), naming of
  state variables and propagator symbols (259-261, __init__.py:292), look-up of initial values
  (__init__.py:289-295) and the per-solver parameter filter (__init__.py:302-321).
Core Lean only.
-/
import OdeVerif.Model.Propagator

namespace OdeVerif.SolverDict
open OdeVerif.Propagator

/-- the kinds of symbol an update expression can mention -/
inductive Sym where
  | state (i : Nat)          -- a state variable of this solver
  | prop (r c : Nat)         -- the propagator symbol `__P__<x_r>__<x_c>`
  | step                     -- the configured time-step symbol
  | const (id : Nat)         -- a symbol of the input (parameter) occurring in an entry of `A` or `b`
deriving Repr, DecidableEq

variable {n : Nat} {K : Type}

/-- free symbols of the update expression assembled for row `r` (as the strings are put together) -/
def rowSymbols (freeA : Fin n → Fin n → List Nat) (freeB : Fin n → List Nat) (u : UpdRow n K) (r : Fin n) : List Sym :=
  u.cols.flatMap (fun c => [Sym.prop r.val c.val, Sym.state c.val]) ++
  match u.inhom with
  | .none => []
  | .const _ => Sym.step :: (freeB r).map Sym.const
  | .affine _ _ => [Sym.prop r.val r.val, Sym.state r.val] ++ (freeB r ++ freeA r r).map Sym.const

/-- the propagator symbols the solver defines (`P_expr[sym_str] = P[row, col]` for non-zero entries) -/
def definedProp (Pnz : Fin n → Fin n → Bool) (r c : Nat) : Bool :=
  if h : r < n ∧ c < n then Pnz ⟨r, h.1⟩ ⟨c, h.2⟩ else false

abbrev Str := List Char

/-- `str(shape.symbol) + differential_order_symbol * k` -/
def stateName (marker base : Str) (k : Nat) : Str := base ++ (List.replicate k marker).flatten

/-- the key under which the user gave the initial value: `sym.replace(marker, "'")` -/
def ivKey (base : Str) (k : Nat) : Str := base ++ List.replicate k '\''

/-- `"__P__{}__{}".format(x_r, x_c)` -/
def propName (r c : Str) : Str := "__P__".toList ++ r ++ "__".toList ++ c

/-- the parameter filter: a supplied parameter is listed iff it occurs in an update expression, a
propagator, or an initial value of the solver -/
def paramListed (exprSyms ivSyms : List String) (p : String) : Bool :=
  exprSyms.contains p || ivSyms.contains p

/-- the filter before the repair (finding F5): initial values were not looked at -/
def paramListedPrefix (exprSyms _ivSyms : List String) (p : String) : Bool :=
  exprSyms.contains p

/-! ### what the parameter filter of `_analysis` reads of a solver dictionary (used by Generated/PyParams.lean) -/

/-- per key of the dictionary: is it present, and for every entry the names of the atoms of its expression -/
structure SolverView where
  hasUpdate : Bool
  hasProp : Bool
  hasIv : Bool
  update : List (String × List String)
  prop : List (String × List String)
  iv : List (String × List String)

/-- `solver_json["parameters"][param_name] = ...` on the list of per-solver parameter lists (the current solver is the last) -/
def appendLast : List (List String) → String → List (List String)
  | [], p => [[p]]
  | [l], p => [l ++ [p]]
  | l :: rest, p => l :: appendLast rest p

/-- all atom names the filter can see in a solver: update expressions and propagators / initial values -/
def SolverView.exprSyms (v : SolverView) : List String :=
  (if v.hasUpdate then v.update.flatMap (·.2) else []) ++ (if v.hasProp then v.prop.flatMap (·.2) else [])

def SolverView.ivSyms (v : SolverView) : List String := if v.hasIv then v.iv.flatMap (·.2) else []

end OdeVerif.SolverDict
