/-
Model of the structural checks on one `dynamics` entry:
  odetoolbox/shapes.py  Shape.from_json (280-346), Shape._parse_defining_expression (251-277),
  Shape.__init__ (110-160).
Strings are `List Char`; only the five string idioms the code uses are modelled (count of a
character, split at the single '=', the `\S+` tokens, the first identifier, substring test).
ASCII white space only (non-ASCII white space is outside the generators).  Core Lean only.
-/
namespace OdeVerif.Validate

abbrev Str := List Char

def isIdStart (c : Char) : Bool := c.isAlpha || c == '_'
def isIdChar (c : Char) : Bool := c.isAlphanum || c == '_'
def isSpace (c : Char) : Bool := c == ' ' || c == '\t' || c == '\n' || c == '\r' || c == '\x0b' || c == '\x0c'

/-- `re.search("[a-zA-Z_][a-zA-Z0-9_]*", s).group()` -/
def firstIdent : Str → Option Str
  | [] => none
  | c :: cs => if isIdStart c then some (c :: cs.takeWhile isIdChar) else firstIdent cs

/-- `re.findall(r"\S+", s)` -/
def tokensAux : Str → Str → List Str
  | [], cur => if cur.isEmpty then [] else [cur.reverse]
  | c :: cs, cur =>
    if isSpace c then (if cur.isEmpty then tokensAux cs [] else cur.reverse :: tokensAux cs [])
    else tokensAux cs (c :: cur)

def tokens (s : Str) : List Str := tokensAux s []

/-- `s.split("=")` when there is exactly one '=' : (before, after) -/
def splitEq : Str → Str × Str
  | [] => ([], [])
  | c :: cs => if c = '=' then ([], cs) else let r := splitEq cs; (c :: r.1, r.2)

def countChar (c : Char) (s : Str) : Nat := s.count c

/-- `pat in s` -/
def isInfix (pat : Str) : Str → Bool
  | [] => pat.isEmpty
  | c :: cs => pat.isPrefixOf (c :: cs) || isInfix pat cs

inductive Kind where
  | noExpression | eqCount | lhsTokens | noSymbol
  | noInitialValues | bothSpellings | singleNotFirstOrder | wrongNumber
  | ivNoSymbol | ivOtherVariable | ivOrderTooHigh | ivDuplicate | ivMissing
  | markerInName
deriving Repr, DecidableEq

inductive Outcome where
  | ok (name : Str) (order : Nat)      -- passes every structural check; handed to from_ode / from_function
  | malformed (k : Kind)               -- MalformedInputException
  | reserved (name : Str)              -- name collides with a predefined symbol: some error (Malformed or TypeError)
deriving Repr, DecidableEq

structure Entry where
  expression : Option Str
  initialValue : Option Str
  initialValues : Option (List (Str × Str))

/-- the loop over `indict["initial_values"].items()`; `seen` = orders already specified -/
def checkIvs (symbol : Str) (order : Nat) : List (Str × Str) → List Nat → Option Kind
  | [], _ => none
  | (k, _) :: rest, seen =>
    match firstIdent k with
    | none => some .ivNoSymbol
    | some s =>
      if s ≠ symbol then some .ivOtherVariable
      else
        let o := countChar '\'' k
        if o ≥ order then some .ivOrderTooHigh
        else if seen.contains o then some .ivDuplicate
        else checkIvs symbol order rest (o :: seen)

def validate (marker : Str) (reserved : List Str) (e : Entry) : Outcome :=
  match e.expression with
  | none => .malformed .noExpression
  | some s =>
    if countChar '=' s ≠ 1 then .malformed .eqCount
    else
      let lhs := (splitEq s).1
      match tokens lhs with
      | [tok] =>
        match firstIdent s with
        | none => .malformed .noSymbol
        | some symbol =>
          let order := countChar '\'' tok
          if e.initialValue.isNone && e.initialValues.isNone && order > 0 then .malformed .noInitialValues
          else if e.initialValue.isSome && e.initialValues.isSome then .malformed .bothSpellings
          else if e.initialValue.isSome && order ≠ 1 then .malformed .singleNotFirstOrder
          else
            let ivCheck : Option Kind := match e.initialValues with
              | none => none
              | some ivs =>
                if ivs.length ≠ order then some .wrongNumber
                else checkIvs symbol order ivs []
            match ivCheck with
            | some k => .malformed k
            | none =>
              -- (for order 0 these two checks run at the end of from_function, whose own failures are C05's)
              if reserved.contains symbol then .reserved symbol
              else if isInfix marker symbol then .malformed .markerInName
              else .ok symbol order
      | _ => .malformed .lhsTokens

/-- the first pass of `_from_json_to_shapes`: entries in order, first failure wins -/
def validateAll (marker : Str) (reserved : List Str) : List Entry → Outcome
  | [] => .ok [] 0
  | [e] => validate marker reserved e
  | e :: rest => match validate marker reserved e with
    | .ok _ _ => validateAll marker reserved rest
    | bad => bad

end OdeVerif.Validate
