/-
Model of the event loop of odetoolbox/mixed_integrator.py  MixedIntegrator.integrate_ode
(outer loop to the next spike / next grid point, inner adaptive stepping, bound enforcement after
every step, spike application in precise and aliased mode, logging).

The numerical stepper `evolve.apply(t, t1, h, y) -> (t', h_suggested, y')` is a parameter; nothing is
assumed about it here.  One number type `α` for times and values.  Core Lean only.
-/
namespace OdeVerif.MI

variable {α : Type}

structure Cfg (α : Type) where
  simTime : α
  maxStep : α
  aliasSpikes : Bool
  spikes : List (α × List Nat)        -- sorted event list; variables as indices into `y` (others dropped)
  y0 : List α                          -- initial values (state at 0; also the reset values)
  inc : List α                         -- spike increment per variable (its initial value expression, evaluated)
  upper : List (Option α)              -- upper bound per variable (shapes' `upper_bound`)
  lower : List (Option α)              -- lower bound per variable (shapes' `lower_bound`)
  apply : α → α → α → List α → α × α × List α

structure St (α : Type) where
  t : α
  y : List α
  idx : Nat                            -- `idx_next_spike`
  log : List (α × List α)              -- (t_log, y_log) newest first
  applied : List (α × α × Nat)         -- (spike time, time at which it was applied, variable) newest first
  crossed : Bool

/-- Python's `min(a, b)`: `b` if `b < a` else `a` -/
def pyMin [LT α] [DecidableLT α] (a b : α) : α := if b < a then b else a

/-- bound enforcement for one variable: reset to the initial value when above the upper or below
the lower bound -/
def clampOne [LT α] [DecidableLT α] (ub lb : Option α) (init v : α) : α × Bool :=
  let r1 : α × Bool := match ub with
    | some u => if u < v then (init, true) else (v, false)
    | none => (v, false)
  match lb with
    | some l => if r1.1 < l then (init, r1.2) else r1
    | none => r1

def enforceBounds [LT α] [DecidableLT α] [Inhabited α] (c : Cfg α) (y : List α) : List α × Bool :=
  let rs := (List.range y.length).map (fun i =>
    clampOne ((c.upper.getD i none)) ((c.lower.getD i none)) (c.y0.getD i default) (y.getD i default))
  (rs.map (·.1), rs.any (·.2))

/-- `y[idx] += increment` for each variable of the spike -/
def applySyms [Add α] [Inhabited α] (c : Cfg α) (y : List α) (syms : List Nat) : List α :=
  syms.foldl (fun y i => if i < y.length then y.set i (y.getD i default + c.inc.getD i default) else y) y

/-- inner loop `while t < t_target` (fuel = max. number of steps) -/
def inner [Add α] [Sub α] [LT α] [DecidableLT α] [Inhabited α] (c : Cfg α) (tTarget : α) :
    Nat → St α → Option (St α)
  | 0, s => if s.t < tTarget then none else some s
  | fuel + 1, s =>
    if s.t < tTarget then
      let tReq := pyMin (s.t + c.maxStep) tTarget
      let hReq := tReq - s.t
      let r := c.apply s.t tReq hReq s.y
      let b := enforceBounds c r.2.2
      inner c tTarget fuel { s with t := r.1, y := b.1, log := (r.1, b.1) :: s.log, crossed := s.crossed || b.2 }
    else some s

/-- after spikes were added to `y` in place, the most recent log entry (the same array) shows them -/
def relog (s : St α) (y : List α) : St α :=
  match s.log with
  | [] => { s with y := y }
  | (t, _) :: rest => { s with y := y, log := (t, y) :: rest }

/-- aliased mode: `while t_next_spike <= t: apply; idx += 1` -/
def aliasedSpikes [Add α] [LE α] [DecidableLE α] [Inhabited α] (c : Cfg α) : Nat → St α → St α
  | 0, s => s
  | fuel + 1, s =>
    match c.spikes[s.idx]? with
    | none => s
    | some (ts, syms) =>
      if ts ≤ s.t then
        let y := applySyms c s.y syms
        aliasedSpikes c fuel { relog s y with idx := s.idx + 1,
                                              applied := (syms.map (fun i => (ts, s.t, i))).reverse ++ s.applied }
      else s

/-- one iteration of the outer loop -/
def outerStep [Add α] [Sub α] [LT α] [LE α] [DecidableLT α] [DecidableLE α] [Inhabited α]
    (c : Cfg α) (innerFuel : Nat) (s : St α) : Option (St α) :=
  if c.aliasSpikes then
    let tTarget := pyMin (s.t + c.maxStep) c.simTime
    match inner c tTarget innerFuel s with
    | none => none
    | some s' => some (aliasedSpikes c (c.spikes.length + 1) s')
  else
    let (tTarget, syms) : α × List Nat :=
      match c.spikes[s.idx]? with
      | none => (c.simTime, [])
      | some (ts, sy) => if ts < c.simTime then (ts, sy) else (c.simTime, [])
    let s1 := { s with idx := s.idx + 1 }
    match inner c tTarget innerFuel s1 with
    | none => none
    | some s' =>
      let y := applySyms c s'.y syms
      some { relog s' y with applied := (syms.map (fun i => (tTarget, s'.t, i))).reverse ++ s'.applied }

/-- `while t < sim_time` -/
def outer [Add α] [Sub α] [LT α] [LE α] [DecidableLT α] [DecidableLE α] [Inhabited α]
    (c : Cfg α) (innerFuel : Nat) : Nat → St α → Option (St α)
  | 0, s => if s.t < c.simTime then none else some s
  | fuel + 1, s =>
    if s.t < c.simTime then
      match outerStep c innerFuel s with
      | none => none
      | some s' => outer c innerFuel fuel s'
    else some s

def initSt [OfNat α 0] (c : Cfg α) : St α :=
  { t := 0, y := c.y0, idx := 0, log := [(0, c.y0)], applied := [], crossed := false }

def integrate [Add α] [Sub α] [LT α] [LE α] [DecidableLT α] [DecidableLE α] [Inhabited α] [OfNat α 0]
    (c : Cfg α) (outerFuel innerFuel : Nat) : Option (St α) :=
  outer c innerFuel outerFuel (initSt c)

/-! ### data views used by the regenerated `integrate_ode` (Generated/PyMixed.lean) -/

/-- `all_spike_times[i]` -/
def spikeTimeAt [Inhabited α] (c : Cfg α) (i : Nat) : α :=
  match c.spikes[i]? with
  | some p => p.1
  | none => default

/-- `all_spike_times_sym[i]` (symbols that are not numerically integrated variables are dropped by the harness) -/
def spikeSymsAt (c : Cfg α) (i : Nat) : List Nat :=
  match c.spikes[i]? with
  | some p => p.2
  | none => []

/-- `float(bound.evalf(...))` of a bound that is present -/
def optVal [Inhabited α] : Option α → α
  | some v => v
  | none => default

/-- `y[k]` -/
def getY [Inhabited α] (y : List α) (k : Nat) : α := y.getD k default

/-- what `integrate_ode` reads of a shape when enforcing bounds: the position of its symbol in `x` and its two bounds -/
structure ShapeB (α : Type) where
  idx : Nat
  ub : Option α
  lb : Option α

/-- `self._shapes` as far as bound enforcement is concerned: one record per position of `y` (positions that carry no
bound are no-ops of the loop) -/
def shapeBounds (c : Cfg α) : List (ShapeB α) :=
  (List.range c.y0.length).map (fun i => { idx := i, ub := c.upper.getD i none, lb := c.lower.getD i none })

end OdeVerif.MI
