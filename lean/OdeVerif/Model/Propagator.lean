/-
Model of the analytic solver generation (odetoolbox/system_of_shapes.py):
  get_connected_component_indices + `_generate_propagator_matrix` (component-wise exponential,
  scattered into P), and generate_propagator_solver (assembly of the update expressions incl. the
  `x' = b` and `x' = a x + b` particular solutions and the three `raise` guards).

Matrices are functions on `Fin n`.  The matrix exponential itself is SymPy's job: it enters as a
parameter (`E` below), with its contract stated in the theorems.  Core Lean only.
-/
namespace OdeVerif.Propagator

variable {n : Nat} {K : Type}

/-! ### connected components of the symmetrised non-zero pattern -/

/-- `(A != 0) | (A.T != 0)` -/
def mirror [DecidableEq K] [OfNat K 0] (A : Fin n → Fin n → K) (i j : Fin n) : Bool :=
  decide (A i j ≠ 0) || decide (A j i ≠ 0)

/-- one relaxation round of reachability along `e` -/
def relax (e : Fin n → Fin n → Bool) (r : Fin n → Fin n → Bool) : Fin n → Fin n → Bool :=
  fun i j => r i j || (List.finRange n).any (fun k => r i k && e k j)

/-- reflexive-transitive closure (n rounds) -/
def reach (e : Fin n → Fin n → Bool) : Fin n → Fin n → Bool :=
  (List.range n).foldl (fun r _ => relax e r) (fun i j => decide (i = j))

/-- component label of `i`: the smallest index it is connected to (SciPy numbers components by
first occurrence, which induces the same partition) -/
def label (e : Fin n → Fin n → Bool) (i : Fin n) : Nat :=
  match (List.finRange n).find? (fun j => reach e i j) with
  | some j => j.val
  | none => i.val

/-- the labelling is accepted only if it really separates nothing that is coupled: every non-zero
entry of `A` joins two indices with the same label (checked, not assumed) -/
def labelsOk [DecidableEq K] [OfNat K 0] (A : Fin n → Fin n → K) (lab : Fin n → Nat) : Bool :=
  (List.finRange n).all (fun i => (List.finRange n).all (fun j => !(mirror A i j) || decide (lab i = lab j)))

/-- index sets of the components, in order of their smallest element (`get_connected_component_indices`) -/
def components (lab : Fin n → Nat) : List (List (Fin n)) :=
  ((List.finRange n).filter (fun i => lab i = i.val)).map (fun r => (List.finRange n).filter (fun i => lab i = r.val))

/-- `_generate_propagator_matrix`: each component is exponentiated on its own index set (`E idx i j`
is the entry, at original indices `i j`, of `exp(A[idx, idx] * h)`) and scattered; everything
outside the components' diagonal blocks is zero. -/
def scatter [OfNat K 0] (lab : Fin n → Nat) (E : List (Fin n) → Fin n → Fin n → K) : Fin n → Fin n → K :=
  fun i j => if lab i = lab j then E ((List.finRange n).filter (fun k => lab k = lab i)) i j else 0

/-! ### assembly of the update expressions (`generate_propagator_solver`) -/

inductive AsmErr where
  | nonlinear (row : Nat)              -- "nonlinear part should be zero for propagators"
  | higherOrderInhom (row : Nat)       -- "higher-order inhomogeneous ODEs are not supported"
  | dependsOnInhom (row col : Nat)     -- "the ODE for x_row depends on the inhomogeneous ODE of x_col"
deriving Repr, DecidableEq

/-- how the inhomogeneous part of a row is solved -/
inductive Inhom (K : Type) where
  | none                                -- b_row = 0
  | const (b : K)                       -- A_rr = 0 :  + h * b
  | affine (b a : K)                    -- A_rr = a ≠ 0 :  - P_rr x_r + P_rr (x_r - p) + p,  p = -b / a

structure UpdRow (n : Nat) (K : Type) where
  cols : List (Fin n)                  -- columns with a non-zero propagator entry: terms  P_rc * x_c
  inhom : Inhom K

/-- the `for col` loop of one row: collects the non-zero columns, raising when the row depends on an
inhomogeneous other variable -/
def rowCols [DecidableEq K] [OfNat K 0] (b : Fin n → K) (Pnz : Fin n → Fin n → Bool) (row : Fin n) :
    List (Fin n) → Except AsmErr (List (Fin n))
  | [] => .ok []
  | col :: rest =>
    if Pnz row col then
      if row ≠ col ∧ b col ≠ 0 then .error (.dependsOnInhom row.val col.val)
      else (rowCols b Pnz row rest).map (fun cs => col :: cs)
    else rowCols b Pnz row rest

def assembleRow [DecidableEq K] [OfNat K 0] (A : Fin n → Fin n → K) (b : Fin n → K) (cnz : Fin n → Bool)
    (order : Fin n → Nat) (Pnz : Fin n → Fin n → Bool) (row : Fin n) : Except AsmErr (UpdRow n K) :=
  if cnz row then .error (.nonlinear row.val)
  else if b row ≠ 0 ∧ order row > 1 then .error (.higherOrderInhom row.val)
  else
    match rowCols b Pnz row (List.finRange n) with
    | .error e => .error e
    | .ok cols =>
      .ok { cols := cols,
            inhom := if b row = 0 then .none else if A row row = 0 then .const (b row) else .affine (b row) (A row row) }

/-- all rows, first error (in row order) wins -/
def assemble [DecidableEq K] [OfNat K 0] (A : Fin n → Fin n → K) (b : Fin n → K) (cnz : Fin n → Bool)
    (order : Fin n → Nat) (Pnz : Fin n → Fin n → Bool) : Except AsmErr (List (UpdRow n K)) :=
  (List.finRange n).mapM (assembleRow A b cnz order Pnz)

/-- value of the update expression of `row` for propagator values `P`, step `h`, old state `x` -/
def evalRow [Add K] [Mul K] [Sub K] [Neg K] [Div K] [OfNat K 0] (u : UpdRow n K) (row : Fin n)
    (P : Fin n → Fin n → K) (h : K) (x : Fin n → K) : K :=
  let lin := (u.cols.map (fun c => P row c * x c)).foldl (· + ·) 0
  match u.inhom with
  | .none => lin
  | .const b => lin + h * b
  | .affine b a =>
    let p := -b / a
    lin + (-(P row row) * x row) + (P row row * (x row - p) + p)

/-! ### the terms of an update expression as `generate_propagator_solver` writes them (used by the regenerated
assembly loop, Generated/PyPropagator.lean) -/

/-- one summand of the string `" + ".join(update_expr_terms)` -/
inductive Term (n : Nat) (K : Type) where
  | px (r c : Fin n)             -- `__P__r__c * x_c`
  | stepB (bv : K)               -- `h * (b_r)`
  | negPx (r : Fin n)            -- `-__P__r__r * x_r`
  | affine (r : Fin n) (p : K)   -- `__P__r__r * (x_r - (p)) + (p)`

def evalTerm [Add K] [Mul K] [Sub K] [Neg K] (P : Fin n → Fin n → K) (h : K) (x : Fin n → K) : Term n K → K
  | .px r c => P r c * x c
  | .stepB bv => h * bv
  | .negPx r => -(P r r) * x r
  | .affine r p => P r r * (x r - p) + p

/-- value of `" + ".join(terms)` -/
def evalTerms [Add K] [Mul K] [Sub K] [Neg K] [OfNat K 0] (ts : List (Term n K)) (P : Fin n → Fin n → K) (h : K) (x : Fin n → K) : K :=
  (ts.map (evalTerm P h x)).foldl (· + ·) 0

end OdeVerif.Propagator
