/-
Lean renderings of the handful of Python built-ins / container idioms that the generated
definitions (`OdeVerif/Generated/Py*.lean`, written by harness/translate/py2lean.py) refer to.
Core Lean only.
-/
namespace OdeVerif.Py

/-- Python's `max(a, b)`: the first argument unless the second is strictly greater -/
def max {α : Type} [LT α] [DecidableLT α] (a b : α) : α := if a < b then b else a

/-- `l.index(a)` for an element that is present (position of the first occurrence) -/
def index {α : Type} [DecidableEq α] (l : List α) (a : α) : Nat := l.idxOf a

/-- `l[k]` on a list of lists (out of range never happens in the translated code; `[]` then) -/
def getD {α : Type} (l : List (List α)) (k : Nat) : List α := l.getD k []

/-- `l[k] = v` -/
def set {α : Type} (l : List α) (k : Nat) (v : α) : List α := l.set k v

/-- `d.items()` of a dict over the indices `0 … n-1`, in index order -/
def items {β : Type} (n : Nat) (f : Nat → β) : List (Nat × β) := (List.range n).map (fun i => (i, f i))

/-- `d[k] = v` on a dict viewed as a function -/
def update {β : Type} (f : Nat → β) (k : Nat) (v : β) : Nat → β := fun j => if j = k then v else f j

/-- `enumerate(xs)` when the elements of `xs` are identified with their indices -/
def enumerateRange (n : Nat) : List (Nat × Nat) := (List.range n).map (fun i => (i, i))

/-- `enumerate(l)` -/
def enumerate {α : Type} (l : List α) : List (Nat × α) := l.zipIdx.map (fun p => (p.2, p.1))

/-- `M[i, j] = v` on a matrix viewed as a function of two indices -/
def update2 {β : Type} (f : Nat → Nat → β) (i j : Nat) (v : β) : Nat → Nat → β :=
  fun a b => if a = i ∧ b = j then v else f a b

/-- `M[r, :] = row` -/
def setRow {β : Type} [Inhabited β] (f : Nat → Nat → β) (r : Nat) (row : List β) : Nat → Nat → β :=
  fun a b => if a = r ∧ b < row.length then row.getD b default else f a b

/-- how a translated `for` loop whose body contains `return` ends: the function returns `r`, or the loop is over with state `s` -/
inductive Flow (ρ σ : Type) where
  | ret : ρ → Flow ρ σ
  | next : σ → Flow ρ σ

end OdeVerif.Py
