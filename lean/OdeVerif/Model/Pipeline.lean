/-
End-to-end model of the analysis pipeline on the Laurent-polynomial fragment (right-hand sides built
from rational numbers, symbols with integer exponents, +, *, unary -, natural powers):

  odetoolbox/__init__.py        _from_json_to_shapes (which symbols are parameters), `_analysis` 232-256
                                (split of the symbols into the analytic and the numeric sub-system)
  odetoolbox/shapes.py          expand() + split_lin_inhom_nonlin (361-412), is_constant_term (47-55)
  odetoolbox/system_of_shapes.py from_shapes (376-426: x, A, b, c; unit rows of the lower derivatives),
                                get_dependency_edges, get_lin_cc_symbols, the demotion rules and the
                                worklist (through `Graph`), get_sub_system (174-194), reconstitute_expr

Unlike `Shapes.lean` (values) and `Graph.lean` (patterns) this model is *symbolic*: `A`, `b`, `c` are
polynomials, the patterns the graph stage looks at are computed from them, and the numeric right-hand
sides are assembled as polynomials.  The only thing taken from SymPy is the parse of the user's text
into an unevaluated tree; `expand()` itself is `Poly.expandRaw` + `collect`.  Core Lean only.
-/
import OdeVerif.Model.Poly
import OdeVerif.Model.Graph

namespace OdeVerif.Pipeline
open OdeVerif.Poly

variable {n : Nat}

/-! ### `expand()`: combine like terms, drop zero terms -/

/-- distinct monomials in order of first occurrence -/
def monos : Poly n → List (Mono n)
  | [] => []
  | t :: rest => t.1 :: (monos rest).filter (fun m => !monoEq m t.1)

/-- the expanded sum as SymPy holds it: one term per monomial, no zero terms -/
def collect (p : Poly n) : Poly n :=
  ((monos p).map (fun m => (m, coeffOf p m))).filter (fun t => t.2 != 0)

/-! ### the term-wise split -/

/-- free symbols of a monomial -/
def support (m : Mono n) : List (Fin n) := (List.finRange n).filter (fun i => m i != 0)

/-- `is_constant_term`: every free symbol is a parameter -/
def monoConst (isParam : Fin n → Bool) (m : Mono n) : Bool := (support m).all isParam

/-- `term / sym` -/
def monoDiv (m : Mono n) (s : Fin n) : Mono n := fun i => if i = s then m i - 1 else m i

inductive Bucket where
  | const
  | lin (j : Nat)
  | nonlin
deriving Repr, DecidableEq

/-- `for j, sym in enumerate(x): if is_constant_term(term / sym): ...; break` -/
def firstLinear (isParam : Fin n → Bool) (m : Mono n) : List (Fin n) → Nat → Option Nat
  | [], _ => none
  | s :: rest, j => if monoConst isParam (monoDiv m s) then some j else firstLinear isParam m rest (j + 1)

def classify (isParam : Fin n → Bool) (xs : List (Fin n)) (m : Mono n) : Bucket :=
  if monoConst isParam m then .const
  else match firstLinear isParam m xs 0 with
    | some j => .lin j
    | none => .nonlin

/-- one row of `x' = A x + b + c` -/
structure Row (n : Nat) where
  A : List (Poly n)        -- coefficient of each state variable, in the order of `x`
  b : Poly n
  c : Poly n

/-- `split_lin_inhom_nonlin(expr, x)`: expand, then every term goes to exactly one bucket -/
def splitRow (isParam : Fin n → Bool) (xs : List (Fin n)) (e : Expr n) : Row n :=
  let p := collect (expandRaw e)
  { A := xs.zipIdx.map (fun sj =>
      (p.filter (fun t => classify isParam xs t.1 == .lin sj.2)).map (fun t => (monoDiv t.1 sj.1, t.2))),
    b := p.filter (fun t => classify isParam xs t.1 == .const),
    c := p.filter (fun t => classify isParam xs t.1 == .nonlin) }

/-- `x_i' = x_(i+1)` for the lower derivatives of a higher-order shape -/
def unitRow (xs : List (Fin n)) (next : Fin n) : Row n :=
  { A := xs.map (fun s => if s = next then [(monoOne, 1)] else []), b := [], c := [] }

/-! ### the system -/

structure Entry (n : Nat) where
  derivs : List (Fin n)      -- the shape's state variables g, g__d, ... (length = order)
  rhs : Expr n               -- right-hand side of the highest derivative

structure Sys (n : Nat) where
  time : Fin n
  entries : List (Entry n)

/-- `x`: per shape, its state variables in ascending derivative order -/
def Sys.xs (s : Sys n) : List (Fin n) := s.entries.flatMap (·.derivs)

def Sys.isVar (s : Sys n) (i : Fin n) : Bool := s.xs.contains i

/-- `_from_json_to_shapes`: every free symbol that is neither a state variable nor the time symbol -/
def Sys.isParam (s : Sys n) (i : Fin n) : Bool := !s.isVar i && i != s.time

def entryRows (s : Sys n) (e : Entry n) : List (Row n) :=
  (e.derivs.drop 1).map (unitRow s.xs) ++
    (if e.derivs.isEmpty then [] else [splitRow s.isParam s.xs e.rhs])

/-- `SystemOfShapes.from_shapes` -/
def Sys.rows (s : Sys n) : List (Row n) := s.entries.flatMap (entryRows s)

/-- for every state variable (by position in `x`), the position of the highest derivative of its shape -/
def topRows : List (Entry n) → Nat → List Nat
  | [], _ => []
  | e :: rest, off => List.replicate e.derivs.length (off + e.derivs.length - 1) ++ topRows rest (off + e.derivs.length)

def occurs (p : Poly n) (i : Fin n) : Bool := p.any (fun t => t.1 i != 0)

/-- what the dependency analysis looks at -/
def Sys.toGraph (s : Sys n) : Graph.Sys :=
  let rs := s.rows
  let tops := topRows s.entries 0
  { n := s.xs.length,
    anz := fun i j => match rs[i]? with
      | some r => !(r.A.getD j []).isEmpty
      | none => false,
    cdep := fun i j => match rs[i]?, s.xs[j]? with
      | some r, some x => occurs r.c x
      | _, _ => false,
    bnz := fun i => match rs[i]? with
      | some r => !r.b.isEmpty
      | none => false,
    shapeLin := fun i => match tops[i]? with
      | some k => (match rs[k]? with
        | some r => r.c.isEmpty
        | none => true)
      | none => true }

/-! ### sub-systems and the numeric right-hand sides -/

def xMono (x : Fin n) : Mono n := fun i => if i = x then 1 else 0

/-- `A[i, j] * x_j` -/
def timesX (p : Poly n) (x : Fin n) : Poly n := p.map (fun t => (monoMul t.1 (xMono x), t.2))

/-- `get_sub_system`: the nonlinear part of a kept row receives the discarded columns of `A` times `x` -/
def subC (s : Sys n) (keep : Nat → Bool) (r : Row n) : Poly n :=
  r.c ++ (s.xs.zipIdx.flatMap (fun xj => if keep xj.2 then [] else timesX (r.A.getD xj.2 []) xj.1))

/-- `reconstitute_expr` of the numeric solver: sum over the kept columns of `x_j * A[i, j]`, plus `b`, plus `c` -/
def numericRhs (s : Sys n) (keep : Nat → Bool) (r : Row n) : Poly n :=
  (s.xs.zipIdx.flatMap (fun xj => if keep xj.2 then timesX (r.A.getD xj.2 []) xj.1 else [])) ++ r.b ++ subC s keep r

structure Result (n : Nat) where
  xs : List (Fin n)
  rows : List (Row n)
  verdict0 : List Bool                 -- per state variable: shape linear with constant coefficients
  verdict1 : List Bool                 -- after the two demotion rules
  verdict2 : Option (List Bool)        -- after propagation (`none`: out of fuel, never happens)
  analytic : List Nat
  numeric : List Nat
  numericRhs : List (Nat × Poly n)     -- row index, assembled right-hand side

def analyse (s : Sys n) : Result n :=
  let g := s.toGraph
  let idx := List.range g.n
  let v2 := Graph.verdict g
  let v := v2.getD (fun _ => false)
  let num := Graph.numericIdx g.n v
  let keep : Nat → Bool := fun j => num.contains j
  { xs := s.xs, rows := s.rows,
    verdict0 := idx.map g.shapeLin,
    verdict1 := idx.map (Graph.eligible g),
    verdict2 := v2.map (fun f => idx.map f),
    analytic := Graph.analyticIdx g.n v,
    numeric := num,
    numericRhs := num.filterMap (fun i => (s.rows[i]?).map (fun r => (i, numericRhs s keep r))) }

/-! ### evaluation at a rational point (used by the driver for the value-level correspondence) -/

def ratZpow (q : Rat) (k : Int) : Rat := if k ≥ 0 then q ^ k.toNat else (q ^ (-k).toNat)⁻¹

def evalMono (pt : Fin n → Rat) (m : Mono n) : Rat :=
  (List.finRange n).foldl (fun acc i => acc * ratZpow (pt i) (m i)) 1

def evalPoly (pt : Fin n → Rat) (p : Poly n) : Rat := p.foldl (fun acc t => acc + t.2 * evalMono pt t.1) 0

end OdeVerif.Pipeline
