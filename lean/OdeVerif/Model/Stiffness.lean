/-
Model of the solver recommendation (odetoolbox/stiffness.py, odetoolbox/__init__.py:257-280).

* the decision function itself is NOT hand-written: it is `Generated.drawDecision`, translated
  from the Python AST on every run;
* `documented` is the rule as the documentation states it (the specification);
* the benchmark protocol of `_evaluate_integrator` / `check_stiffness` is modelled at the level of
  random-generator protocol events (which generator is seeded, which one is drawn from).
Core Lean only.
-/
import OdeVerif.Generated.DrawDecision

namespace OdeVerif.Stiffness

/-- The documented rule (doc/index.rst, "Numeric solver selection criteria"), stated on inputs
away from the tie surfaces `mi = thr`, `me = thr`. -/
def documented {α : Type} [Mul α] [LT α] [DecidableLT α]
    (eps mi me ai ae dr ar : α) : String :=
  let thr := dr * eps
  if mi < thr ∧ me < thr then "warning"
  else if mi < thr then "explicit"
  else if me < thr then "implicit"
  else if ar * ae < ai then "implicit" else "explicit"

/-- `solver_json["solver"] = "numeric"`, then `+= "-" + solver_type` unless the tester returned None. -/
def solverName (recommendation : Option String) : String :=
  match recommendation with
  | none => "numeric"
  | some r => "numeric" ++ "-" ++ r

/-! ### Random-generator protocol of the two benchmark runs -/

/-- State of one pseudo-random generator: either whatever it was (`ambient k`: the process'
unknown state advanced by `k` draws) or freshly seeded with `s` and advanced by `k` draws. -/
inductive Rng where
  | ambient (k : Nat)
  | seeded (s : Nat) (k : Nat)
deriving Repr, DecidableEq, BEq

def Rng.advance : Rng → Nat → Rng
  | .ambient k, n => .ambient (k + n)
  | .seeded s k, n => .seeded s (k + n)

/-- the `n` draws obtained from a generator in state `g`, as symbolic values -/
def Rng.draws (g : Rng) (n : Nat) : List Rng :=
  (List.range n).map (fun i => g.advance i)

structure World where
  np : Rng      -- numpy's global generator
  py : Rng      -- Python's `random` module generator
deriving Repr, DecidableEq, BEq

/-- Which generators `_evaluate_integrator` re-seeds before generating the stimulus.  Read off
the source by the harness (`np.random.seed`, `random.seed` calls present in the function) and
checked against the recorded protocol trace. -/
structure SeedPolicy where
  seedsNumpy : Bool
  seedsPython : Bool
deriving Repr, DecidableEq

inductive Ev where
  | npSeed (s : Nat) | pySeed (s : Nat) | pyRandom
deriving Repr, DecidableEq

/-- Stimulus generation as a function of the stream of draws it can take from Python's `random`
(the Poisson generator, spike_generator.py:78): the train it builds and how many draws it uses. -/
structure Gen (σ : Type) where
  spikes : (Nat → Rng) → σ
  consumed : (Nat → Rng) → Nat

/-- One benchmark run: re-seed per policy, then generate the stimulus from Python's `random`.
Returns the new world, the stimulus the candidate is benchmarked on, and the protocol events. -/
def evaluateIntegrator {σ : Type} (pol : SeedPolicy) (seed : Nat) (g : Gen σ) (w : World) :
    World × σ × List Ev :=
  let w1 : World := { np := if pol.seedsNumpy then .seeded seed 0 else w.np,
                      py := if pol.seedsPython then .seeded seed 0 else w.py }
  let stream := fun i => w1.py.advance i
  let n := g.consumed stream
  let evs := (if pol.seedsNumpy then [Ev.npSeed seed] else []) ++ (if pol.seedsPython then [Ev.pySeed seed] else [])
              ++ List.replicate n Ev.pyRandom
  ({ w1 with py := w1.py.advance n }, g.spikes stream, evs)

/-- `check_stiffness`: explicit candidate first, implicit second, same generator `g`. -/
def checkStiffness {σ : Type} (pol : SeedPolicy) (seed : Nat) (g : Gen σ) (w : World) :
    World × (σ × σ) × List Ev :=
  let r1 := evaluateIntegrator pol seed g w
  let r2 := evaluateIntegrator pol seed g r1.1
  (r2.1, (r1.2.1, r2.2.1), r1.2.2 ++ r2.2.2)

end OdeVerif.Stiffness
