/-
Model of ode_analyzer.py: flag parsing (incl. bare `--preserve-expressions`), the order of the
error exits, and the name/content of the result file.  `argparse`, the JSON reader, the file system
and the interpreter's exit status for an uncaught exception enter as parameters.  Core Lean only.
-/
namespace OdeVerif.Cli

abbrev Str := List Char

/-- what argparse delivers for `--preserve-expressions` (`nargs="*", default=False`) -/
inductive PreserveArg where
  | absent                       -- option not given: `False`
  | names (l : List String)      -- option given with 0 or more names
deriving Repr, DecidableEq

/-- the `preserve_expressions` value handed to `analysis` -/
inductive Preserve where
  | no | all | list (l : List String)
deriving Repr, DecidableEq

/-- `if isinstance(x, Iterable) and len(x) == 0: x = True` -/
def preserveOf : PreserveArg → Preserve
  | .absent => .no
  | .names [] => .all
  | .names l => .list l

structure Args where
  infile : Str
  disableStiffness : Bool
  disableAnalytic : Bool
  preserve : PreserveArg
  logLevel : String

/-- keyword arguments of the `odetoolbox.analysis` call -/
structure ApiFlags where
  disableStiffness : Bool
  disableAnalytic : Bool
  preserve : Preserve
  logLevel : String
deriving Repr, DecidableEq

def apiFlags (a : Args) : ApiFlags :=
  { disableStiffness := a.disableStiffness, disableAnalytic := a.disableAnalytic,
    preserve := preserveOf a.preserve, logLevel := a.logLevel }

/-- `s.rsplit(".", 1)[0]`: everything before the last '.', the whole string if there is none -/
def rsplitDot (s : Str) : Str :=
  match s.reverse.dropWhile (· ≠ '.') with
  | [] => s
  | _ :: rest => rest.reverse

/-- `os.path.basename`: what follows the last '/' -/
def basename (s : Str) : Str := (s.reverse.takeWhile (· ≠ '/')).reverse

/-- `os.path.splitext(name)[0]`: the part before the last '.', unless that part consists of dots only
(leading dots do not start an extension) -/
def splitextStem (name : Str) : Str :=
  let r := rsplitDot name
  if r.all (· == '.') then name else r

/-- `"%s_result.json" % os.path.splitext(os.path.basename(infile))[0]` -/
def resultName (infile : Str) : Str := splitextStem (basename infile) ++ "_result.json".toList

inductive Outcome (R : Type) where
  | exitNonzero                          -- no result file written
  | wrote (name : Str) (content : R)     -- exit status 0
deriving Repr, DecidableEq

/-- the script after argument parsing: `exists` = `os.path.isfile`, `load` = `json.load` (none = not
valid JSON), `api` = `odetoolbox.analysis` (none = any exception, Malformed or not: the interpreter
exits non-zero before the file is opened) -/
def main {D R : Type} (exists_ : Str → Bool) (load : Str → Option D) (api : D → ApiFlags → Option R) (a : Args) : Outcome R :=
  if !exists_ a.infile then .exitNonzero
  else match load a.infile with
    | none => .exitNonzero
    | some d => match api d (apiFlags a) with
      | none => .exitNonzero
      | some r => .wrote (resultName a.infile) r

end OdeVerif.Cli
