/-
Model of the option handling of `odetoolbox._analysis` (odetoolbox/config.py, odetoolbox/__init__.py:
`Config.reset()` at the start of a call, `_read_global_config`, the `simplify_expression` argument).
The option store is an association list initialised from the table regenerated from config.py.
The analysis proper is an abstract function of (effective options, input, flags).  Core Lean only.
-/
import OdeVerif.Generated.Constants

namespace OdeVerif.Config

abbrev Store := List (String × String)     -- option name ↦ value (printed)

/-- `Config.config` as written in the source -/
def defaults : Store := Generated.configDefaults.map (fun e => (e.1, e.2.2))

def Store.get (s : Store) (k : String) : Option String := (s.find? (fun e => e.1 == k)).map (·.2)

def Store.set (s : Store) (k v : String) : Store :=
  s.map (fun e => if e.1 == k then (e.1, v) else e)

def Store.hasKey (s : Store) (k : String) : Bool := s.any (fun e => e.1 == k)

/-- `_read_global_config`: keys applied in order; an unknown key raises (AssertionError) *after* the
earlier keys were written -/
def readOptions : Store → List (String × String) → Store × Bool
  | s, [] => (s, true)
  | s, (k, v) :: rest => if s.hasKey k then readOptions (s.set k v) rest else (s, false)

structure Call (I F : Type) where
  input : I
  options : Option (List (String × String))     -- the "options" block of the input, if any
  hasDynamics : Bool                             -- `"dynamics" in indict`
  simplify : Option String                       -- the `simplify_expression` argument
  flags : F

inductive Outcome (R : Type) where
  | empty                                        -- no dynamics: empty result, options not even read
  | badOption                                    -- unknown key in the options block
  | result (r : R)
deriving Repr, DecidableEq

/-- Does the call reset the store to the defaults first?  `true` models the repaired code
(`Config.reset()` at the start of `_analysis`); `false` the code before the repair (finding F4). -/
structure Policy where
  resetsFirst : Bool

/-- one call of `_analysis`: new store, and the outcome computed from the *effective* store -/
def call {I F R : Type} (pol : Policy) (analyse : Store → I → F → R) (s : Store) (c : Call I F) : Store × Outcome R :=
  let s0 := if pol.resetsFirst then defaults else s
  if !c.hasDynamics then (s0, .empty)
  else
    let r := readOptions s0 (c.options.getD [])
    if !r.2 then (r.1, .badOption)
    else
      let s1 := match c.simplify with
        | some e => r.1.set "simplify_expression" e
        | none => r.1
      (s1, .result (analyse s1 c.input c.flags))

/-- a history of calls in one process, starting from a fresh interpreter -/
def run {I F R : Type} (pol : Policy) (analyse : Store → I → F → R) : Store → List (Call I F) → List (Outcome R)
  | _, [] => []
  | s, c :: cs => let r := call pol analyse s c; r.2 :: run pol analyse r.1 cs

/-- how the option handling at the start of `_analysis` ends (used by the regenerated prologue, Generated/PyConfig.lean) -/
inductive Prologue where
  | empty          -- no "dynamics" key: the empty result is returned at once
  | proceed        -- options read, analysis proper follows
deriving Repr, DecidableEq

end OdeVerif.Config
