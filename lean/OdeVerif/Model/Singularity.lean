/-
Model of odetoolbox/singularity_detection.py (SingularityDetection.find_singularities):
  collect the bases of all negative powers in the propagator entries (pre-order), solve each for its
  symbols (oracle: SymPy `solve`), concatenate, de-duplicate, and discard conditions under which the
  system matrix itself is undefined (oracle: `_is_matrix_defined_under_substitution`).
Expression trees are binary (n-ary Add/Mul and argument lists are nested to the left, which keeps
the pre-order sequence of sub-expressions).  Core Lean only.
-/
namespace OdeVerif.Singularity

inductive Ex where
  | atom (id : Nat)                  -- number or symbol (no sub-expressions)
  | node (a b : Ex)                  -- Add / Mul / function application / argument pair
  | pow (base : Ex) (neg : Bool)     -- `Pow(base, e)`; `neg` = `e < 0`
deriving Repr, DecidableEq

/-- `for subexpr in preorder_traversal(expr): if isinstance(subexpr, Pow) and subexpr.args[1] < 0: denom = subexpr.args[0]` -/
def negBases : Ex → List Ex
  | .atom _ => []
  | .node a b => negBases a ++ negBases b
  | .pow b neg => (if neg then [b] else []) ++ negBases b

/-- sub-expression relation (reflexive) -/
inductive Sub : Ex → Ex → Prop where
  | refl (e : Ex) : Sub e e
  | left {x a b : Ex} : Sub x a → Sub x (.node a b)
  | right {x a b : Ex} : Sub x b → Sub x (.node a b)
  | base {x b : Ex} {neg : Bool} : Sub x b → Sub x (.pow b neg)

abbrev Cond := Nat      -- a condition (substitution dictionary), identified by the harness

/-- `_generate_singularity_conditions`: over all entries of `P`, all negative-power bases, in order -/
def generate (solve : Ex → List Cond) (entries : List Ex) : List Cond :=
  entries.flatMap (fun e => (negBases e).flatMap solve)

/-- `_flatten_conditions`: first occurrences, in order -/
def dedup : List Cond → List Cond
  | [] => []
  | c :: cs => c :: (dedup cs).filter (· ≠ c)

/-- `_filter_valid_conditions` -/
def filterValid (definedA : Cond → Bool) (cs : List Cond) : List Cond := cs.filter definedA

def findSingularities (solve : Ex → List Cond) (definedA : Cond → Bool) (entries : List Ex) : List Cond :=
  filterValid definedA (dedup (generate solve entries))

/-! ### views used by the regenerated detector (Generated/PySingularity.lean) -/

/-- `sympy.preorder_traversal(expr)` -/
def preorder : Ex → List Ex
  | .atom i => [.atom i]
  | .node a b => .node a b :: (preorder a ++ preorder b)
  | .pow b neg => .pow b neg :: preorder b

/-- `isinstance(subexpr, sympy.Pow) and subexpr.args[1] < 0` -/
def isNegPow : Ex → Bool
  | .pow _ neg => neg
  | _ => false

/-- `subexpr.args[0]` of a power -/
def powBase : Ex → Ex
  | .pow b _ => b
  | e => e

end OdeVerif.Singularity
