/-
Model of the analytic / numeric split:
  SystemOfShapes.get_dependency_edges, get_lin_cc_symbols (verdict copied per shape),
  the two demotion rules of `_find_analytically_solvable_equations` (odetoolbox/__init__.py:76-86),
  SystemOfShapes.propagate_lin_cc_judgements (worklist) and the split of the symbols
  (odetoolbox/__init__.py:232-256).
State variables are indices `0 … n-1` in the order of `shape_sys.x_`.  Core Lean only.
-/
namespace OdeVerif.Graph

/-- what the analysis knows about the system `x' = A x + b + c` at this point -/
structure Sys where
  n : Nat
  anz : Nat → Nat → Bool        -- `not _is_zero(A[i, j])`
  cdep : Nat → Nat → Bool       -- `x_j in c[i].free_symbols`
  bnz : Nat → Bool              -- `not _is_zero(b[i])`
  shapeLin : Nat → Bool         -- `shape.is_lin_const_coeff_in(all symbols)` of the shape `x_i` belongs to

/-- `x_i` depends on `x_j`: the edge `(x_i, x_j)` of `get_dependency_edges` -/
def Sys.dep (s : Sys) (i j : Nat) : Bool := s.anz i j || s.cdep i j

/-! ### strongly connected components of the non-zero pattern of `A` (what SciPy computes) -/

/-- one relaxation round: `r i j` becomes true if `i` reaches `j` through one more `anz` edge -/
def relax (n : Nat) (e : Nat → Nat → Bool) (r : Nat → Nat → Bool) : Nat → Nat → Bool :=
  fun i j => r i j || (List.range n).any (fun k => r i k && e k j)

/-- reflexive-transitive reachability along `anz` inside `0 … n-1` (`n` rounds suffice) -/
def reach (n : Nat) (e : Nat → Nat → Bool) : Nat → Nat → Bool :=
  (List.range n).foldl (fun r _ => relax n e r) (fun i j => i == j)

/-- `shape_order_from_system_matrix(i)`: size of the strongly connected component of `i` -/
def sccSize (s : Sys) (i : Nat) : Nat :=
  let r := reach s.n s.anz
  ((List.range s.n).filter (fun j => r i j && r j i)).length

/-- first demotion rule: inhomogeneous and in a coupled / higher-order group -/
def demote1 (s : Sys) (i : Nat) : Bool := s.bnz i && decide (sccSize s i > 1)

/-- second rule: depends linearly on another variable that has a constant offset -/
def demote2 (s : Sys) (i : Nat) : Bool :=
  (List.range s.n).any (fun j => j != i && s.anz i j && s.bnz j)

/-- verdict before propagation -/
def eligible (s : Sys) (i : Nat) : Bool := s.shapeLin i && !demote1 s i && !demote2 s i

/-! ### the worklist of `propagate_lin_cc_judgements` -/

/-- `for n_neigh in dependent_neighbours: if node_is_lin[n_neigh]: …= False; queue.append(n_neigh)` -/
def visit (n : Nat) (dep : Nat → Nat → Bool) (m : Nat) (v : Nat → Bool) (queue : List Nat) : (Nat → Bool) × List Nat :=
  (List.range n).foldl
    (fun (st : (Nat → Bool) × List Nat) j =>
      if dep j m && st.1 j then (fun k => if k = j then false else st.1 k, st.2 ++ [j]) else st)
    (v, queue)

/-- `while len(queue) > 0: n = queue.pop(0); if not node_is_lin[n]: visit` (with fuel) -/
def propagate (n : Nat) (dep : Nat → Nat → Bool) : Nat → (Nat → Bool) → List Nat → Option (Nat → Bool)
  | _, v, [] => some v
  | 0, _, _ :: _ => none
  | fuel + 1, v, m :: q =>
    if !v m then
      let r := visit n dep m v q
      propagate n dep fuel r.1 r.2
    else propagate n dep fuel v q

/-- `queue = [sym for sym, is_lin in node_is_lin.items() if not is_lin]` -/
def initQueue (n : Nat) (v : Nat → Bool) : List Nat := (List.range n).filter (fun i => !v i)

/-- the verdict after propagation (fuel `n + 1`: every node is popped at most once) -/
def verdict (s : Sys) : Option (Nat → Bool) :=
  propagate s.n s.dep (s.n + 1) (eligible s) (initQueue s.n (eligible s))

/-- `analytic_syms` / the symbols handed to the numeric solver, in the order of `x` -/
def analyticIdx (n : Nat) (v : Nat → Bool) : List Nat := (List.range n).filter v
def numericIdx (n : Nat) (v : Nat → Bool) : List Nat := (List.range n).filter (fun i => !v i)

end OdeVerif.Graph
