/-
Model of the control flow of `Shape.from_function` (odetoolbox/shapes.py:415-553): the order search.
The SymPy steps are oracles:
  nonzeroAt t        : `not _is_zero(definition.subs(t, t_))`
  order1Verifies     : `_is_zero(f' - a0 f)` with `a0 = (f'/f)(t_val)`
  invertibleAt k t   : `not _is_zero(det X)` for the sample times `t … t+k-1`
  verifies k         : `_is_zero(simplify(f^(k) - Σ a_j f^(j)))` for the coefficients solved from `X a = Y`
`maxT`, `maxOrder` are the function's default arguments (regenerated from the source).
Core Lean only.
-/
import OdeVerif.Generated.Constants

namespace OdeVerif.FromFunction

structure Oracle where
  nonzeroAt : Nat → Bool
  order1Verifies : Bool
  invertibleAt : Nat → Nat → Bool
  verifies : Nat → Bool

inductive Err where
  | noNonzeroSample          -- "Cannot find t for which shape function is unequal to zero"
  | noOde                    -- "Shape does not satisfy any ODE of order <= max_order"
deriving Repr, DecidableEq

/-- `for t_ in range(0, max_t): if not _is_zero(f(t_)): t_val = t_; break` -/
def firstNonzero (o : Oracle) (maxT : Nat) : Option Nat := (List.range maxT).find? o.nonzeroAt

/-- `for t_ in range(1, max_t): … if not _is_zero(det(X)): invertible = True; break` -/
def invertible (o : Oracle) (maxT order : Nat) : Bool := (List.range' 1 (maxT - 1)).any (o.invertibleAt order)

/-- the `while not found_ode and order < max_order` loop, entered with the current `order`
(`fuel` bounds the iterations; `maxOrder - order` suffices) -/
def search (o : Oracle) (maxT maxOrder : Nat) : Nat → Nat → Option Nat
  | 0, _ => none
  | fuel + 1, order =>
    if order < maxOrder then
      let order' := order + 1
      if invertible o maxT order' && o.verifies order' then some order'
      else search o maxT maxOrder fuel order'
    else none

def fromFunction (o : Oracle) (maxT maxOrder : Nat) : Except Err Nat :=
  match firstNonzero o maxT with
  | none => .error .noNonzeroSample
  | some _ =>
    if o.order1Verifies then .ok 1
    else match search o maxT maxOrder maxOrder 1 with
      | some k => .ok k
      | none => .error .noOde

/-- with the defaults written in the source -/
def fromFunctionDefault (o : Oracle) : Except Err Nat :=
  fromFunction o Generated.fromFunctionMaxT Generated.fromFunctionMaxOrder

end OdeVerif.FromFunction
