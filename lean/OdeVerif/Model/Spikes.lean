/-
Model of odetoolbox/spike_generator.py (SpikeGenerator) — polymorphic in the number type so the
same definitions run at `Float` (bit-exact correspondence with CPython doubles), at `Rat`, and
are reasoned about over every linearly ordered field.  Core Lean only.
-/
namespace OdeVerif.Spikes

variable {α : Type}

/-- `_generate_regular_spikes`:  `while t < T: t += isi; if t <= T: append t`  (fuel = max. iterations) -/
def regularLoop [Add α] [LT α] [LE α] [DecidableLT α] [DecidableLE α]
    (T isi : α) : Nat → α → List α → Option (List α)
  | 0, _, _ => none
  | fuel + 1, t, acc =>
    if t < T then
      let t' := t + isi
      regularLoop T isi fuel t' (if t' ≤ T then acc ++ [t'] else acc)
    else some acc

/-- `isi = 1 / rate; t = 0.` -/
def regular [Add α] [Div α] [OfNat α 0] [OfNat α 1] [LT α] [LE α] [DecidableLT α] [DecidableLE α]
    (T rate : α) (fuel : Nat) : Option (List α) :=
  regularLoop T (1 / rate) fuel 0 []

/-- Python's `max(a, b)`: `b` if `b > a` else `a` -/
def pyMax [LT α] [DecidableLT α] (a b : α) : α := if a < b then b else a

/-- `_generate_homogeneous_poisson_spikes` with the exponential inter-spike intervals
`-log(1 - random()) / rate` supplied as a list (one per loop iteration).  `none` = the list ran
out before the loop ended. -/
def poissonLoop [Add α] [LT α] [LE α] [DecidableLT α] [DecidableLE α]
    (T minIsi : α) : List α → α → List α → Option (List α)
  | [], t, acc => if t < T then none else some acc
  | isi :: rest, t, acc =>
    if t < T then
      let t' := t + pyMax isi minIsi
      poissonLoop T minIsi rest t' (if t' ≤ T then acc ++ [t'] else acc)
    else some acc

def poisson [Add α] [OfNat α 0] [LT α] [LE α] [DecidableLT α] [DecidableLE α]
    (T minIsi : α) (isis : List α) : Option (List α) :=
  poissonLoop T minIsi isis 0 []

/-- number of intervals the loop consumes (= number of `random.random()` calls) -/
def poissonConsumed [Add α] [LT α] [DecidableLT α]
    (T minIsi : α) : List α → α → Nat → Nat
  | [], _, n => n
  | isi :: rest, t, n => if t < T then poissonConsumed T minIsi rest (t + pyMax isi minIsi) (n + 1) else n

/-- insertion into an ascending list -/
def insertAsc [LE α] [DecidableLE α] (x : α) : List α → List α
  | [] => [x]
  | y :: ys => if x ≤ y then x :: y :: ys else y :: insertAsc x ys

def sortAsc [LE α] [DecidableLE α] : List α → List α
  | [] => []
  | x :: xs => insertAsc x (sortAsc xs)

/-- list stimulus: `np.sort([t for t in loadtxt(...) if t <= T])`; the numbers as NumPy parsed them -/
def listStim [LE α] [DecidableLE α] (T : α) (xs : List α) : List α :=
  sortAsc (xs.filter (fun t => t ≤ T))

/-! ### dispatch per stimulus and target (`spike_times_from_json`) -/

/-- `sym.replace("'", marker)` on character lists -/
def rewritePrimes (marker : List Char) (s : List Char) : List Char :=
  s.flatMap (fun c => if c = '\'' then marker else [c])

/-- `dict.fromkeys(stimulus["variables"])`: distinct names in the order given (first occurrence) -/
def distinct : List (List Char) → List (List Char)
  | [] => []
  | x :: xs => x :: (distinct xs).filter (· ≠ x)

abbrev Trains (α : Type) := List (List Char × List α)

/-- `if not sym in spike_times: spike_times[sym] = []` then `.extend(train)` -/
def extendKey (m : Trains α) (k : List Char) (tr : List α) : Trains α :=
  match m with
  | [] => [(k, tr)]
  | (k', v) :: rest => if k' = k then (k', v ++ tr) :: rest else (k', v) :: extendKey rest k tr

/-- one stimulus: for every distinct target, generate that target's own train -/
def addStimulus (marker : List Char) (m : Trains α) (vars : List (List Char)) (gen : List Char → List α) : Trains α :=
  (distinct vars).foldl (fun m v => extendKey m (rewritePrimes marker v) (gen v)) m

/-- `spike_times_from_json`: `stims` = per stimulus its target names as written and the train the
type-specific generator produces for each target -/
def fromJson (marker : List Char) (stims : List (List (List Char) × (List Char → List α))) : Trains α :=
  stims.foldl (fun m s => addStimulus marker m s.1 s.2) []

def lookup (m : Trains α) (k : List Char) : Option (List α) :=
  match m with
  | [] => none
  | (k', v) :: rest => if k' = k then some v else lookup rest k

/-! ### data the regenerated `spike_times_from_json` (Generated/PySpikesJson.lean) is stated over -/

/-- one entry of the `stimuli` array; the trains the type-specific generators return for a target are parameters -/
structure Stim (α : Type) where
  variables : List (List Char)
  type : String
  poissonTrain : List Char → List α      -- `_generate_homogeneous_poisson_spikes(T, rate)` at this call
  regularTrain : List Char → List α      -- `_generate_regular_spikes(T, rate)`
  listRaw : List α                        -- `np.loadtxt(io.StringIO(stimulus["list"]), ndmin=1)`

/-- `d[k] = v` on the association list -/
def setKey (m : Trains α) (k : List Char) (v : List α) : Trains α :=
  match m with
  | [] => [(k, v)]
  | (k', v') :: rest => if k' = k then (k', v) :: rest else (k', v') :: setKey rest k v

/-- the train a stimulus delivers to one (rewritten) target name -/
def Stim.train [LE α] [DecidableLE α] (T : α) (s : Stim α) (sym : List Char) : List α :=
  if s.type = "poisson_generator" then s.poissonTrain sym
  else if s.type = "regular" then s.regularTrain sym
  else if s.type = "list" then listStim T s.listRaw
  else []

end OdeVerif.Spikes
