/-
Hand models of the glue code around the modelled core of `_analysis`: the expression look-up helpers
(`_get_all_first_order_variables`, `_find_variable_definition`), the `preserve_expressions` block, the copy of the
initial values into the solver dictionaries, `Shape.get_initial_value`, `SystemOfShapes.get_initial_value`,
`SystemOfShapes.get_lin_cc_symbols`, `sympy_helpers._find_in_matrix`, `shape_order_from_system_matrix` and
`get_connected_symbols`.  The generated counterparts are in `Generated/PyPreserve.lean`, `PyInitialValues.lean`,
`PyGlue.lean`; `Proofs/RefineGlue*.lean` prove them equal.  Core Lean only.
-/
namespace OdeVerif.Glue

/-! ### defining expressions of the input -/

/-- one entry of `indict["dynamics"]`, as far as the look-up helpers read it -/
structure Dyn where
  hasExpression : Bool
  expression : String
  hasExpressions : Bool
  expressions : List String

/-- the entry has one of the two keys (guaranteed by `Shape.from_json`, which has run on every entry before) -/
def Dyn.WF (d : Dyn) : Prop := d.hasExpression = true ∨ d.hasExpressions = true

/-- the defining expressions of one entry: `"expression"` wins over `"expressions"` -/
def Dyn.exprs (d : Dyn) : List String := if d.hasExpression then [d.expression] else d.expressions

/-- all defining expressions in input order -/
def allExprs (dyn : List Dyn) : List String := dyn.flatMap Dyn.exprs

/-- the result of `Shape._parse_defining_expression`: (name, order, right-hand side text) -/
abbrev Parse := String → String × Nat × String

/-- names defined by a first-order equation, in input order, with repetitions -/
def firstOrderVars (parse : Parse) (dyn : List Dyn) : List String :=
  (allExprs dyn).filterMap (fun e => if (parse e).2.1 = 1 then some (parse e).1 else none)

/-- the right-hand side text of the first defining expression with that name and order -/
def findDef (parse : Parse) (dyn : List Dyn) (name : String) (order : Nat) : Option String :=
  ((allExprs dyn).find? (fun e => decide ((parse e).1 = name ∧ (parse e).2.1 = order))).map (fun e => (parse e).2.2)

/-! ### the `preserve_expressions` argument -/

inductive PArg where
  | flag (b : Bool)
  | names (l : List String)
  | other

def PArg.isBool : PArg → Bool
  | .flag _ => true
  | _ => false

def PArg.isIterable : PArg → Bool
  | .names _ => true
  | _ => false

def PArg.truth : PArg → Bool
  | .flag b => b
  | .names l => !l.isEmpty
  | .other => true

def PArg.list : PArg → List String
  | .names l => l
  | _ => []

/-- what the block reads of a solver dictionary -/
structure SolverP where
  id : Nat
  hasUpdate : Bool
  analytic : Bool          -- `"analytic" in solver_json["solver"]`
  update : List String     -- keys of `update_expressions` in dictionary order

inductive PErr where
  | notFirstOrder     -- "Requested to preserve expression of variable ... not defined as a first-order ODE"
  | badArgument       -- "``preserve_expressions`` parameter should be either a boolean or a list of strings"
  | assertFailed      -- `assert var_def_str is not None`
deriving DecidableEq, Repr

/-- `out[-1] = v` -/
def setLast {α : Type} (l : List α) (v : α) : List α := l.dropLast ++ [v]

/-- the entry written for one key of `update_expressions`: `none` = the solver's own expression (converted to a string),
`some s` = the user's text `s` with `'` replaced by the differential-order symbol -/
def entry (parse : Parse) (repl : String → String) (dyn : List Dyn) (plist : List String) (sj : SolverP) (sym : String) :
    Nat × String × Option String :=
  (sj.id, sym, if plist ≠ [] ∧ sym ∈ plist ∧ sj.analytic = false then (findDef parse dyn sym 1).map repl else none)

def preserveOut (parse : Parse) (repl : String → String) (dyn : List Dyn) (plist : List String) (solvers : List SolverP) :
    List (Nat × String × Option String) :=
  solvers.flatMap (fun sj => if sj.hasUpdate then sj.update.map (entry parse repl dyn plist sj) else [])

/-- the names whose expressions are to be preserved, or the error the argument is rejected with -/
def preserveList (parse : Parse) (dyn : List Dyn) : PArg → Except PErr (List String)
  | .flag true => .ok (firstOrderVars parse dyn)
  | .flag false => .ok []
  | .names l => if ∀ v ∈ l, v ∈ firstOrderVars parse dyn then .ok l else .error .notFirstOrder
  | .other => .error .badArgument

def preserveSpec (parse : Parse) (repl : String → String) (dyn : List Dyn) (arg : PArg) (solvers : List SolverP) :
    Except PErr (List (Nat × String × Option String)) :=
  match preserveList parse dyn arg with
  | .error e => .error e
  | .ok plist => .ok (preserveOut parse repl dyn plist solvers)

/-! ### initial values -/

/-- a state variable: (name of the shape's symbol, derivative order) — `V_m__d` with marker `__d` is `("V_m", 1)`.
The toolbox moves between the spellings `V_m'`, `V_m__d` by string replacement; that the spellings are in one-to-one
correspondence with these pairs is an assumption on the names (no name contains the marker or a prime). -/
abbrev Sym := String × Nat

structure ShapeIv where
  symbol : String
  order : Nat
  iv : List (Sym × String)      -- `shape.initial_values`, keyed by the primed spelling

/-- state variables of a shape -/
def ShapeIv.syms (s : ShapeIv) : List Sym := (List.range s.order).map (fun i => (s.symbol, i))

/-- the initial values written into one solver dictionary: for every shape in order, for every one of its state variables that the
solver lists, the shape's initial value (`none` when the shape has none: Python writes the string `"None"`) -/
def ivOut (shapes : List ShapeIv) (stateVars : List Sym) : List (Sym × Option String) :=
  shapes.flatMap (fun sh => (sh.syms.filter (fun s => decide (s ∈ stateVars))).map (fun s => (s, sh.iv.lookup s)))

/-- `solver_json["initial_values"][sym] = v` on the list of per-solver lists (the current solver is the last) -/
def appendLastIv : List (List (Sym × Option String)) → Sym × Option String → List (List (Sym × Option String))
  | [], p => [[p]]
  | [l], p => [l ++ [p]]
  | l :: rest, p => l :: appendLastIv rest p

/-- `SystemOfShapes.get_initial_value`: the first shape with that symbol name answers -/
def sysIv (shapes : List ShapeIv) (sym : Sym) : Option (Option String) :=
  (shapes.find? (fun sh => decide (sh.symbol = sym.1))).map (fun sh => sh.iv.lookup sym)

/-! ### linearity flags per state variable -/

structure ShapeLin where
  symbol : String
  order : Nat
  lin : Bool          -- `shape.is_lin_const_coeff_in(symbols, parameters)`

/-- dictionary assignment on an association list: replace the value of an existing key in place, else append -/
def assoc {κ β : Type} [DecidableEq κ] : List (κ × β) → κ → β → List (κ × β)
  | [], k, v => [(k, v)]
  | (k', v') :: rest, k, v => if k' = k then (k', v) :: rest else (k', v') :: assoc rest k v

/-- value of a key in a dictionary built by `assoc` -/
def linOf (shapes : List ShapeLin) (sym : Sym) : Option Bool :=
  ((shapes.reverse.find? (fun sh => decide (sh.symbol = sym.1 ∧ sym.2 < sh.order)))).map (·.lin)

/-! ### matrices -/

/-- positions of an `r × c` matrix in row-major order -/
def positions (r c : Nat) : List (Nat × Nat) := (List.range r).flatMap (fun i => (List.range c).map (fun j => (i, j)))

/-- `_find_in_matrix`: the first position in row-major order holding `el` -/
def findPos {β : Type} [DecidableEq β] (A : Nat → Nat → β) (r c : Nat) (el : β) : Option (Nat × Nat) :=
  (positions r c).find? (fun p => decide (A p.1 p.2 = el))

/-- the 0/1 matrix handed to SciPy: non-zero pattern of `A` -/
def pattern (anz : Nat → Nat → Bool) (n : Nat) : Nat → Nat → Bool := fun i j => decide (i < n ∧ j < n) && anz i j

/-- `sum(scc == scc[idx])` -/
def sameLabelCount (scc : Nat → Nat) (n idx : Nat) : Nat := ((List.range n).filter (fun i => decide (scc i = scc idx))).length

/-- `np.where(scc == scc[idx])[0]` -/
def sameLabel (scc : Nat → Nat) (n idx : Nat) : List Nat := (List.range n).filter (fun i => decide (scc i = scc idx))

/-! ### dictionaries as association lists -/

/-- `d.update(kv)` -/
def updateAll {κ β : Type} [DecidableEq κ] (d kv : List (κ × β)) : List (κ × β) := kv.foldl (fun d p => assoc d p.1 p.2) d

/-- `d[k]` (a missing key reads as `default`; Python raises KeyError) -/
def get {β : Type} [Inhabited β] (d : List (String × β)) (k : String) : β := (d.lookup k).getD default

/-- `s.update(l)` on a set kept as a duplicate-free list -/
def setUnion (s l : List String) : List String := l.foldl (fun s a => if a ∈ s then s else s ++ [a]) s

/-- `k in parameters.keys()` -/
def hasKey {V : Type} (p : Option (List (String × Option V))) (k : String) : Prop := ∃ d, p = some d ∧ (d.lookup k).isSome = true

instance {V : Type} (p : Option (List (String × Option V))) (k : String) : Decidable (hasKey p k) :=
  match p with
  | none => isFalse (by rintro ⟨d, h, _⟩; cases h)
  | some d => if h : (d.lookup k).isSome = true then isTrue ⟨d, rfl, h⟩ else isFalse (by rintro ⟨d', h', h2⟩; cases h'; exact h h2)

/-- `parameters[k] = None` -/
def setNone {V : Type} (p : Option (List (String × Option V))) (k : String) : Option (List (String × Option V)) :=
  some (assoc (p.getD []) k none)

/-- what the first pass of `_from_json_to_shapes` reads of a shape -/
structure FirstPass where
  stateVars : List String           -- `get_state_variables()`: primed spelling
  stateVarsMarker : List String     -- `get_state_variables(derivative_symbol=marker)`
  free : List String                -- names of `reconstitute_expr().free_symbols`

/-- `[np.where(labels == i)[0] for i in np.unique(labels)]` on indices `0 … n-1` -/
def groupByLabel (labels : Nat → Nat) (n : Nat) : List (List Nat) :=
  let ls := (List.range n).map labels
  let uniq := (List.range (ls.foldl Nat.max 0 + 1)).filter (fun l => decide (l ∈ ls))
  uniq.map (fun l => (List.range n).filter (fun i => decide (labels i = l)))

/-! ### the argument vector of the stepping function and of the Jacobian (MixedIntegrator.step / numerical_jacobian) -/

/-- `self._locals` after the two updates: numeric state first, then the analytic values at time `t` -/
def stepLocals {α : Type} (locals_ : List (String × α)) (xs : List String) (y : List α) (hasAnalytic : Bool)
    (ana : α → List (String × α)) (t : α) : List (String × α) :=
  let l1 := updateAll locals_ (xs.zip y)
  if hasAnalytic then updateAll l1 (ana t) else l1

/-- the values of all variable symbols, in the order the compiled functions expect them -/
def stepArgs {α : Type} [Inhabited α] (locals_ : List (String × α)) (xs allSyms : List String) (y : List α) (hasAnalytic : Bool)
    (ana : α → List (String × α)) (t : α) : List α :=
  allSyms.map (fun v => get (stepLocals locals_ xs y hasAnalytic ana t) v)

/-- `(A != 0) | (A.T != 0)` -/
def mirror (anz : Nat → Nat → Bool) : Nat → Nat → Bool := fun i j => anz i j || anz j i

/-! ### constructors of the integrators -/

/-- what `MixedIntegrator.__init__` reads and writes of the analytic solver dictionary -/
structure AnaDict (α : Type) where
  hasParams : Bool
  params : List (String × α)
  stateVars : List String

def AnaDict.lacksParams {α : Type} (d : Option (AnaDict α)) : Bool := match d with | some a => !a.hasParams | none => false
def AnaDict.paramsOf {α : Type} (d : Option (AnaDict α)) : List (String × α) := match d with | some a => a.params | none => []
def AnaDict.stateVarsOf {α : Type} (d : Option (AnaDict α)) : List String := match d with | some a => a.stateVars | none => []
def AnaDict.setParams {α : Type} (d : Option (AnaDict α)) (p : List (String × α)) : Option (AnaDict α) :=
  d.map (fun a => { a with hasParams := true, params := p })

inductive IvErr where
  | unknownKey      -- `assert k in self.initial_values.keys()`
  | notNumeric      -- "Could not convert initial value expression to float"
deriving DecidableEq, Repr

/-- `self.initial_values[k] = float(expr.evalf(subs=...))` -/
def evalInto {α : Type} (d : List (String × α)) (k : String) (r : Option α) : Except IvErr (List (String × α)) :=
  match r with
  | some a => .ok (assoc d k a)
  | none => .error .notNumeric

/-- a keyword argument of the StiffnessTester: a number read from the option store, the seed, or an object of the input passed through -/
inductive Kw (α : Type) where
  | num (a : α)
  | seed (i : Int)
  | ref

/-- what one benchmark run of the stiffness tester does, in order -/
inductive BenchEv where
  | seedNumpy (s : Int)
  | seedPython (s : Int)
  | generateStimulus
  | construct (stepper : String)
  | integrate
deriving DecidableEq, Repr

/-- a value of the substitution dictionary of the analytic integrator: a propagator expression or a parameter value -/
inductive SubV (U α : Type) where
  | expr (u : U)
  | val (a : α)

/-- `d[k]` while iterating over `d.items()` (the value of the current item, unless it has been reassigned) -/
def getU {U : Type} (d : List (String × U)) (k : String) (dflt : U) : U := (d.lookup k).getD dflt

end OdeVerif.Glue
