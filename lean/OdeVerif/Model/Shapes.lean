/-
Model of the assembly  x' = A x + b + c  and what is done with it
  (odetoolbox/system_of_shapes.py: from_shapes 376-426, get_sub_system 174-194,
   reconstitute_expr 311-338, get_jacobian_matrix 157-171; odetoolbox/shapes.py: from_ode 557-605),
on VALUES: every symbolic entry is represented by its value at a point of an arbitrary commutative
ring (run at `Rat` by the driver, reasoned about over any commutative ring).  Core Lean only.
-/
namespace OdeVerif.Shapes

variable {K : Type}

def sumList [Add K] [OfNat K 0] (l : List K) : K := l.foldl (· + ·) 0

/-- `A[i, :] · x` -/
def rowDot [Add K] [Mul K] [OfNat K 0] (row x : List K) : K :=
  sumList (List.zipWith (· * ·) row x)

/-- value of the right-hand side of row `i`:  Σ_j A_ij x_j + b_i + c_i -/
def rowValue [Add K] [Mul K] [OfNat K 0] (Arow x : List K) (b c : K) : K :=
  rowDot Arow x + b + c

/-- `from_ode`: factors of the local symbols are kept; the linear terms in foreign symbols are
re-attached to the nonlinear part.  `isLocal j` marks the positions of the shape's own symbols. -/
def fromOde [Add K] [Mul K] [OfNat K 0] (factors x : List K) (isLocal : Nat → Bool) (inhom nonlin : K) :
    List K × K × K :=
  let idx := List.range factors.length
  let localF := (idx.filter isLocal).map (fun j => factors.getD j 0)
  let foreign := (idx.filter (fun j => !isLocal j)).map (fun j => factors.getD j 0 * x.getD j 0)
  (localF, inhom, nonlin + sumList foreign)

/-- `Shape.reconstitute_expr`: inhom + nonlin + Σ factor * own symbol -/
def reconstitute [Add K] [Mul K] [OfNat K 0] (localF localX : List K) (inhom nonlin : K) : K :=
  inhom + nonlin + rowDot localF localX

/-- `get_sub_system`: keep rows/columns `idx`; the discarded columns of `A` times `x` go into `c` -/
def subC [Add K] [Mul K] [OfNat K 0] (A : List (List K)) (c x : List K) (keep : Nat → Bool) (i : Nat) : K :=
  let n := x.length
  let row := A.getD i []
  c.getD i 0 + sumList (((List.range n).filter (fun j => !keep j)).map (fun j => row.getD j 0 * x.getD j 0))

def subRowValue [Add K] [Mul K] [OfNat K 0] (A : List (List K)) (b c x : List K) (keep : Nat → Bool) (i : Nat) : K :=
  let n := x.length
  let row := A.getD i []
  sumList (((List.range n).filter keep).map (fun j => row.getD j 0 * x.getD j 0)) + b.getD i 0 + subC A c x keep i

/-- `SystemOfShapes.reconstitute_expr` (numeric solver):  Σ_col x_col * A[row, col] + b + c  -/
def numericRhs [Add K] [Mul K] [OfNat K 0] (Arow x : List K) (b c : K) : K :=
  sumList (List.zipWith (fun y a => y * a) x Arow) + b + c

/-- `get_jacobian_matrix`: the expression that is differentiated for row `i`:
`expr = c[i]; for v, x in zip(A[i, :], x): expr += v * x` -/
def jacobianExpr [Add K] [Mul K] [OfNat K 0] (Arow x : List K) (c : K) : K :=
  (List.zipWith (· * ·) Arow x).foldl (· + ·) c

/-! ### the summands of a numeric update expression as `SystemOfShapes.reconstitute_expr` writes them (used by the
regenerated loop, Generated/PyNumeric.lean) -/

inductive NTerm (K : Type) where
  | var (col : Nat)                 -- `x_col`            (the coefficient prints as "1", "1." or "1.0")
  | scaled (col : Nat) (a : K)      -- `x_col * (A[row, col])`

def evalNTerm [Mul K] (x : Nat → K) : NTerm K → K
  | .var col => x col
  | .scaled col a => x col * a

/-- value of `" + ".join(terms) + " + (b) + (c)"` -/
def evalNRow [Add K] [Mul K] [OfNat K 0] (x : Nat → K) (ts : List (NTerm K)) (b c : K) : K :=
  sumList (ts.map (evalNTerm x)) + b + c

/-- what `from_shapes` reads of a shape: its order and the result of splitting its reconstituted expression against the
global `x` (used by Generated/PyFromShapes.lean) -/
structure ShapeRow (K : Type) where
  order : Nat
  lin : List K
  inhom : K
  nonlin : K

end OdeVerif.Shapes
