/-
Model of the term-wise split of an expanded right-hand side:
  odetoolbox/shapes.py  is_constant_term (47-55), Shape.split_lin_inhom_nonlin (361-412).

A term of the expanded sum is represented by what the split looks at: which symbols it contains
and how.  `direct` are the Symbol factors with their integer exponents (SymPy's `Mul` of `Pow`s);
`inside` are the free symbols of all other factors (function applications, non-integer powers).
Numeric coefficients carry no free symbols and are not represented.  Core Lean only.
-/
namespace OdeVerif.Terms

abbrev Sym := Nat

structure Term where
  direct : List (Sym × Int)     -- exponents are non-zero, symbols distinct
  inside : List Sym
deriving Repr, DecidableEq

def Term.free (t : Term) : List Sym := t.direct.map (·.1) ++ t.inside

/-- `is_constant_term`: every free symbol is a parameter (a pure number has no free symbols) -/
def isConstant (params : List Sym) (t : Term) : Bool := t.free.all (fun s => params.contains s)

/-- exponent bookkeeping of SymPy's `term / sym` -/
def divDirect (s : Sym) : List (Sym × Int) → List (Sym × Int)
  | [] => [(s, -1)]
  | (s', e) :: rest =>
    if s' = s then (if e - 1 = 0 then rest else (s', e - 1) :: rest)
    else (s', e) :: divDirect s rest

def divSym (t : Term) (s : Sym) : Term := { t with direct := divDirect s t.direct }

inductive Bucket where
  | const                -- added to `inhom_term`
  | lin (j : Nat)        -- `lin_factors[j] += term / x[j]`
  | nonlin               -- added to `nonlin_term`
deriving Repr, DecidableEq

/-- `for j, sym in enumerate(x): if is_constant_term(term / sym): …; break` -/
def firstLinear (params : List Sym) (t : Term) : List Sym → Nat → Option Nat
  | [], _ => none
  | s :: rest, j => if isConstant params (divSym t s) then some j else firstLinear params t rest (j + 1)

def classify (params xs : List Sym) (t : Term) : Bucket :=
  if isConstant params t then .const
  else match firstLinear params t xs 0 with
    | some j => .lin j
    | none => .nonlin

/-- the loop over the terms of the expanded expression -/
def split (params xs : List Sym) (ts : List Term) : List (Term × Bucket) :=
  ts.map (fun t => (t, classify params xs t))

/-- `all_parameter_symbols`: free symbols of all right-hand sides, minus the state variables,
minus the time symbol (odetoolbox/__init__.py `_from_json_to_shapes`) -/
def parameterSymbols (allFree vars : List Sym) (time : Sym) : List Sym :=
  (allFree.filter (fun s => !vars.contains s)).filter (fun s => s != time)

end OdeVerif.Terms
