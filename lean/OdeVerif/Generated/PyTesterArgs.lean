import OdeVerif.Model.PyPrelude
import OdeVerif.Model.Glue
/-! GENERATED from /repo by harness/translate/py2lean.py -- do not edit.
Literal translation of the Python bodies named below; modelling decisions (types, renderings of
attribute accesses and external calls) are in harness/translate/specs.py. -/

set_option linter.unusedVariables false

namespace OdeVerif.Generated
open OdeVerif

-- source: odetoolbox/__init__.py :: _analysis
-- dropped (raise-only) statements: assert random_seed >= 0, 'Random seed needs to be a non-negative integer'
/-- `for key in ['sim_time', 'max_step_size', 'integration_accuracy_abs', 'integration_accuracy_rel']:` of `_analysis` -/
def testerKwargs_for1 {α : Type} (cfgKeys : List String) (cfg : (String → α)) : List String → List (String × Glue.Kw α) → List (String × Glue.Kw α)
  | [], kwargs => kwargs
  | key :: rest__, kwargs =>
    let kwargs :=
      if (key ∈ cfgKeys) then
        let kwargs : List (String × Glue.Kw α) := (Glue.assoc kwargs key (Glue.Kw.num (cfg key)))
        kwargs
      else
        kwargs
    testerKwargs_for1 cfgKeys cfg rest__ kwargs

/-- `_analysis` -- the keyword arguments `_analysis` constructs the StiffnessTester with (the constructor call itself is pinned: exactly `**kwargs`). A value is a number read from the option store (`float(Config()[key])` = `cfg key`), the seed, or an object of the input passed through (`Glue.Kw.ref`); `Config().keys()` is `cfgKeys` -/
def testerKwargs {α : Type} (hasOptions : Bool) (optionsHaveSeed : Bool) (seedVal : Int) (hasParameters : Bool) (hasStimuli : Bool) (cfgKeys : List String) (cfg : String → α) (hasAnalytic : Bool) : List (String × Glue.Kw α) :=
  let kwargs : List (String × Glue.Kw α) := []
  let kwargs :=
    if (hasOptions = true ∧ optionsHaveSeed = true) then
      let random_seed : Int := seedVal
      let kwargs : List (String × Glue.Kw α) := (Glue.assoc kwargs "random_seed" (Glue.Kw.seed random_seed))
      kwargs
    else
      kwargs
  let kwargs :=
    if (hasParameters = true) then
      let kwargs : List (String × Glue.Kw α) := (Glue.assoc kwargs "parameters" Glue.Kw.ref)
      kwargs
    else
      kwargs
  let kwargs :=
    if (hasStimuli = true) then
      let kwargs : List (String × Glue.Kw α) := (Glue.assoc kwargs "stimuli" Glue.Kw.ref)
      kwargs
    else
      kwargs
  let kwargs := testerKwargs_for1 cfgKeys cfg ["sim_time", "max_step_size", "integration_accuracy_abs", "integration_accuracy_rel"] kwargs
  let kwargs :=
    if (hasAnalytic = true) then
      let kwargs : List (String × Glue.Kw α) := (Glue.assoc kwargs "analytic_solver_dict" Glue.Kw.ref)
      kwargs
    else
      kwargs
  kwargs

end OdeVerif.Generated
