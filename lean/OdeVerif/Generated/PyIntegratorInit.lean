import OdeVerif.Model.PyPrelude
import OdeVerif.Model.Glue
/-! GENERATED from /repo by harness/translate/py2lean.py -- do not edit.
Literal translation of the Python bodies named below; modelling decisions (types, renderings of
attribute accesses and external calls) are in harness/translate/specs.py. -/

set_option linter.unusedVariables false

namespace OdeVerif.Generated
open OdeVerif

-- source: odetoolbox/mixed_integrator.py :: MixedIntegrator.__init__
/-- `__init__` -- the handling of `parameters`, of the `parameters` entry of the analytic solver dictionary (which the constructor mutates) and of `all_variable_symbols` only. Parameter values are evaluated by `ev` (`parse_expr(v).n()`, or `v` itself when it already is a SymPy object: contract); what is read of the analytic solver dictionary is a `Glue.AnaDict` (is there a `parameters` entry, its content, the `state_variables`); re-spelling `'` as the marker is `respell` -/
def mixedInit {α V : Type} (ev : V → α) (respell : String → String) (xs : List String) (parameters : Option (List (String × V))) (analytic_solver_dict : Option (Glue.AnaDict α)) : List (String × α) × List (String × α) × Option (Glue.AnaDict α) × List String :=
  let Praw : List (String × V) := []
  let P : List (String × α) := []
  let locals_ : List (String × α) := []
  let asd : Option (Glue.AnaDict α) := none
  let allSyms : List String := []
  let Praw :=
    if (parameters.isNone = true) then
      let Praw : List (String × V) := []
      Praw
    else
      let Praw : List (String × V) := (parameters.getD [])
      Praw
  let P : List (String × α) := (Praw.map (fun kv => (kv.1, ev kv.2)))
  let locals_ : List (String × α) := P
  let asd : Option (Glue.AnaDict α) := analytic_solver_dict
  let asd :=
    if (asd.isSome = true) then
      let asd :=
        if (Glue.AnaDict.lacksParams asd = true) then
          let asd : Option (Glue.AnaDict α) := (Glue.AnaDict.setParams asd [])
          asd
        else
          asd
      let asd : Option (Glue.AnaDict α) := (Glue.AnaDict.setParams asd (Glue.updateAll (Glue.AnaDict.paramsOf asd) P))
      asd
    else
      asd
  let allSyms : List String := xs
  let allSyms :=
    if (asd.isSome = true) then
      let allSyms : List String := (allSyms ++ Glue.AnaDict.stateVarsOf asd)
      allSyms
    else
      allSyms
  let allSyms : List String := (allSyms.map respell)
  (P, locals_, asd, allSyms)

-- source: odetoolbox/analytic_integrator.py :: AnalyticIntegrator.set_initial_values
-- dropped (raise-only) statements: msg = 'Could not convert initial value expression to float. The following symbol ...
/-- `for (param_symbol, param_val) in self.solver_dict['parameters'].items():` of `set_initial_values` -/
def setInitialValues_for2 {α : Type} : List (String × α) → List (String × α) → List (String × α)
  | [], subs_dict => subs_dict
  | (param_symbol, param_val) :: rest__, subs_dict =>
    let subs_dict : List (String × α) := (Glue.assoc subs_dict param_symbol param_val)
    setInitialValues_for2 rest__ subs_dict

/-- `for (k, v) in vals.items():` of `set_initial_values` -/
def setInitialValues_for1 {α V : Type} (ev : (V → List (String × α) → Option α)) (hasParameters : Bool) (params : List (String × α)) : List (String × V) → List (String × α) → Except Glue.IvErr (List (String × α))
  | [], initial_values => Except.ok initial_values
  | (k, v) :: rest__, initial_values =>
    if ((initial_values.lookup k).isSome = true) then
      let expr : V := v
      let subs_dict : List (String × α) := []
      let subs_dict :=
        if (hasParameters = true) then
          let subs_dict := setInitialValues_for2 params subs_dict
          subs_dict
        else
          subs_dict
      match (match (Glue.evalInto initial_values k (ev expr subs_dict)) with
      | Except.error e__ => Except.error e__
      | Except.ok initial_values =>
        Except.ok initial_values) with
      | Except.error _ =>
        Except.error Glue.IvErr.notNumeric
      | Except.ok initial_values =>
        setInitialValues_for1 ev hasParameters params rest__ initial_values
    else
      Except.error Glue.IvErr.unknownKey

/-- `set_initial_values` -- `self.initial_values` is an association list; `float(expr.evalf(subs=...))` is the parameter `ev` (`none` = TypeError, symbols left over); the result is the new `initial_values` (`self.reset()` then copies it into the state: `Glue.resetState`), or which of the two errors -/
def setInitialValues {α V : Type} (ev : V → List (String × α) → Option α) (hasParameters : Bool) (params : List (String × α)) (initial_values : List (String × α)) (vals : List (String × V)) : Except Glue.IvErr (List (String × α)) :=
  match setInitialValues_for1 ev hasParameters params vals initial_values with
  | Except.error e__ => Except.error e__
  | Except.ok initial_values =>
    Except.ok initial_values

end OdeVerif.Generated
