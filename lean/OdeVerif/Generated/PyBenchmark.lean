import OdeVerif.Model.PyPrelude
import OdeVerif.Model.Glue
/-! GENERATED from /repo by harness/translate/py2lean.py -- do not edit.
Literal translation of the Python bodies named below; modelling decisions (types, renderings of
attribute accesses and external calls) are in harness/translate/specs.py. -/

set_option linter.unusedVariables false

namespace OdeVerif.Generated
open OdeVerif

-- source: odetoolbox/stiffness.py :: StiffnessTester._evaluate_integrator
-- dropped (raise-only) statements: assert PYGSL_AVAILABLE
/-- `_evaluate_integrator` -- every statement is a call and is pinned verbatim (incl. the complete argument list of the MixedIntegrator constructor: the tester's own system, shapes, analytic solver dictionary, parameters, the spike times just generated, seed, step bound, accuracies, simulation time, aliasing mode); the result is the trace of what happens, in order -/
def evaluateIntegrator (seed : Int) (integrator : String) : List Glue.BenchEv :=
  let trace : List Glue.BenchEv := []
  let trace : List Glue.BenchEv := (trace ++ [Glue.BenchEv.seedNumpy seed])
  let trace : List Glue.BenchEv := (trace ++ [Glue.BenchEv.seedPython seed])
  let trace : List Glue.BenchEv := (trace ++ [Glue.BenchEv.generateStimulus])
  let trace : List Glue.BenchEv := (trace ++ [Glue.BenchEv.construct integrator])
  let trace : List Glue.BenchEv := (trace ++ [Glue.BenchEv.integrate])
  trace

end OdeVerif.Generated
