import OdeVerif.Model.PyPrelude
import OdeVerif.Model.Graph
/-! GENERATED from /repo by harness/translate/py2lean.py -- do not edit.
Literal translation of the Python bodies named below; modelling decisions (types, renderings of
attribute accesses and external calls) are in harness/translate/specs.py. -/

set_option linter.unusedVariables false

namespace OdeVerif.Generated
open OdeVerif

-- source: odetoolbox/__init__.py :: _find_analytically_solvable_equations
/-- `for j in range(len(shape_sys.x_)):` of `_find_analytically_solvable_equations` -/
def demote_for2 (s : Graph.Sys) (i : Nat) : List Nat → (Nat → Bool) → (Nat → Bool)
  | [], node_is_analytically_solvable => node_is_analytically_solvable
  | j :: rest__, node_is_analytically_solvable =>
    let node_is_analytically_solvable :=
      if ((¬ i = j) ∧ (s.anz i j = true) ∧ (s.bnz j = true)) then
        let node_is_analytically_solvable : Nat → Bool := (Py.update node_is_analytically_solvable i false)
        node_is_analytically_solvable
      else
        node_is_analytically_solvable
    demote_for2 s i rest__ node_is_analytically_solvable

/-- `for i in range(len(shape_sys.x_)):` of `_find_analytically_solvable_equations` -/
def demote_for1 (s : Graph.Sys) : List Nat → (Nat → Bool) → (Nat → Bool)
  | [], node_is_analytically_solvable => node_is_analytically_solvable
  | i :: rest__, node_is_analytically_solvable =>
    let node_is_analytically_solvable :=
      if ((s.bnz i = true) ∧ ((Graph.sccSize s i) > 1) ∧ True) then
        let node_is_analytically_solvable : Nat → Bool := (Py.update node_is_analytically_solvable i false)
        node_is_analytically_solvable
      else
        node_is_analytically_solvable
    let node_is_analytically_solvable := demote_for2 s i (List.range s.n) node_is_analytically_solvable
    demote_for1 s rest__ node_is_analytically_solvable

/-- `_find_analytically_solvable_equations` -- the two demotion rules (the loop over i, j). State variables are positions of `x`; `shape_order_from_system_matrix(i)` is the size of the strongly connected component (`Graph.sccSize`, SciPy contract); a variable is always among its own connected symbols; `_find_in_matrix(x, x[j])` is `j` (the entries of `x` are distinct) -/
def demote (s : Graph.Sys) (node_is_analytically_solvable : Nat → Bool) : Nat → Bool :=
  let node_is_analytically_solvable := demote_for1 s (List.range s.n) node_is_analytically_solvable
  node_is_analytically_solvable

end OdeVerif.Generated
