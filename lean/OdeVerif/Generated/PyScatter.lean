import OdeVerif.Model.PyPrelude
/-! GENERATED from /repo by harness/translate/py2lean.py -- do not edit.
Literal translation of the Python bodies named below; modelling decisions (types, renderings of
attribute accesses and external calls) are in harness/translate/specs.py. -/

set_option linter.unusedVariables false

namespace OdeVerif.Generated
open OdeVerif

-- source: odetoolbox/system_of_shapes.py :: SystemOfShapes._generate_propagator_matrix
/-- `for (j_block, j) in enumerate(idx):` of `_generate_propagator_matrix` -/
def scatterBlocks_for3 {K : Type} [OfNat K 0] (E : (List Nat → Nat → Nat → K)) (i : Nat) (i_block : Nat) (idx : List Nat) : List (Nat × Nat) → (Nat → Nat → K) → (Nat → Nat → K)
  | [], P => P
  | (j_block, j) :: rest__, P =>
    let P : Nat → Nat → K := (Py.update2 P (i, j).1 (i, j).2 (E idx i_block j_block))
    scatterBlocks_for3 E i i_block idx rest__ P

/-- `for (i_block, i) in enumerate(idx):` of `_generate_propagator_matrix` -/
def scatterBlocks_for2 {K : Type} [OfNat K 0] (E : (List Nat → Nat → Nat → K)) (idx : List Nat) : List (Nat × Nat) → (Nat → Nat → K) → (Nat → Nat → K)
  | [], P => P
  | (i_block, i) :: rest__, P =>
    let P := scatterBlocks_for3 E i i_block idx (Py.enumerate idx) P
    scatterBlocks_for2 E idx rest__ P

/-- `for idx in get_connected_component_indices(A_np):` of `_generate_propagator_matrix` -/
def scatterBlocks_for1 {K : Type} [OfNat K 0] (E : (List Nat → Nat → Nat → K)) : List (List Nat) → (Nat → Nat → K) → (Nat → Nat → K)
  | [], P => P
  | idx :: rest__, P =>
    let P := scatterBlocks_for2 E idx (Py.enumerate idx) P
    scatterBlocks_for1 E rest__ P

/-- `_generate_propagator_matrix` -- the scatter loop only. `get_connected_component_indices(A)` is the list `components` of index lists (SciPy contract, compared with the model's own components on every case); `E idx a b` is entry (a, b) - block-local indices - of `simplify(exp(A[idx, idx] * h))` (SymPy contract); `P` is a function of two indices, initially zero -/
def scatterBlocks {K : Type} [OfNat K 0] (components : List (List Nat)) (E : List Nat → Nat → Nat → K) : Nat → Nat → K :=
  let P : Nat → Nat → K := (fun _ _ => 0)
  let P := scatterBlocks_for1 E components P
  P

end OdeVerif.Generated
