import OdeVerif.Model.PyPrelude
import OdeVerif.Model.Graph
/-! GENERATED from /repo by harness/translate/py2lean.py -- do not edit.
Literal translation of the Python bodies named below; modelling decisions (types, renderings of
attribute accesses and external calls) are in harness/translate/specs.py. -/

set_option linter.unusedVariables false

namespace OdeVerif.Generated
open OdeVerif

-- source: odetoolbox/system_of_shapes.py :: SystemOfShapes.get_dependency_edges
/-- `for (j, sym2) in enumerate(self.x_):` of `get_dependency_edges` -/
def dependencyEdges_for2 (s : Graph.Sys) (i : Nat) (sym1 : Nat) : List (Nat × Nat) → List (Nat × Nat) → List (Nat × Nat)
  | [], E => E
  | (j, sym2) :: rest__, E =>
    let E :=
      if ((s.anz j i = true) ∨ (s.cdep j sym1 = true)) then
        let E : List (Nat × Nat) := (E ++ [(sym2, sym1)])
        E
      else
        E
    dependencyEdges_for2 s i sym1 rest__ E

/-- `for (i, sym1) in enumerate(self.x_):` of `get_dependency_edges` -/
def dependencyEdges_for1 (s : Graph.Sys) : List (Nat × Nat) → List (Nat × Nat) → List (Nat × Nat)
  | [], E => E
  | (i, sym1) :: rest__, E =>
    let E := dependencyEdges_for2 s i sym1 (Py.enumerateRange s.n) E
    dependencyEdges_for1 s rest__ E

/-- `get_dependency_edges` -- state variables are their indices (`enumerate(self.x_)` yields `(i, i)`); `not _is_zero(A[j,i])` is `s.anz j i`, `x_i in c[j].free_symbols` is `s.cdep j i` -/
def dependencyEdges (s : Graph.Sys) : List (Nat × Nat) :=
  let E : List (Nat × Nat) := []
  let E := dependencyEdges_for1 s (Py.enumerateRange s.n) E
  E

-- source: odetoolbox/system_of_shapes.py :: SystemOfShapes.propagate_lin_cc_judgements
/-- `for n_neigh in dependent_neighbours:` of `propagate_lin_cc_judgements` -/
def propagate_for2  : List Nat → (Nat → Bool) → List Nat → ((Nat → Bool) × List Nat)
  | [], node_is_lin, queue => (node_is_lin, queue)
  | n_neigh :: rest__, node_is_lin, queue =>
    match (if (node_is_lin n_neigh = true) then
      let node_is_lin : Nat → Bool := (Py.update node_is_lin n_neigh false)
      let queue : List Nat := (queue ++ [n_neigh])
      (node_is_lin, queue)
    else
      (node_is_lin, queue)) with
    | (node_is_lin, queue) =>
      propagate_for2 rest__ node_is_lin queue

/-- `while len(queue) > 0:` of `propagate_lin_cc_judgements` (fuel = maximal number of iterations) -/
def propagate_while1 (E : List (Nat × Nat)) : Nat → List Nat → (Nat → Bool) → Option (List Nat × (Nat → Bool))
  | 0, _, _ => none
  | fuel + 1, queue, node_is_lin =>
    if (queue.length > 0) then
      match queue with
      | [] => none
      | m :: queue =>
        match (if (¬ (node_is_lin m = true)) then
          let dependent_neighbours : List Nat := ((E.filter (fun (n1, n2) => decide (n2 = m))).map (fun (n1, n2) => n1))
          match (propagate_for2 dependent_neighbours node_is_lin queue) with
          | (node_is_lin, queue) =>
            (node_is_lin, queue)
        else
          (node_is_lin, queue)) with
        | (node_is_lin, queue) =>
          propagate_while1 E fuel queue node_is_lin
    else some (queue, node_is_lin)

/-- `propagate_lin_cc_judgements` -- `node_is_lin` (a dict over the state variables) is a function on indices `0 … n-1`; its `.items()` are listed in index order -/
def propagate (fuel : Nat) (n : Nat) (node_is_lin : Nat → Bool) (E : List (Nat × Nat)) : Option (Nat → Bool) :=
  let queue : List Nat := (((Py.items n node_is_lin).filter (fun (sym, is_lin_cc) => decide (is_lin_cc = false))).map (fun (sym, is_lin_cc) => sym))
  match propagate_while1 E fuel queue node_is_lin with
  | none => none
  | some (queue, node_is_lin) =>
    some node_is_lin

end OdeVerif.Generated
