/-! regeneration from /repo FAILED: unsupported: SystemOfShapes.get_dependency_edges: expression self.x_ -/
#check (regeneration_failed_see_header : Unit)
