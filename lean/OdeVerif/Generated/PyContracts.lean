import OdeVerif.Model.PyPrelude
/-! GENERATED from /repo by harness/translate/py2lean.py -- do not edit.
Literal translation of the Python bodies named below; modelling decisions (types, renderings of
attribute accesses and external calls) are in harness/translate/specs.py. -/

set_option linter.unusedVariables false

namespace OdeVerif.Generated
open OdeVerif

-- source: odetoolbox/sympy_helpers.py :: _is_zero
/-- `_is_zero` -- the whole test is the SymPy answer `expand_mul(x).is_zero` (the parameter `oz`: contract 'true only for zero'); no tolerance, no other branch -/
def isZero {E : Type} (oz : E → Bool) (x : E) : Bool :=
  (oz x)

-- source: odetoolbox/shapes.py :: is_constant_term
-- dropped (raise-only) statements: assert all([type(k) is sympy.Symbol for k in parameters.keys()])
/-- `is_constant_term` -- what is read of the term: whether it is an atomic number (`type(term) in [Float, Integer, Zero, One]`) and the names of its free symbols; `parameters` is `None` or the list of its keys -/
def isConstantTerm (isNumberAtom : Bool) (free : List String) (parameters : Option (List String)) : Bool :=
  let params_ : List String := (parameters.getD [])
  let params_ :=
    if (parameters.isNone = true) then
      let params_ : List String := []
      params_
    else
      params_
  (decide (isNumberAtom = true ∨ ∀ sym ∈ free, sym ∈ params_))

-- source: odetoolbox/singularity_detection.py :: SingularityDetection._is_matrix_defined_under_substitution
/-- `for (expr, subs_expr) in cond.items():` of `_is_matrix_defined_under_substitution` (the body may return) -/
def isMatrixDefinedUnderSubstitution_for2 {E : Type} (undef : (E → E → E → Bool)) (val : E) : List (E × E) → Py.Flow (Bool) (Unit)
  | [] => Py.Flow.next ()
  | (expr, subs_expr) :: rest__ =>
    let val_subs : E × E × E := (val, expr, subs_expr)
    if (undef val_subs.1 val_subs.2.1 val_subs.2.2 = true) then
      Py.Flow.ret (false)
    else
      isMatrixDefinedUnderSubstitution_for2 undef val rest__

/-- `for val in sympy.flatten(A):` of `_is_matrix_defined_under_substitution` (the body may return) -/
def isMatrixDefinedUnderSubstitution_for1 {E : Type} (undef : (E → E → E → Bool)) (cond : List (E × E)) : List E → Py.Flow (Bool) (Unit)
  | [] => Py.Flow.next ()
  | val :: rest__ =>
    match isMatrixDefinedUnderSubstitution_for2 undef val cond with
    | Py.Flow.ret r__ =>
      Py.Flow.ret (r__)
    | Py.Flow.next _ =>
      isMatrixDefinedUnderSubstitution_for1 undef cond rest__

/-- `_is_matrix_defined_under_substitution` -- EVERY entry of the matrix is substituted and simplified for EVERY pair of the condition; `undef val expr subs_expr` is the SymPy test 'the simplified substituted entry is or contains nan / zoo / oo' (contract) -/
def isMatrixDefinedUnderSubstitution {E : Type} (undef : E → E → E → Bool) (entries : List E) (cond : List (E × E)) : Bool :=
  match isMatrixDefinedUnderSubstitution_for1 undef cond entries with
  | Py.Flow.ret r__ =>
    r__
  | Py.Flow.next _ =>
    true

end OdeVerif.Generated
