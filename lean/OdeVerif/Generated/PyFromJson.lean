import OdeVerif.Model.PyPrelude
import OdeVerif.Model.Validate
/-! GENERATED from /repo by harness/translate/py2lean.py -- do not edit.
Literal translation of the Python bodies named below; modelling decisions (types, renderings of
attribute accesses and external calls) are in harness/translate/specs.py. -/

set_option linter.unusedVariables false

namespace OdeVerif.Generated
open OdeVerif

-- source: odetoolbox/shapes.py :: Shape._parse_defining_expression
/-- `_parse_defining_expression` -- strings are character lists; `s.split('=')` (exactly one '=', checked by the caller) is `Validate.splitEq`, `re.findall(r'\S+', .)` is `Validate.tokens`, `re.search(identifier, .)` is `Validate.firstIdent`, counting primes is `Validate.countChar`; `lhs_[0]` is the head; the right-hand side is not part of the structural check and is dropped from the result -/
def parseDefiningExpression (s : Validate.Str) : Except Validate.Kind (Validate.Str × Nat) :=
  let lhs : Validate.Str := (Validate.splitEq s).1
  let lhs_ : List Validate.Str := (Validate.tokens lhs)
  if (¬ ((List.length lhs_) = 1)) then
    Except.error Validate.Kind.lhsTokens
  else
    let lhs : Validate.Str := (lhs_.headD [])
    let symbol_match : Option Validate.Str := (Validate.firstIdent s)
    if (symbol_match.isNone = true) then
      Except.error Validate.Kind.noSymbol
    else
      let symbol : Validate.Str := (symbol_match.getD [])
      let order : Nat := (Validate.countChar '\'' lhs)
      Except.ok (symbol, order)

-- source: odetoolbox/shapes.py :: Shape.from_json
/-- `for (iv_lhs, iv_rhs) in indict['initial_values'].items():` of `from_json` -/
def fromJson_for1 (order : Nat) (symbol : Validate.Str) : List (Validate.Str × Validate.Str) → List Bool → Except Validate.Kind (List Bool)
  | [], initial_val_specified => Except.ok initial_val_specified
  | (iv_lhs, iv_rhs) :: rest__, initial_val_specified =>
    let symbol_match : Option Validate.Str := (Validate.firstIdent iv_lhs)
    if (symbol_match.isNone = true) then
      Except.error Validate.Kind.ivNoSymbol
    else
      let iv_symbol : Validate.Str := (symbol_match.getD [])
      if (¬ (iv_symbol = symbol)) then
        Except.error Validate.Kind.ivOtherVariable
      else
        let iv_order : Nat := (Validate.countChar '\'' iv_lhs)
        if (iv_order ≥ order) then
          Except.error Validate.Kind.ivOrderTooHigh
        else
          if (initial_val_specified.getD iv_order false = true) then
            Except.error Validate.Kind.ivDuplicate
          else
            let initial_val_specified : List Bool := (initial_val_specified.set iv_order true)
            fromJson_for1 order symbol rest__ initial_val_specified

/-- `for (iv_lhs, iv_rhs) in indict['initial_values'].items():` of `from_json` -/
def fromJson_for2 (order : Nat) (symbol : Validate.Str) : List (Validate.Str × Validate.Str) → List Bool → Except Validate.Kind (List Bool)
  | [], initial_val_specified => Except.ok initial_val_specified
  | (iv_lhs, iv_rhs) :: rest__, initial_val_specified =>
    let symbol_match : Option Validate.Str := (Validate.firstIdent iv_lhs)
    if (symbol_match.isNone = true) then
      Except.error Validate.Kind.ivNoSymbol
    else
      let iv_symbol : Validate.Str := (symbol_match.getD [])
      if (¬ (iv_symbol = symbol)) then
        Except.error Validate.Kind.ivOtherVariable
      else
        let iv_order : Nat := (Validate.countChar '\'' iv_lhs)
        if (iv_order ≥ order) then
          Except.error Validate.Kind.ivOrderTooHigh
        else
          if (initial_val_specified.getD iv_order false = true) then
            Except.error Validate.Kind.ivDuplicate
          else
            let initial_val_specified : List Bool := (initial_val_specified.set iv_order true)
            fromJson_for2 order symbol rest__ initial_val_specified

/-- `from_json` -- the structural checks of one `dynamics` entry, in source order; every `raise MalformedInputException` is the error kind named after its message; `indict` is the record of the three keys the checks look at; the initial values themselves, the bounds and the construction of the shape (`from_function` / `from_ode`) are outside: the result is (symbol, order) -/
def fromJson (e : Validate.Entry) : Except Validate.Kind (Validate.Str × Nat) :=
  if (e.expression.isNone = true) then
    Except.error Validate.Kind.noExpression
  else
    if (¬ Validate.countChar '=' (e.expression.getD []) = 1) then
      Except.error Validate.Kind.eqCount
    else
      match parseDefiningExpression (e.expression.getD []) with
      | Except.error e__ => Except.error e__
      | Except.ok (symbol, order) =>
        if ((e.initialValue.isNone = true) ∧ (e.initialValues.isNone = true) ∧ (order > 0)) then
          Except.error Validate.Kind.noInitialValues
        else
          if ((e.initialValue.isSome = true) ∧ (e.initialValues.isSome = true)) then
            Except.error Validate.Kind.bothSpellings
          else
            if (e.initialValue.isSome = true) then
              if (¬ (order = 1)) then
                Except.error Validate.Kind.singleNotFirstOrder
              else
                if (e.initialValues.isSome = true) then
                  if (¬ ((e.initialValues.getD []).length = order)) then
                    Except.error Validate.Kind.wrongNumber
                  else
                    let initial_val_specified : List Bool := (List.replicate order false)
                    match fromJson_for1 order symbol (e.initialValues.getD []) initial_val_specified with
                    | Except.error e__ => Except.error e__
                    | Except.ok initial_val_specified =>
                      if (initial_val_specified.all id = false) then
                        Except.error Validate.Kind.ivMissing
                      else
                        if (order = 0) then
                          Except.ok (symbol, order)
                        else
                          Except.ok (symbol, order)
                else
                  if (order = 0) then
                    Except.ok (symbol, order)
                  else
                    Except.ok (symbol, order)
            else
              if (e.initialValues.isSome = true) then
                if (¬ ((e.initialValues.getD []).length = order)) then
                  Except.error Validate.Kind.wrongNumber
                else
                  let initial_val_specified : List Bool := (List.replicate order false)
                  match fromJson_for2 order symbol (e.initialValues.getD []) initial_val_specified with
                  | Except.error e__ => Except.error e__
                  | Except.ok initial_val_specified =>
                    if (initial_val_specified.all id = false) then
                      Except.error Validate.Kind.ivMissing
                    else
                      if (order = 0) then
                        Except.ok (symbol, order)
                      else
                        Except.ok (symbol, order)
              else
                if (order = 0) then
                  Except.ok (symbol, order)
                else
                  Except.ok (symbol, order)

end OdeVerif.Generated
