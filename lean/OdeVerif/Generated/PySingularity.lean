import OdeVerif.Model.PyPrelude
import OdeVerif.Model.Singularity
/-! GENERATED from /repo by harness/translate/py2lean.py -- do not edit.
Literal translation of the Python bodies named below; modelling decisions (types, renderings of
attribute accesses and external calls) are in harness/translate/specs.py. -/

set_option linter.unusedVariables false

namespace OdeVerif.Generated
open OdeVerif

-- source: odetoolbox/singularity_detection.py :: SingularityDetection._generate_singularity_conditions
/-- `for subexpr in sympy.preorder_traversal(expr):` of `_generate_singularity_conditions` -/
def generateSingularityConditions_for2 (solve : (Singularity.Ex → List Singularity.Cond)) : List Singularity.Ex → List Singularity.Cond → List Singularity.Cond
  | [], conditions => conditions
  | subexpr :: rest__, conditions =>
    let conditions :=
      if (Singularity.isNegPow subexpr = true) then
        let denom : Singularity.Ex := (Singularity.powBase subexpr)
        let cond : List Singularity.Cond := (solve denom)
        let conditions :=
          if True then
            let conditions : List Singularity.Cond := (conditions ++ cond)
            conditions
          else
            conditions
        conditions
      else
        conditions
    generateSingularityConditions_for2 solve rest__ conditions

/-- `for expr in sympy.flatten(A):` of `_generate_singularity_conditions` -/
def generateSingularityConditions_for1 (solve : (Singularity.Ex → List Singularity.Cond)) : List Singularity.Ex → List Singularity.Cond → List Singularity.Cond
  | [], conditions => conditions
  | expr :: rest__, conditions =>
    let conditions := generateSingularityConditions_for2 solve (Singularity.preorder expr) conditions
    generateSingularityConditions_for1 solve rest__ conditions

/-- `_generate_singularity_conditions` -- expression trees are `Singularity.Ex`; `sympy.solve(denom, denom.free_symbols, dict=True)` is the oracle `solve` (a list of condition identifiers); `cond not in conditions` compares a *list* of dictionaries with the dictionaries collected so far and is therefore always true -/
def generateSingularityConditions (solve : Singularity.Ex → List Singularity.Cond) (A : List Singularity.Ex) : List Singularity.Cond :=
  let conditions : List Singularity.Cond := []
  let conditions := generateSingularityConditions_for1 solve A conditions
  conditions

-- source: odetoolbox/singularity_detection.py :: SingularityDetection._flatten_conditions
/-- `for i in range(len(cond)):` of `_flatten_conditions` -/
def flattenConditions_for1 (cond : List Singularity.Cond) : List Nat → List Singularity.Cond → List Singularity.Cond
  | [], lst => lst
  | i :: rest__, lst =>
    let lst :=
      if (¬ ((cond.getD i 0) ∈ lst)) then
        let lst : List Singularity.Cond := (lst ++ [(cond.getD i 0)])
        lst
      else
        lst
    flattenConditions_for1 cond rest__ lst

/-- `_flatten_conditions` -- first occurrences, in order -/
def flattenConditions (cond : List Singularity.Cond) : List Singularity.Cond :=
  let lst : List Singularity.Cond := []
  let lst := flattenConditions_for1 cond (List.range cond.length) lst
  lst

-- source: odetoolbox/singularity_detection.py :: SingularityDetection._filter_valid_conditions
/-- `for i in range(len(cond)):` of `_filter_valid_conditions` -/
def filterValidConditions_for1 (definedA : (Singularity.Cond → Bool)) (cond : List Singularity.Cond) : List Nat → List Singularity.Cond → List Singularity.Cond
  | [], filt_cond => filt_cond
  | i :: rest__, filt_cond =>
    let filt_cond :=
      if (definedA (cond.getD i 0) = true) then
        let filt_cond : List Singularity.Cond := (filt_cond ++ [(cond.getD i 0)])
        filt_cond
      else
        filt_cond
    filterValidConditions_for1 definedA cond rest__ filt_cond

/-- `_filter_valid_conditions` -- `_is_matrix_defined_under_substitution(A, c)` is the oracle `definedA c` -/
def filterValidConditions (definedA : Singularity.Cond → Bool) (cond : List Singularity.Cond) : List Singularity.Cond :=
  let filt_cond : List Singularity.Cond := []
  let filt_cond := filterValidConditions_for1 definedA cond (List.range cond.length) filt_cond
  filt_cond

-- source: odetoolbox/singularity_detection.py :: SingularityDetection.find_singularities
-- dropped (raise-only) statements: except-handlers that only re-raise: Exception
/-- `find_singularities` -- the three stages in order (an exception inside them is re-raised as SingularityDetectionException: outside the model) -/
def findSingularities (solve : Singularity.Ex → List Singularity.Cond) (definedA : Singularity.Cond → Bool) (P : List Singularity.Ex) : List Singularity.Cond :=
  let conditions : List Singularity.Cond := (generateSingularityConditions solve P)
  let conditions : List Singularity.Cond := (flattenConditions conditions)
  let conditions : List Singularity.Cond := (filterValidConditions definedA conditions)
  conditions

end OdeVerif.Generated
