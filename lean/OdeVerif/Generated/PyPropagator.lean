import OdeVerif.Model.PyPrelude
import OdeVerif.Model.Propagator
/-! GENERATED from /repo by harness/translate/py2lean.py -- do not edit.
Literal translation of the Python bodies named below; modelling decisions (types, renderings of
attribute accesses and external calls) are in harness/translate/specs.py. -/

set_option linter.unusedVariables false

namespace OdeVerif.Generated
open OdeVerif

-- source: odetoolbox/system_of_shapes.py :: SystemOfShapes.generate_propagator_solver
/-- `for col in range(P_sym.shape[1]):` of `generate_propagator_solver` -/
def propagatorSolver_for2 {n : Nat} {K : Type} [DecidableEq K] [OfNat K 0] [Neg K] [Div K] (b : (Fin n → K)) (Pnz : (Fin n → Fin n → Bool)) (row : Fin n) : List (Fin n) → List (Fin n × Fin n) → List (Propagator.Term n K) → Except Propagator.AsmErr ((List (Fin n × Fin n) × List (Propagator.Term n K)))
  | [], P_expr, update_expr_terms => Except.ok (P_expr, update_expr_terms)
  | col :: rest__, P_expr, update_expr_terms =>
    if (Pnz row col = true) then
      let P_expr : List (Fin n × Fin n) := (P_expr ++ [(row, col)])
      if ((row ≠ col) ∧ (b col ≠ 0)) then
        Except.error (Propagator.AsmErr.dependsOnInhom row.val col.val)
      else
        let update_expr_terms : List (Propagator.Term n K) := (update_expr_terms ++ [(Propagator.Term.px row col)])
        propagatorSolver_for2 b Pnz row rest__ P_expr update_expr_terms
    else
      propagatorSolver_for2 b Pnz row rest__ P_expr update_expr_terms

/-- `for row in range(P_sym.shape[0]):` of `generate_propagator_solver` -/
def propagatorSolver_for1 {n : Nat} {K : Type} [DecidableEq K] [OfNat K 0] [Neg K] [Div K] (A : (Fin n → Fin n → K)) (b : (Fin n → K)) (cnz : (Fin n → Bool)) (order : (Fin n → Nat)) (Pnz : (Fin n → Fin n → Bool)) : List (Fin n) → List (Fin n × Fin n) → List (Fin n × List (Propagator.Term n K)) → Except Propagator.AsmErr ((List (Fin n × Fin n) × List (Fin n × List (Propagator.Term n K))))
  | [], P_expr, update_expr => Except.ok (P_expr, update_expr)
  | row :: rest__, P_expr, update_expr =>
    if (cnz row = true) then
      Except.error (Propagator.AsmErr.nonlinear row.val)
    else
      if ((b row ≠ 0) ∧ ((order row) > 1)) then
        Except.error (Propagator.AsmErr.higherOrderInhom row.val)
      else
        let update_expr_terms : List (Propagator.Term n K) := []
        match propagatorSolver_for2 b Pnz row (List.finRange n) P_expr update_expr_terms with
        | Except.error e__ => Except.error e__
        | Except.ok (P_expr, update_expr_terms) =>
          let update_expr_terms :=
            if (b row ≠ 0) then
              let update_expr_terms :=
                if (A row row = 0) then
                  let update_expr_terms : List (Propagator.Term n K) := (update_expr_terms ++ [(Propagator.Term.stepB (b row))])
                  update_expr_terms
                else
                  let particular_solution : K := (-(b row) / (A row row))
                  let update_expr_terms : List (Propagator.Term n K) := (update_expr_terms ++ [(Propagator.Term.negPx row)])
                  let update_expr_terms : List (Propagator.Term n K) := (update_expr_terms ++ [(Propagator.Term.affine row particular_solution)])
                  update_expr_terms
              update_expr_terms
            else
              update_expr_terms
          let update_expr : List (Fin n × List (Propagator.Term n K)) := (update_expr ++ [(row, update_expr_terms)])
          propagatorSolver_for1 A b cnz order Pnz rest__ P_expr update_expr

/-- `generate_propagator_solver` -- the assembly loop. Entries of `A`, `b` are values of a type `K`; `_is_zero` tests are `= 0` (for `c` and `P`: the Boolean patterns `cnz`, `Pnz`); the four string concatenations appended to `update_expr_terms` are the constructors of `Propagator.Term` (an edit of any of these strings makes the translation fail); `P_expr` collects the (row, col) pairs whose propagator symbol is defined - the model names a propagator by its pair, which is what the three naming statements (the format string, the loop that makes a name unique, the `P_name` table) achieve since the F17 fix; re-parsing and `_custom_simplify_expr` of the joined string are denotation-preserving contracts (dropped) -/
def propagatorSolver {n : Nat} {K : Type} [DecidableEq K] [OfNat K 0] [Neg K] [Div K] (A : Fin n → Fin n → K) (b : Fin n → K) (cnz : Fin n → Bool) (order : Fin n → Nat) (Pnz : Fin n → Fin n → Bool) : Except Propagator.AsmErr (List (Fin n × Fin n) × List (Fin n × List (Propagator.Term n K))) :=
  let P_expr : List (Fin n × Fin n) := []
  let update_expr : List (Fin n × List (Propagator.Term n K)) := []
  match propagatorSolver_for1 A b cnz order Pnz (List.finRange n) P_expr update_expr with
  | Except.error e__ => Except.error e__
  | Except.ok (P_expr, update_expr) =>
    Except.ok (P_expr, update_expr)

end OdeVerif.Generated
