import OdeVerif.Model.PyPrelude
import OdeVerif.Model.Glue
/-! GENERATED from /repo by harness/translate/py2lean.py -- do not edit.
Literal translation of the Python bodies named below; modelling decisions (types, renderings of
attribute accesses and external calls) are in harness/translate/specs.py. -/

set_option linter.unusedVariables false

namespace OdeVerif.Generated
open OdeVerif

-- source: odetoolbox/shapes.py :: Shape.get_initial_value
/-- `get_initial_value` -- `self.initial_values` is an association list keyed by (name, order) pairs -/
def shapeGetInitialValue (iv : List (Glue.Sym × String)) (sym : Glue.Sym) : Option String :=
  if ((iv.lookup sym).isNone = true) then
    none
  else
    (some ((iv.lookup sym).getD ""))

-- source: odetoolbox/shapes.py :: Shape.get_state_variables
/-- `for order in range(self.order):` of `get_state_variables` -/
def shapeGetStateVariables_for1 (symbol : String) : List Nat → List Glue.Sym → List Glue.Sym
  | [], all_symbols => all_symbols
  | order :: rest__, all_symbols =>
    let all_symbols : List Glue.Sym := (all_symbols ++ [(symbol, order)])
    shapeGetStateVariables_for1 symbol rest__ all_symbols

/-- `get_state_variables` -- the symbol `name + marker * k` is the pair (name, k) -/
def shapeGetStateVariables (symbol : String) (order__ : Nat) : List Glue.Sym :=
  let all_symbols : List Glue.Sym := []
  let all_symbols := shapeGetStateVariables_for1 symbol (List.range order__) all_symbols
  all_symbols

-- source: odetoolbox/system_of_shapes.py :: SystemOfShapes.get_initial_value
-- dropped (raise-only) statements: assert False, 'Unknown symbol: ' + str(sym)
/-- `for shape in self.shapes_:` of `get_initial_value` (the body may return) -/
def systemGetInitialValue_for1 (sym : Glue.Sym) : List Glue.ShapeIv → Py.Flow (Option String) (Unit)
  | [] => Py.Flow.next ()
  | shape :: rest__ =>
    if (shape.symbol = sym.1) then
      Py.Flow.ret ((shapeGetInitialValue shape.iv sym))
    else
      systemGetInitialValue_for1 sym rest__

/-- `get_initial_value` -- stripping the markers / primes from the spelling of `sym` gives its name component; re-spelling with primes is the identity on pairs; the final `assert False` (unknown symbol) is the result `none` -/
def systemGetInitialValue (shapes : List Glue.ShapeIv) (sym : Glue.Sym) : Option (Option String) :=
  match systemGetInitialValue_for1 sym shapes with
  | Py.Flow.ret r__ =>
    (some r__)
  | Py.Flow.next _ =>
    none

-- source: odetoolbox/__init__.py :: _analysis
/-- `for sym in all_shape_symbols:` of `_analysis` -/
def initialValueCopy_for3 (shape : Glue.ShapeIv) (solver_json : List Glue.Sym) : List Glue.Sym → List (List (Glue.Sym × Option String)) → List (List (Glue.Sym × Option String))
  | [], out => out
  | sym :: rest__, out =>
    let out :=
      if (sym ∈ solver_json) then
        let out : List (List (Glue.Sym × Option String)) := (Glue.appendLastIv out (sym, shapeGetInitialValue shape.iv sym))
        out
      else
        out
    initialValueCopy_for3 shape solver_json rest__ out

/-- `for shape in shapes:` of `_analysis` -/
def initialValueCopy_for2 (solver_json : List Glue.Sym) : List Glue.ShapeIv → List (List (Glue.Sym × Option String)) → List (List (Glue.Sym × Option String))
  | [], out => out
  | shape :: rest__, out =>
    let all_shape_symbols : List Glue.Sym := ((List.range shape.order).map (fun i => (shape.symbol, i)))
    let out := initialValueCopy_for3 shape solver_json all_shape_symbols out
    initialValueCopy_for2 solver_json rest__ out

/-- `for solver_json in solvers_json:` of `_analysis` -/
def initialValueCopy_for1 (shapes : List Glue.ShapeIv) : List (List Glue.Sym) → List (List (Glue.Sym × Option String)) → List (List (Glue.Sym × Option String))
  | [], out => out
  | solver_json :: rest__, out =>
    let out : List (List (Glue.Sym × Option String)) := (out ++ [[]])
    let out := initialValueCopy_for2 solver_json shapes out
    initialValueCopy_for1 shapes rest__ out

/-- `_analysis` -- the initial-value copy loop only; a solver dictionary is its `state_variables` list; state variables are (name, order) pairs; the result is, per solver, the (key, value) pairs written, in order (`none` is Python's `str(None)`) -/
def initialValueCopy (shapes : List Glue.ShapeIv) (solvers_json : List (List Glue.Sym)) : List (List (Glue.Sym × Option String)) :=
  let out : List (List (Glue.Sym × Option String)) := []
  let out := initialValueCopy_for1 shapes solvers_json out
  out

end OdeVerif.Generated
