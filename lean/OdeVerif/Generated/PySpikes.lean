import OdeVerif.Model.PyPrelude
/-! GENERATED from /repo by harness/translate/py2lean.py -- do not edit.
Literal translation of the Python bodies named below; modelling decisions (types, renderings of
attribute accesses and external calls) are in harness/translate/specs.py. -/

set_option linter.unusedVariables false

namespace OdeVerif.Generated
open OdeVerif

-- source: odetoolbox/spike_generator.py :: SpikeGenerator._generate_regular_spikes
/-- `while t < T:` of `_generate_regular_spikes` (fuel = maximal number of iterations) -/
def regularSpikes_while1 {α : Type} [Add α] [Div α] [OfNat α 0] [OfNat α 1] [LT α] [LE α] [DecidableLT α] [DecidableLE α] (T : α) (isi : α) : Nat → α → List α → Option (α × List α)
  | 0, _, _ => none
  | fuel + 1, t, spike_times =>
    if (t < T) then
      let t : α := (t + isi)
      let spike_times :=
        if (t ≤ T) then
          let spike_times : List α := (spike_times ++ [t])
          spike_times
        else
          spike_times
      regularSpikes_while1 T isi fuel t spike_times
    else some (t, spike_times)

/-- `_generate_regular_spikes` -- literal translation; the result is `none` when the loop needs more than `fuel` iterations -/
def regularSpikes {α : Type} [Add α] [Div α] [OfNat α 0] [OfNat α 1] [LT α] [LE α] [DecidableLT α] [DecidableLE α] (fuel : Nat) (T : α) (rate : α) : Option (List α) :=
  let spike_times : List α := []
  let isi : α := (1 / rate)
  let t : α := 0
  match regularSpikes_while1 T isi fuel t spike_times with
  | none => none
  | some (t, spike_times) =>
    some spike_times

-- source: odetoolbox/spike_generator.py :: SpikeGenerator._generate_homogeneous_poisson_spikes
/-- `while t < T:` of `_generate_homogeneous_poisson_spikes` (fuel = maximal number of iterations) -/
def poissonSpikes_while1 {α : Type} [Add α] [OfNat α 0] [LT α] [LE α] [DecidableLT α] [DecidableLE α] (T : α) (min_isi : α) : Nat → List α → α → List α → Option (List α × α × List α)
  | 0, _, _, _ => none
  | fuel + 1, isis, t, spike_times =>
    if (t < T) then
      match isis with
      | [] => none
      | isi :: isis =>
        let isi : α := (Py.max isi min_isi)
        let t : α := (t + isi)
        let spike_times :=
          if (t ≤ T) then
            let spike_times : List α := (spike_times ++ [t])
            spike_times
          else
            spike_times
        poissonSpikes_while1 T min_isi fuel isis t spike_times
    else some (isis, t, spike_times)

/-- `_generate_homogeneous_poisson_spikes` -- the exponential draw `-math.log(1. - random.random()) / rate` is read from the stream `isis` (one element per loop iteration; `none` when the stream or the fuel runs out) -/
def poissonSpikes {α : Type} [Add α] [OfNat α 0] [LT α] [LE α] [DecidableLT α] [DecidableLE α] (fuel : Nat) (T : α) (min_isi : α) (isis : List α) : Option (List α) :=
  let spike_times : List α := []
  let t : α := 0
  match poissonSpikes_while1 T min_isi fuel isis t spike_times with
  | none => none
  | some (isis, t, spike_times) =>
    some spike_times

end OdeVerif.Generated
