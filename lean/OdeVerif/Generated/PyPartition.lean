import OdeVerif.Model.PyPrelude
/-! GENERATED from /repo by harness/translate/py2lean.py -- do not edit.
Literal translation of the Python bodies named below; modelling decisions (types, renderings of
attribute accesses and external calls) are in harness/translate/specs.py. -/

set_option linter.unusedVariables false

namespace OdeVerif.Generated
open OdeVerif

-- source: odetoolbox/__init__.py :: _analysis
-- dropped (raise-only) statements: if not PYGSL_AVAILABLE: ... | kwargs = {} ... | if 'options' in indict.keys() and 'random_seed' in indict['options'].keys(): ... | if 'parameters' in indict.keys(): ... | if 'stimuli' in indict.keys(): ... | for key in ['sim_time', 'max_step_size', 'integration_accuracy_abs', 'integratio ... | if not analytic_solver_json is None: ... | tester = StiffnessTester(sub_sys, shapes, **kwargs) ...
/-- `_analysis` -- which sub-systems `_analysis` asks `get_sub_system` for (in order) and the `solver` names of the dictionaries it appends. State variables are positions of `x`; the verdict dictionary is a function on them; `list(set(x) - set(analytic_syms))` is listed in the order of `x` (its order is irrelevant: `get_sub_system` re-selects by position); `tester.check_stiffness()` is the parameter `solver_type`; the construction of the tester's keyword arguments is dropped (prefix-pinned) -/
def solverPartition (n : Nat) (node_is_analytically_solvable : Nat → Bool) (disable_analytic_solver : Bool) (disable_stiffness_check : Bool) (solver_type : Option String) : (List (List Nat) × List String) :=
  let requests : List (List Nat) := []
  let names : List String := []
  let name : String := ""
  let analytic_syms :=
    if disable_analytic_solver then
      let analytic_syms : List Nat := []
      analytic_syms
    else
      let analytic_syms : List Nat := (((Py.items n node_is_analytically_solvable).filter (fun (node_sym, _node_is_analytically_solvable) => decide (_node_is_analytically_solvable = true))).map (fun (node_sym, _node_is_analytically_solvable) => node_sym))
      analytic_syms
  match (if (analytic_syms ≠ []) then
    let requests : List (List Nat) := (requests ++ [analytic_syms])
    let names : List String := (names ++ ["analytical"])
    (requests, names)
  else
    (requests, names)) with
  | (requests, names) =>
    match (if (analytic_syms.length < n) then
      let numeric_syms : List Nat := ((List.range n).filter (fun i => decide (¬ i ∈ analytic_syms)))
      let requests : List (List Nat) := (requests ++ [numeric_syms])
      let name : String := "numeric"
      let name :=
        if (disable_stiffness_check = false) then
          let name :=
            if (solver_type.isSome = true) then
              let name : String := (name ++ "-" ++ solver_type.getD "")
              name
            else
              name
          name
        else
          name
      let names : List String := (names ++ [name])
      (requests, name, names)
    else
      (requests, name, names)) with
    | (requests, name, names) =>
      (requests, names)

end OdeVerif.Generated
