import OdeVerif.Model.PyPrelude
import OdeVerif.Model.Terms
/-! GENERATED from /repo by harness/translate/py2lean.py -- do not edit.
Literal translation of the Python bodies named below; modelling decisions (types, renderings of
attribute accesses and external calls) are in harness/translate/specs.py. -/

set_option linter.unusedVariables false

namespace OdeVerif.Generated
open OdeVerif

-- source: odetoolbox/shapes.py :: Shape.split_lin_inhom_nonlin
/-- `for (j, sym) in enumerate(x):` of `split_lin_inhom_nonlin` -/
def splitLinInhomNonlin_for2 (params : List Terms.Sym) (term : Terms.Term) : List (Nat × Terms.Sym) → List (Nat × Terms.Term) → Bool → (List (Nat × Terms.Term) × Bool)
  | [], lin_factors, is_lin => (lin_factors, is_lin)
  | (j, sym) :: rest__, lin_factors, is_lin =>
    if (Terms.isConstant params (Terms.divSym term sym) = true) then
      let lin_factors : List (Nat × Terms.Term) := (lin_factors ++ [(j, Terms.divSym term sym)])
      let is_lin : Bool := true
      (lin_factors, is_lin)
    else
      splitLinInhomNonlin_for2 params term rest__ lin_factors is_lin

/-- `for term in terms:` of `split_lin_inhom_nonlin` -/
def splitLinInhomNonlin_for1 (params : List Terms.Sym) (x : List Terms.Sym) : List Terms.Term → List Terms.Term → List (Nat × Terms.Term) → List Terms.Term → (List Terms.Term × List (Nat × Terms.Term) × List Terms.Term)
  | [], inhom_term, lin_factors, nonlin_term => (inhom_term, lin_factors, nonlin_term)
  | term :: rest__, inhom_term, lin_factors, nonlin_term =>
    match (if (Terms.isConstant params term = true) then
      let inhom_term : List Terms.Term := (inhom_term ++ [term])
      (inhom_term, lin_factors, nonlin_term)
    else
      let is_lin : Bool := false
      match (splitLinInhomNonlin_for2 params term (Py.enumerate x) lin_factors is_lin) with
      | (lin_factors, is_lin) =>
        let nonlin_term :=
          if (is_lin = false) then
            let nonlin_term : List Terms.Term := (nonlin_term ++ [term])
            nonlin_term
          else
            nonlin_term
        (inhom_term, lin_factors, nonlin_term)) with
    | (inhom_term, lin_factors, nonlin_term) =>
      splitLinInhomNonlin_for1 params x rest__ inhom_term lin_factors nonlin_term

/-- `split_lin_inhom_nonlin` -- `terms` are the summands of `expr.expand()` (SymPy contract), each represented by the symbols it contains (`Terms.Term`); the three accumulators are the lists of terms added to them (`lin_factors[j] += term / sym` is recorded as `(j, term / sym)`); `is_constant_term` and the exponent bookkeeping of `term / sym` are `Terms.isConstant` / `Terms.divSym` -/
def splitLinInhomNonlin (params : List Terms.Sym) (x : List Terms.Sym) (terms : List Terms.Term) : (List (Nat × Terms.Term) × List Terms.Term × List Terms.Term) :=
  let lin_factors : List (Nat × Terms.Term) := []
  let inhom_term : List Terms.Term := []
  let nonlin_term : List Terms.Term := []
  match (splitLinInhomNonlin_for1 params x terms inhom_term lin_factors nonlin_term) with
  | (inhom_term, lin_factors, nonlin_term) =>
    (lin_factors, inhom_term, nonlin_term)

end OdeVerif.Generated
