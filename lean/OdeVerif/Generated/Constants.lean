/-! GENERATED from /repo (config.py, shapes.py, spike_generator.py) -- do not edit. -/
namespace OdeVerif.Generated

/-- `Config.config` as written: (key, kind, python repr) -/
def configDefaults : List (String × String × String) := [
  ("simplify_expression", "str", "sympy.simplify(expr)"),
  ("expression_simplification_threshold", "int", "1000"),
  ("input_time_symbol", "str", "t"),
  ("output_timestep_symbol", "str", "__h"),
  ("differential_order_symbol", "str", "__d"),
  ("sim_time", "float", "0.1"),
  ("max_step_size", "float", "999.0"),
  ("integration_accuracy_abs", "float", "1e-06"),
  ("integration_accuracy_rel", "float", "1e-06")
]

/-- keys of `Shape._sympy_globals` (names a variable may not take) -/
def reservedNames : List String := ["Symbol", "Integer", "Float", "Function", "Pow", "power", "exp", "log", "sin", "cos", "tan", "asin", "sinh", "asinh", "acos", "cosh", "acosh", "tanh", "atanh", "min", "max", "Heaviside", "e", "E", "t", "DiracDelta"]

def fromFunctionMaxT : Nat := 100
def fromFunctionMaxOrder : Nat := 4
/-- default `min_isi` of the Poisson generator, python repr -/
def poissonMinIsiRepr : String := "1e-06"

end OdeVerif.Generated
