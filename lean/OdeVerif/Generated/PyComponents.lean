import OdeVerif.Model.PyPrelude
import OdeVerif.Model.Glue
/-! GENERATED from /repo by harness/translate/py2lean.py -- do not edit.
Literal translation of the Python bodies named below; modelling decisions (types, renderings of
attribute accesses and external calls) are in harness/translate/specs.py. -/

set_option linter.unusedVariables false

namespace OdeVerif.Generated
open OdeVerif

-- source: odetoolbox/system_of_shapes.py :: get_connected_component_indices
-- dropped (raise-only) statements: assert A.shape[0] == A.shape[1], 'matrix A should be square'
/-- `get_connected_component_indices` -- every statement is NumPy / SciPy and pinned verbatim: `A != 0` is the pattern `anz`, `connected_components(.)[1]` the labelling `ccLabels` (SciPy contract), the grouping by label `Glue.groupByLabel` (labels in increasing order, members in increasing order) -/
def connectedComponentIndices (anz : Nat → Nat → Bool) (n : Nat) (ccLabels : (Nat → Nat → Bool) → Nat → Nat) : List (List Nat) :=
  let A_mirrored : Nat → Nat → Bool := (fun i j => anz i j || anz j i)
  let graph_components : Nat → Nat := (ccLabels A_mirrored)
  (Glue.groupByLabel graph_components n)

end OdeVerif.Generated
