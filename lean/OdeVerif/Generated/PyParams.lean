import OdeVerif.Model.PyPrelude
import OdeVerif.Model.SolverDict
/-! GENERATED from /repo by harness/translate/py2lean.py -- do not edit.
Literal translation of the Python bodies named below; modelling decisions (types, renderings of
attribute accesses and external calls) are in harness/translate/specs.py. -/

set_option linter.unusedVariables false

namespace OdeVerif.Generated
open OdeVerif

-- source: odetoolbox/__init__.py :: _analysis
/-- `for (sym, expr) in solver_json['update_expressions'].items():` of `_analysis` -/
def parameterFilter_for3 (param_name : String) : List (String × List String) → Bool → Bool
  | [], symbol_appears_in_any_expr => symbol_appears_in_any_expr
  | (sym, expr) :: rest__, symbol_appears_in_any_expr =>
    if (param_name ∈ expr) then
      let symbol_appears_in_any_expr : Bool := true
      symbol_appears_in_any_expr
    else
      parameterFilter_for3 param_name rest__ symbol_appears_in_any_expr

/-- `for (sym, expr) in solver_json['propagators'].items():` of `_analysis` -/
def parameterFilter_for4 (param_name : String) : List (String × List String) → Bool → Bool
  | [], symbol_appears_in_any_expr => symbol_appears_in_any_expr
  | (sym, expr) :: rest__, symbol_appears_in_any_expr =>
    if (param_name ∈ expr) then
      let symbol_appears_in_any_expr : Bool := true
      symbol_appears_in_any_expr
    else
      parameterFilter_for4 param_name rest__ symbol_appears_in_any_expr

/-- `for (sym, expr) in solver_json['initial_values'].items():` of `_analysis` -/
def parameterFilter_for5 (param_name : String) : List (String × List String) → Bool → Bool
  | [], symbol_appears_in_any_expr => symbol_appears_in_any_expr
  | (sym, expr) :: rest__, symbol_appears_in_any_expr =>
    if (param_name ∈ expr) then
      let symbol_appears_in_any_expr : Bool := true
      symbol_appears_in_any_expr
    else
      parameterFilter_for5 param_name rest__ symbol_appears_in_any_expr

/-- `for (param_name, param_expr) in indict['parameters'].items():` of `_analysis` -/
def parameterFilter_for2 (solver_json : SolverDict.SolverView) : List (String × String) → List (List String) → List (List String)
  | [], listed => listed
  | (param_name, param_expr) :: rest__, listed =>
    let symbol_appears_in_any_expr : Bool := false
    let symbol_appears_in_any_expr :=
      if (solver_json.hasUpdate = true) then
        let symbol_appears_in_any_expr := parameterFilter_for3 param_name solver_json.update symbol_appears_in_any_expr
        symbol_appears_in_any_expr
      else
        symbol_appears_in_any_expr
    let symbol_appears_in_any_expr :=
      if (solver_json.hasProp = true) then
        let symbol_appears_in_any_expr := parameterFilter_for4 param_name solver_json.prop symbol_appears_in_any_expr
        symbol_appears_in_any_expr
      else
        symbol_appears_in_any_expr
    let symbol_appears_in_any_expr :=
      if (solver_json.hasIv = true) then
        let symbol_appears_in_any_expr := parameterFilter_for5 param_name solver_json.iv symbol_appears_in_any_expr
        symbol_appears_in_any_expr
      else
        symbol_appears_in_any_expr
    let listed :=
      if symbol_appears_in_any_expr then
        let listed : List (List String) := (SolverDict.appendLast listed param_name)
        listed
      else
        listed
    parameterFilter_for2 solver_json rest__ listed

/-- `for solver_json in solvers_json:` of `_analysis` -/
def parameterFilter_for1 (params : List (String × String)) : List SolverDict.SolverView → List (List String) → List (List String)
  | [], listed => listed
  | solver_json :: rest__, listed =>
    let listed : List (List String) := (listed ++ [[]])
    let listed := parameterFilter_for2 solver_json params listed
    parameterFilter_for1 params rest__ listed

/-- `_analysis` -- the parameter filter only. A solver dictionary is seen through `SolverDict.SolverView` (which keys are present; per entry the names of the atoms of its expression, as `expr.atoms()` / the re-parsed initial value give them); the result is, per solver in order, the names of the supplied parameters written into its `parameters` entry (their values are `parse_expr(...).n()`: contract) -/
def parameterFilter (hasParameters : Bool) (params : List (String × String)) (solvers_json : List SolverDict.SolverView) : List (List String) :=
  let listed : List (List String) := []
  let listed :=
    if (hasParameters = true) then
      let listed := parameterFilter_for1 params solvers_json listed
      listed
    else
      listed
  listed

end OdeVerif.Generated
