import OdeVerif.Model.PyPrelude
import OdeVerif.Model.Glue
/-! GENERATED from /repo by harness/translate/py2lean.py -- do not edit.
Literal translation of the Python bodies named below; modelling decisions (types, renderings of
attribute accesses and external calls) are in harness/translate/specs.py. -/

set_option linter.unusedVariables false

namespace OdeVerif.Generated
open OdeVerif

-- source: odetoolbox/__init__.py :: _from_json_to_shapes
-- dropped (raise-only) statements: assert all([_is_sympy_type(sym) for sym in all_variable_symbols]) | assert isinstance(param, SympyExpr)
/-- `for shape_json in indict['dynamics']:` of `_from_json_to_shapes` -/
def fromJsonToShapes_for1 {V : Type} (first : (Nat → Option (List (String × Option V)) → Glue.FirstPass)) (parameters : Option (List (String × Option V))) : List Nat → List String → List String → List String → (List String × List String × List String)
  | [], all_variable_symbols, all_variable_symbols_, all_parameter_symbols => (all_variable_symbols, all_variable_symbols_, all_parameter_symbols)
  | shape_json :: rest__, all_variable_symbols, all_variable_symbols_, all_parameter_symbols =>
    let shape : Glue.FirstPass := (first shape_json parameters)
    let all_variable_symbols : List String := (all_variable_symbols ++ shape.stateVars)
    let all_variable_symbols_ : List String := (Glue.setUnion all_variable_symbols_ shape.stateVarsMarker)
    let all_parameter_symbols : List String := (Glue.setUnion all_parameter_symbols shape.free)
    fromJsonToShapes_for1 first parameters rest__ all_variable_symbols all_variable_symbols_ all_parameter_symbols

/-- `for param in all_parameter_symbols:` of `_from_json_to_shapes` -/
def fromJsonToShapes_for2 {V : Type} : List String → Option (List (String × Option V)) → Option (List (String × Option V))
  | [], parameters => parameters
  | param :: rest__, parameters =>
    let parameters :=
      if (parameters.isNone = true) then
        let parameters : Option (List (String × Option V)) := (some [])
        parameters
      else
        parameters
    let parameters :=
      if (¬ Glue.hasKey parameters param) then
        let parameters : Option (List (String × Option V)) := (Glue.setNone parameters param)
        parameters
      else
        parameters
    fromJsonToShapes_for2 rest__ parameters

/-- `for shape_json in indict['dynamics']:` of `_from_json_to_shapes` -/
def fromJsonToShapes_for3 {V : Type} (parameters : Option (List (String × Option V))) (all_variable_symbols : List String) : List Nat → List (Nat × List String × Option (List (String × Option V))) → List (Nat × List String × Option (List (String × Option V)))
  | [], shapes => shapes
  | shape_json :: rest__, shapes =>
    let shape2 : Nat × List String × Option (List (String × Option V)) := (shape_json, all_variable_symbols, parameters)
    let shapes : List (Nat × List String × Option (List (String × Option V))) := (shapes ++ [shape2])
    fromJsonToShapes_for3 parameters all_variable_symbols rest__ shapes

/-- `_from_json_to_shapes` -- the two passes over `indict['dynamics']`. `Shape.from_json` is the pair of parameters `first` (first pass: what is read of the shape is a `Glue.FirstPass` - its state variables in primed and in marker spelling and the free symbols of its reconstituted expression); the entries of `indict['dynamics']` are their positions; a shape of the second pass is the triple of arguments `from_json` is called with; Python sets are duplicate-free lists (`Glue.setUnion`, filters); the iteration order over the set of parameter symbols is the arbitrary re-ordering `perm`; `parameters` is `None` or a dictionary (association list) whose values are `None` or given; `sympy.Symbol(Config().input_time_symbol)` is the name `timeSymbol` -/
def fromJsonToShapes {V : Type} (first : Nat → Option (List (String × Option V)) → Glue.FirstPass) (perm : List String → List String) (timeSymbol : String) (dynamics : List Nat) (parameters : Option (List (String × Option V))) : List (Nat × List String × Option (List (String × Option V))) × Option (List (String × Option V)) :=
  let shapes : List (Nat × List String × Option (List (String × Option V))) := []
  let all_variable_symbols : List String := []
  let all_parameter_symbols : List String := []
  let all_variable_symbols_ : List String := []
  match (fromJsonToShapes_for1 first parameters dynamics all_variable_symbols all_variable_symbols_ all_parameter_symbols) with
  | (all_variable_symbols, all_variable_symbols_, all_parameter_symbols) =>
    let all_parameter_symbols : List String := (all_parameter_symbols.filter (fun p => decide (p ∉ all_variable_symbols_)))
    let all_parameter_symbols : List String := (all_parameter_symbols.filter (fun p => decide (p ≠ timeSymbol)))
    let parameters := fromJsonToShapes_for2 (perm all_parameter_symbols) parameters
    let shapes := fromJsonToShapes_for3 parameters all_variable_symbols dynamics shapes
    (shapes, parameters)

end OdeVerif.Generated
