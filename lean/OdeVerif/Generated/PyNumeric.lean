import OdeVerif.Model.PyPrelude
import OdeVerif.Model.Shapes
/-! GENERATED from /repo by harness/translate/py2lean.py -- do not edit.
Literal translation of the Python bodies named below; modelling decisions (types, renderings of
attribute accesses and external calls) are in harness/translate/specs.py. -/

set_option linter.unusedVariables false

namespace OdeVerif.Generated
open OdeVerif

-- source: odetoolbox/system_of_shapes.py :: SystemOfShapes.reconstitute_expr
/-- `for (col, y) in enumerate(self.x_):` of `reconstitute_expr` -/
def numericExpressions_for2 {K : Type} (A : (Nat → Nat → K)) (printsAsOne : (Nat → Nat → Bool)) (row : Nat) : List (Nat × Nat) → List (Shapes.NTerm K) → List (Shapes.NTerm K)
  | [], update_expr_terms => update_expr_terms
  | (col, y) :: rest__, update_expr_terms =>
    let update_expr_terms :=
      if (printsAsOne row col = true) then
        let update_expr_terms : List (Shapes.NTerm K) := (update_expr_terms ++ [(Shapes.NTerm.var y)])
        update_expr_terms
      else
        let update_expr_terms : List (Shapes.NTerm K) := (update_expr_terms ++ [(Shapes.NTerm.scaled y (A row col))])
        update_expr_terms
    numericExpressions_for2 A printsAsOne row rest__ update_expr_terms

/-- `for (row, x) in enumerate(self.x_):` of `reconstitute_expr` -/
def numericExpressions_for1 {K : Type} (n : Nat) (A : (Nat → Nat → K)) (b : (Nat → K)) (c : (Nat → K)) (printsAsOne : (Nat → Nat → Bool)) : List (Nat × Nat) → List (Nat × List (Shapes.NTerm K) × K × K) → List (Nat × List (Shapes.NTerm K) × K × K)
  | [], update_expr => update_expr
  | (row, x) :: rest__, update_expr =>
    let update_expr_terms : List (Shapes.NTerm K) := []
    let update_expr_terms := numericExpressions_for2 A printsAsOne row (Py.enumerateRange n) update_expr_terms
    let update_expr : List (Nat × List (Shapes.NTerm K) × K × K) := (update_expr ++ [(x, update_expr_terms, b row, c row)])
    numericExpressions_for1 n A b c printsAsOne rest__ update_expr

/-- `reconstitute_expr` -- state variables are positions of `x`; entries of `A`, `b`, `c` are values of a type `K`; `printsAsOne row col` is the string test `str(A[row, col]) in ["1", "1.", "1.0"]` (contract: then the entry is 1); the two string forms of a summand are the constructors of `Shapes.NTerm`; the joined string of a row is the triple (terms, b, c); re-parsing, `_custom_simplify_expr` and `sympy.collect` are denotation-preserving contracts (dropped) -/
def numericExpressions {K : Type} (n : Nat) (A : Nat → Nat → K) (b : Nat → K) (c : Nat → K) (printsAsOne : Nat → Nat → Bool) : List (Nat × List (Shapes.NTerm K) × K × K) :=
  let update_expr : List (Nat × List (Shapes.NTerm K) × K × K) := []
  let update_expr := numericExpressions_for1 n A b c printsAsOne (Py.enumerateRange n) update_expr
  update_expr

end OdeVerif.Generated
