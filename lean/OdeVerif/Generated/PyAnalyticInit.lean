import OdeVerif.Model.PyPrelude
import OdeVerif.Model.Glue
/-! GENERATED from /repo by harness/translate/py2lean.py -- do not edit.
Literal translation of the Python bodies named below; modelling decisions (types, renderings of
attribute accesses and external calls) are in harness/translate/specs.py. -/

set_option linter.unusedVariables false

namespace OdeVerif.Generated
open OdeVerif

-- source: odetoolbox/analytic_integrator.py :: AnalyticIntegrator.__init__
/-- `for (k_, v_) in self.solver_dict['parameters'].items():` of `__init__` -/
def analyticInit_for2 {α : Type} : List (String × α) → List (String × α) → List (String × α)
  | [], subs_dict => subs_dict
  | (k_, v_) :: rest__, subs_dict =>
    let subs_dict : List (String × α) := (Glue.assoc subs_dict k_ v_)
    analyticInit_for2 rest__ subs_dict

/-- `for (k, v) in self.shape_starting_values.items():` of `__init__` -/
def analyticInit_for1 {α V : Type} (ev : (V → List (String × α) → α)) (hasParameters : Bool) (params : List (String × α)) : List (String × V) → List (String × α) → List (String × α)
  | [], starting => starting
  | (k, v) :: rest__, starting =>
    let expr : V := v
    let subs_dict : List (String × α) := []
    let subs_dict :=
      if (hasParameters = true) then
        let subs_dict := analyticInit_for2 params subs_dict
        subs_dict
      else
        subs_dict
    let starting : List (String × α) := (Glue.assoc starting k (ev expr subs_dict))
    analyticInit_for1 ev hasParameters params rest__ starting

/-- `for (k, v) in self.update_expressions.items():` of `__init__` -/
def analyticInit_for3 {U : Type} (parseU : (U → U)) : List (String × U) → List (String × U) → List (String × U)
  | [], ue => ue
  | (k, v) :: rest__, ue =>
    let ue :=
      if True then
        let ue : List (String × U) := (Glue.assoc ue k (parseU (Glue.getU ue k v)))
        ue
      else
        ue
    analyticInit_for3 parseU rest__ ue

/-- `for (prop_symbol, prop_expr) in self.solver_dict['propagators'].items():` of `__init__` -/
def analyticInit_for4 {α U : Type} : List (String × U) → List (String × Glue.SubV U α) → List (String × Glue.SubV U α)
  | [], sd => sd
  | (prop_symbol, prop_expr) :: rest__, sd =>
    let sd : List (String × Glue.SubV U α) := (Glue.assoc sd prop_symbol (Glue.SubV.expr prop_expr))
    analyticInit_for4 rest__ sd

/-- `for (param_symbol, param_expr) in self.solver_dict['parameters'].items():` of `__init__` -/
def analyticInit_for5 {α U : Type} : List (String × α) → List (String × Glue.SubV U α) → List (String × Glue.SubV U α)
  | [], sd => sd
  | (param_symbol, param_expr) :: rest__, sd =>
    let sd : List (String × Glue.SubV U α) := (Glue.assoc sd param_symbol (Glue.SubV.val param_expr))
    analyticInit_for5 rest__ sd

/-- `for (k, v) in self.update_expressions.items():` of `__init__` -/
def analyticInit_for6 {α U : Type} (subst : (U → List (String × Glue.SubV U α) → U)) (sd : List (String × Glue.SubV U α)) : List (String × U) → List (String × U) → List (String × U)
  | [], ue => ue
  | (k, v) :: rest__, ue =>
    let ue : List (String × U) := (Glue.assoc ue k (subst (subst (Glue.getU ue k v) sd) sd))
    analyticInit_for6 subst sd rest__ ue

/-- `__init__` -- the dictionary handling of the constructor. The two `.copy()` statements are pinned verbatim: the integrator works on copies (`starting`, `ue`), the caller's dictionary (`ivs`, `upd`, `props`, `params`) is only read. `float(expr.evalf(subs=...))` is `ev`, `parse_expr` of an update expression `parseU` (every expression is treated as a string: parsing a parsed expression is the identity - contract), `.subs(d)` is `subst`; the result is (spike increments, update expressions after substitution, substitution dictionary) -/
def analyticInit {α V U : Type} (ev : V → List (String × α) → α) (parseU : U → U) (subst : U → List (String × Glue.SubV U α) → U) (hasParameters : Bool) (params : List (String × α)) (ivs : List (String × V)) (upd : List (String × U)) (props : List (String × U)) : List (String × α) × List (String × U) × List (String × Glue.SubV U α) :=
  let starting : List (String × α) := []
  let ue : List (String × U) := []
  let sd : List (String × Glue.SubV U α) := []
  let starting := analyticInit_for1 ev hasParameters params ivs starting
  let ue : List (String × U) := upd
  let ue := analyticInit_for3 parseU ue ue
  let sd : List (String × Glue.SubV U α) := []
  let sd := analyticInit_for4 props sd
  let sd :=
    if (hasParameters = true) then
      let sd := analyticInit_for5 params sd
      sd
    else
      sd
  let ue := analyticInit_for6 subst sd ue ue
  (starting, ue, sd)

end OdeVerif.Generated
