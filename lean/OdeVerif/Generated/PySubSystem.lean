import OdeVerif.Model.PyPrelude
import OdeVerif.Model.Shapes
/-! GENERATED from /repo by harness/translate/py2lean.py -- do not edit.
Literal translation of the Python bodies named below; modelling decisions (types, renderings of
attribute accesses and external calls) are in harness/translate/specs.py. -/

set_option linter.unusedVariables false

namespace OdeVerif.Generated
open OdeVerif

-- source: odetoolbox/system_of_shapes.py :: SystemOfShapes.get_sub_system
/-- `for _idx in idx:` of `get_sub_system` -/
def subSystem_for1 {K : Type} [Add K] [Mul K] [OfNat K 0] (A : (Nat → Nat → K)) (x : (Nat → K)) (idx_compl : List Nat) : List Nat → (Nat → K) → (Nat → K)
  | [], c_old => c_old
  | row :: rest__, c_old =>
    let c_old : Nat → K := (Py.update c_old row ((c_old row) + (Shapes.sumList (idx_compl.map (fun j => A row j * x j)))))
    subSystem_for1 A x idx_compl rest__ c_old

/-- `get_sub_system` -- state variables are positions of `x` (`sym in symbols` is `keep sym`); matrices and vectors are functions of indices with values in `K`; NumPy/SymPy slicing `M[idx, :][:, idx]`, `v[idx, :]` and the row-times-column product are spelled out; `_custom_simplify_expr` is a denotation-preserving contract (dropped) -/
def subSystem {K : Type} [Add K] [Mul K] [OfNat K 0] (n : Nat) (keep : Nat → Bool) (A : Nat → Nat → K) (b : Nat → K) (c : Nat → K) (x : Nat → K) : (List Nat × List (List K) × List K × List K) :=
  let idx : List Nat := (((Py.enumerateRange n).filter (fun (i, sym) => decide (keep sym = true))).map (fun (i, sym) => i))
  let idx_compl : List Nat := (((Py.enumerateRange n).filter (fun (i, sym) => decide (keep sym = false))).map (fun (i, sym) => i))
  let A_sub : List (List K) := (idx.map (fun r => idx.map (fun col => A r col)))
  let b_sub : List K := (idx.map b)
  let c_old : Nat → K := c
  let c_old := subSystem_for1 A x idx_compl idx c_old
  let c_sub : List K := (idx.map c_old)
  (idx, A_sub, b_sub, c_sub)

end OdeVerif.Generated
