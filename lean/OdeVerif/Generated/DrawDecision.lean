/-! GENERATED from /repo/odetoolbox/stiffness.py (StiffnessTester._draw_decision) -- do not edit. -/
namespace OdeVerif.Generated

/-- literal translation of `_draw_decision`; `np.finfo(float).eps` is the parameter `eps` -/
def drawDecision {α : Type} [Mul α] [LT α] [DecidableLT α]
    (eps : α) (step_min_imp step_min_exp step_average_imp step_average_exp machine_precision_dist_ratio avg_step_size_ratio : α) : String :=
  let machine_precision := eps
  if ((step_min_imp > (machine_precision_dist_ratio * machine_precision)) ∧ (step_min_exp < (machine_precision_dist_ratio * machine_precision))) then
    "implicit"
  else
    if ((step_min_imp < (machine_precision_dist_ratio * machine_precision)) ∧ (step_min_exp > (machine_precision_dist_ratio * machine_precision))) then
      "explicit"
    else
      if ((step_min_imp < (machine_precision_dist_ratio * machine_precision)) ∧ (step_min_exp < (machine_precision_dist_ratio * machine_precision))) then
        "warning"
      else
        if (step_average_imp > (avg_step_size_ratio * step_average_exp)) then
          "implicit"
        else
          "explicit"

/-- argument names in source order -/
def drawDecisionArgs : List String := ["step_min_imp", "step_min_exp", "step_average_imp", "step_average_exp", "machine_precision_dist_ratio", "avg_step_size_ratio"]
/-- defaults of the trailing parameters, as written in the source -/
def drawDecisionDefaults : List (String × Nat) := [("machine_precision_dist_ratio", 10), ("avg_step_size_ratio", 6)]

end OdeVerif.Generated
