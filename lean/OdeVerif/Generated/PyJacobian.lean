import OdeVerif.Model.PyPrelude
import OdeVerif.Model.Shapes
/-! GENERATED from /repo by harness/translate/py2lean.py -- do not edit.
Literal translation of the Python bodies named below; modelling decisions (types, renderings of
attribute accesses and external calls) are in harness/translate/specs.py. -/

set_option linter.unusedVariables false

namespace OdeVerif.Generated
open OdeVerif

-- source: odetoolbox/system_of_shapes.py :: SystemOfShapes.get_jacobian_matrix
/-- `for (v, sym_v) in zip(self.A_[i, :], self.x_):` of `get_jacobian_matrix` -/
def jacobianMatrix_for2 {K : Type} [Add K] [Mul K] [OfNat K 0] : List (K × K) → K → K
  | [], expr => expr
  | (v, sym_v) :: rest__, expr =>
    let expr : K := (expr + (v * sym_v))
    jacobianMatrix_for2 rest__ expr

/-- `for (j, sym2) in enumerate(self.x_):` of `get_jacobian_matrix` -/
def jacobianMatrix_for3 {K : Type} [Add K] [Mul K] [OfNat K 0] (diff : (K → Nat → K)) (expr : K) (i : Nat) : List (Nat × Nat) → List ((Nat × Nat) × K) → List ((Nat × Nat) × K)
  | [], J => J
  | (j, sym2) :: rest__, J =>
    let J : List ((Nat × Nat) × K) := (J ++ [((i, j), (diff expr sym2))])
    jacobianMatrix_for3 diff expr i rest__ J

/-- `for (i, sym) in enumerate(self.x_):` of `get_jacobian_matrix` -/
def jacobianMatrix_for1 {K : Type} [Add K] [Mul K] [OfNat K 0] (diff : (K → Nat → K)) (A : List (List K)) (c : List K) (x : List K) : List (Nat × Nat) → List ((Nat × Nat) × K) → List ((Nat × Nat) × K)
  | [], J => J
  | (i, sym) :: rest__, J =>
    let expr : K := (c.getD i 0)
    let expr := jacobianMatrix_for2 (List.zip (A.getD i []) x) expr
    let J := jacobianMatrix_for3 diff expr i (Py.enumerateRange x.length) J
    jacobianMatrix_for1 diff A c x rest__ J

/-- `get_jacobian_matrix` -- entries of `A`, `c` and the state variables are elements of an arbitrary structure `K` with + and * (symbolic expressions); `sympy.diff(expr, x_j)` is `diff expr j`; `J` is the list of assignments `J[i, j] = ...` in the order they are made -/
def jacobianMatrix {K : Type} [Add K] [Mul K] [OfNat K 0] (diff : K → Nat → K) (A : List (List K)) (c : List K) (x : List K) : List ((Nat × Nat) × K) :=
  let N : Nat := x.length
  let J : List ((Nat × Nat) × K) := []
  let J := jacobianMatrix_for1 diff A c x (Py.enumerateRange x.length) J
  J

end OdeVerif.Generated
