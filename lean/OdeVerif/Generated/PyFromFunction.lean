import OdeVerif.Model.PyPrelude
import OdeVerif.Model.FromFunction
/-! GENERATED from /repo by harness/translate/py2lean.py -- do not edit.
Literal translation of the Python bodies named below; modelling decisions (types, renderings of
attribute accesses and external calls) are in harness/translate/specs.py. -/

set_option linter.unusedVariables false

namespace OdeVerif.Generated
open OdeVerif

-- source: odetoolbox/shapes.py :: Shape.from_function
/-- `for t_ in range(0, max_t):` of `from_function` -/
def fromFunction_for1 (o : FromFunction.Oracle) : List Nat → Option Nat → Option Nat
  | [], t_val => t_val
  | t_ :: rest__, t_val =>
    if (o.nonzeroAt t_ = true) then
      let t_val : Option Nat := some t_
      t_val
    else
      fromFunction_for1 o rest__ t_val

/-- `for t_ in range(1, max_t):` of `from_function` -/
def fromFunction_for3 (o : FromFunction.Oracle) (order : Nat) : List Nat → Bool → Bool
  | [], invertible => invertible
  | t_ :: rest__, invertible =>
    if (o.invertibleAt order t_ = true) then
      let invertible : Bool := true
      invertible
    else
      fromFunction_for3 o order rest__ invertible

/-- `while not found_ode and order < max_order:` of `from_function` (fuel = maximal number of iterations) -/
def fromFunction_while2 (o : FromFunction.Oracle) (max_t : Nat) (max_order : Nat) : Nat → Nat → Bool → Except FromFunction.Err ((Nat × Bool))
  | 0, _, _ => Except.error FromFunction.Err.noOde
  | fuel + 1, order, found_ode =>
    if ((found_ode = false) ∧ (order < max_order)) then
      let order : Nat := (order + 1)
      let invertible : Bool := false
      let invertible := fromFunction_for3 o order (List.range' 1 (max_t - 1)) invertible
      if (invertible = false) then
        fromFunction_while2 o max_t max_order fuel order found_ode
      else
        if (o.verifies order = true) then
          let found_ode : Bool := true
          Except.ok (order, found_ode)
        else
          fromFunction_while2 o max_t max_order fuel order found_ode
    else Except.ok (order, found_ode)

/-- `from_function` -- the control flow of the order search; every SymPy step is an oracle answer (`o.nonzeroAt t`, `o.order1Verifies`, `o.invertibleAt order t`, `o.verifies order`), the statements that only compute SymPy objects are dropped verbatim (an edit of any of them makes the translation fail); the value returned is the order of the shape that is constructed -/
def fromFunction (fuel : Nat) (o : FromFunction.Oracle) (max_t : Nat) (max_order : Nat) : Except FromFunction.Err (Nat) :=
  let t_val : Option Nat := none
  let t_val := fromFunction_for1 o (List.range max_t) t_val
  if (t_val.isNone = true) then
    Except.error FromFunction.Err.noNonzeroSample
  else
    let order : Nat := 1
    let found_ode : Bool := o.order1Verifies
    match fromFunction_while2 o max_t max_order fuel order found_ode with
    | Except.error e__ => Except.error e__
    | Except.ok (order, found_ode) =>
      if (found_ode = false) then
        Except.error FromFunction.Err.noOde
      else
        Except.ok order

end OdeVerif.Generated
