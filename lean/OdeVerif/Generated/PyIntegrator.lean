import OdeVerif.Model.PyPrelude
import OdeVerif.Model.AnalyticIntegrator
/-! GENERATED from /repo by harness/translate/py2lean.py -- do not edit.
Literal translation of the Python bodies named below; modelling decisions (types, renderings of
attribute accesses and external calls) are in harness/translate/specs.py. -/

set_option linter.unusedVariables false

namespace OdeVerif.Generated
open OdeVerif

-- source: odetoolbox/analytic_integrator.py :: AnalyticIntegrator.get_value
/-- `for spike_sym in spike_syms:` of `get_value` -/
def getValue_for2 {Tm St Sy : Type} [LT Tm] [LE Tm] [Sub Tm] [OfNat Tm 0] [DecidableLT Tm] [DecidableLE Tm] (p : AI.Params Tm St Sy) : List Sy → St → St
  | [], state_at_t_curr => state_at_t_curr
  | spike_sym :: rest__, state_at_t_curr =>
    let state_at_t_curr : St := p.inc spike_sym state_at_t_curr
    getValue_for2 p rest__ state_at_t_curr

/-- `for (spike_t, spike_syms) in zip(all_spike_times, all_spike_times_sym):` of `get_value` -/
def getValue_for1 {Tm St Sy : Type} [LT Tm] [LE Tm] [Sub Tm] [OfNat Tm 0] [DecidableLT Tm] [DecidableLE Tm] (p : AI.Params Tm St Sy) (t : Tm) : List (Tm × List Sy) → St → Tm → (St × Tm)
  | [], state_at_t_curr, t_curr => (state_at_t_curr, t_curr)
  | (spike_t, spike_syms) :: rest__, state_at_t_curr, t_curr =>
    if (spike_t ≤ t_curr) then
      getValue_for1 p t rest__ state_at_t_curr t_curr
    else
      if (spike_t > t) then
        (state_at_t_curr, t_curr)
      else
        let delta_t : Tm := (spike_t - t_curr)
        match (if (delta_t > 0) then
          let state_at_t_curr : St := (p.step delta_t state_at_t_curr)
          let t_curr : Tm := spike_t
          (state_at_t_curr, t_curr)
        else
          (state_at_t_curr, t_curr)) with
        | (state_at_t_curr, t_curr) =>
          let state_at_t_curr := getValue_for2 p spike_syms state_at_t_curr
          getValue_for1 p t rest__ state_at_t_curr t_curr

/-- `get_value` -- `self` is the pair (immutable parameters `p`, mutable cache `c`); the new cache is returned with the value. `_update_step` is `p.step`, the guarded increment of one spike symbol is `p.inc` -/
def getValue {Tm St Sy : Type} [LT Tm] [LE Tm] [Sub Tm] [OfNat Tm 0] [DecidableLT Tm] [DecidableLE Tm] (p : AI.Params Tm St Sy) (c : AI.Cache Tm St) (t : Tm) : (AI.Cache Tm St × St) :=
  let c :=
    if ((¬ p.enableCaching) ∨ (t < c.tcurr)) then
      let c : AI.Cache Tm St := AI.reset p c
      c
    else
      c
  let t_curr : Tm := c.tcurr
  let state_at_t_curr : St := c.state
  match (getValue_for1 p t p.spikes state_at_t_curr t_curr) with
  | (state_at_t_curr, t_curr) =>
    let c :=
      if c.cacheUpdate then
        let c : AI.Cache Tm St := { c with tcurr := t_curr }
        let c : AI.Cache Tm St := { c with state := state_at_t_curr }
        c
      else
        c
    let delta_t : Tm := (t - t_curr)
    match (if (delta_t > 0) then
      let state_at_t_curr : St := (p.step delta_t state_at_t_curr)
      let t_curr : Tm := t
      (state_at_t_curr, t_curr)
    else
      (state_at_t_curr, t_curr)) with
    | (state_at_t_curr, t_curr) =>
      (c, state_at_t_curr)

-- source: odetoolbox/integrator.py :: Integrator.set_spike_times
-- dropped (raise-only) statements: assert type(sym) is str | assert str(sym) in [str(_sym) for _sym in self.all_variable_symbols], 'Tried to set a spike time of 
/-- `for t_sp in sym_spike_times:` of `set_spike_times` -/
def mergeSpikes_for2 {Tm Sy : Type} [DecidableEq Tm] (sym : Sy) : List Tm → List (List Sy) → List Tm → (List (List Sy) × List Tm)
  | [], syms, times => (syms, times)
  | t_sp :: rest__, syms, times =>
    match (if (t_sp ∈ times) then
      let idx : Nat := (Py.index times t_sp)
      let syms : List (List Sy) := (Py.set syms idx ((Py.getD syms idx) ++ [sym]))
      (syms, times)
    else
      let times : List Tm := (times ++ [t_sp])
      let syms : List (List Sy) := (syms ++ [[sym]])
      (syms, times)) with
    | (syms, times) =>
      mergeSpikes_for2 sym rest__ syms times

/-- `for (sym, sym_spike_times) in self.spike_times.items():` of `set_spike_times` -/
def mergeSpikes_for1 {Tm Sy : Type} [DecidableEq Tm] : List (Sy × List Tm) → List (List Sy) → List Tm → (List (List Sy) × List Tm)
  | [], syms, times => (syms, times)
  | (sym, sym_spike_times) :: rest__, syms, times =>
    match (mergeSpikes_for2 sym sym_spike_times syms times) with
    | (syms, times) =>
      mergeSpikes_for1 rest__ syms times

/-- `set_spike_times` -- the merge loops only (`self.all_spike_times` = `times`, `self.all_spike_times_sym` = `syms`, the dict's items = `d`); the final `np.argsort` re-ordering is a NumPy contract and stays in the hand model (`sortByTime`) -/
def mergeSpikes {Tm Sy : Type} [DecidableEq Tm] (d : List (Sy × List Tm)) : (List Tm × List (List Sy)) :=
  let times : List Tm := []
  let syms : List (List Sy) := []
  match (mergeSpikes_for1 d syms times) with
  | (syms, times) =>
    (times, syms)

end OdeVerif.Generated
