import OdeVerif.Model.PyPrelude
import OdeVerif.Model.Glue
/-! GENERATED from /repo by harness/translate/py2lean.py -- do not edit.
Literal translation of the Python bodies named below; modelling decisions (types, renderings of
attribute accesses and external calls) are in harness/translate/specs.py. -/

set_option linter.unusedVariables false

namespace OdeVerif.Generated
open OdeVerif

-- source: odetoolbox/mixed_integrator.py :: MixedIntegrator.step
-- dropped (raise-only) statements: except-handlers that only re-raise: Exception
/-- `step` -- `self._locals` is an association list with Python's dict.update semantics (`Glue.updateAll`) and is part of the result (the method mutates it); `xs` are the names of `_system_of_shapes.x_`, `allSyms` those of `all_variable_symbols`; `analytic_integrator.get_value` is the parameter `ana` (C12 is about it); the compiled update expressions are `f name args`; a missing key reads as `default` (Python: KeyError) -/
def mixedStep {α : Type} [Inhabited α] (locals_ : List (String × α)) (xs : List String) (allSyms : List String) (hasAnalytic : Bool) (ana : α → List (String × α)) (f : String → List α → α) (t : α) (y : List α) : List (String × α) × List α :=
  let locals_ : List (String × α) := (Glue.updateAll locals_ (xs.zip y))
  let locals_ :=
    if (hasAnalytic = true) then
      let locals_ : List (String × α) := (Glue.updateAll locals_ (ana t))
      locals_
    else
      locals_
  let y : List α := (allSyms.map (fun sym => Glue.get locals_ sym))
  let _ret : List α := (xs.map (fun sym => f sym y))
  (locals_, _ret)

-- source: odetoolbox/mixed_integrator.py :: MixedIntegrator.numerical_jacobian
/-- `for col in range(0, dimension):` of `numerical_jacobian` -/
def numericalJacobian_for2 {α : Type} [Inhabited α] (J : (Nat → Nat → List α → α)) (y : List α) (row : Nat) : List Nat → (Nat → Nat → α) → (Nat → Nat → α)
  | [], dfdy => dfdy
  | col :: rest__, dfdy =>
    let dfdy : Nat → Nat → α := (Py.update2 dfdy (row, col).1 (row, col).2 (J row col y))
    numericalJacobian_for2 J y row rest__ dfdy

/-- `for row in range(0, dimension):` of `numerical_jacobian` -/
def numericalJacobian_for1 {α : Type} [Inhabited α] (J : (Nat → Nat → List α → α)) (y : List α) (dimension : Nat) : List Nat → (Nat → Nat → α) → (Nat → Nat → α)
  | [], dfdy => dfdy
  | row :: rest__, dfdy =>
    let dfdy := numericalJacobian_for2 J y row (List.range dimension) dfdy
    numericalJacobian_for1 J y dimension rest__ dfdy

/-- `numerical_jacobian` -- as `step`; the compiled Jacobian entries are `J row col args`; the matrix is a function of two indices (initially `default` = 0.0); `dfdt` (all zero) is dropped -/
def numericalJacobian {α : Type} [Inhabited α] (locals_ : List (String × α)) (xs : List String) (allSyms : List String) (hasAnalytic : Bool) (ana : α → List (String × α)) (J : Nat → Nat → List α → α) (t : α) (y : List α) : List (String × α) × (Nat → Nat → α) :=
  let dimension : Nat := y.length
  let dfdy : Nat → Nat → α := (fun _ _ => default)
  let locals_ : List (String × α) := (Glue.updateAll locals_ (xs.zip y))
  let locals_ :=
    if (hasAnalytic = true) then
      let locals_ : List (String × α) := (Glue.updateAll locals_ (ana t))
      locals_
    else
      locals_
  let y : List α := (allSyms.map (fun sym => Glue.get locals_ sym))
  let dfdy := numericalJacobian_for1 J y dimension (List.range dimension) dfdy
  (locals_, dfdy)

end OdeVerif.Generated
