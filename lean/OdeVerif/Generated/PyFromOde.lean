import OdeVerif.Model.PyPrelude
import OdeVerif.Model.Shapes
/-! GENERATED from /repo by harness/translate/py2lean.py -- do not edit.
Literal translation of the Python bodies named below; modelling decisions (types, renderings of
attribute accesses and external calls) are in harness/translate/specs.py. -/

set_option linter.unusedVariables false

namespace OdeVerif.Generated
open OdeVerif

-- source: odetoolbox/shapes.py :: Shape.from_ode
/-- `from_ode` -- what `from_ode` does with the result of the split: keep the factors of the shape's own symbols (positions `localIdx` = `[all_variable_symbols.index(sym) for sym in local_symbols]`), re-attach `factor * symbol` of every other position to the nonlinear part. Values in a structure `K`; `functools.reduce(+)` of a non-empty list is `Shapes.sumList` (0 + the sum) -/
def fromOdeReattach {K : Type} [Add K] [Mul K] [OfNat K 0] (derivative_factors : List K) (x : List K) (localIdx : List Nat) (inhom_term : K) (nonlin_term : K) : (List K × K × K) :=
  let local_symbols_idx : List Nat := localIdx
  let local_derivative_factors : List K := (local_symbols_idx.map (fun i => (derivative_factors.getD i 0)))
  let nonlocal_derivative_terms : List K := (((List.range x.length).filter (fun i => decide (¬ (i ∈ local_symbols_idx)))).map (fun i => ((derivative_factors.getD i 0) * (x.getD i 0))))
  let nonlin_term : K := (if nonlocal_derivative_terms ≠ [] then nonlin_term + (Shapes.sumList nonlocal_derivative_terms) else nonlin_term)
  (local_derivative_factors, inhom_term, nonlin_term)

end OdeVerif.Generated
