import OdeVerif.Model.PyPrelude
import OdeVerif.Model.Glue
/-! GENERATED from /repo by harness/translate/py2lean.py -- do not edit.
Literal translation of the Python bodies named below; modelling decisions (types, renderings of
attribute accesses and external calls) are in harness/translate/specs.py. -/

set_option linter.unusedVariables false

namespace OdeVerif.Generated
open OdeVerif

-- source: odetoolbox/sympy_helpers.py :: _find_in_matrix
/-- `for j in range(num_cols):` of `_find_in_matrix` (the body may return) -/
def findInMatrix_for2 {β : Type} [DecidableEq β] (A : (Nat → Nat → β)) (el : β) (i : Nat) : List Nat → Py.Flow (Option (Nat × Nat)) (Unit)
  | [] => Py.Flow.next ()
  | j :: rest__ =>
    if ((A i j) = el) then
      Py.Flow.ret ((some (i, j)))
    else
      findInMatrix_for2 A el i rest__

/-- `for i in range(num_rows):` of `_find_in_matrix` (the body may return) -/
def findInMatrix_for1 {β : Type} [DecidableEq β] (A : (Nat → Nat → β)) (el : β) (num_cols : Nat) : List Nat → Py.Flow (Option (Nat × Nat)) (Unit)
  | [] => Py.Flow.next ()
  | i :: rest__ =>
    match findInMatrix_for2 A el i (List.range num_cols) with
    | Py.Flow.ret r__ =>
      Py.Flow.ret (r__)
    | Py.Flow.next _ =>
      findInMatrix_for1 A el num_cols rest__

/-- `_find_in_matrix` -- a matrix is a function of two indices with its numbers of rows and columns; `==` on entries is decidable equality -/
def findInMatrix {β : Type} [DecidableEq β] (A : Nat → Nat → β) (rows : Nat) (cols : Nat) (el : β) : Option (Nat × Nat) :=
  let num_rows : Nat := rows
  let num_cols : Nat := cols
  match findInMatrix_for1 A el num_cols (List.range num_rows) with
  | Py.Flow.ret r__ =>
    r__
  | Py.Flow.next _ =>
    none

-- source: odetoolbox/system_of_shapes.py :: SystemOfShapes.get_lin_cc_symbols
/-- `for sym in all_shape_symbols:` of `get_lin_cc_symbols` -/
def getLinCcSymbols_for2 (_node_is_lin : Bool) : List Glue.Sym → List (Glue.Sym × Bool) → List (Glue.Sym × Bool)
  | [], node_is_lin => node_is_lin
  | sym :: rest__, node_is_lin =>
    let node_is_lin : List (Glue.Sym × Bool) := (Glue.assoc node_is_lin sym _node_is_lin)
    getLinCcSymbols_for2 _node_is_lin rest__ node_is_lin

/-- `for shape in self.shapes_:` of `get_lin_cc_symbols` -/
def getLinCcSymbols_for1  : List Glue.ShapeLin → Bool → List (Glue.Sym × Bool) → (Bool × List (Glue.Sym × Bool))
  | [], _node_is_lin, node_is_lin => (_node_is_lin, node_is_lin)
  | shape :: rest__, _node_is_lin, node_is_lin =>
    let _node_is_lin :=
      if (shape.lin = true) then
        let _node_is_lin : Bool := true
        _node_is_lin
      else
        let _node_is_lin : Bool := false
        _node_is_lin
    let all_shape_symbols : List Glue.Sym := ((List.range shape.order).map (fun k => (shape.symbol, k)))
    let node_is_lin := getLinCcSymbols_for2 _node_is_lin all_shape_symbols node_is_lin
    getLinCcSymbols_for1 rest__ _node_is_lin node_is_lin

/-- `get_lin_cc_symbols` -- a shape is seen through `Glue.ShapeLin` (its symbol, order and the verdict of `is_lin_const_coeff_in`: SymPy contract); the dictionary is an association list with Python's assignment semantics (`Glue.assoc`); `get_state_variables` is the list of (name, k), k < order (its own translation: Generated/PyInitialValues.lean, `shapeGetStateVariables`) -/
def getLinCcSymbols (shapes : List Glue.ShapeLin) : List (Glue.Sym × Bool) :=
  let _node_is_lin : Bool := false
  let node_is_lin : List (Glue.Sym × Bool) := []
  match (getLinCcSymbols_for1 shapes _node_is_lin node_is_lin) with
  | (_node_is_lin, node_is_lin) =>
    node_is_lin

-- source: odetoolbox/system_of_shapes.py :: SystemOfShapes.shape_order_from_system_matrix
/-- `for j in range(A.shape[1]):` of `shape_order_from_system_matrix` -/
def shapeOrderFromSystemMatrix_for2 (anz : (Nat → Nat → Bool)) (i : Nat) : List Nat → (Nat → Nat → Bool) → (Nat → Nat → Bool)
  | [], A => A
  | j :: rest__, A =>
    let A : Nat → Nat → Bool := (Py.update2 A i j (anz i j))
    shapeOrderFromSystemMatrix_for2 anz i rest__ A

/-- `for i in range(A.shape[0]):` of `shape_order_from_system_matrix` -/
def shapeOrderFromSystemMatrix_for1 (anz : (Nat → Nat → Bool)) (N : Nat) : List Nat → (Nat → Nat → Bool) → (Nat → Nat → Bool)
  | [], A => A
  | i :: rest__, A =>
    let A := shapeOrderFromSystemMatrix_for2 anz i (List.range N) A
    shapeOrderFromSystemMatrix_for1 anz N rest__ A

/-- `shape_order_from_system_matrix` -- `self.A_` is seen through its non-zero pattern `anz` (`not _is_zero(.)`: SymPy contract) and its size `n`; the integer matrix handed to SciPy is a Boolean function of two indices; `connected_components(A, connection='strong')[1]` is the parameter `sccLabels` (SciPy contract; the statement is pinned verbatim); `sum(scc == scc[idx])` is `Glue.sameLabelCount` -/
def shapeOrderFromSystemMatrix (anz : Nat → Nat → Bool) (n : Nat) (sccLabels : (Nat → Nat → Bool) → Nat → Nat) (idx : Nat) : Nat :=
  let N : Nat := n
  let A : Nat → Nat → Bool := (fun _ _ => false)
  let A := shapeOrderFromSystemMatrix_for1 anz N (List.range N) A
  let scc : Nat → Nat := (sccLabels A)
  let shape_order : Nat := (Glue.sameLabelCount scc N idx)
  shape_order

-- source: odetoolbox/system_of_shapes.py :: SystemOfShapes.get_connected_symbols
/-- `for j in range(A.shape[1]):` of `get_connected_symbols` -/
def getConnectedSymbols_for2 (anz : (Nat → Nat → Bool)) (i : Nat) : List Nat → (Nat → Nat → Bool) → (Nat → Nat → Bool)
  | [], A => A
  | j :: rest__, A =>
    let A : Nat → Nat → Bool := (Py.update2 A i j (anz i j))
    getConnectedSymbols_for2 anz i rest__ A

/-- `for i in range(A.shape[0]):` of `get_connected_symbols` -/
def getConnectedSymbols_for1 (anz : (Nat → Nat → Bool)) (N : Nat) : List Nat → (Nat → Nat → Bool) → (Nat → Nat → Bool)
  | [], A => A
  | i :: rest__, A =>
    let A := getConnectedSymbols_for2 anz i (List.range N) A
    getConnectedSymbols_for1 anz N rest__ A

/-- `get_connected_symbols` -- as above; state variables are identified with their positions in `x_`; `np.where(scc == scc[idx])[0]` is `Glue.sameLabel` -/
def getConnectedSymbols (anz : Nat → Nat → Bool) (n : Nat) (sccLabels : (Nat → Nat → Bool) → Nat → Nat) (idx : Nat) : List Nat :=
  let N : Nat := n
  let A : Nat → Nat → Bool := (fun _ _ => false)
  let A := getConnectedSymbols_for1 anz N (List.range N) A
  let scc : Nat → Nat := (sccLabels A)
  let idxs : List Nat := (Glue.sameLabel scc N idx)
  idxs

end OdeVerif.Generated
