/-! GENERATED from /repo/ode_analyzer.py -- do not edit. -/
namespace OdeVerif.Generated

/-- `argparser.add_argument(...)` calls: (name, action, nargs, default, type) as written -/
def cliArguments : List (String × String × String × String × String) := [
  ("infile", "", "", "", "str"),
  ("--disable-stiffness-check", "'store_true'", "", "", ""),
  ("--disable-analytic-solver", "'store_true'", "", "", ""),
  ("--preserve-expressions", "'store'", "'*'", "False", ""),
  ("--log-level", "'store'", "", "'WARN'", "")
]

/-- keyword arguments of the `odetoolbox.analysis` call and the expressions they are fed from -/
def cliApiKeywords : List (String × String) := [("disable_stiffness_check", "parsed_args.disable_stiffness_check"), ("disable_analytic_solver", "parsed_args.disable_analytic_solver"), ("preserve_expressions", "parsed_args.preserve_expressions"), ("log_level", "parsed_args.log_level")]

/-- the normalisation of `--preserve-expressions`, verbatim -/
def cliPreserveNormalisation : String := "if isinstance(parsed_args.preserve_expressions, Iterable) and len(parsed_args.preserve_expressions) == 0:\n    parsed_args.preserve_expressions = True"

/-- the statement computing the stem of the result file name, verbatim -/
def cliResultStem : String := "basename = os.path.splitext(os.path.basename(parsed_args.infile))[0]"

/-- the steps of the script in order, with the tests / handlers / exits they contain -/
def cliSteps : List String := [
  "make-parser",
  "parse-args",
  "normalise-preserve",
  "log",
  "log",
  "missing-file:not os.path.isfile(parsed_args.infile)|sys.exit(1)",
  "load-json:Exception|sys.exit(1)",
  "analysis:indict|MalformedInputException|sys.exit(1)",
  "result-stem",
  "result-name:'%s_result.json' % basename",
  "log",
  "write:open(outfname, 'w')|outfile.write(json.dumps(result, indent=2))"
]

end OdeVerif.Generated
