import OdeVerif.Model.PyPrelude
import OdeVerif.Model.Shapes
/-! GENERATED from /repo by harness/translate/py2lean.py -- do not edit.
Literal translation of the Python bodies named below; modelling decisions (types, renderings of
attribute accesses and external calls) are in harness/translate/specs.py. -/

set_option linter.unusedVariables false

namespace OdeVerif.Generated
open OdeVerif

-- source: odetoolbox/system_of_shapes.py :: SystemOfShapes.from_shapes
/-- `for order in range(shape.order - 1):` of `from_shapes` -/
def fromShapesRows_for2 {K : Type} [OfNat K 0] [OfNat K 1] [Inhabited K] (i : Nat) : List Nat → (Nat → Nat → K) → (Nat → Nat → K)
  | [], A => A
  | order :: rest__, A =>
    let A : Nat → Nat → K := (Py.update2 A ((i + order), ((i + order) + 1)).1 ((i + order), ((i + order) + 1)).2 1)
    fromShapesRows_for2 i rest__ A

/-- `for shape in shapes:` of `from_shapes` -/
def fromShapesRows_for1 {K : Type} [OfNat K 0] [OfNat K 1] [Inhabited K] : List (Shapes.ShapeRow K) → (Nat → Nat → K) → (Nat → K) → (Nat → K) → Nat → ((Nat → Nat → K) × (Nat → K) × (Nat → K) × Nat)
  | [], A, b, c, i => (A, b, c, i)
  | shape :: rest__, A, b, c, i =>
    let highest_diff_sym_idx : Nat := (i + shape.order - 1)
    let A : Nat → Nat → K := (Py.setRow A highest_diff_sym_idx shape.lin)
    let b : Nat → K := (Py.update b highest_diff_sym_idx shape.inhom)
    let c : Nat → K := (Py.update c highest_diff_sym_idx shape.nonlin)
    let A := fromShapesRows_for2 i (List.range (shape.order - 1)) A
    let i : Nat := (i + shape.order)
    fromShapesRows_for1 rest__ A b c i

/-- `from_shapes` -- the loop that fills `A`, `b`, `c`. A shape is seen as its order and the three results of splitting its reconstituted expression against the global `x` (`Shapes.ShapeRow`); `x` lists the shapes' state variables shape by shape in derivative order (the first loop of the function), so the position of a shape's highest derivative - found in the source by searching `x` for its name - is `i + shape.order - 1` (names are distinct); matrices are functions of indices, initially zero -/
def fromShapesRows {K : Type} [OfNat K 0] [OfNat K 1] [Inhabited K] (shapes : List (Shapes.ShapeRow K)) : ((Nat → Nat → K) × (Nat → K) × (Nat → K)) :=
  let A : Nat → Nat → K := (fun _ _ => 0)
  let b : Nat → K := (fun _ => 0)
  let c : Nat → K := (fun _ => 0)
  let i : Nat := 0
  match (fromShapesRows_for1 shapes A b c i) with
  | (A, b, c, i) =>
    (A, b, c)

end OdeVerif.Generated
