import OdeVerif.Model.PyPrelude
import OdeVerif.Model.Config
/-! GENERATED from /repo by harness/translate/py2lean.py -- do not edit.
Literal translation of the Python bodies named below; modelling decisions (types, renderings of
attribute accesses and external calls) are in harness/translate/specs.py. -/

set_option linter.unusedVariables false

namespace OdeVerif.Generated
open OdeVerif

-- source: odetoolbox/__init__.py :: _read_global_config
/-- `for (key, value) in indict['options'].items():` of `_read_global_config` -/
def readGlobalConfig_for1  : List (String × String) → Config.Store → (Config.Store × Bool)
  | [], store => (store, true)
  | (key, value) :: rest__, store =>
    if (store.hasKey key = true) then
      let store : Config.Store := (Config.Store.set store key value)
      readGlobalConfig_for1 rest__ store
    else
      (store, false)

/-- `_read_global_config` -- `Config.config` is the threaded `store`; a failing `assert` leaves with `(store, false)` -/
def readGlobalConfig (store : Config.Store) (options : Option (List (String × String))) : (Config.Store × Bool) :=
  if (options.isSome = true) then
    match readGlobalConfig_for1 (options.getD []) store with
    | (store, false) =>
      (store, false)
    | (store, true) =>
      (store, true)
  else
    (store, true)

end OdeVerif.Generated
