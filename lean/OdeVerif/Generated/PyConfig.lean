import OdeVerif.Model.PyPrelude
import OdeVerif.Model.Config
/-! GENERATED from /repo by harness/translate/py2lean.py -- do not edit.
Literal translation of the Python bodies named below; modelling decisions (types, renderings of
attribute accesses and external calls) are in harness/translate/specs.py. -/

set_option linter.unusedVariables false

namespace OdeVerif.Generated
open OdeVerif

-- source: odetoolbox/__init__.py :: _read_global_config
/-- `for (key, value) in indict['options'].items():` of `_read_global_config` -/
def readGlobalConfig_for1  : List (String × String) → Config.Store → Except Config.Store (Config.Store)
  | [], store => Except.ok store
  | (key, value) :: rest__, store =>
    if (store.hasKey key = true) then
      let store : Config.Store := (Config.Store.set store key value)
      readGlobalConfig_for1 rest__ store
    else
      Except.error store

/-- `_read_global_config` -- `Config.config` is the threaded `store`; a failing `assert` (unknown option key) leaves with `.error store`: the keys written before it stay written -/
def readGlobalConfig (store : Config.Store) (options : Option (List (String × String))) : Except Config.Store (Config.Store) :=
  if (options.isSome = true) then
    match readGlobalConfig_for1 (options.getD []) store with
    | Except.error e__ => Except.error e__
    | Except.ok store =>
      Except.ok store
  else
    Except.ok store

-- source: odetoolbox/__init__.py :: _analysis
/-- `_analysis` -- the option handling at the start of `_analysis`, in source order: `Config.reset()`, the early return for an input without `dynamics`, `_read_global_config` (an unknown key leaves with `.error store`), the `simplify_expression` argument (`None` or a non-empty string: `simplify`) -/
def analysisPrologue (store : Config.Store) (hasDynamics : Bool) (options : Option (List (String × String))) (simplify : Option String) : Except Config.Store (Config.Store × Config.Prologue) :=
  let store : Config.Store := Config.defaults
  if (hasDynamics = false) then
    Except.ok (store, Config.Prologue.empty)
  else
    match readGlobalConfig store options with
    | Except.error e__ => Except.error e__
    | Except.ok store =>
      let store : Config.Store := (match simplify with | some e => Config.Store.set store "simplify_expression" e | none => store)
      Except.ok (store, Config.Prologue.proceed)

end OdeVerif.Generated
