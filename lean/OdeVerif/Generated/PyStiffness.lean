import OdeVerif.Model.PyPrelude
import OdeVerif.Generated.DrawDecision
/-! GENERATED from /repo by harness/translate/py2lean.py -- do not edit.
Literal translation of the Python bodies named below; modelling decisions (types, renderings of
attribute accesses and external calls) are in harness/translate/specs.py. -/

set_option linter.unusedVariables false

namespace OdeVerif.Generated
open OdeVerif

-- source: odetoolbox/stiffness.py :: StiffnessTester.check_stiffness
-- dropped (raise-only) statements: assert PYGSL_AVAILABLE
/-- `check_stiffness` -- `self._evaluate_integrator(stepper, ...)` is the abstract benchmark `bench implicit?` (`false` = `odeiv.step_rk4`, `true` = `odeiv.step_bsimp`) returning (minimum step, average step) or failing with ParametersIncompleteException; the default ratios 10 and 6 of `_draw_decision` are passed explicitly (they are re-read from the source into `drawDecisionDefaults`) -/
def checkStiffness {α : Type} [Mul α] [LT α] [DecidableLT α] [OfNat α 10] [OfNat α 6] (eps : α) (bench : Bool → Except Unit (α × α)) : Except Unit (Option String) :=
  match (match bench false with
  | Except.error e__ => Except.error e__
  | Except.ok (step_min_exp, step_average_exp) =>
    match bench true with
    | Except.error e__ => Except.error e__
    | Except.ok (step_min_imp, step_average_imp) =>
      Except.ok (step_min_exp, step_average_exp, step_min_imp, step_average_imp)) with
  | Except.error _ =>
    Except.ok none
  | Except.ok (step_min_exp, step_average_exp, step_min_imp, step_average_imp) =>
    Except.ok (some (drawDecision eps step_min_imp step_min_exp step_average_imp step_average_exp 10 6))

end OdeVerif.Generated
