import OdeVerif.Model.PyPrelude
import OdeVerif.Model.Glue
/-! GENERATED from /repo by harness/translate/py2lean.py -- do not edit.
Literal translation of the Python bodies named below; modelling decisions (types, renderings of
attribute accesses and external calls) are in harness/translate/specs.py. -/

set_option linter.unusedVariables false

namespace OdeVerif.Generated
open OdeVerif

-- source: odetoolbox/__init__.py :: _get_all_first_order_variables
/-- `for expr in exprs:` of `_get_all_first_order_variables` -/
def getAllFirstOrderVariables_for2 (parse : Glue.Parse) : List String → List String → List String
  | [], variable_names => variable_names
  | expr :: rest__, variable_names =>
    let name : String := (parse expr).1
    let order : Nat := (parse expr).2.1
    let variable_names :=
      if (order = 1) then
        let variable_names : List String := (variable_names ++ [name])
        variable_names
      else
        variable_names
    getAllFirstOrderVariables_for2 parse rest__ variable_names

/-- `for dyn in indict['dynamics']:` of `_get_all_first_order_variables` -/
def getAllFirstOrderVariables_for1 (parse : Glue.Parse) : List Glue.Dyn → List String → List String → (List String × List String)
  | [], exprs, variable_names => (exprs, variable_names)
  | dyn :: rest__, exprs, variable_names =>
    let exprs :=
      if (dyn.hasExpression = true) then
        let exprs : List String := [dyn.expression]
        exprs
      else
        let exprs :=
          if (dyn.hasExpressions = true) then
            let exprs : List String := dyn.expressions
            exprs
          else
            exprs
        exprs
    let variable_names := getAllFirstOrderVariables_for2 parse exprs variable_names
    getAllFirstOrderVariables_for1 parse rest__ exprs variable_names

/-- `_get_all_first_order_variables` -- `indict['dynamics']` is a list of `Glue.Dyn` (which of the two keys an entry has, and their values); `Shape._parse_defining_expression` is the parameter `parse` (it has succeeded on every expression before: `Shape.from_json`); `exprs` starts as `[]` (Python: unbound -- an entry with neither key is rejected by `Shape.from_json` before) -/
def getAllFirstOrderVariables (parse : Glue.Parse) (dyn__ : List Glue.Dyn) : List String :=
  let exprs : List String := []
  let variable_names : List String := []
  match (getAllFirstOrderVariables_for1 parse dyn__ exprs variable_names) with
  | (exprs, variable_names) =>
    variable_names

-- source: odetoolbox/__init__.py :: _find_variable_definition
/-- `for expr in exprs:` of `_find_variable_definition` (the body may return) -/
def findVariableDefinition_for2 (parse : Glue.Parse) (name : String) (order : Nat) : List String → Py.Flow (Option String) (Unit)
  | [] => Py.Flow.next ()
  | expr :: rest__ =>
    let name_ : String := (parse expr).1
    let order_ : Nat := (parse expr).2.1
    let rhs : String := (parse expr).2.2
    if ((name_ = name) ∧ (order_ = order)) then
      Py.Flow.ret ((some rhs))
    else
      findVariableDefinition_for2 parse name order rest__

/-- `for dyn in indict['dynamics']:` of `_find_variable_definition` (the body may return) -/
def findVariableDefinition_for1 (parse : Glue.Parse) (name : String) (order : Nat) : List Glue.Dyn → List String → Py.Flow (Option String) (List String)
  | [], exprs => Py.Flow.next exprs
  | dyn :: rest__, exprs =>
    let exprs :=
      if (dyn.hasExpression = true) then
        let exprs : List String := [dyn.expression]
        exprs
      else
        let exprs :=
          if (dyn.hasExpressions = true) then
            let exprs : List String := dyn.expressions
            exprs
          else
            exprs
        exprs
    match findVariableDefinition_for2 parse name order exprs with
    | Py.Flow.ret r__ =>
      Py.Flow.ret (r__)
    | Py.Flow.next _ =>
      findVariableDefinition_for1 parse name order rest__ exprs

/-- `_find_variable_definition` -- as above; the result is Optional[str] -/
def findVariableDefinition (parse : Glue.Parse) (dyn__ : List Glue.Dyn) (name : String) (order : Nat) : Option String :=
  let exprs : List String := []
  match findVariableDefinition_for1 parse name order dyn__ exprs with
  | Py.Flow.ret r__ =>
    r__
  | Py.Flow.next exprs =>
    none

-- source: odetoolbox/__init__.py :: _analysis
-- dropped (raise-only) statements: if 'propagators' in solver_json.keys(): ... | if 'propagators' in solver_json.keys(): ... | if 'propagators' in solver_json.keys(): ... | if 'propagators' in solver_json.keys(): ...
/-- `for (sym, expr) in solver_json['update_expressions'].items():` of `_analysis` -/
def preserveBlock_for2 (parse : Glue.Parse) (repl : (String → String)) (dyn__ : List Glue.Dyn) (plist : List String) (solver_json : Glue.SolverP) : List (String × Unit) → List (Nat × String × Option String) → Except Glue.PErr (List (Nat × String × Option String))
  | [], out => Except.ok out
  | (sym, expr) :: rest__, out =>
    let out : List (Nat × String × Option String) := (out ++ [(solver_json.id, sym, none)])
    if (plist ≠ [] ∧ sym ∈ plist) then
      if (solver_json.analytic = true) then
        preserveBlock_for2 parse repl dyn__ plist solver_json rest__ out
      else
        let var_def_str : Option String := (findVariableDefinition parse dyn__ sym 1)
        if (var_def_str.isSome = true) then
          let out : List (Nat × String × Option String) := (Glue.setLast out (solver_json.id, sym, var_def_str.map repl))
          preserveBlock_for2 parse repl dyn__ plist solver_json rest__ out
        else
          Except.error Glue.PErr.assertFailed
    else
      preserveBlock_for2 parse repl dyn__ plist solver_json rest__ out

/-- `for solver_json in solvers_json:` of `_analysis` -/
def preserveBlock_for1 (parse : Glue.Parse) (repl : (String → String)) (dyn__ : List Glue.Dyn) (plist : List String) : List Glue.SolverP → List (Nat × String × Option String) → Except Glue.PErr (List (Nat × String × Option String))
  | [], out => Except.ok out
  | solver_json :: rest__, out =>
    if (solver_json.hasUpdate = true) then
      match preserveBlock_for2 parse repl dyn__ plist solver_json (solver_json.update.map (fun s => (s, ()))) out with
      | Except.error e__ => Except.error e__
      | Except.ok out =>
        preserveBlock_for1 parse repl dyn__ plist rest__ out
    else
      preserveBlock_for1 parse repl dyn__ plist rest__ out

/-- `for preserve_expressions_var in preserve_expressions:` of `_analysis` -/
def preserveBlock_for3 (first_order_vars : List String) : List String → Except Glue.PErr (Unit)
  | [] => Except.ok ()
  | preserve_expressions_var :: rest__ =>
    if (¬ (preserve_expressions_var ∈ first_order_vars)) then
      Except.error Glue.PErr.notFirstOrder
    else
      preserveBlock_for3 first_order_vars rest__

/-- `for (sym, expr) in solver_json['update_expressions'].items():` of `_analysis` -/
def preserveBlock_for5 (parse : Glue.Parse) (repl : (String → String)) (dyn__ : List Glue.Dyn) (plist : List String) (solver_json : Glue.SolverP) : List (String × Unit) → List (Nat × String × Option String) → Except Glue.PErr (List (Nat × String × Option String))
  | [], out => Except.ok out
  | (sym, expr) :: rest__, out =>
    let out : List (Nat × String × Option String) := (out ++ [(solver_json.id, sym, none)])
    if (plist ≠ [] ∧ sym ∈ plist) then
      if (solver_json.analytic = true) then
        preserveBlock_for5 parse repl dyn__ plist solver_json rest__ out
      else
        let var_def_str : Option String := (findVariableDefinition parse dyn__ sym 1)
        if (var_def_str.isSome = true) then
          let out : List (Nat × String × Option String) := (Glue.setLast out (solver_json.id, sym, var_def_str.map repl))
          preserveBlock_for5 parse repl dyn__ plist solver_json rest__ out
        else
          Except.error Glue.PErr.assertFailed
    else
      preserveBlock_for5 parse repl dyn__ plist solver_json rest__ out

/-- `for solver_json in solvers_json:` of `_analysis` -/
def preserveBlock_for4 (parse : Glue.Parse) (repl : (String → String)) (dyn__ : List Glue.Dyn) (plist : List String) : List Glue.SolverP → List (Nat × String × Option String) → Except Glue.PErr (List (Nat × String × Option String))
  | [], out => Except.ok out
  | solver_json :: rest__, out =>
    if (solver_json.hasUpdate = true) then
      match preserveBlock_for5 parse repl dyn__ plist solver_json (solver_json.update.map (fun s => (s, ()))) out with
      | Except.error e__ => Except.error e__
      | Except.ok out =>
        preserveBlock_for4 parse repl dyn__ plist rest__ out
    else
      preserveBlock_for4 parse repl dyn__ plist rest__ out

/-- `_analysis` -- the `preserve_expressions` block only. The argument is a `Glue.PArg` (a bool, a list of names, or anything else); the names to preserve are kept in the separate variable `plist` (Python re-uses `preserve_expressions`); a solver dictionary is seen through `Glue.SolverP`; the result lists, per key of every `update_expressions` in order, `none` (the solver's own expression, converted with `str`) or `some text` (the user's right-hand side with `'` replaced by the differential-order symbol: `repl`); the conversion of the propagators to strings is skipped -/
def preserveBlock (parse : Glue.Parse) (repl : String → String) (dyn__ : List Glue.Dyn) (preserve_expressions : Glue.PArg) (solvers_json : List Glue.SolverP) : Except Glue.PErr (List (Nat × String × Option String)) :=
  let plist : List String := preserve_expressions.list
  let out : List (Nat × String × Option String) := []
  if (preserve_expressions.isBool = true) then
    let plist :=
      if (preserve_expressions.truth = true) then
        let plist : List String := (getAllFirstOrderVariables parse dyn__)
        plist
      else
        let plist : List String := []
        plist
    match preserveBlock_for1 parse repl dyn__ plist solvers_json out with
    | Except.error e__ => Except.error e__
    | Except.ok out =>
      Except.ok out
  else
    if (preserve_expressions.isIterable = true) then
      let first_order_vars : List String := (getAllFirstOrderVariables parse dyn__)
      match preserveBlock_for3 first_order_vars plist with
      | Except.error e__ => Except.error e__
      | Except.ok _ =>
        match preserveBlock_for4 parse repl dyn__ plist solvers_json out with
        | Except.error e__ => Except.error e__
        | Except.ok out =>
          Except.ok out
    else
      Except.error Glue.PErr.badArgument

end OdeVerif.Generated
