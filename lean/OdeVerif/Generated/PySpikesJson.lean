import OdeVerif.Model.PyPrelude
import OdeVerif.Model.Spikes
/-! GENERATED from /repo by harness/translate/py2lean.py -- do not edit.
Literal translation of the Python bodies named below; modelling decisions (types, renderings of
attribute accesses and external calls) are in harness/translate/specs.py. -/

set_option linter.unusedVariables false

namespace OdeVerif.Generated
open OdeVerif

-- source: odetoolbox/spike_generator.py :: SpikeGenerator.spike_times_from_json
-- dropped (raise-only) statements: assert type(sym) is str | assert False, 'Unknown stimulus type: "' + str(stimulus['type']) + '"'
/-- `for sym in dict.fromkeys(stimulus['variables']):` of `spike_times_from_json` -/
def spikeTimesFromJson_for2 {α : Type} [LE α] [DecidableLE α] (marker : List Char) (sim_time : α) (stimulus : Spikes.Stim α) : List (List Char) → Spikes.Trains α → Spikes.Trains α
  | [], spike_times => spike_times
  | sym :: rest__, spike_times =>
    let sym : List Char := (Spikes.rewritePrimes marker sym)
    let spike_times :=
      if ((Spikes.lookup spike_times sym).isNone = true) then
        let spike_times : Spikes.Trains α := (Spikes.setKey spike_times sym [])
        spike_times
      else
        spike_times
    let spike_times :=
      if (stimulus.type = "poisson_generator") then
        let spike_times : Spikes.Trains α := (Spikes.setKey spike_times sym (((Spikes.lookup spike_times sym).getD []) ++ (stimulus.poissonTrain sym)))
        spike_times
      else
        let spike_times :=
          if (stimulus.type = "regular") then
            let spike_times : Spikes.Trains α := (Spikes.setKey spike_times sym (((Spikes.lookup spike_times sym).getD []) ++ (stimulus.regularTrain sym)))
            spike_times
          else
            let spike_times :=
              if (stimulus.type = "list") then
                let spikes : List α := stimulus.listRaw
                let spikes : List α := (Spikes.sortAsc (spikes.filter (fun t_sp => decide (t_sp ≤ sim_time))))
                let spike_times : Spikes.Trains α := (Spikes.setKey spike_times sym (((Spikes.lookup spike_times sym).getD []) ++ spikes))
                spike_times
              else
                spike_times
            spike_times
        spike_times
    spikeTimesFromJson_for2 marker sim_time stimulus rest__ spike_times

/-- `for stimulus in stimuli:` of `spike_times_from_json` -/
def spikeTimesFromJson_for1 {α : Type} [LE α] [DecidableLE α] (marker : List Char) (sim_time : α) : List (Spikes.Stim α) → Spikes.Trains α → Spikes.Trains α
  | [], spike_times => spike_times
  | stimulus :: rest__, spike_times =>
    let spike_times := spikeTimesFromJson_for2 marker sim_time stimulus (Spikes.distinct stimulus.variables) spike_times
    spikeTimesFromJson_for1 marker sim_time rest__ spike_times

/-- `spike_times_from_json` -- the dict `spike_times` is an association list in insertion order; the trains returned by the two generator calls and the numbers `np.loadtxt` parsed are fields of the stimulus record; the filter `<= sim_time` and the sort are translated -/
def spikeTimesFromJson {α : Type} [LE α] [DecidableLE α] (marker : List Char) (sim_time : α) (stimuli : List (Spikes.Stim α)) : Spikes.Trains α :=
  let spike_times : Spikes.Trains α := []
  let spike_times := spikeTimesFromJson_for1 marker sim_time stimuli spike_times
  spike_times

end OdeVerif.Generated
