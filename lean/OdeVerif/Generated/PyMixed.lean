import OdeVerif.Model.PyPrelude
import OdeVerif.Model.MixedIntegrator
import OdeVerif.Model.AnalyticIntegrator
/-! GENERATED from /repo by harness/translate/py2lean.py -- do not edit.
Literal translation of the Python bodies named below; modelling decisions (types, renderings of
attribute accesses and external calls) are in harness/translate/specs.py. -/

set_option linter.unusedVariables false

namespace OdeVerif.Generated
open OdeVerif

-- source: odetoolbox/mixed_integrator.py :: MixedIntegrator.integrate_ode
-- dropped (raise-only) statements: except-handlers that only re-raise: FloatingPointError
/-- `for shape in self._shapes:` of `integrate_ode` -/
def integrateOde_for3 {α : Type} [Add α] [Sub α] [LT α] [LE α] [DecidableLT α] [DecidableLE α] [Inhabited α] [OfNat α 0] (c : MI.Cfg α) : List (MI.ShapeB α) → Bool → List α → (Bool × List α)
  | [], upper_bound_crossed, y => (upper_bound_crossed, y)
  | shape :: rest__, upper_bound_crossed, y =>
    match (if (shape.ub.isSome = true) then
      let idx : Nat := shape.idx
      let upper_bound_numeric : α := MI.optVal shape.ub
      match (if ((MI.getY y idx) > upper_bound_numeric) then
        let upper_bound_crossed : Bool := true
        let y : List α := (y.set idx (MI.getY c.y0 shape.idx))
        (upper_bound_crossed, y)
      else
        (upper_bound_crossed, y)) with
      | (upper_bound_crossed, y) =>
        (upper_bound_crossed, y)
    else
      (upper_bound_crossed, y)) with
    | (upper_bound_crossed, y) =>
      let y :=
        if (shape.lb.isSome = true) then
          let idx : Nat := shape.idx
          let lower_bound_numeric : α := MI.optVal shape.lb
          let y :=
            if ((MI.getY y idx) < lower_bound_numeric) then
              let y : List α := (y.set idx (MI.getY c.y0 shape.idx))
              y
            else
              y
          y
        else
          y
      integrateOde_for3 c rest__ upper_bound_crossed y

/-- `while t < t_target:` of `integrate_ode` (fuel = maximal number of iterations) -/
def integrateOde_while2 {α : Type} [Add α] [Sub α] [LT α] [LE α] [DecidableLT α] [DecidableLE α] [Inhabited α] [OfNat α 0] (c : MI.Cfg α) (debug : Bool) (hasAnalytic : Bool) (t_target : α) : Nat → List (AI.Op α) → α → List α → List α → List α → List (List α) → α → α → Nat → Bool → Option (List (AI.Op α) × α × List α × List α × List α × List (List α) × α × α × Nat × Bool)
  | 0, _, _, _, _, _, _, _, _, _, _ => none
  | fuel + 1, ai_log, t, y, t_log, h_log, y_closed, h_min, h_sum, n_timesteps_taken, upper_bound_crossed =>
    if (t < t_target) then
      let t_target_requested : α := (MI.pyMin (t + c.maxStep) t_target)
      let h_requested : α := (t_target_requested - t)
      let ai_log :=
        if (hasAnalytic = true) then
          let ai_log : List (AI.Op α) := (ai_log ++ [AI.Op.disableUpdate])
          ai_log
        else
          ai_log
      let r__ : (α × α × List α) := c.apply t t_target_requested h_requested y
      let y_prev : List α := y
      let t : α := r__.1
      let h_suggested : α := r__.2.1
      let y : List α := r__.2.2
      let ai_log :=
        if (hasAnalytic = true) then
          let ai_log : List (AI.Op α) := (ai_log ++ [AI.Op.enableUpdate])
          let ai_log : List (AI.Op α) := (ai_log ++ [AI.Op.get t])
          ai_log
        else
          ai_log
      match (if debug then
        let t_log : List α := (t_log ++ [t])
        let h_log : List α := (h_log ++ [h_suggested])
        let y_closed : List (List α) := (y_closed ++ [y_prev])
        (t_log, h_log, y_closed)
      else
        (t_log, h_log, y_closed)) with
      | (t_log, h_log, y_closed) =>
        let h_min :=
          if (h_suggested < h_requested) then
            let h_min : α := (MI.pyMin h_min h_suggested)
            h_min
          else
            h_min
        let h_sum : α := (h_sum + h_suggested)
        let n_timesteps_taken : Nat := (n_timesteps_taken + 1)
        match (integrateOde_for3 c (MI.shapeBounds c) upper_bound_crossed y) with
        | (upper_bound_crossed, y) =>
          integrateOde_while2 c debug hasAnalytic t_target fuel ai_log t y t_log h_log y_closed h_min h_sum n_timesteps_taken upper_bound_crossed
    else some (ai_log, t, y, t_log, h_log, y_closed, h_min, h_sum, n_timesteps_taken, upper_bound_crossed)

/-- `for sym in syms_next_spike:` of `integrate_ode` -/
def integrateOde_for5 {α : Type} [Add α] [Sub α] [LT α] [LE α] [DecidableLT α] [DecidableLE α] [Inhabited α] [OfNat α 0] (c : MI.Cfg α) : List Nat → List α → List α
  | [], y => y
  | sym :: rest__, y =>
    let y :=
      if (sym < y.length) then
        let idx : Nat := sym
        let y : List α := (y.set idx ((MI.getY y idx) + (MI.getY c.inc sym)))
        y
      else
        y
    integrateOde_for5 c rest__ y

/-- `while t_next_spike <= t:` of `integrate_ode` (fuel = maximal number of iterations) -/
def integrateOde_while4 {α : Type} [Add α] [Sub α] [LT α] [LE α] [DecidableLT α] [DecidableLE α] [Inhabited α] [OfNat α 0] (c : MI.Cfg α) (inf : α) (t : α) : Nat → List Nat → List α → Nat → α → Option (List Nat × List α × Nat × α)
  | 0, _, _, _, _ => none
  | fuel + 1, syms_next_spike, y, idx_next_spike, t_next_spike =>
    if (t_next_spike ≤ t) then
      let syms_next_spike : List Nat := (MI.spikeSymsAt c idx_next_spike)
      let y := integrateOde_for5 c syms_next_spike y
      let idx_next_spike : Nat := (idx_next_spike + 1)
      let t_next_spike :=
        if (idx_next_spike < c.spikes.length) then
          let t_next_spike : α := (MI.spikeTimeAt c idx_next_spike)
          t_next_spike
        else
          let t_next_spike : α := inf
          t_next_spike
      integrateOde_while4 c inf t fuel syms_next_spike y idx_next_spike t_next_spike
    else some (syms_next_spike, y, idx_next_spike, t_next_spike)

/-- `for sym in syms_next_spike:` of `integrate_ode` -/
def integrateOde_for6 {α : Type} [Add α] [Sub α] [LT α] [LE α] [DecidableLT α] [DecidableLE α] [Inhabited α] [OfNat α 0] (c : MI.Cfg α) : List Nat → List α → List α
  | [], y => y
  | sym :: rest__, y =>
    let y :=
      if (sym < y.length) then
        let idx : Nat := sym
        let y : List α := (y.set idx ((MI.getY y idx) + (MI.getY c.inc sym)))
        y
      else
        y
    integrateOde_for6 c rest__ y

/-- `while t < self.sim_time:` of `integrate_ode` (fuel = maximal number of iterations) -/
def integrateOde_while1 {α : Type} [Add α] [Sub α] [LT α] [LE α] [DecidableLT α] [DecidableLE α] [Inhabited α] [OfNat α 0] (c : MI.Cfg α) (inf : α) (debug : Bool) (hasAnalytic : Bool) : Nat → α → List Nat → Nat → List (AI.Op α) → α → List α → List α → List α → List (List α) → α → α → Nat → Bool → α → Option (α × List Nat × Nat × List (AI.Op α) × α × List α × List α × List α × List (List α) × α × α × Nat × Bool × α)
  | 0, _, _, _, _, _, _, _, _, _, _, _, _, _, _ => none
  | fuel + 1, t_target, syms_next_spike, idx_next_spike, ai_log, t, y, t_log, h_log, y_closed, h_min, h_sum, n_timesteps_taken, upper_bound_crossed, t_next_spike =>
    if (t < c.simTime) then
      match (if c.aliasSpikes then
        let t_target : α := (MI.pyMin (t + c.maxStep) c.simTime)
        (t_target, syms_next_spike, idx_next_spike)
      else
        match (if (idx_next_spike ≥ c.spikes.length) then
          let t_target : α := c.simTime
          let syms_next_spike : List Nat := []
          (t_target, syms_next_spike)
        else
          let t_target : α := (MI.spikeTimeAt c idx_next_spike)
          match (if (t_target ≥ c.simTime) then
            let t_target : α := c.simTime
            let syms_next_spike : List Nat := []
            (t_target, syms_next_spike)
          else
            let syms_next_spike : List Nat := (MI.spikeSymsAt c idx_next_spike)
            (t_target, syms_next_spike)) with
          | (t_target, syms_next_spike) =>
            (t_target, syms_next_spike)) with
        | (t_target, syms_next_spike) =>
          let idx_next_spike : Nat := (idx_next_spike + 1)
          (t_target, syms_next_spike, idx_next_spike)) with
      | (t_target, syms_next_spike, idx_next_spike) =>
        match integrateOde_while2 c debug hasAnalytic t_target fuel ai_log t y t_log h_log y_closed h_min h_sum n_timesteps_taken upper_bound_crossed with
        | none => none
        | some (ai_log, t, y, t_log, h_log, y_closed, h_min, h_sum, n_timesteps_taken, upper_bound_crossed) =>
          let ai_log :=
            if (hasAnalytic = true) then
              let ai_log : List (AI.Op α) := (ai_log ++ [AI.Op.get t])
              ai_log
            else
              ai_log
          if c.aliasSpikes then
            let t_next_spike :=
              if (idx_next_spike < c.spikes.length) then
                let t_next_spike : α := (MI.spikeTimeAt c idx_next_spike)
                t_next_spike
              else
                let t_next_spike : α := inf
                t_next_spike
            match integrateOde_while4 c inf t fuel syms_next_spike y idx_next_spike t_next_spike with
            | none => none
            | some (syms_next_spike, y, idx_next_spike, t_next_spike) =>
              integrateOde_while1 c inf debug hasAnalytic fuel t_target syms_next_spike idx_next_spike ai_log t y t_log h_log y_closed h_min h_sum n_timesteps_taken upper_bound_crossed t_next_spike
          else
            let y := integrateOde_for6 c syms_next_spike y
            integrateOde_while1 c inf debug hasAnalytic fuel t_target syms_next_spike idx_next_spike ai_log t y t_log h_log y_closed h_min h_sum n_timesteps_taken upper_bound_crossed t_next_spike
    else some (t_target, syms_next_spike, idx_next_spike, ai_log, t, y, t_log, h_log, y_closed, h_min, h_sum, n_timesteps_taken, upper_bound_crossed, t_next_spike)

/-- `integrate_ode` -- the main loop (`h_min = np.inf` ... end of `while t < self.sim_time`). `evolve.apply` is `c.apply`; spike symbols are positions of `y` (symbols that are not integrated numerically never enter); `self._shapes` is `MI.shapeBounds c`; the calls on the analytic integrator are recorded as the op list `ai_log`; NumPy aliasing of the logged array: `y_log` is `y_closed ++ [y]` - the entry appended after a step is the array that the bound resets and spike increments then modify in place, so an entry is closed when `evolve.apply` rebinds `y` -/
def integrateOde {α : Type} [Add α] [Sub α] [LT α] [LE α] [DecidableLT α] [DecidableLE α] [Inhabited α] [OfNat α 0] (fuel : Nat) (c : MI.Cfg α) (inf : α) (debug : Bool) (hasAnalytic : Bool) (y : List α) (t_log : List α) (h_log : List α) (y_closed : List (List α)) (upper_bound_crossed : Bool) (ai_log : List (AI.Op α)) : Option ((α × List α × Nat × List α × List (List α) × List α × Bool × α × α × Nat × List (AI.Op α))) :=
  let t_target : α := 0
  let syms_next_spike : List Nat := []
  let t_next_spike : α := 0
  let h_min : α := inf
  let h_sum : α := 0
  let n_timesteps_taken : Nat := 0
  let t : α := 0
  let idx_next_spike : Nat := 0
  match integrateOde_while1 c inf debug hasAnalytic fuel t_target syms_next_spike idx_next_spike ai_log t y t_log h_log y_closed h_min h_sum n_timesteps_taken upper_bound_crossed t_next_spike with
  | none => none
  | some (t_target, syms_next_spike, idx_next_spike, ai_log, t, y, t_log, h_log, y_closed, h_min, h_sum, n_timesteps_taken, upper_bound_crossed, t_next_spike) =>
    some (t, y, idx_next_spike, t_log, y_closed, h_log, upper_bound_crossed, h_min, h_sum, n_timesteps_taken, ai_log)

end OdeVerif.Generated
