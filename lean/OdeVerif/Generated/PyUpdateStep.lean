import OdeVerif.Model.PyPrelude
import OdeVerif.Model.Glue
/-! GENERATED from /repo by harness/translate/py2lean.py -- do not edit.
Literal translation of the Python bodies named below; modelling decisions (types, renderings of
attribute accesses and external calls) are in harness/translate/specs.py. -/

set_option linter.unusedVariables false

namespace OdeVerif.Generated
open OdeVerif

-- source: odetoolbox/analytic_integrator.py :: AnalyticIntegrator._update_step
/-- `for (state_variable, expr) in self.update_expressions.items():` of `_update_step` -/
def updateStep_for1 {α : Type} [Inhabited α] (f : (String → List α → α)) (y : List α) : List (String × Unit) → List (String × α) → List (String × α)
  | [], new_state => new_state
  | (state_variable, expr) :: rest__, new_state =>
    let new_state : List (String × α) := (Glue.assoc new_state state_variable (f state_variable y))
    updateStep_for1 f y rest__ new_state

/-- `_update_step` -- states are association lists (dictionary order matters to nobody but is kept); `allSyms` are the names of `all_variable_symbols`, `updKeys` the keys of `update_expressions` in order; the compiled update expressions are `f name args` -/
def updateStep {α : Type} [Inhabited α] (allSyms : List String) (updKeys : List String) (f : String → List α → α) (delta_t : α) (initial_values : List (String × α)) : List (String × α) :=
  let new_state : List (String × α) := []
  let y : List α := (delta_t :: allSyms.map (fun sym => Glue.get initial_values sym))
  let new_state := updateStep_for1 f y (updKeys.map (fun k => (k, ()))) new_state
  new_state

end OdeVerif.Generated
