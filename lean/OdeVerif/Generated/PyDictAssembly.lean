import OdeVerif.Model.PyPrelude
/-! GENERATED from /repo by harness/translate/py2lean.py -- do not edit.
Literal translation of the Python bodies named below; modelling decisions (types, renderings of
attribute accesses and external calls) are in harness/translate/specs.py. -/

set_option linter.unusedVariables false

namespace OdeVerif.Generated
open OdeVerif

-- source: odetoolbox/system_of_shapes.py :: SystemOfShapes.generate_numeric_solver
/-- `generate_numeric_solver` -- the returned dictionary as the triple (update_expressions, state_variables, initial_values); `reconstitute_expr(...)` is the parameter `reconstitute` (its own translation: Generated/PyNumeric.lean), `str(self.get_initial_value(sym))` is `getIv sym` (Generated/PyInitialValues.lean) -/
def generateNumericSolver {β γ : Type} (x : List String) (getIv : String → β) (reconstitute : γ) : γ × List String × List (String × β) :=
  let update_expr : γ := reconstitute
  let all_state_symbols : List String := x
  let initial_values : List (String × β) := (all_state_symbols.map (fun sym => (sym, getIv sym)))
  let solver_dict : γ × List String × List (String × β) := (update_expr, all_state_symbols, initial_values)
  solver_dict

-- source: odetoolbox/system_of_shapes.py :: SystemOfShapes.generate_propagator_solver
/-- `generate_propagator_solver` -- the assembly of the returned dictionary only (the loop before it: Generated/PyPropagator.lean) -/
def propagatorSolverDict {β γ δ : Type} (x : List String) (getIv : String → β) (P_expr : δ) (update_expr : γ) : δ × γ × List String × List (String × β) :=
  let all_state_symbols : List String := x
  let initial_values : List (String × β) := (all_state_symbols.map (fun sym => (sym, getIv sym)))
  let solver_dict : δ × γ × List String × List (String × β) := (P_expr, update_expr, all_state_symbols, initial_values)
  solver_dict

end OdeVerif.Generated
