/-
Helper lemmas on the matrix exponential flow  P(h) = exp(h • A)  over ℝ (Mathlib).
-/
import Mathlib.Analysis.Normed.Algebra.MatrixExponential
import Mathlib.Analysis.SpecialFunctions.Exponential
import Mathlib.Topology.Algebra.Module.FiniteDimension
import Mathlib.Analysis.Calculus.Deriv.Comp
import Mathlib.Analysis.Calculus.Deriv.Mul
import Mathlib.Analysis.Calculus.MeanValue
import Mathlib.Analysis.Calculus.Deriv.Prod
import Mathlib.Analysis.Calculus.Deriv.Add

open Matrix NormedSpace
open scoped Matrix.Norms.Operator

namespace OdeVerif.MatrixFlow

variable {n : Type} [Fintype n] [DecidableEq n]

/-- the propagator matrix for step `h` -/
noncomputable def P (A : Matrix n n ℝ) (h : ℝ) : Matrix n n ℝ := exp (h • A)

theorem P_zero (A : Matrix n n ℝ) : P A 0 = 1 := by simp [P]

theorem P_add (A : Matrix n n ℝ) (s t : ℝ) : P A (s + t) = P A s * P A t := by
  unfold P
  rw [add_smul]
  exact Matrix.exp_add_of_commute _ _ ((Commute.refl A).smul_left s |>.smul_right t)

theorem hasDerivAt_P (A : Matrix n n ℝ) (h : ℝ) : HasDerivAt (fun t => P A t) (P A h * A) h := by
  unfold P
  exact hasDerivAt_exp_smul_const A h

theorem hasDerivAt_P' (A : Matrix n n ℝ) (h : ℝ) : HasDerivAt (fun t => P A t) (A * P A h) h := by
  unfold P
  exact hasDerivAt_exp_smul_const' A h

/-- (M, v) ↦ M *ᵥ v is bilinear & continuous: derivative of t ↦ M t *ᵥ v t -/
theorem hasDerivAt_mulVec {M : ℝ → Matrix n n ℝ} {v : ℝ → n → ℝ} {M' : Matrix n n ℝ} {v' : n → ℝ} {t : ℝ}
    (hM : HasDerivAt M M' t) (hv : HasDerivAt v v' t) :
    HasDerivAt (fun s => M s *ᵥ v s) (M' *ᵥ v t + M t *ᵥ v') t := by
  rw [hasDerivAt_pi]
  intro i
  have hMi : ∀ j, HasDerivAt (fun s => M s i j) (M' i j) t := by
    intro j
    have := (hasDerivAt_pi.1 ((hasDerivAt_pi.1 hM) i)) j
    simpa using this
  have hvj : ∀ j, HasDerivAt (fun s => v s j) (v' j) t := fun j => (hasDerivAt_pi.1 hv) j
  have : HasDerivAt (fun s => ∑ j, M s i j * v s j) (∑ j, (M' i j * v t j + M t i j * v' j)) t := by
    apply HasDerivAt.fun_sum
    intro j _
    exact (hMi j).mul (hvj j)
  simpa [Matrix.mulVec, dotProduct, Finset.sum_add_distrib] using this

/-- entries of the propagator are differentiable, with derivative the entry of `A * P` -/
theorem hasDerivAt_P_entry (A : Matrix n n ℝ) (h : ℝ) (i j : n) :
    HasDerivAt (fun t => P A t i j) ((A * P A h) i j) h := by
  have := hasDerivAt_P' A h
  have := (hasDerivAt_pi.1 ((hasDerivAt_pi.1 this) i)) j
  simpa using this

/-- uniqueness: any solution of F' = A F is the exponential flow -/
theorem flow_unique (A : Matrix n n ℝ) (F : ℝ → n → ℝ)
    (hF : ∀ t, HasDerivAt F (A *ᵥ F t) t) (T : ℝ) : F T = P A T *ᵥ F 0 := by
  have hG : ∀ t, HasDerivAt (fun s => P A (-s) *ᵥ F s) 0 t := by
    intro t
    have h1 : HasDerivAt (fun s => P A (-s)) (-(P A (-t) * A)) t := by
      have := (hasDerivAt_P A (-t)).scomp t (hasDerivAt_neg t)
      have e : (-1 : ℝ) • (P A (-t) * A) = -(P A (-t) * A) := by simp
      rw [← e]
      exact this
    have := hasDerivAt_mulVec h1 (hF t)
    convert this using 1
    simp [Matrix.neg_mulVec, Matrix.mulVec_mulVec]
  have hconst : ∀ t, P A (-t) *ᵥ F t = P A (-0) *ᵥ F 0 := by
    intro t
    exact is_const_of_deriv_eq_zero (fun s => (hG s).differentiableAt) (fun s => (hG s).deriv) t 0
  have := hconst T
  simp [P_zero] at this
  calc F T = (P A T * P A (-T)) *ᵥ F T := by rw [← P_add]; simp [P_zero]
    _ = P A T *ᵥ (P A (-T) *ᵥ F T) := by rw [Matrix.mulVec_mulVec]
    _ = P A T *ᵥ F 0 := by rw [this]

/-- if nobody depends on `j` (column `j` of `A` is zero off the diagonal) then the same holds for `P`. -/
theorem P_col_zero (A : Matrix n n ℝ) (j : n) (hA : ∀ i, i ≠ j → A i j = 0) (h : ℝ) :
    ∀ i, i ≠ j → P A h i j = 0 := by
  classical
  let b : n → ℕ := fun i => if i = j then 0 else 1
  have hbt : BlockTriangular (h • A) b := by
    intro i k hik
    have hk : k = j := by
      by_contra hk
      simp [b, hk] at hik
      split at hik <;> omega
    have hi : i ≠ j := by
      intro hi; subst hk; subst hi; simp [b] at hik
    subst hk
    simp [hA i hi]
  intro i hi
  have := (Matrix.BlockTriangular.exp hbt)
  apply this
  simp [b, hi]

end OdeVerif.MatrixFlow
