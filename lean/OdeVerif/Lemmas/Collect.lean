/-
Helper lemmas about `Pipeline.collect` (the model of what `expand()` leaves: like terms combined, zero
terms dropped) in terms of the Laurent polynomial a term list denotes.
-/
import OdeVerif.Model.Pipeline
import OdeVerif.Proofs.C04b
import Mathlib.Algebra.MonoidAlgebra.Basic
import Mathlib.Algebra.MonoidAlgebra.Defs
import Mathlib.Tactic.Ring
import Mathlib.Tactic.SplitIfs
import Mathlib.Data.List.Nodup
import Mathlib.Data.List.Perm.Basic

namespace OdeVerif.PipelineSpec
open OdeVerif.Poly OdeVerif.Pipeline OdeVerif.C04b

variable {n : ℕ}

/-- denotation of a term list -/
noncomputable def denP (p : Poly n) : L n :=
  (p.map (fun t => (AddMonoidAlgebra.single t.1 t.2 : L n))).sum

theorem denP_nil : denP ([] : Poly n) = 0 := by simp [denP]

theorem denP_cons (t : Mono n × Rat) (p : Poly n) : denP (t :: p) = AddMonoidAlgebra.single t.1 t.2 + denP p := by
  simp [denP]

theorem denP_append (p q : Poly n) : denP (p ++ q) = denP p + denP q := by
  simp [denP, List.map_append, List.sum_append]

theorem denP_expandRaw (e : Expr n) : denP (expandRaw e) = den e := expandRaw_sound e

theorem monoEq_iff' (a b : Mono n) : monoEq a b = true ↔ a = b := by
  unfold monoEq
  rw [List.all_eq_true]
  constructor
  · intro h; funext i; exact eq_of_beq (h i (List.mem_finRange i))
  · rintro rfl i _; exact beq_self_eq_true _

theorem foldl_add_eq' (l : List Rat) (acc : Rat) :
    l.foldl (· + ·) acc = acc + l.sum := by
  induction l generalizing acc with
  | nil => simp
  | cons x l ih => rw [List.foldl_cons, ih, List.sum_cons, add_assoc]

theorem coeffOf_nil' (m : Mono n) : coeffOf ([] : Poly n) m = 0 := by
  simp [coeffOf]

theorem coeffOf_cons' (t : Mono n × Rat) (p : Poly n) (m : Mono n) :
    coeffOf (t :: p) m = (if t.1 = m then t.2 else 0) + coeffOf p m := by
  unfold coeffOf
  rw [foldl_add_eq', foldl_add_eq', zero_add, zero_add, List.filter_cons]
  by_cases h : t.1 = m
  · subst h
    have : monoEq t.1 t.1 = true := (monoEq_iff' _ _).2 rfl
    simp [this]
  · have : ¬ monoEq t.1 m = true := fun h' => h ((monoEq_iff' _ _).1 h')
    simp [this, h]

/-- `coeffOf` reads off the coefficient of the denotation -/
theorem coeffOf_denP (p : Poly n) (m : Mono n) : coeffOf p m = (denP p).coeff m := by
  classical
  induction p with
  | nil => simp [coeffOf_nil', denP_nil]
  | cons t p ih =>
    rw [coeffOf_cons', denP_cons, AddMonoidAlgebra.coeff_add, Finsupp.add_apply, ih,
      AddMonoidAlgebra.coeff_single, Finsupp.single_apply]

theorem coeffOf_eq_zero_of_forall_ne (p : Poly n) (m : Mono n) (h : ∀ t ∈ p, t.1 ≠ m) :
    coeffOf p m = 0 := by
  induction p with
  | nil => exact coeffOf_nil' m
  | cons t p ih =>
    rw [coeffOf_cons', if_neg (h t List.mem_cons_self), zero_add]
    exact ih (fun u hu => h u (List.mem_cons_of_mem _ hu))

theorem mem_monos_iff (p : Poly n) (m : Mono n) : m ∈ monos p ↔ ∃ t ∈ p, t.1 = m := by
  induction p with
  | nil => simp [monos]
  | cons t p ih =>
    rw [monos, List.mem_cons, List.mem_filter, ih]
    constructor
    · rintro (rfl | ⟨⟨u, hu, rfl⟩, _⟩)
      · exact ⟨t, List.mem_cons_self, rfl⟩
      · exact ⟨u, List.mem_cons_of_mem _ hu, rfl⟩
    · rintro ⟨u, hu, rfl⟩
      by_cases hut : u.1 = t.1
      · exact Or.inl hut
      · rcases List.mem_cons.1 hu with rfl | hu'
        · exact Or.inl rfl
        · refine Or.inr ⟨⟨u, hu', rfl⟩, ?_⟩
          have : ¬ monoEq u.1 t.1 = true := fun h' => hut ((monoEq_iff' _ _).1 h')
          simpa using this

theorem monos_nodup (p : Poly n) : (monos p).Nodup := by
  induction p with
  | nil => simp [monos]
  | cons t p ih =>
    rw [monos, List.nodup_cons]
    refine ⟨?_, ih.filter _⟩
    intro h
    have h2 := (List.mem_filter.1 h).2
    have : monoEq t.1 t.1 = true := (monoEq_iff' _ _).2 rfl
    simp [this] at h2

theorem collect_map_fst_sublist (p : Poly n) : ((collect p).map (·.1)).Sublist (monos p) := by
  unfold collect
  have h1 : (((monos p).map (fun m => (m, coeffOf p m))).filter (fun t => t.2 != 0)).Sublist
      ((monos p).map (fun m => (m, coeffOf p m))) := List.filter_sublist
  have h2 := h1.map (·.1)
  simpa [List.map_map, Function.comp_def] using h2

/-- the collected list has pairwise distinct monomials -/
theorem collect_nodup (p : Poly n) : ((collect p).map (·.1)).Nodup :=
  (monos_nodup p).sublist (collect_map_fst_sublist p)

theorem mem_collect_iff_aux (p : Poly n) (m : Mono n) (q : Rat) :
    (m, q) ∈ collect p ↔ q = coeffOf p m ∧ q ≠ 0 := by
  unfold collect
  rw [List.mem_filter, List.mem_map]
  constructor
  · rintro ⟨⟨m', _, h⟩, hq⟩
    obtain ⟨rfl, rfl⟩ := Prod.mk.inj h
    exact ⟨rfl, by simpa using hq⟩
  · rintro ⟨rfl, hq⟩
    refine ⟨⟨m, ?_, rfl⟩, by simpa using hq⟩
    rw [mem_monos_iff]
    by_contra hne
    exact hq (coeffOf_eq_zero_of_forall_ne p m (fun t ht htm => hne ⟨t, ht, htm⟩))

/-- exactly the monomials of the support, each with its coefficient -/
theorem mem_collect_iff (p : Poly n) (m : Mono n) (q : Rat) :
    (m, q) ∈ collect p ↔ q = (denP p).coeff m ∧ q ≠ 0 := by
  rw [mem_collect_iff_aux, coeffOf_denP]

theorem coeffOf_of_mem (l : Poly n) (hnd : (l.map (·.1)).Nodup) (m : Mono n) (q : Rat)
    (h : (m, q) ∈ l) : coeffOf l m = q := by
  induction l with
  | nil => cases h
  | cons t l ih =>
    rw [List.map_cons, List.nodup_cons] at hnd
    rw [coeffOf_cons']
    rcases List.mem_cons.1 h with rfl | h'
    · rw [if_pos rfl, coeffOf_eq_zero_of_forall_ne, add_zero]
      intro u hu hum
      apply hnd.1
      have := List.mem_map_of_mem (f := (·.1)) hu
      rw [hum] at this
      exact this
    · have hne : t.1 ≠ m := by
        intro htm
        apply hnd.1
        rw [htm]
        exact List.mem_map_of_mem (f := (·.1)) h'
      rw [if_neg hne, zero_add]
      exact ih hnd.2 h'

theorem coeffOf_collect (p : Poly n) (m : Mono n) : coeffOf (collect p) m = coeffOf p m := by
  by_cases h : coeffOf p m = 0
  · rw [h]
    apply coeffOf_eq_zero_of_forall_ne
    rintro ⟨m', q⟩ ht rfl
    have := (mem_collect_iff_aux p m' q).1 ht
    exact this.2 (this.1.trans h)
  · exact coeffOf_of_mem _ (collect_nodup p) m _ ((mem_collect_iff_aux p m _).2 ⟨rfl, h⟩)

/-- combining like terms does not change the denotation -/
theorem collect_sound (p : Poly n) : denP (collect p) = denP p := by
  apply AddMonoidAlgebra.ext
  apply Finsupp.ext
  intro m
  rw [← coeffOf_denP, ← coeffOf_denP, coeffOf_collect]

/-- two term lists with the same denotation collect to the same terms, up to order -/
theorem collect_perm_of_denP_eq (p p' : Poly n) (h : denP p = denP p') : (collect p).Perm (collect p') := by
  rw [List.perm_ext_iff_of_nodup (List.Nodup.of_map _ (collect_nodup p))
    (List.Nodup.of_map _ (collect_nodup p'))]
  rintro ⟨m, q⟩
  rw [mem_collect_iff, mem_collect_iff, h]

end OdeVerif.PipelineSpec
