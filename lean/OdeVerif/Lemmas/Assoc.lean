import OdeVerif.Model.Glue
/-!
Lemmas on the association-list dictionaries of `Model/Glue.lean` (`assoc`, `updateAll`, `get`), shared by the refinement proofs of the
integrator glue.  Core Lean only.
-/
namespace OdeVerif.Refine
open OdeVerif

/-! ### helper lemmas -/

theorem step_lookup_cons {β : Type} (a : String) (b : β) (rest : List (String × β)) (k : String) :
    ((a, b) :: rest).lookup k = if k = a then some b else rest.lookup k := by
  rw [List.lookup_cons]
  by_cases h : k = a
  · simp [h]
  · have : (k == a) = false := by simpa using h
    simp [this, h]

theorem step_lookup_assoc {β : Type} (d : List (String × β)) (k : String) (v : β) (k' : String) :
    (Glue.assoc d k v).lookup k' = if k' = k then some v else d.lookup k' := by
  induction d with
  | nil =>
    simp [Glue.assoc, step_lookup_cons]
  | cons p rest ih =>
    obtain ⟨a, b⟩ := p
    simp only [Glue.assoc]
    by_cases hak : a = k
    · subst hak
      by_cases h : k' = a <;> simp [step_lookup_cons, h]
    · by_cases h : k' = k
      · subst h
        have : ¬ k' = a := fun e => hak e.symm
        simp [hak, step_lookup_cons, ih, this]
      · by_cases h2 : k' = a <;> simp [hak, step_lookup_cons, ih, h, h2]

theorem step_lookup_of_mem_nodup {β : Type} (l : List (String × β)) (k : String) (v : β)
    (hmem : (k, v) ∈ l) (hnd : (l.map Prod.fst).Nodup) : l.lookup k = some v := by
  induction l with
  | nil => cases hmem
  | cons p rest ih =>
    obtain ⟨a, b⟩ := p
    simp only [List.map_cons, List.nodup_cons] at hnd
    rcases List.mem_cons.1 hmem with h | h
    · cases h
      simp
    · have hne : ¬ k = a := by
        intro e
        subst e
        exact hnd.1 (List.mem_map.2 ⟨(k, v), h, rfl⟩)
      simp [step_lookup_cons, hne, ih h hnd.2]

theorem step_nodup_reverse {γ : Type} (l : List γ) (h : l.Nodup) : l.reverse.Nodup := by
  unfold List.Nodup at *
  rw [List.pairwise_reverse]
  exact h.imp (fun hab e => hab e.symm)

theorem step_lookup_reverse_of_mem_nodup {β : Type} (l : List (String × β)) (k : String) (v : β)
    (hmem : (k, v) ∈ l) (hnd : (l.map Prod.fst).Nodup) : l.reverse.lookup k = some v := by
  apply step_lookup_of_mem_nodup
  · exact List.mem_reverse.2 hmem
  · rw [List.map_reverse]
    exact step_nodup_reverse _ hnd

theorem step_lookup_eq_none {β : Type} (l : List (String × β)) (k : String) :
    l.lookup k = none ↔ k ∉ l.map Prod.fst := by
  induction l with
  | nil => simp
  | cons p rest ih =>
    obtain ⟨a, b⟩ := p
    rw [step_lookup_cons]
    by_cases h : k = a
    · simp [h]
    · simp only [h, if_false, ih, List.map_cons, List.mem_cons, false_or]

theorem step_lookup_reverse_eq_none {β : Type} (l : List (String × β)) (k : String) :
    l.reverse.lookup k = none ↔ k ∉ l.map Prod.fst := by
  rw [step_lookup_eq_none, List.map_reverse, List.mem_reverse]

theorem step_zip_keys_nodup {β : Type} (xs : List String) (y : List β) (hnd : xs.Nodup) :
    ((xs.zip y).map Prod.fst).Nodup := by
  induction xs generalizing y with
  | nil => simp
  | cons x xs ih =>
    cases y with
    | nil => simp
    | cons b y =>
      simp only [List.nodup_cons] at hnd
      simp only [List.zip_cons_cons, List.map_cons, List.nodup_cons]
      refine ⟨?_, ih y hnd.2⟩
      intro hm
      obtain ⟨⟨a, c⟩, hp, ha⟩ := List.mem_map.1 hm
      simp only at ha
      subst ha
      exact hnd.1 (List.of_mem_zip hp).1

theorem step_zip_keys_of_le {β : Type} (xs : List String) (y : List β) (hlen : xs.length ≤ y.length) :
    (xs.zip y).map Prod.fst = xs := by
  induction xs generalizing y with
  | nil => simp
  | cons x xs ih =>
    cases y with
    | nil => simp at hlen
    | cons b y =>
      simp only [List.length_cons, Nat.add_le_add_iff_right] at hlen
      simp [ih y hlen]

theorem step_getElem_mem_zip {β : Type} (xs : List String) (y : List β) (i : Nat) (hi : i < xs.length) (hy : i < y.length) :
    (xs[i], y[i]) ∈ xs.zip y := by
  have hl : i < (xs.zip y).length := by simp [List.length_zip]; omega
  have : (xs.zip y)[i] = (xs[i], y[i]) := by simp
  rw [← this]
  exact List.getElem_mem hl

theorem step_le_foldl_max (ls : List Nat) (init : Nat) :
    init ≤ ls.foldl Nat.max init ∧ ∀ a ∈ ls, a ≤ ls.foldl Nat.max init := by
  induction ls generalizing init with
  | nil => simp
  | cons b rest ih =>
    simp only [List.foldl_cons, List.mem_cons]
    obtain ⟨h1, h2⟩ := ih (Nat.max init b)
    refine ⟨Nat.le_trans (Nat.le_max_left _ _) h1, ?_⟩
    intro a ha
    rcases ha with rfl | ha
    · exact Nat.le_trans (Nat.le_max_right _ _) h1
    · exact h2 a ha

/-- dictionary update: the last assignment of a key wins, untouched keys keep their value -/
theorem lookup_updateAll {β : Type} (d kv : List (String × β)) (k : String) :
    (Glue.updateAll d kv).lookup k = (match kv.reverse.lookup k with | some v => some v | none => d.lookup k) := by
  induction kv generalizing d with
  | nil => simp [Glue.updateAll]
  | cons p kv ih =>
    have h : Glue.updateAll d (p :: kv) = Glue.updateAll (Glue.assoc d p.1 p.2) kv := rfl
    rw [h, ih, List.reverse_cons, List.lookup_append]
    cases hk : kv.reverse.lookup k with
    | some v => simp
    | none =>
      obtain ⟨a, b⟩ := p
      simp only [Option.none_or, step_lookup_assoc, step_lookup_cons, List.lookup_nil]
      by_cases e : k = a <;> simp [e]

theorem step_get_updateAll {α : Type} [Inhabited α] (d kv : List (String × α)) (k : String) :
    Glue.get (Glue.updateAll d kv) k =
      (match kv.reverse.lookup k with | some v => v | none => Glue.get d k) := by
  unfold Glue.get
  rw [lookup_updateAll]
  cases kv.reverse.lookup k <;> rfl

end OdeVerif.Refine
