"""Harness-side stand-in for PyGSL (never installed into /venv; on sys.path only inside harness processes)."""
