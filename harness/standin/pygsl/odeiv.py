"""Stand-in for ``pygsl.odeiv`` -- just the API surface odetoolbox uses.

Two behaviours behind the same API:

* numerical (default): ``step_rk4`` = classical RK4 with step-doubling error control;
  ``step_bsimp`` = implicit midpoint rule solved by Newton iterations that *really call the
  supplied Jacobian*, with step-doubling error control.  One ``evolve.apply`` call takes one
  accepted adaptive step, like GSL's ``gsl_odeiv_evolve_apply``.
* scripted: when ``SCRIPT`` is set to a callable ``(name, t, t1, h, y, func, jac) -> (t', h', y')``
  every ``apply`` is answered by the script (used to drive the event logic of MixedIntegrator
  with dictated dyadic step fractions so that the Lean model can be fed the same script).

``CALLS`` records every apply (for the harness).
"""
import numpy as np

SCRIPT = None
CALLS = []
# Jacobian audit (harness, C14 / C10): when set to a dict {"every": k, "n": 0, "checked": 0, "fails": []} the implicit stepper asks for
# the Jacobian at the START of every raw step, at (t, y) -- a time at which it has not just evaluated the derivative, as GSL's bsimp does --
# and every k-th such Jacobian is compared with central differences of the derivative function at the same (t, y)
AUDIT = None


def _audit(stepper, t, y):
    a = AUDIT
    J, _ = stepper.jac(t, y, None)
    a["n"] += 1
    if a["n"] % a["every"] != 0 or len(a["fails"]) >= 3:
        return
    J = np.asarray(J, dtype=float).copy()
    n = len(y)
    fd = np.zeros((n, n))
    for j in range(n):
        hh = 1e-6 * max(1.0, abs(y[j]))
        e = np.zeros(n)
        e[j] = hh
        fd[:, j] = (np.asarray(stepper.func(t, y + e, None), dtype=float) - np.asarray(stepper.func(t, y - e, None), dtype=float)) / (2 * hh)
    a["checked"] += 1
    dev = np.abs(J - fd) / np.maximum(1.0, np.maximum(np.abs(J), np.abs(fd)))
    if np.max(dev) > 1e-4:
        i, j = np.unravel_index(np.argmax(dev), dev.shape)
        a["fails"].append({"t": float(t), "y": [float(v) for v in y], "row": int(i), "col": int(j), "jacobian": float(J[i, j]), "finite_difference": float(fd[i, j])})


class _Stepper:
    def __init__(self, kind, dim, func, jac):
        self.kind = kind
        self.dim = dim
        self.func = func
        self.jac = jac

    def name(self):
        return self.kind

    # one step of size h from (t, y); returns y_new
    def raw_step(self, t, y, h):
        f = lambda tt, yy: np.asarray(self.func(tt, yy, None), dtype=float)   # noqa: E731
        if self.kind == "rk4":
            k1 = f(t, y)
            k2 = f(t + h / 2, y + h / 2 * k1)
            k3 = f(t + h / 2, y + h / 2 * k2)
            k4 = f(t + h, y + h * k3)
            return y + h / 6 * (k1 + 2 * k2 + 2 * k3 + k4)
        # implicit midpoint: y1 = y + h f(t+h/2, (y+y1)/2); Newton on g(y1) = y1 - y - h f(...)
        if AUDIT is not None and self.jac is not None:
            _audit(self, t, np.asarray(y, dtype=float))
        y1 = y + h * f(t, y)
        for _ in range(12):
            ym = (y + y1) / 2
            g = y1 - y - h * f(t + h / 2, ym)
            J, _dfdt = self.jac(t + h / 2, ym, None)
            M = np.eye(len(y)) - h / 2 * np.asarray(J, dtype=float)
            try:
                d = np.linalg.solve(M, -g)
            except np.linalg.LinAlgError:
                break
            y1 = y1 + d
            if np.max(np.abs(d)) <= 1e-14 * (1 + np.max(np.abs(y1))):
                break
        return y1


def step_rk4(dim, func, jac=None):
    return _Stepper("rk4", dim, func, jac)


def step_bsimp(dim, func, jac=None):
    return _Stepper("bsimp", dim, func, jac)


class control_y_new:
    def __init__(self, stepper, eps_abs, eps_rel):
        self.eps_abs = eps_abs
        self.eps_rel = eps_rel


class evolve:
    def __init__(self, stepper, control, dim):
        self.stepper = stepper
        self.control = control
        self.dim = dim

    def apply(self, t, t1, h, y):
        y = np.array(y, dtype=float)
        if SCRIPT is not None:
            r = SCRIPT(self.stepper.name(), t, t1, h, y, self.stepper.func, self.stepper.jac)
            CALLS.append((self.stepper.name(), t, t1, h, r[0], r[1]))
            return r
        order = 4 if self.stepper.kind == "rk4" else 2
        h = min(h, t1 - t)
        if not np.isfinite(h):
            h = 1e-3
        for _ in range(200):
            y_big = self.stepper.raw_step(t, y, h)
            y_half = self.stepper.raw_step(t, y, h / 2)
            y_two = self.stepper.raw_step(t + h / 2, y_half, h / 2)
            err = np.max(np.abs(y_two - y_big) / (self.control.eps_abs + self.control.eps_rel * np.abs(y_two))) / (2 ** order - 1)
            if not np.isfinite(err):
                h = h / 2
                continue
            if err <= 1.0:
                grow = 5.0 if err == 0 else min(5.0, max(1.0, 0.9 * err ** (-1.0 / (order + 1))))
                CALLS.append((self.stepper.name(), t, t1, h, t + h, h * grow))
                return t + h, h * grow, y_two
            h = h * max(0.2, 0.9 * err ** (-1.0 / order))
        raise FloatingPointError("stand-in stepper: step size underflow")
