"""C01 -- the analytical solver is the exact flow of the input ODEs for every step size."""
import json
from fractions import Fraction

from harness.core import numeval, pool, tb
from harness.gen import systems
from harness.props import _shared

PROOF_MODULE = ["OdeVerif.Proofs.C01", "OdeVerif.Proofs.ReachSpec", "OdeVerif.Proofs.RefinePropagator", "OdeVerif.Proofs.RefineScatter", "OdeVerif.Proofs.RefineSubSystem", "OdeVerif.Proofs.RefineComponents", "OdeVerif.Proofs.RefineShapesPass", "OdeVerif.Proofs.RefineContracts"]
GENERATED = ["PyPropagator", "PyScatter", "PySubSystem", "PyComponents", "PyShapesPass", "PyContracts"]
THEOREMS = ["OdeVerif.C01.assemble_ok_linear", "OdeVerif.C01.flow_identity", "OdeVerif.C01.flow_deriv", "OdeVerif.C01.affine_flow_unique",
            "OdeVerif.C01.flow_semigroup", "OdeVerif.C01.analytic_solver_exact", "OdeVerif.C01.blocks_sound", "OdeVerif.C01.sum_mirror_unsound",
            "OdeVerif.ReachSpec.prop_reach_iff", "OdeVerif.ReachSpec.label_ok", "OdeVerif.ReachSpec.label_eq_iff", "OdeVerif.MatrixFlow.P_zero", "OdeVerif.MatrixFlow.P_add", "OdeVerif.MatrixFlow.flow_unique", "OdeVerif.MatrixFlow.P_col_zero",
            "OdeVerif.Refine.propagatorSolver_error_iff", "OdeVerif.Refine.propagatorSolver_ok", "OdeVerif.Refine.propagatorSolver_ok_of_model",
            "OdeVerif.Refine.scatterBlocks_inside", "OdeVerif.Refine.scatterBlocks_outside", "OdeVerif.Refine.scatterBlocks_eq_scatter",
            "OdeVerif.Refine.subSystem_idx", "OdeVerif.Refine.subSystem_A_b", "OdeVerif.Refine.subSystem_c",
            "OdeVerif.Refine.connectedComponentIndices_refines", "OdeVerif.Refine.mirror_spec", "OdeVerif.Refine.mem_groupByLabel", "OdeVerif.Refine.groupByLabel_same", "OdeVerif.Refine.fromJsonToShapes_keys", "OdeVerif.Refine.fromJsonToShapes_time_not_param",
            "OdeVerif.Refine.isZero_refines"]
LEVEL = "proof"
LINEAR_SHAPES = ["isolated", "chain", "fan_in", "fan_out", "cycle", "antisym", "nonadjacent", "offset_single", "offset_in_group", "depends_on_offset",
                 "higher_order", "higher_order_offset", "analytic_dep_numeric", "dense3", "const_drift", "offset_single", "chain_from_offset", "tiny_literals", "time_dependent", "second_order_real", "sum_coefficients", "exact_constants"]


def gen(ctx, n):
    rng = ctx.rng("systems")
    out = []
    for c in ctx.corpus():
        if "case" in c and "indict" in c["case"]:
            out.append(dict(c["case"], corpus=c["_file"]))
    i = 0
    while len(out) < n:
        shape = "time_dependent" if i % 8 == 5 else "second_order_real" if i % 8 == 2 else LINEAR_SHAPES[i % len(LINEAR_SHAPES)]
        g = systems.gen_system(rng, shape=shape, with_params=rng.choice(["none", "all", "all"]))
        if shape == "second_order_real" and i % 16 == 2:
            # the initial values of the second-order entry written derivative first (the order of the keys carries no meaning)
            for d in g["indict"]["dynamics"]:
                if len(d.get("initial_values", {})) > 1:
                    d["initial_values"] = {k: d["initial_values"][k] for k in sorted(d["initial_values"], key=lambda q: -q.count("'"))}
        if shape == "time_dependent" and "options" not in g["indict"] and rng.random() < 0.5:
            systems.rename_time(g["indict"], rng.choice(systems.TIME_NAMES))       # a non-autonomous equation must never get a step-size-only update
        k = len(g["indict"]["dynamics"])
        if k > 1 and rng.random() < 0.5:
            perm = list(range(k))
            rng.shuffle(perm)
            g["indict"]["dynamics"] = [g["indict"]["dynamics"][p] for p in perm]
        if rng.random() < 0.15:
            g["indict"]["options"] = {"output_timestep_symbol": rng.choice(["dt", "h_step"]), "differential_order_symbol": rng.choice(["__d", "_D"])}
        r = rng.random()
        first = [d["expression"].split("=")[0].strip()[:-1] for d in g["indict"]["dynamics"] if d["expression"].split("=")[0].count("'") == 1]
        if r < 0.15:
            g["flags"] = {"preserve_expressions": True}
        elif r < 0.3 and first:
            g["flags"] = {"preserve_expressions": rng.sample(first, rng.randint(1, len(first)))}
        elif r < 0.4:
            g["flags"] = {"simplify_expression": rng.choice(["sympy.logcombine(sympy.powsimp(sympy.expand(expr)))", "sympy.factor(expr)"])}
        g["pt_seed"] = rng.randrange(10 ** 9)
        g["check_flow"] = True
        g["check_numeric_rhs"] = False
        g["direct"] = (i % 4 == 3)
        out.append(g)
        i += 1
    return out


def run(ctx, driver):
    tb.import_toolbox()
    quick = ctx.tier == "quick"
    ctx.rule = ("linear constant-coefficient systems from 14 coupling shapes (incl. antisymmetric pairs, non-adjacent coupled entries, repeated eigenvalues, "
                "offsets, higher order) x spelling x entry order x symbolic/numeric parameters x custom step/marker symbols; (a) end-to-end oracle on the returned "
                "dictionary (identity at 0, d/dh = rhs at the updated state, semigroup) at 3 random 40-digit points; (b) correspondence of component cut and "
                "update-expression assembly (incl. the guarded error paths, reached by bypassing the demotion rules in every 4th case); distinct = distinct inputs; "
                "non-trivial = analytical solver with >= 2 variables or an offset; also non-autonomous equations (time-dependent forcing or coefficient, every 8th case, half with a renamed time symbol: the flow oracle advances the time symbol), second-order equations with real roots (every 16th with the initial values written derivative first), exact symbolic constants, sum coefficients, names from the marker's alphabet")
    cases = gen(ctx, ctx.n(64, 1200))
    flow = _shared.run_full(ctx, cases, timeout=ctx.n(45, 120), frac=0.5)
    for case, res in zip(cases, flow):
        ctx.evaluations += 1
        if not _shared.usable(ctx, res):
            continue
        ctx.count("shape:" + str(case.get("shape")))
        if res.get("error"):
            ctx.count("analysis_error:" + res["error"]["type"])
            continue
        fc = res.get("flow_check")
        if fc is None:
            if "flow_check_error" in res:
                ctx.count("oracle_error")
                ctx.cov.setdefault("oracle_errors", []).append(res["flow_check_error"])
            continue
        if fc.get("skipped") or not fc.get("checked"):
            ctx.count("flow_not_applicable")
            continue
        ctx.count("flow_checked")
        ana = [s for s in res["solvers"] if s["solver"] == "analytical"][0]
        if len(ana["state_variables"]) >= 2 or case.get("shape", "").startswith("offset"):
            ctx.note_nontrivial(json.dumps(case["indict"], sort_keys=True))
        if fc.get("eval_errors"):
            ctx.count("flow_eval_errors")
        if fc["problems"]:
            laws = sorted({p["law"] for p in fc["problems"]})
            ctx.fail("update-is-not-the-flow", {"indict": case["indict"], "flags": case.get("flags", {})} if case.get("flags") else case["indict"], {"violated": laws, "first": fc["problems"][0], "point": fc.get("point"), "h1": fc.get("h1"), "h2": fc.get("h2"),
                                                               "propagators": ana["propagators"], "update_expressions": ana["update_expressions"],
                                                               "signature": {"site": "analytical solver", "shape": case.get("shape")}})
    ctx.sample({"indict": cases[-1]["indict"], "analytical": [s for s in (flow[-1].get("solvers") or []) if s["solver"] == "analytical"][:1] if isinstance(flow[-1], dict) else None})
    # ---- correspondence: components + assembly
    asm = pool.run_cases("harness.core.cases", "case_assembly", cases, timeout=ctx.n(45, 120), init="init_worker", deadline=ctx.deadline())
    ops = []
    for case, res in zip(cases, asm):
        if not _shared.usable(ctx, res, "asm:") or res.get("skip"):
            continue
        if "components" in res:
            ops.append(("components", res["components"]["payload"], res, case))
        if "assemble" in res:
            ops.append(("assemble", res["assemble"]["payload"], res, case))
    if driver is not None and ops:
        ans = driver.ask([(op, pl) for op, pl, _, _ in ops])
        for (op, pl, res, case), a in zip(ops, ans):
            ctx.count("corr_" + op)
            if op == "components":
                if not a.get("ok") or a.get("components") != res["components"]["real"]:
                    ctx.tie_break("corr:components", {"case": case["indict"], "model": a, "impl": res["components"]["real"]})
            else:
                if "asm_error" in res:
                    ctx.count("asm_error:" + res["asm_error"])
                    if a.get("error") != res["asm_error"]:
                        ctx.tie_break("corr:assemble", {"case": case["indict"], "direct": case.get("direct"), "model": a, "impl_error": res["asm_error"]})
                elif "solver" in res:
                    rv = res["assemble"]["real_values"]
                    mv = a.get("values")
                    ok = mv is not None and len(mv) == len(rv) and all(r is not None and numeval.close(Fraction(m), Fraction(r)) for m, r in zip(mv, rv))
                    if ok:
                        for k in a.get("kinds", []):
                            ctx.count("asm_row:" + k)
                    # every propagator symbol the model uses must be defined, and vice versa
                    pn = res["assemble"]["payload"]["Pnz"]
                    if res["assemble"]["real_pnz_from_keys"] != pn:
                        ok = False
                    if not ok:
                        ctx.tie_break("corr:assemble", {"case": case["indict"], "direct": case.get("direct"), "model": a, "impl_values": rv,
                                                        "update_expressions": res["solver"]["update_expressions"]})
    ctx.assumptions += [
        "SymPy contract: the propagator entries are the entries of exp(A h) for each component's sub-matrix, and an entry SymPy reports as zero vanishes for all h "
        "(validated end-to-end on every case by the d/dh oracle, which differentiates the *returned* propagator strings)",
        "scipy connected_components returns the connected components (its partition is compared with the model's own closure on every case; the theorem needs only that no non-zero entry of A joins two different labels, which the model checks itself)",
        "returned strings carry 15 significant digits and SymPy diagonalises matrices with float entries numerically (observed cancellation error 7e-11 for eigenvalues (3 +- sqrt 5)/2), so the oracle tolerance is 1e-7 relative; seeded defects produce O(1) deviations",
    ]


def replay(rp):
    from harness.core import cases
    tb.import_toolbox()
    fi = rp["failing_input"]
    r = cases.case_full({"indict": fi.get("indict", fi), "flags": fi.get("flags", {}) if "indict" in fi else {}, "check_flow": True, "check_numeric_rhs": False, "pt_seed": 1})
    print(json.dumps({"error": r.get("error"), "flow_check": r.get("flow_check")}, indent=1)[:3000])
    return 1 if (r.get("flow_check") or {}).get("problems") else 0
