"""C05 -- function-of-time entries are reproduced exactly by the ODE that replaces them."""
import json

from harness.core import pool, tb

PROOF_MODULE = ["OdeVerif.Proofs.C05", "OdeVerif.Proofs.RefineFromFunction", "OdeVerif.Proofs.RefineComponents"]
GENERATED = ['Constants', 'PyFromFunction', "PyComponents"]
THEOREMS = ["OdeVerif.C05.order_le_max", "OdeVerif.C05.defaults_documented", "OdeVerif.C05.accept_verified", "OdeVerif.C05.accept_minimal",
            "OdeVerif.C05.reject_means_unverified", "OdeVerif.C05.companion_flow_exact", "OdeVerif.C05.steps_compose", "OdeVerif.C05.function_reproduced",
            "OdeVerif.Refine.fromFunction_refines", "OdeVerif.Refine.fromFunction_refines_default",
            "OdeVerif.Refine.connectedComponentIndices_refines", "OdeVerif.Refine.mirror_spec"]
LEVEL = "proof"

# (definition, minimal ODE order or None if outside the supported class / above the maximum, cost class)
FAMILY = [
    ("exp(-t/tau)", 1, "q"), ("2*exp(-3*t)", 1, "q"), ("a*exp(-t/tau_s)", 1, "q"), ("e**(-t*b)", 1, "q"),
    ("t*exp(-t)", 2, "q"), ("sin(t)", 2, "q"), ("(3 + 2*t)*exp(-t)", 2, "q"),    # coefficient of f is exactly -1: mirrors the +1 of the derivative chain
    ("(e/tau)*t*exp(-t/tau)", 2, "q"), ("exp(-t) - exp(-3*t)", 2, "q"), ("t*exp(-2*t)", 2, "q"), ("exp(-t/tau) - exp(-t/tau_s)", 2, "q"),
    ("sin(w*t)", 2, "q"), ("exp(-t)*sin(2*t)", 2, "q"), ("cos(3*t) + sin(3*t)", 2, "q"), ("3*exp(-t) + exp(-2*t)", 2, "q"),
    ("t**2*exp(-t)", 3, "q"), ("exp(-t) + t*exp(-2*t)", 3, "q"), ("1 + t + t**2", 3, "q"), ("exp(-t) + exp(-2*t) + exp(-3*t)", 3, "t"),
    ("t**3*exp(-t)", 4, "q"), ("t*sin(t)", 4, "t"), ("sin(t) + cos(2*t)", 4, "t"), ("t**3", 4, "q"), ("(1-exp(-5*t))**3*exp(-t)", 4, "q"),
    ("t**3*exp(-t/tau)", 4, "t"), ("sin(t)**3", 4, "t"), ("t**3/(1 + t)", None, "q"), ("t**4*exp(-t)", None, "t"),
    ("0*t", None, "q"), ("t**4", None, "q"), ("exp(-t**2)", None, "q"), ("1/(1 + t)", None, "q"), ("tanh(t)", None, "t"), ("log(1 + t)", None, "t"),
    ("t**2*sin(t)", None, "t"),
]
PARAMS = {"tau": "0.5", "tau_s": "0.2", "a": "1.5", "b": "0.75", "w": "2"}


def _init_worker():
    tb.import_toolbox()


def case_function(case):
    """(a) Shape.from_function under recording of its oracle answers; (b) analysis() of the single entry and the
    stepping oracle on the returned dictionary."""
    import random
    import sympy
    import odetoolbox
    import odetoolbox.shapes as shp
    from harness.core import refsol
    tb.reset_config()
    f = case["f"]
    tsym = case.get("tsym", "t")
    if tsym != "t":
        import re
        from odetoolbox.config import Config
        f = re.sub(r"(?<![A-Za-z0-9_])t(?![A-Za-z0-9_])", tsym, f)
        Config.config["input_time_symbol"] = tsym        # what `options: {input_time_symbol: ...}` does
    out = {}
    events = []
    flag = {"k": None, "found_nonzero": False, "order1_done": False}
    o_zero, o_det, o_simplify = shp._is_zero, sympy.det, sympy.simplify

    def rec_zero(x):
        r = o_zero(x)
        if flag["k"] == "det":
            events.append(("det", bool(r)))
        elif flag["k"] == "verify":
            events.append(("verify", bool(r)))
        elif not flag["found_nonzero"]:
            events.append(("nonzero", bool(r)))
            if not r:
                flag["found_nonzero"] = True
        elif not flag["order1_done"]:
            events.append(("order1", bool(r)))
            flag["order1_done"] = True
        else:
            events.append(("unexpected", bool(r)))
        flag["k"] = None
        return r

    def rec_det(M, *a, **k):
        flag["k"] = "det"
        return o_det(M, *a, **k)

    def rec_simplify(e, *a, **k):
        r = o_simplify(e, *a, **k)
        if not isinstance(e, sympy.MatrixBase):
            flag["k"] = "verify"
        return r
    shp._is_zero, sympy.det, sympy.simplify = rec_zero, rec_det, rec_simplify
    try:
        try:
            sh = shp.Shape.from_function("g", f)
            out["shape"] = {"order": sh.order, "factors": [str(x) for x in sh.derivative_factors], "iv": {k: str(v) for k, v in sh.initial_values.items()}}
        except BaseException as e:
            msg = str(e)
            out["shape_error"] = "no-nonzero-sample" if "Cannot find t" in msg else "no-ode" if "does not satisfy any ODE" in msg else "other:" + type(e).__name__ + ":" + msg[:80]
    finally:
        shp._is_zero, sympy.det, sympy.simplify = o_zero, o_det, o_simplify
    out["events"] = events
    # ---- end-to-end: analysis + stepping
    vname = case.get("name", "g")
    indict = {"dynamics": [{"expression": vname + " = " + f}], "parameters": {k: v for k, v in PARAMS.items() if k in f}}
    if tsym != "t":
        indict["options"] = {"input_time_symbol": tsym}
    try:
        res = odetoolbox.analysis(json.loads(json.dumps(indict)), disable_stiffness_check=True)
    except BaseException as e:
        out["analysis_error"] = type(e).__name__ + ": " + str(e)[:100]
        return out
    sol = [s for s in res if s["solver"] == "analytical"]
    if not sol:
        out["no_analytic"] = [s["solver"] for s in res]
        return out
    s = sol[0]
    svars = s["state_variables"]
    out["state_variables"] = svars
    t = sympy.Symbol(tsym)
    h = sympy.Symbol("__h")
    pv = {sympy.Symbol(k): sympy.Rational(v) if "." not in v else sympy.Rational(v) for k, v in PARAMS.items()}
    fexpr = refsol.parse(f).subs(pv)
    derivs = [sympy.diff(fexpr, t, k) for k in range(len(svars))]
    props = {sympy.Symbol(k): refsol.parse(v).subs(pv) for k, v in s["propagators"].items()}
    upd = {v: refsol.parse(e).subs(props).subs(pv) for v, e in s["update_expressions"].items()}
    problems = []
    for k, e in props.items():
        if t in e.free_symbols:
            problems.append({"what": "propagator depends on t", "key": str(k)})
    iv = {v: sympy.N(refsol.parse(s["initial_values"][v]).subs(pv), 40) for v in svars}
    nonconst = {v: sorted(str(q) for q in iv[v].free_symbols) for v in svars if iv[v].free_symbols}
    if nonconst:
        out["problems"] = [{"what": "initial value is not a constant: it still contains symbols (time variable?)", "initial_values": {v: s["initial_values"][v] for v in nonconst}, "symbols": nonconst}]
        return out
    for k, v in enumerate(svars):
        want = sympy.N(derivs[k].subs(t, 0), 40)
        if abs(iv[v] - want) > sympy.Float("1e-12") * (1 + abs(want)):
            problems.append({"what": "initial value is not the derivative at 0", "variable": v, "observed": str(iv[v]), "expected": str(want)})
    rng = random.Random(case.get("seed", 1))
    for trial in range(2):
        steps = [sympy.Rational(rng.randint(1, 40), 50) for _ in range(rng.choice([1, 3, 5]))]
        state = dict(iv)
        for st in steps:
            d = {sympy.Symbol(v): state[v] for v in svars}
            d[h] = st
            state = {v: sympy.N(upd[v].subs(d), 40) for v in svars}
        T = sum(steps)
        for k, v in enumerate(svars):
            want = sympy.N(derivs[k].subs(t, T), 40)
            if abs(state[v] - want) > sympy.Float("1e-9") * (1 + abs(want)):
                problems.append({"what": "stepping does not reproduce f", "variable": v, "T": str(T), "steps": [str(x) for x in steps], "observed": str(state[v]), "expected": str(want)})
                break
    # ---- the replacing ODE itself, as the numeric solver returns it when the analytic solver is disabled: f, f', ... must satisfy it
    try:
        tb.reset_config()
        res_n = odetoolbox.analysis(json.loads(json.dumps(indict)), disable_stiffness_check=True, disable_analytic_solver=True)
        sn = [s_ for s_ in res_n if s_["solver"].startswith("numeric")]
        if sn:
            nv = sn[0]["state_variables"]
            der_n = [sympy.diff(fexpr, t, k) for k in range(len(nv) + 1)]
            out["ode_form_checked"] = True
            for tv in (sympy.Rational(rng.randint(1, 60), 40), sympy.Rational(rng.randint(1, 60), 40)):
                d = {sympy.Symbol(v): sympy.N(der_n[k].subs(t, tv), 40) for k, v in enumerate(nv)}
                for k, v in enumerate(nv):
                    e = refsol.parse(sn[0]["update_expressions"][v]).subs(pv)
                    if t in e.free_symbols:
                        problems.append({"what": "replacing ODE names the time variable", "variable": v})
                        break
                    got = sympy.N(e.subs(d), 40)
                    want = sympy.N(der_n[k + 1].subs(t, tv), 40)
                    if abs(got - want) > sympy.Float("1e-9") * (1 + abs(want)):
                        problems.append({"what": "f does not satisfy the replacing ODE (analytic solver disabled)", "variable": v, "t": str(tv),
                                         "equation": sn[0]["update_expressions"][v], "observed": str(got), "expected": str(want)})
                        break
    except BaseException as e:
        out["ode_form_error"] = type(e).__name__ + ": " + str(e)[:100]
    out["problems"] = problems
    return out


def events_to_oracle(events):
    nz, order1, inv, ver = [], False, [[], []], [False, False]
    cur = None
    for kind, z in events:
        if kind == "nonzero":
            nz.append(not z)
        elif kind == "order1":
            order1 = bool(z)
        elif kind == "det":
            if cur is None or cur["closed"]:
                cur = {"t": 1, "closed": False}
                inv.append([False])          # index 0 unused (t_ starts at 1)
                ver.append(False)
            inv[-1].append(not z)
            if not z:
                cur["closed"] = True
            cur["t"] += 1
            if cur["t"] > 99:
                cur["closed"] = True
        elif kind == "verify":
            ver[-1] = bool(z)
            if cur is not None:
                cur["closed"] = True
        else:
            return None
    return {"nonzero": nz, "order1": order1, "invertible": inv, "verifies": ver}


def run(ctx, driver):
    tb.import_toolbox()
    quick = ctx.tier == "quick"
    ctx.rule = ("functions of time with known minimal ODE order 1..4 (sums/products of polynomials, exponentials, sines, cosines with symbolic and numeric constants) "
                "and functions outside the class or above the maximum order (t**4, exp(-t**2), 1/(1+t), tanh, log, 0); (a) from_function's oracle answers recorded and its "
                "outcome compared with the model; (b) returned dictionary stepped over random step sequences against f and its derivatives at 40 digits; "
                "distinct = distinct definitions; non-trivial = order >= 2 or a rejection; (c) every function is analysed a second time with the analytic solver disabled and f, f', ... must satisfy the returned ODE")
    fam = [x for x in FAMILY if quick is False or x[2] == "q"]
    cases = [{"f": f, "order": o, "seed": ctx.seed * 1000 + i} for i, (f, o, _) in enumerate(fam)]
    # the same kernels under a variable name made of the marker's letters (`d`, `d__d`: the propagator symbols of (d, d__d) and (d__d, d) print alike)
    cases += [{"f": f, "order": o, "seed": ctx.seed * 1000 + 500 + i, "name": nm} for i, (f, o, nm) in
              enumerate([("t*exp(-t/tau)", 2, "d"), ("sin(w*t)", 2, "d"), ("(e/tau)*t*exp(-t/tau)", 2, "x_")])]
    # the same functions written in a renamed time variable (option input_time_symbol)
    cases += [{"f": f, "order": o, "seed": ctx.seed * 1000 + 500 + i, "tsym": ("time", "s", "t_sim")[i % 3]} for i, (f, o, c) in enumerate(fam) if c == "q" and i % 3 == 1]
    results = pool.run_cases("harness.props.c05", "case_function", cases, timeout=ctx.n(100, 600), init="_init_worker", deadline=ctx.deadline())
    ops = []
    for case, res in zip(cases, results):
        ctx.evaluations += 1
        if res.get("timeout") or res.get("skipped_budget"):
            ctx.count("skipped_timeout")
            continue
        if res.get("harness_error"):
            ctx.count("harness_error")
            ctx.cov.setdefault("harness_errors", []).append(res["harness_error"][:300])
            continue
        want = case["order"]
        if want is None or want >= 2:
            ctx.note_nontrivial(case["f"])
        got = (res.get("shape") or {}).get("order")
        ctx.count("outcome:" + (str(got) if got else res.get("shape_error", "?").split(":")[0]))
        sig = {"definition": case["f"]}
        if got is not None and got > 4:
            # whatever the function: the replacing equation may not exceed the documented maximum order
            ctx.fail("order-exceeds-maximum", case, {"order": got, "signature": sig})
        if want is None:
            if got is not None:
                # a function outside the class was accepted: then the dictionary must still reproduce it exactly (judged below); record
                ctx.count("outside_class_accepted")
        else:
            if got is None:
                ctx.count("supported_function_rejected")      # allowed by the property ("either rejects it or …"), recorded
        for p in res.get("problems") or []:
            ctx.fail("function-not-reproduced", case, {"problem": p, "state_variables": res.get("state_variables"), "signature": dict(sig, what=p["what"])})
            break
        if res.get("ode_form_checked"):
            ctx.count("ode_form_checked")
        if "ode_form_error" in res:
            ctx.count("ode_form_error")
            ctx.cov.setdefault("ode_form_errors", []).append(res["ode_form_error"])
        if "problems" in res:
            ctx.count("stepping_checked")
        elif "analysis_error" in res:
            ctx.count("analysis_rejected")
        orc = events_to_oracle(res.get("events", []))
        if orc is None:
            ctx.tie_break("corr:from-function", {"case": case["f"], "note": "unexpected _is_zero call sequence", "events": res.get("events")[:20]})
        else:
            ops.append((case, res, orc))
    ctx.sample({"f": cases[4]["f"], "impl": {k: results[4].get(k) for k in ("shape", "shape_error", "state_variables")} if isinstance(results[4], dict) else None})
    if driver is not None and ops:
        max_order = driver.ask([("constants", {})])[0].get("max_order", 4)
        ans = driver.ask([("from-function", orc) for _, _, orc in ops])
        for (case, res, orc), a in zip(ops, ans):
            ctx.count("corr_from-function")
            impl = {"order": res["shape"]["order"]} if "shape" in res else {"error": res.get("shape_error")}
            if str(impl.get("error", "")).startswith("other:"):
                # an exception escaped from one of the SymPy calls that the model treats as total oracles (seen: `log(1 + t)` - printing an integer of more
                # than 4300 digits raises ValueError in Python 3.12): the function is rejected, which the property allows; the recorded answers stop
                # in the middle of the control flow, so there is nothing to compare the model's run with
                ctx.count("from_function_oracle_raised")
                ctx.cov.setdefault("oracle_raised", []).append({"f": case["f"], "error": impl["error"]})
                continue
            attempted = len(orc["invertible"]) - 2          # orders 2, 3, ... for which from_function asked its oracles
            if impl.get("error") == "no-ode" and attempted != max_order - 1:
                ctx.tie_break("corr:from-function", {"case": case["f"], "note": "the search gave up after trying %d higher orders; the model (max_order=%d from the source's default) tries %d" % (attempted, max_order, max_order - 1)})
            if a != impl:
                ctx.tie_break("corr:from-function", {"case": case["f"], "tsym": case.get("tsym", "t"), "model": a, "impl": impl, "oracle": {k: orc[k] for k in ("order1", "verifies")}})
    ctx.assumptions += [
        "SymPy contracts: diff is the derivative, solve/inv of the sample matrix, simplify and _is_zero (true only for the zero expression); the verified identity f^(n) = sum a_k f^(k) is taken to hold for all t when _is_zero(simplify(.)) says so (validated by the stepping oracle at 40 digits)",
        "order-4 functions (up to several minutes in SymPy) run in the thorough tier only",
    ]


def replay(rp):
    tb.import_toolbox()
    r = case_function(rp["failing_input"])
    print(json.dumps({k: r.get(k) for k in ("shape", "shape_error", "problems", "analysis_error")}, indent=1)[:2000])
    return 1 if r.get("problems") else 0
