"""C14 -- solver recommendation is the documented function of fairly measured step sizes."""
import ast
import json
import math
import os

from harness.core import pool, tb

PROOF_MODULE = ["OdeVerif.Proofs.C14", "OdeVerif.Proofs.RefineStiffness", "OdeVerif.Proofs.RefinePartition", "OdeVerif.Proofs.RefineStep", "OdeVerif.Proofs.RefineTesterArgs", "OdeVerif.Proofs.RefineBenchmark"]
GENERATED = ["DrawDecision", "Constants", "PyStiffness", "PyPartition", "PyStep", "PyTesterArgs", "PyBenchmark"]
THEOREMS = ["OdeVerif.C14.drawDecision_table", "OdeVerif.C14.drawDecision_clauses", "OdeVerif.C14.drawDecision_defaults",
            "OdeVerif.C14.drawDecision_args", "OdeVerif.C14.solverName_suffix", "OdeVerif.C14.solverName_none",
            "OdeVerif.C14.benchmarks_same_stimulus", "OdeVerif.C14.benchmarks_reproducible",
            "OdeVerif.C14.benchmarks_unfair_without_python_seed",
            "OdeVerif.Refine.checkStiffness_spec", "OdeVerif.Refine.recommendation_documented", "OdeVerif.Refine.no_recommendation_without_benchmark",
            "OdeVerif.Refine.solverPartition_names",
            "OdeVerif.Refine.numericalJacobian_entry", "OdeVerif.Refine.stepLocals_indep_stale",
            "OdeVerif.Refine.testerKwargs_numeric", "OdeVerif.Refine.testerKwargs_passthrough", "OdeVerif.Refine.evaluateIntegrator_trace", "OdeVerif.Refine.evaluateIntegrator_same_protocol"]
LEVEL = "proof"
EPS = 2.220446049250313e-16


def documented(mi, me, ai, ae, dr, ar):
    """Independent statement of the documented rule; None on the unspecified ties."""
    thr = dr * EPS
    if mi == thr or me == thr:
        return None
    if mi < thr and me < thr:
        return "warning"
    if mi < thr:
        return "explicit"
    if me < thr:
        return "implicit"
    if ai == ar * ae:
        return None if False else "explicit"    # "exceeds" is strict; equality -> explicit per the statement's "otherwise ... explicit when smaller": tie left unjudged below
    return "implicit" if ai > ar * ae else "explicit"


def seed_policy_from_source():
    """Which generators _evaluate_integrator re-seeds (read off the AST)."""
    with open(os.path.join(tb.REPO, "odetoolbox", "stiffness.py")) as f:
        tree = ast.parse(f.read())
    np_seed = py_seed = False
    for node in ast.walk(tree):
        if isinstance(node, ast.FunctionDef) and node.name == "_evaluate_integrator":
            for c in ast.walk(node):
                if isinstance(c, ast.Call):
                    s = ast.unparse(c.func)
                    if s in ("np.random.seed", "numpy.random.seed"):
                        np_seed = True
                    if s == "random.seed":
                        py_seed = True
    return np_seed, py_seed


# ------------------------------------------------------------------------------------------
#  benchmark systems
# ------------------------------------------------------------------------------------------

def _systems(rng, n):
    out = []
    fixed = [
        {"dynamics": [{"expression": "x' = -x**3 - x / tau", "initial_value": "1"}],
         "parameters": {"tau": "0.02"}},
        {"dynamics": [{"expression": "y1' = -k * y1 + y2**2", "initial_value": "1"},
                      {"expression": "y2' = -y2 * y1 - y2 / tau", "initial_value": "0.5"}],
         "parameters": {"k": "2000", "tau": "0.01"}},
        {"dynamics": [{"expression": "V' = -V / tau + I * (1 - V**2)", "initial_value": "0"},
                      {"expression": "I' = -I / tau_s", "initial_value": "1"}],
         "parameters": {"tau": "0.01", "tau_s": "0.002"}},
    ]
    for i in range(n):
        base = json.loads(json.dumps(fixed[i % len(fixed)]))
        var = base["dynamics"][0]["expression"].split("'")[0].strip()
        targets = [var]
        if len(base["dynamics"]) > 1 and rng.random() < 0.5:
            targets.append(base["dynamics"][1]["expression"].split("'")[0].strip())
        stim = [{"type": "poisson_generator", "rate": str(rng.choice([200., 500., 1000.])), "variables": targets}]
        if rng.random() < 0.4:
            stim.append({"type": "regular", "rate": str(rng.choice([50., 100.])), "variables": [var]})
        if rng.random() < 0.4:
            # a few precisely timed extra spikes on a variable that an earlier entry already drives
            times_ = rng.sample(["1E-3", "4E-3", "11E-3", "0.0175"], rng.choice([1, 2, 3]))
            if rng.random() < 0.5:
                times_.append(times_[0])          # the same time named twice: two spikes
            stim.append({"type": "list", "list": " ".join(times_), "variables": [var]})
        base["stimuli"] = stim
        base["options"] = {"sim_time": rng.choice([0.02, 0.05]), "max_step_size": 0.005}
        # analysis() offers no way to choose the seed (`random_seed` is not an accepted option key), so the
        # harness sets it on the tester the call constructs; None = leave the default
        case = {"indict": base, "seed": rng.choice([None, rng.randrange(0, 1000)])}
        if i % 2 == 1:
            # scripted stepper: dictate which candidate suggests a step below eps * dist_ratio on a cut step
            case["script"] = rng.choice([{"rk4": 1e-16}, {"bsimp": 1e-16}, {"rk4": 1e-16, "bsimp": 5e-16}, {"rk4": 1e-13}, {}])
        out.append(case)
    return out


def _init_worker():
    tb.import_toolbox(standin=True)


def case_benchmark(case):
    """Run analysis() twice on the case through the stand-in; record protocol + stimuli."""
    indict, seed = case["indict"], case["seed"]
    import random
    import numpy as np
    odetoolbox = tb.import_toolbox(standin=True)
    tb.reset_config()
    from odetoolbox.spike_generator import SpikeGenerator
    from odetoolbox.stiffness import StiffnessTester
    events, trains, recs = [], [], []
    o_np_seed, o_py_seed, o_py_random = np.random.seed, random.seed, random.random
    o_sg = SpikeGenerator.spike_times_from_json.__func__
    o_cs = StiffnessTester.check_stiffness
    o_init = StiffnessTester.__init__
    from odetoolbox.mixed_integrator import MixedIntegrator
    import pygsl.odeiv as odeiv
    o_int = MixedIntegrator.integrate_ode
    measured = []

    merged = []

    def rec_int(self, *a, **k):
        # what the integrator will actually apply: per variable, the times of its merged event list with multiplicity
        mm = {}
        for t_, syms_ in zip(getattr(self, "all_spike_times", []), getattr(self, "all_spike_times_sym", [])):
            for s_ in syms_:
                mm.setdefault(str(s_), []).append(float(t_))
        merged.append({k_: sorted(v_) for k_, v_ in mm.items()})
        r = o_int(self, *a, **k)
        measured.append([getattr(self.numeric_integrator, "__name__", str(self.numeric_integrator)), float(r[0]), float(r[1])])
        return r
    script = case.get("script")
    if script:
        calls = {"rk4": 0, "bsimp": 0}

        def scripted(name, t, t1, h, y, func, jac):
            calls[name] += 1
            hs = h
            if script.get(name) and calls[name] % 3 == 2:
                hs = script[name]              # a tiny suggested step on a step that was cut
            import numpy as np
            return t1, hs, np.array(y) + (t1 - t) * np.array(func(t, y, None), dtype=float)

    def t_init(self, *a, **k):
        o_init(self, *a, **k)
        if seed is not None:
            self.random_seed = seed
        seeds_used.append(self.random_seed)
    seeds_used = []

    def np_seed(s=None):
        events.append("np.seed %s" % s)
        return o_np_seed(s)

    def py_seed(s=None, *a, **k):
        events.append("py.seed %s" % s)
        return o_py_seed(s, *a, **k)

    def py_random():
        events.append("py.random")
        return o_py_random()

    def sg(cls, stimuli, sim_time):
        r = o_sg(cls, stimuli, sim_time)
        trains.append({k: [float(x) for x in v] for k, v in r.items()})
        return r

    def cs(self, *a, **k):
        r = o_cs(self, *a, **k)
        recs.append(r)
        return r
    np_draws = {}
    for nm in ("random", "rand", "uniform", "exponential", "poisson", "random_sample"):
        f = getattr(np.random, nm)
        np_draws[nm] = f

        def mk(f):
            def g(*a, **k):
                events.append("np.draw")
                return f(*a, **k)
            return g
        setattr(np.random, nm, mk(f))
    np.random.seed, random.seed, random.random = np_seed, py_seed, py_random
    SpikeGenerator.spike_times_from_json = classmethod(sg)
    StiffnessTester.check_stiffness = cs
    StiffnessTester.__init__ = t_init
    MixedIntegrator.integrate_ode = rec_int
    if script:
        odeiv.SCRIPT = scripted
    else:
        odeiv.AUDIT = {"every": 5, "n": 0, "checked": 0, "fails": []}
    out = {"runs": []}
    try:
        random.seed.__self__ if False else None
        o_py_seed(987654321)        # ambient state: deterministic but unrelated to the option seed
        for rep in range(2):
            del events[:], trains[:], recs[:], measured[:], merged[:]
            try:
                res = odetoolbox.analysis(json.loads(json.dumps(indict)), disable_stiffness_check=False)
                names = [s["solver"] for s in res]
                err = None
            except Exception as e:
                names, err = [], type(e).__name__ + ": " + str(e)[:200]
            out["runs"].append({"events": list(events), "trains": [dict(t) for t in trains], "recs": list(recs), "measured": [list(m) for m in measured], "merged": [dict(m) for m in merged],
                                "names": names, "error": err})
    finally:
        np.random.seed, random.seed, random.random = o_np_seed, o_py_seed, o_py_random
        for nm, f in np_draws.items():
            setattr(np.random, nm, f)
        SpikeGenerator.spike_times_from_json = classmethod(o_sg)
        StiffnessTester.check_stiffness = o_cs
        StiffnessTester.__init__ = o_init
        MixedIntegrator.integrate_ode = o_int
        odeiv.SCRIPT = None
        if odeiv.AUDIT is not None:
            out["jac_audit"] = {"jacobians": odeiv.AUDIT["n"], "checked": odeiv.AUDIT["checked"], "fails": odeiv.AUDIT["fails"]}
        odeiv.AUDIT = None
    out["seed_used"] = seeds_used[0] if seeds_used else None
    return out


HASHSEED_SCRIPT = r'''
import json, random, sys
sys.path.insert(0, sys.argv[1])
import logging; logging.disable(logging.CRITICAL)
from odetoolbox.spike_generator import SpikeGenerator
stimuli = json.loads(sys.argv[2])
random.seed(int(sys.argv[3]))
r = SpikeGenerator.spike_times_from_json(stimuli, float(sys.argv[4]))
print(json.dumps({k: [float(x) for x in v] for k, v in sorted(r.items())}))
'''


def stimulus_under_hashseed(stimuli, seed, sim_time, hashseed):
    import subprocess
    import sys
    env = dict(os.environ)
    env["PYTHONHASHSEED"] = str(hashseed)
    p = subprocess.run([sys.executable, "-c", HASHSEED_SCRIPT, tb.REPO, json.dumps(stimuli), str(seed), str(sim_time)], stdout=subprocess.PIPE,
                       stderr=subprocess.PIPE, text=True, timeout=120, env=env)
    if p.returncode != 0:
        return {"error": p.stderr[-300:]}
    return json.loads(p.stdout.strip().split("\n")[-1])


def run_calls_fresh(calls, timeout=300):
    """the stiffness-checked analysis() calls `calls`, one after the other in one fresh interpreter (harness/core/c14_runner.py)"""
    import subprocess
    import sys
    env = dict(os.environ)
    env["PYTHONHASHSEED"] = "0"
    p = subprocess.run([sys.executable, os.path.join(tb.VERIF, "harness", "core", "c14_runner.py")],
                       input=json.dumps({"calls": calls, "verif": tb.VERIF, "repo": tb.REPO}), stdout=subprocess.PIPE, stderr=subprocess.PIPE,
                       text=True, timeout=timeout, env=env, cwd=tb.REPO)
    if p.returncode != 0 or not p.stdout.strip():
        return {"runner_error": p.stderr[-400:]}
    return json.loads(p.stdout.strip().split("\n")[-1])


def case_history(case):
    return {"alone": run_calls_fresh([case["probe"]]), "after": run_calls_fresh(case["history"] + [case["probe"]])}


def _history_cases(rng, n):
    """a model analysed after ANOTHER model that uses the same variable / parameter names with other initial values,
    parameter values and stimuli, vs. the same model analysed first in a fresh interpreter"""
    out = []
    for i in range(n):
        iv1, iv2 = rng.sample(["1", "0.5", "20", "-2", "4"], 2)
        k1, k2 = rng.sample(["2000", "50", "5"], 2)

        def model(iv, k, rate):
            return {"dynamics": [{"expression": "y1' = -k * y1 + y2**2", "initial_value": iv},
                                 {"expression": "y2' = -y2 * y1 - y2 / tau", "initial_value": "0.5"}],
                    "parameters": {"k": k, "tau": "0.01"},
                    "stimuli": [{"type": "poisson_generator", "rate": rate, "variables": ["y1"]}],
                    "options": {"sim_time": 0.02, "max_step_size": 0.005}}
        out.append({"history": [model(iv1, k1, "500.0")], "probe": model(iv2, k2, rng.choice(["500.0", "200.0"]))})
    return out


def _quads(rng, n):
    """step-size quadruples incl. all 27 below/at/above patterns x ratio settings"""
    out = []
    ratios = [(10, 6), (10.0, 6.0), (1, 1), (100, 2), (3, 50), (0.5, 0.25)]
    for dr, ar in ratios:
        thr = dr * EPS
        for a in (-1, 0, 1):
            for b in (-1, 0, 1):
                for c in (-1, 0, 1):
                    mi = thr * (1 + 0.5 * a) if a else thr
                    me = thr * (1 + 0.5 * b) if b else thr
                    ae = rng.choice([1e-4, 3e-3, 0.125])
                    ai = ar * ae * (1 + 0.25 * c) if c else ar * ae
                    out.append((mi, me, ai, ae, dr, ar))
    while len(out) < n:
        dr, ar = rng.choice(ratios)
        def pick():
            r = rng.random()
            if r < 0.3:
                return 10 ** rng.uniform(-18, -13)
            if r < 0.4:
                return dr * EPS
            return 10 ** rng.uniform(-9, 0)
        ae = 10 ** rng.uniform(-6, 0)
        ai = rng.choice([ar * ae, ae * 10 ** rng.uniform(-2, 2), math.nextafter(ar * ae, 1), math.nextafter(ar * ae, 0)])
        out.append((pick(), pick(), ai, ae, dr, ar))
    return out


def run(ctx, driver):
    tb.import_toolbox(standin=True)
    from odetoolbox.stiffness import StiffnessTester
    rng = ctx.rng("quads")
    quads = _quads(rng, 2000 if ctx.tier == "quick" else 50000)
    ctx.rule = ("(a) step-size septuples (mi, me, ai, ae, dist_ratio, avg_ratio): all 27 below/at/above patterns x 6 ratio settings, "
                "then random incl. exact ties and 1-ulp neighbours; distinct = distinct (pattern, ratio setting) classes hit; "
                "(b) analysis() runs with Poisson stimuli through the PyGSL stand-in; distinct = distinct (system, stimulus, seed); stimuli also regular and list entries on a variable another entry drives (every specified spike must be delivered to both candidates); the stand-in's implicit stepper asks for the Jacobian at the start of every raw step and every 5th is audited against central differences of the derivative function at the same (t, y)")
    # --- (a) decision function: real vs documented (oracle) and real vs Lean at Float (correspondence)
    real = []
    for q in quads:
        mi, me, ai, ae, dr, ar = q
        r = StiffnessTester._draw_decision(None, mi, me, ai, ae, machine_precision_dist_ratio=dr, avg_step_size_ratio=ar)
        real.append(r)
        exp = documented(*q)
        thr = dr * EPS
        pat = (mi < thr, mi == thr, me < thr, me == thr, ai > ar * ae, ai == ar * ae, dr, ar)
        ctx.note_nontrivial("pat:" + repr(pat))
        ctx.evaluations += 1
        if exp is None or ai == ar * ae:
            ctx.count("draw_ties_not_judged")
            continue
        ctx.count("draw_judged")
        if r != exp:
            ctx.fail("decision-table", {"step_min_imp": mi, "step_min_exp": me, "step_average_imp": ai, "step_average_exp": ae,
                                        "machine_precision_dist_ratio": dr, "avg_step_size_ratio": ar},
                     {"expected_documented": exp, "observed": r, "signature": {"site": "_draw_decision"}})
    # defaults really are what the generated table says
    import inspect
    sig = inspect.signature(StiffnessTester._draw_decision)
    dflt = {k: v.default for k, v in sig.parameters.items() if v.default is not inspect._empty}
    if dflt != {"machine_precision_dist_ratio": 10, "avg_step_size_ratio": 6}:
        r0 = StiffnessTester._draw_decision(None, 1e-3, 1e-3, 8e-3, 1e-3)
        r1 = StiffnessTester._draw_decision(None, 1e-3, 1e-3, 8e-3, 1e-3, 10, 6)
        r2 = StiffnessTester._draw_decision(None, 15 * EPS, 1e-3, 1e-3, 1e-3)
        r3 = StiffnessTester._draw_decision(None, 15 * EPS, 1e-3, 1e-3, 1e-3, 10, 6)
        if r0 != r1 or r2 != r3:
            ctx.fail("decision-defaults", {"defaults_in_source": dflt}, {"expected": "documented ratios 10 and 6",
                     "observed": [r0, r1, r2, r3], "signature": {"site": "_draw_decision defaults"}})
    if driver is not None:
        ans = driver.ask([("draw", {"args": [tb.f2bits(EPS)] + [tb.f2bits(x) for x in q]}) for q in quads])
        for q, a, r in zip(quads, ans, real):
            ctx.count("corr_draw")
            if a.get("decision") != r:
                ctx.tie_break("corr:draw", {"input": q, "model": a, "impl": r})
        ctx.sample({"op": "draw", "input": quads[5], "impl": real[5], "model": ans[5]})
    # --- (b) benchmark fairness / reproducibility / name through the stand-in
    np_seed, py_seed = seed_policy_from_source()
    ctx.cov["seed_policy_from_source"] = {"seeds_numpy": np_seed, "seeds_python": py_seed}
    if not py_seed:
        ctx.tie_break("hypothesis:benchmarks_same_stimulus",
                      "pol.seedsPython = true is not met by the source: _evaluate_integrator does not call random.seed")
    nsys = ctx.n(16, 80)
    systems = [c["case"] for c in ctx.corpus() if "case" in c] + _systems(ctx.rng("systems"), nsys)
    results = pool.run_cases("harness.props.c14", "case_benchmark", systems, timeout=150, init="_init_worker",
                             deadline=ctx.deadline())
    proto_ops = []
    draw_ops = []
    for case, res in zip(systems, results):
        indict = case
        ctx.evaluations += 1
        if res.get("timeout") or res.get("skipped_budget") or res.get("harness_error"):
            ctx.count("bench_skipped_" + ("timeout" if res.get("timeout") else "other"))
            if res.get("harness_error"):
                ctx.cov.setdefault("harness_errors", []).append(res["harness_error"][:300])
            continue
        ctx.note_nontrivial("bench:" + json.dumps(case, sort_keys=True))
        runs = res["runs"]
        ctx.sample({"op": "benchmark", "stimuli": case["indict"]["stimuli"], "options": case["indict"]["options"], "seed": res.get("seed_used"),
                    "names": runs[0]["names"], "n_events": len(runs[0]["events"])})
        for r in runs:
            if r["error"]:
                ctx.count("bench_error")
                ctx.cov.setdefault("bench_errors", []).append(r["error"])
                continue
            ctx.count("bench_runs")
            sigbase = {"site": "_evaluate_integrator", "stimulus_types": sorted({s["type"] for s in case["indict"]["stimuli"]})}
            if len(r["trains"]) != 2:
                ctx.fail("benchmark-protocol", indict, {"expected": "two stimulus generations per check", "observed": len(r["trains"]), "signature": sigbase})
                continue
            # both candidates must be benchmarked on the stimulus the input SPECIFIES: every time a list entry names and every multiple of a regular
            # entry's period (up to sim_time) is delivered to each of its targets, whatever other entries drive the same variable
            T_ = float(case["indict"]["options"]["sim_time"])
            marker_ = case["indict"].get("options", {}).get("differential_order_symbol", "__d")
            missing = None
            for st_ in case["indict"]["stimuli"]:
                if st_["type"] == "list":
                    want_t = [float(x) for x in st_["list"].split() if float(x) <= T_]
                elif st_["type"] == "regular":
                    per = 1.0 / float(st_["rate"])
                    want_t = [k_ * per for k_ in range(1, int(T_ / per) + 1) if k_ * per <= T_]
                else:
                    continue
                for v_ in st_["variables"]:
                    got_t = r["trains"][0].get(v_.replace("'", marker_), [])
                    lost = [x for x in want_t if not any(abs(x - y) <= 1e-9 * max(1.0, abs(x)) for y in got_t)]
                    if lost and missing is None:
                        missing = {"stimulus": st_, "variable": v_, "specified_but_not_delivered": lost[:5], "delivered": len(got_t)}
            # ... and what each candidate's integrator merges from it must be the generated train itself, spike for spike (coincident spikes on one
            # variable count as many times as they were specified)
            for gi_, mg_ in enumerate(r.get("merged") or []):
                tr_ = r["trains"][min(gi_, len(r["trains"]) - 1)] if r["trains"] else {}
                for v_, ts_ in tr_.items():
                    if sorted(ts_) != mg_.get(v_, []) and missing is None:
                        missing = {"variable": v_, "generated_train_has": len(ts_), "integrator_applies": len(mg_.get(v_, [])), "candidate": gi_}
            if missing:
                ctx.fail("benchmark-not-on-the-specified-stimulus", indict, {"observed": missing, "signature": dict(sigbase, what="specified spikes missing")})
            if r["trains"][0] != r["trains"][1]:
                k = next(k for k in r["trains"][0] if r["trains"][0][k] != r["trains"][1].get(k))
                ctx.fail("benchmark-different-stimulus", indict,
                         {"expected": "explicit and implicit candidate benchmarked on the same spike train",
                          "observed": {"variable": k, "first_run_head": r["trains"][0][k][:3], "second_run_head": r["trains"][1].get(k, [])[:3]},
                          "signature": dict(sigbase, what="trains differ between the two candidates")})
            rec = r["recs"][0] if r["recs"] else None
            ms = r.get("measured") or []
            if rec is not None and len(ms) == 2:
                (n_exp, min_exp, avg_exp), (n_imp, min_imp, avg_imp) = ms
                want_rec = documented(min_imp, min_exp, avg_imp, avg_exp, 10, 6)
                ctx.count("end_to_end_recommendation_checked")
                ctx.count("end_to_end:" + str(want_rec))
                draw_ops.append((case, [min_imp, min_exp, avg_imp, avg_exp, 10, 6], rec))
                if want_rec is not None and avg_imp != 6 * avg_exp and rec != want_rec:
                    ctx.fail("recommendation-not-function-of-measured-steps", case,
                             {"measured": {"step_min_imp": min_imp, "step_min_exp": min_exp, "step_average_imp": avg_imp, "step_average_exp": avg_exp},
                              "expected_documented": want_rec, "observed": rec, "signature": {"site": "check_stiffness", "script": sorted((case.get("script") or {}).keys())}})
            numeric = [n for n in r["names"] if n.startswith("numeric")]
            want = "numeric" + ("-" + rec if rec is not None else "")
            if numeric != [want]:
                ctx.fail("solver-name", indict, {"expected": want, "observed": r["names"], "signature": {"site": "analysis solver name"}})
        ja = res.get("jac_audit")
        if ja:
            ctx.count("implicit_jacobians_handed", ja["jacobians"])
            ctx.count("implicit_jacobians_audited", ja["checked"])
            if ja["fails"]:
                ctx.fail("implicit-candidate-benchmarked-on-another-system", indict,
                         {"expected": "the Jacobian handed to the implicit candidate at (t, y) is the derivative of the right-hand side that is integrated, at the same (t, y)",
                          "observed": ja["fails"][0], "signature": {"site": "numerical_jacobian during the benchmark"}})
        ok = [r for r in runs if not r["error"]]
        if len(ok) == 2:
            if ok[0]["trains"] != ok[1]["trains"] or ok[0]["recs"] != ok[1]["recs"]:
                ctx.fail("benchmark-not-reproducible", indict,
                         {"expected": "same seed -> same stimuli and recommendation", "observed": {"recs": [ok[0]["recs"], ok[1]["recs"]]},
                          "signature": {"site": "_evaluate_integrator", "stimulus_types": sorted({s["type"] for s in case["indict"]["stimuli"]}),
                                        "what": "repeat with the same seed differs"}})
            # protocol correspondence
            ev = ok[0]["events"]
            # split events into the two runs at the second np.seed/py.seed block
            n_rand = [0, 0]
            blk = -1
            prev_seed = False
            for e in ev:
                if e.startswith("np.seed") or e.startswith("py.seed"):
                    if not prev_seed:
                        blk += 1
                    prev_seed = True
                else:
                    prev_seed = False
                    if e == "py.random" and 0 <= blk < 2:
                        n_rand[blk] += 1
            proto_ops.append((ev, {"seed": int(res["seed_used"]), "n1": n_rand[0], "n2": n_rand[1],
                                   "seeds_numpy": np_seed, "seeds_python": py_seed}))
    if driver is not None and draw_ops:
        ans = driver.ask([("draw", {"args": [tb.f2bits(EPS)] + [tb.f2bits(x) for x in q]}) for _, q, _ in draw_ops])
        for (case, q, rec), a in zip(draw_ops, ans):
            ctx.count("corr_recommend")
            if a.get("decision") != rec:
                ctx.tie_break("corr:recommend", {"case": case.get("script"), "measured": q, "model": a, "impl": rec,
                                                 "note": "check_stiffness() vs the regenerated decision function applied to what integrate_ode measured"})
    if driver is not None and proto_ops:
        ans = driver.ask([("stiff-proto", p) for _, p in proto_ops])
        for (ev, p), a in zip(proto_ops, ans):
            ctx.count("corr_proto")
            if a.get("events") != ev:
                ctx.tie_break("corr:stiff-proto", {"input": p, "model_head": (a.get("events") or a)[:6] if isinstance(a.get("events"), list) else a,
                                                   "impl_head": ev[:6], "model_len": len(a.get("events") or []), "impl_len": len(ev)})
    # ---- (b') the benchmark of a model must not depend on what was benchmarked earlier in the same process
    hcases = _history_cases(ctx.rng("history"), ctx.n(3, 16))
    hres = pool.run_cases("harness.props.c14", "case_history", hcases, timeout=400, deadline=ctx.deadline())
    for hc, hr in zip(hcases, hres):
        ctx.evaluations += 1
        if hr.get("timeout") or hr.get("skipped_budget") or hr.get("harness_error") or "runner_error" in hr.get("alone", {}) or "runner_error" in hr.get("after", {}):
            ctx.count("history_skipped")
            if hr.get("harness_error") or "runner_error" in str(hr):
                ctx.cov.setdefault("harness_errors", []).append(str(hr)[:300])
            continue
        ctx.count("history_pairs")
        ctx.note_nontrivial("history:" + json.dumps(hc, sort_keys=True))
        a, b = hr["alone"]["calls"][-1], hr["after"]["calls"][-1]
        if a != b:
            ctx.fail("benchmark-depends-on-earlier-analysis", hc,
                     {"expected": "same input, same seed -> same measured step sizes and recommendation, whatever was analysed before in the process",
                      "probe_first_in_fresh_interpreter": a, "probe_after_history": b,
                      "signature": {"site": "check_stiffness", "what": "process history"}})
    # ---- (c) "reproducible for a fixed seed": the stimulus generated for a fixed seed must not depend on the interpreter's
    #      hash randomisation (fresh interpreters under different PYTHONHASHSEED values)
    rng3 = ctx.rng("hashseed")
    for i in range(ctx.n(3, 20)):
        targets = rng3.sample(["V_m", "I_syn", "g_ex'", "w", "x", "I_in"], rng3.choice([2, 3, 4]))
        stimuli = [{"type": "poisson_generator", "rate": "300.0", "variables": targets}]
        seed = rng3.randrange(1000)
        outs = [stimulus_under_hashseed(stimuli, seed, 0.05, hs) for hs in (1, 2, 3)]
        ctx.evaluations += 1
        ctx.count("hashseed_runs", len(outs))
        if any("error" in o for o in outs):
            ctx.cov.setdefault("harness_errors", []).append(str(outs)[:300])
            continue
        ctx.note_nontrivial("hashseed:" + json.dumps([stimuli, seed]))
        if not all(o == outs[0] for o in outs):
            k = next(k for k in outs[0] if any(o.get(k) != outs[0][k] for o in outs))
            ctx.fail("stimulus-not-reproducible-for-fixed-seed", {"stimuli": stimuli, "seed": seed, "sim_time": 0.05, "hashseeds": [1, 2, 3]},
                     {"variable": k, "heads": [o.get(k, [])[:2] for o in outs], "signature": {"site": "spike_times_from_json", "what": "depends on PYTHONHASHSEED", "targets": len(targets) > 1}})
    ctx.assumptions += [
        "step sizes are measured through a stand-in for pygsl.odeiv (real PyGSL/GSL absent): the measured values themselves are outside the model",
        "floating-point rounding of dist_ratio*eps and avg_ratio*step_average_exp: the theorem is over ordered fields; the Float instance of the same definition is compared bit-for-bit with the code on every run",
        "exact ties (mi = thr, me = thr, ai = ratio*ae) are compared model-vs-code but not judged (left unspecified by the property)",
    ]


def replay(rp):
    tb.import_toolbox(standin=True)
    from odetoolbox.stiffness import StiffnessTester
    case = rp.get("failing_input", {})
    if "step_min_imp" in case:
        r = StiffnessTester._draw_decision(None, case["step_min_imp"], case["step_min_exp"], case["step_average_imp"], case["step_average_exp"],
                                           case["machine_precision_dist_ratio"], case["avg_step_size_ratio"])
        exp = documented(case["step_min_imp"], case["step_min_exp"], case["step_average_imp"], case["step_average_exp"],
                         case["machine_precision_dist_ratio"], case["avg_step_size_ratio"])
        print("observed", r, "documented", exp)
        return 0 if r == exp else 1
    res = case_benchmark(case)
    bad = False
    ja = res.get("jac_audit") or {}
    if ja.get("fails"):
        print("Jacobian handed to the implicit candidate differs from the derivative of the integrated right-hand side:", json.dumps(ja["fails"][0]))
        bad = True
    T_ = float(case["indict"]["options"]["sim_time"])
    for st_ in case["indict"].get("stimuli", []):
        if st_["type"] == "list":
            want_t = [float(x) for x in st_["list"].split() if float(x) <= T_]
        elif st_["type"] == "regular":
            per = 1.0 / float(st_["rate"])
            want_t = [k_ * per for k_ in range(1, int(T_ / per) + 1) if k_ * per <= T_]
        else:
            continue
        for r in res["runs"]:
            for v_ in st_["variables"]:
                got_t = (r["trains"][0] if r["trains"] else {}).get(v_.replace("'", "__d"), [])
                lost = [x for x in want_t if not any(abs(x - y) <= 1e-9 * max(1.0, abs(x)) for y in got_t)]
                if lost:
                    print("specified but not delivered to", v_, ":", lost[:5])
                    bad = True
    for r in res["runs"]:
        print("names", r["names"], "recs", r["recs"], "error", r["error"], "trains equal:", len(r["trains"]) == 2 and r["trains"][0] == r["trains"][1])
        bad |= not (len(r["trains"]) == 2 and r["trains"][0] == r["trains"][1])
    return 1 if bad else 0
