"""C12 -- analytic integrator gives the exact spike-driven solution for any query history."""
import json
import math

from harness.core import pool, tb

PROOF_MODULE = ["OdeVerif.Proofs.C12", "OdeVerif.Proofs.RefineIntegrator", "OdeVerif.Proofs.RefineUpdateStep", "OdeVerif.Proofs.RefineIntegratorInit", "OdeVerif.Proofs.RefineAnalyticInit"]
GENERATED = ['PyIntegrator', "PyUpdateStep", "PyIntegratorInit", "PyAnalyticInit"]
THEOREMS = ["OdeVerif.C12.setSpikeTimes_sorted", "OdeVerif.C12.setSpikeTimes_grouped", "OdeVerif.C12.getValue_history_independent",
            "OdeVerif.C12.spec_zero", "OdeVerif.C12.spec_flow", "OdeVerif.C12.spec_jump",
            "OdeVerif.Refine.getValue_refines", "OdeVerif.Refine.mergeSpikes_refines", "OdeVerif.Refine.setSpikeTimes_refines",
            "OdeVerif.Refine.updateStep_lookup", "OdeVerif.Refine.updateStep_order_invariant",
            "OdeVerif.Refine.setInitialValues_refines", "OdeVerif.Refine.setIvSpec_lookup", "OdeVerif.Refine.setIvSpec_unknown",
            "OdeVerif.Refine.analyticInit_starting", "OdeVerif.Refine.analyticInit_subsDict", "OdeVerif.Refine.analyticInit_update", "OdeVerif.Refine.analyticInit_update_keys"]
LEVEL = "proof"

# analytic solver dictionaries used by the recorder runs (hand-written: the recorder never evaluates them)
SOLVER_2 = {"solver": "analytical", "state_variables": ["I", "I__d"], "initial_values": {"I": "0", "I__d": "1"},
            "propagators": {"__P__I__I": "1", "__P__I__I__d": "__h", "__P__I__d__I": "0", "__P__I__d__I__d": "1"},
            "update_expressions": {"I": "__P__I__I*I + __P__I__I__d*I__d", "I__d": "__P__I__d__I__d*I__d"}}


class RecState(dict):
    """State whose history is recorded as a term; `d[k] += x` appends an increment."""

    def __init__(self, term, keys):
        dict.__init__(self, {k: 0.0 for k in keys})
        self.term = term

    def copy(self):
        return RecState(self.term, list(self.keys()))

    def __getitem__(self, k):
        if k not in self.keys():
            raise KeyError(k)
        return _Proxy(k)

    def __setitem__(self, k, v):
        if isinstance(v, _Inc):
            assert v.key == k
            self.term = "I(%s,%s)" % (k, self.term)
        else:
            self.term = "SET(%s,%s)" % (k, self.term)


class _Proxy:
    def __init__(self, key):
        self.key = key

    def __add__(self, other):
        return _Inc(self.key, other)

    __radd__ = __add__


class _Inc:
    def __init__(self, key, val):
        self.key, self.val = key, val


def make_recorder(solver_dict, spike_times, enable_caching):
    from odetoolbox.analytic_integrator import AnalyticIntegrator

    class Rec(AnalyticIntegrator):
        def _update_step(self, delta_t, initial_values):
            term = initial_values.term if isinstance(initial_values, RecState) else "PLAIN"
            return RecState("S(%s,%s)" % (tb.f2bits(delta_t), term), list(self.initial_values.keys()))
    ai = Rec(json.loads(json.dumps(solver_dict)), spike_times, enable_caching=enable_caching)
    ai.initial_values = RecState("INIT", list(ai.initial_values.keys()))
    ai.reset()
    return ai


def _init_worker():
    tb.import_toolbox()


def gen_history(rng):
    vars_ = ["I", "I__d"]
    grid = rng.choice([0.125, 0.25, 0.5, 1.0, 0.1, 0.37])
    def tm():
        r = rng.random()
        if r < 0.7:
            return grid * rng.randint(0, 24)
        return round(rng.uniform(0, 6), rng.choice([1, 2, 6]))
    spike_times = {}
    keys = rng.sample(vars_, rng.choice([0, 1, 2, 2]))
    for k in keys:
        n = rng.choice([0, 1, 2, 4, 7])
        ts = [tm() for _ in range(n)]
        if ts and rng.random() < 0.3:
            ts.append(rng.choice(ts))                # duplicate within one variable
        spike_times[k] = ts
    if len(keys) == 2 and spike_times[keys[0]] and rng.random() < 0.6:
        spike_times[keys[1]].append(rng.choice(spike_times[keys[0]]))      # coincident across variables
    if keys and spike_times[keys[0]] and rng.random() < 0.4:
        # NEARLY coincident (distinct doubles a few ulps to 1e-6 relative apart): must stay separate events
        base = rng.choice(spike_times[keys[0]])
        if base > 0:
            near = base * (1 + rng.choice([1e-6, 3e-9, 2 ** -50, -1e-7]))
            spike_times[rng.choice(keys)].append(near)
    ops = []
    allspk = [t for ts in spike_times.values() for t in ts]
    for _ in range(rng.choice([1, 3, 6, 10, 16])):
        r = rng.random()
        if r < 0.1:
            ops.append(["disable"])
        elif r < 0.2:
            ops.append(["enable"])
        elif r < 0.25:
            ops.append(["reset"])
        else:
            q = rng.random()
            if q < 0.25 and allspk:
                t = rng.choice(allspk)              # query exactly at a spike time
            elif q < 0.35 and ops and any(o[0] == "get" for o in ops):
                t = next(o[1] for o in reversed(ops) if o[0] == "get")      # repeated query
            else:
                t = tm()
            ops.append(["get", t])
    return {"spike_times": spike_times, "ops": ops, "enable_caching": rng.random() < 0.7}


def run_real_history(h):
    """The real AnalyticIntegrator with a recording `_update_step`; returns terms per query."""
    ai = make_recorder(SOLVER_2, {k: list(v) for k, v in h["spike_times"].items()}, h["enable_caching"])
    spikes = [[tb.f2bits(t), list(s)] for t, s in zip(*ai.get_sorted_spike_times())]
    outs = []
    for op in h["ops"]:
        if op[0] == "get":
            r = ai.get_value(op[1])
            outs.append(r.term if isinstance(r, RecState) else "PLAIN")
        elif op[0] == "enable":
            ai.enable_cache_update()
            outs.append(None)
        elif op[0] == "disable":
            ai.disable_cache_update()
            outs.append(None)
        else:
            ai.reset()
            outs.append(None)
    return {"spikes": spikes, "outs": outs}


def spec_term(h, t):
    """Independent statement of the property on terms: propagate spike to spike, apply all spikes in (0, t]."""
    ev = {}
    order = []
    for k, ts in h["spike_times"].items():
        for s in ts:
            ev.setdefault(s, []).append(k)
    term, tc = "INIT", 0.0
    for s in sorted(ev):
        if 0 < s <= t:
            term = "S(%s,%s)" % (tb.f2bits(s - tc), term)
            tc = s
            for k in ev[s]:
                term = "I(%s,%s)" % (k, term)
    if t - tc > 0:
        term = "S(%s,%s)" % (tb.f2bits(t - tc), term)
    return term


def case_numeric(case):
    """Exact-reference oracle on real solver dictionaries (lambdified propagators): piecewise mpmath solution."""
    import mpmath
    import sympy
    odetoolbox = tb.import_toolbox()
    tb.reset_config()
    from odetoolbox.analytic_integrator import AnalyticIntegrator
    indict = case["indict"]
    res = odetoolbox.analysis(json.loads(json.dumps(indict)), disable_stiffness_check=True)
    sol = [s for s in res if s["solver"] == "analytical"][0]
    # the same dictionary (==) with another iteration order of its inner dictionaries, as after json.dumps(sort_keys=True) / a merge
    order = case.get("dict_order", "asis")
    if order != "asis":
        def re_key(d):
            ks = sorted(d) if order == "sorted" else list(reversed(list(d)))
            return {k: d[k] for k in ks}
        sol2 = {k: (re_key(v) if isinstance(v, dict) else v) for k, v in sol.items()}
        assert sol2 == sol
        sol = sol2
    marker = indict.get("options", {}).get("differential_order_symbol", "__d")
    svars = sol["state_variables"]
    out = {"vars": svars, "queries": []}
    # reference: x' = A x (+ b) from the *input* equations, solved by mpmath matrix exponential piecewise
    from harness.core import refsol
    ref = refsol.Reference(indict, marker=marker)
    h = case["history"]
    try:
        AnalyticIntegrator(sol, {}, enable_caching=True).get_value(0.5)
    except BaseException as e:
        return {"construct_error": type(e).__name__ + ": " + str(e)[:200], "options": indict.get("options")}
    snapshot = json.dumps(sol, sort_keys=True, default=str)
    ai = AnalyticIntegrator(sol, {k: list(v) for k, v in h["spike_times"].items()}, enable_caching=h["enable_caching"])
    ai2 = AnalyticIntegrator(sol, {k: list(v) for k, v in h["spike_times"].items()}, enable_caching=not h["enable_caching"])
    for op in h["ops"]:
        if op[0] == "get":
            got = ai.get_value(op[1])
            fresh = AnalyticIntegrator(sol, {k: list(v) for k, v in h["spike_times"].items()}, enable_caching=True).get_value(op[1])
            other = ai2.get_value(op[1])
            want = ref.solve(h["spike_times"], op[1])
            out["queries"].append({"t": op[1], "got": {k: float(got[k]) for k in svars}, "fresh": {k: float(fresh[k]) for k in svars},
                                   "other_mode": {k: float(other[k]) for k in svars}, "want": {k: float(want[k]) for k in svars}})
        elif op[0] == "enable":
            ai.enable_cache_update()
        elif op[0] == "disable":
            ai.disable_cache_update()
        else:
            ai.reset()
    # constructing and querying integrators must leave the caller's solver dictionary as it was ...
    out["dict_unmodified"] = (json.dumps(sol, sort_keys=True, default=str) == snapshot)
    # ... and a later integrator built from a merge of it that carries OTHER parameter values (a parameter sweep) must use those
    if sol.get("parameters") and indict.get("parameters"):
        scale = case.get("sweep_scale", 2.0)
        p2 = {k: repr(float(sympy.N(sympy.sympify(v))) * scale) for k, v in indict["parameters"].items()}
        sol_b = {**sol, "parameters": {k: p2.get(k, v) for k, v in sol["parameters"].items()}}
        ind_b = dict(indict, parameters=p2)
        ref_b = refsol.Reference(ind_b, marker=marker)
        ai_b = AnalyticIntegrator(sol_b, {k: list(v) for k, v in h["spike_times"].items()}, enable_caching=True)
        tq = [op[1] for op in h["ops"] if op[0] == "get"][:3] or [0.5]
        sweep = []
        for tv in tq:
            g_ = ai_b.get_value(tv)
            w_ = ref_b.solve(h["spike_times"], tv)
            sweep.append({"t": tv, "got": {k: float(g_[k]) for k in svars}, "want": {k: float(w_[k]) for k in svars}})
        out["sweep"] = {"scale": scale, "queries": sweep}
    return out


NUMERIC_SYSTEMS = [
    {"dynamics": [{"expression": "I'' = -I / tau**2 - 2 * I' / tau", "initial_values": {"I": "0", "I'": "e / tau"}}], "parameters": {"tau": "0.5"}},
    {"dynamics": [{"expression": "x' = -x / tau + y", "initial_value": "0.3"}, {"expression": "y' = -y / tau2", "initial_value": "1.5"}], "parameters": {"tau": "0.7", "tau2": "0.3"}},
    {"dynamics": [{"expression": "u' = v", "initial_value": "1"}, {"expression": "v' = -2 * u - 3 * v", "initial_value": "0.5"}]},
    {"dynamics": [{"expression": "z' = -z / tau + 2.5", "initial_value": "1"}], "parameters": {"tau": "0.4"}},
    {"dynamics": [{"expression": "z' = -z / tau", "initial_value": "1"}], "parameters": {"tau": "0.4"}, "options": {"output_timestep_symbol": "dt"}},
    {"dynamics": [{"expression": "I'' = -I / tau**2 - 2 * I' / tau", "initial_values": {"I": "0", "I'": "e / tau"}}], "parameters": {"tau": "0.5"},
     "options": {"differential_order_symbol": "_D", "output_timestep_symbol": "step"}},
]


def run(ctx, driver):
    tb.import_toolbox()
    quick = ctx.tier == "quick"
    ctx.rule = ("(a) recorder runs: the real AnalyticIntegrator with _update_step overridden by a term recorder, random spike maps (unsorted, duplicated, "
                "coincident, at query times) x random op histories (get / enable / disable / reset, backwards and repeated queries) x both caching modes; "
                "distinct = distinct (spike map, history, mode); non-trivial = at least one spike and two queries; "
                "(b) numeric runs on analysed systems against a piecewise mpmath reference; each also on the same dictionary (==) with sorted / reversed inner dictionaries; the caller's dictionary must be unmodified afterwards; a later integrator built from a merge with other parameter values must use those")
    rng = ctx.rng("hist")
    hists = [c["case"] for c in ctx.corpus() if "case" in c and "ops" in c["case"]]
    hists += [gen_history(rng) for _ in range(ctx.n(400, 12000))]
    ops = []
    for h in hists:
        ctx.evaluations += 1
        try:
            real = run_real_history(h)
        except Exception as e:
            ctx.fail("integrator-crash", h, {"error": type(e).__name__ + ": " + str(e)[:200], "signature": {"site": "get_value"}})
            continue
        nsp = sum(len(v) for v in h["spike_times"].values())
        nget = sum(1 for o in h["ops"] if o[0] == "get")
        if nsp >= 1 and nget >= 2:
            ctx.note_nontrivial(json.dumps(h, sort_keys=True))
        ctx.count("hist_caching_%s" % h["enable_caching"])
        ctx.count("queries", nget)
        # direct oracle: every answer equals the from-scratch specification term
        for op, out in zip(h["ops"], real["outs"]):
            if op[0] != "get":
                continue
            want = spec_term(h, op[1])
            if out != want:
                ctx.fail("history-dependent-answer", h, {"query": op[1], "expected_term": want[:300], "observed_term": (out or "")[:300],
                                                         "signature": {"site": "get_value"}})
                break
        ops.append(("ai-run", {"vars": ["I", "I__d"], "enable_caching": h["enable_caching"],
                               "spike_times": [[k, [tb.f2bits(t) for t in v]] for k, v in h["spike_times"].items()],
                               "ops": [[o[0], tb.f2bits(o[1])] if o[0] == "get" else [o[0]] for o in h["ops"]]}, real, h))
    ctx.sample({"op": "ai-run", "history": hists[-1], "impl_outs": [o[:80] if o else o for o in real["outs"]][:4]})
    if driver is not None:
        ans = driver.ask([(op, pl) for op, pl, _, _ in ops])
        for (op, pl, impl, h), a in zip(ops, ans):
            ctx.count("corr_ai-run")
            if a.get("outs") != impl["outs"] or a.get("spikes") != impl["spikes"]:
                ctx.tie_break("corr:ai-run", {"case": h, "model": json.dumps(a)[:400], "impl": json.dumps(impl)[:400]})
    # ---- numeric oracle on real dictionaries
    rng = ctx.rng("numeric")
    cases = []
    for i in range(ctx.n(12, 90)):
        indict = NUMERIC_SYSTEMS[i % len(NUMERIC_SYSTEMS)]
        h = gen_history(rng)
        svars = {"I": ["I", "I" + indict.get("options", {}).get("differential_order_symbol", "__d")], "x": ["x", "y"], "u": ["u", "v"], "z": ["z"]}[indict["dynamics"][0]["expression"][0]]
        m = dict(zip(["I", "I__d"], svars + svars))
        h["spike_times"] = {m[k]: v for k, v in h["spike_times"].items()}
        cases.append({"indict": indict, "history": h, "dict_order": ["reversed", "asis", "sorted"][(i + i // len(NUMERIC_SYSTEMS)) % 3]})
    results = pool.run_cases("harness.props.c12", "case_numeric", cases, timeout=120, init="_init_worker", deadline=ctx.deadline())
    for case, res in zip(cases, results):
        ctx.evaluations += 1
        if res.get("timeout") or res.get("skipped_budget"):
            ctx.count("numeric_skipped")
            continue
        if res.get("harness_error"):
            ctx.count("numeric_harness_error")
            ctx.cov.setdefault("harness_errors", []).append(res["harness_error"][:300])
            continue
        if res.get("construct_error"):
            ctx.fail("dictionary-not-integrable", case, {"error": res["construct_error"], "signature": {"site": "AnalyticIntegrator.__init__", "custom_timestep_symbol": "output_timestep_symbol" in (res.get("options") or {})}})
            continue
        ctx.count("numeric_cases")
        ctx.count("dict_order:" + case.get("dict_order", "asis"))
        if res.get("dict_unmodified") is False:
            ctx.fail("solver-dictionary-modified-by-integrator", case, {"signature": {"site": "AnalyticIntegrator", "what": "caller's dictionary"}})
        if res.get("sweep"):
            ctx.count("parameter_sweep_checked")
            for q in res["sweep"]["queries"]:
                badk = [k for k in res["vars"] if abs(q["want"][k] - q["got"][k]) > 1e-9 * max(1.0, abs(q["want"][k]))]
                if badk:
                    ctx.fail("later-integrator-ignores-its-parameters", case, {"t": q["t"], "variable": badk[0], "expected": q["want"][badk[0]], "observed": q["got"][badk[0]],
                                                                               "parameters_scaled_by": res["sweep"]["scale"], "signature": {"site": "AnalyticIntegrator parameters"}})
                    break
        ctx.note_nontrivial(json.dumps(case, sort_keys=True))
        for q in res["queries"]:
            ctx.count("numeric_queries")
            for k in res["vars"]:
                w, g = q["want"][k], q["got"][k]
                if abs(w - g) > 1e-9 * max(1.0, abs(w)):
                    ctx.fail("inexact-solution", case, {"t": q["t"], "variable": k, "expected": w, "observed": g, "signature": {"site": "get_value numeric"}})
                    break
                if q["fresh"][k] != g and abs(q["fresh"][k] - g) > 1e-12 * max(1.0, abs(g)):
                    ctx.fail("history-dependent-value", case, {"t": q["t"], "variable": k, "fresh": q["fresh"][k], "observed": g, "signature": {"site": "get_value numeric"}})
                    break
                if abs(q["other_mode"][k] - g) > 1e-9 * max(1.0, abs(g)):
                    ctx.fail("caching-mode-dependent", case, {"t": q["t"], "variable": k, "other": q["other_mode"][k], "observed": g, "signature": {"site": "get_value numeric"}})
                    break
    ctx.assumptions += [
        "time comparisons/subtraction on IEEE doubles behave as in an ordered group for the theorem (a < b -> 0 < b - a holds for doubles with gradual underflow; not proved in Lean)",
        "the recorder replaces _update_step only; get_value, reset, the cache toggles and set_spike_times run unmodified",
        "driver float equality is bitwise (differs from Python == only on +-0 and NaN, excluded by the generators)",
        "the propagators' exactness (step is the exact flow) is C01; here it enters spec_flow / spec_jump as the semigroup hypothesis",
    ]


def replay(rp):
    tb.import_toolbox()
    h = rp["failing_input"]
    if "history" in h:
        res = case_numeric(h)
        print(json.dumps(res)[:1500])
        bad = res.get("dict_unmodified") is False
        for q in (res.get("sweep") or {}).get("queries", []):
            bad |= any(abs(q["want"][k] - q["got"][k]) > 1e-9 * max(1.0, abs(q["want"][k])) for k in res["vars"])
        for q in res.get("queries", []):
            bad |= any(abs(q["want"][k] - q["got"][k]) > 1e-9 * max(1.0, abs(q["want"][k])) for k in res["vars"])
        print("reproduced" if bad else "not reproduced")
        return 1 if bad else 0
    real = run_real_history(h)
    bad = 0
    for op, out in zip(h["ops"], real["outs"]):
        if op[0] == "get":
            want = spec_term(h, op[1])
            print(op, "OK" if out == want else "MISMATCH\n  got  %s\n  want %s" % (out, want))
            bad |= out != want
    return 1 if bad else 0
