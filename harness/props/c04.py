"""C04 -- analytically tractable variables are recognised however they are written."""
import json

from harness.core import tb
from harness.gen import systems
from harness.props import _shared, c03

PROOF_MODULE = ["OdeVerif.Proofs.C02", "OdeVerif.Proofs.C03", "OdeVerif.Proofs.C04b", "OdeVerif.Proofs.RefineGraph", "OdeVerif.Proofs.PipelineGraph", "OdeVerif.Proofs.RefineDemote", "OdeVerif.Proofs.RefineSplit", "OdeVerif.Proofs.RefineShapesPass", "OdeVerif.Proofs.RefineContracts"]
GENERATED = ['PyGraph', 'PyDemote', 'PySplit', "PyShapesPass", "PyContracts"]
THEOREMS = ["OdeVerif.C02.classify_complete_lin", "OdeVerif.C02.classify_complete_const", "OdeVerif.C02.canonical_linear_no_nonlin",
            "OdeVerif.C02.parameterSymbols_spec", "OdeVerif.C02.analytic_sound_coeffs",
            "OdeVerif.C03.tractable_recognised", "OdeVerif.C03.propagate_greatest", "OdeVerif.C03.verdict_perm_invariant",
            "OdeVerif.C04b.expandRaw_sound", "OdeVerif.C04b.coeffOf_eq", "OdeVerif.C04b.linearCC_iff", "OdeVerif.C04b.spelling_invariant", "OdeVerif.C04b.den_ring_rules", "OdeVerif.C04b.den_sympow_add",
            "OdeVerif.Refine.propagate_refines", "OdeVerif.Refine.verdict_refines",
            "OdeVerif.PipelineSpec.collect_sound", "OdeVerif.PipelineSpec.analyse_spelling_invariant",
            "OdeVerif.Refine.demote_eligible", "OdeVerif.Refine.findAnalytic_refines",
            "OdeVerif.Refine.splitLinInhomNonlin_refines", "OdeVerif.Refine.splitLinInhomNonlin_lin_index",
            "OdeVerif.Refine.fromJsonToShapes_keys", "OdeVerif.Refine.fromJsonToShapes_var_not_param", "OdeVerif.Refine.fromJsonToShapes_shapes",
            "OdeVerif.Refine.isZero_refines", "OdeVerif.Refine.isConstantTerm_refines", "OdeVerif.Refine.isConstantTerm_of_closed"]
LEVEL = "proof"
STYLES = ["expanded", "factored", "nested", "floats", "shuffled", "expanded"]


def gen_cases(ctx, ntruth, nspell):
    rng = ctx.rng("truths")
    out = []
    for c in ctx.corpus():
        if "case" in c and "indict" in c["case"]:
            out.append(dict(c["case"], corpus=c["_file"], truth_id=-1))
    for i in range(ntruth):
        shape = systems.SHAPES[i % len(systems.SHAPES)]
        T = systems.make_truth(rng, shape)
        wp = rng.choice(["none", "all", "partial"])
        # unusual-but-valid names (one renaming per ground truth, so that its spellings stay comparable)
        mapping = systems.awkward_mapping(rng, [e["name"] for e in T.entries], []) if rng.random() < 0.25 else {}
        for k in range(nspell):
            order = list(range(len(T.entries)))
            if k % 2 == 1:
                rng.shuffle(order)
            ind = systems.to_indict(rng, T, style=STYLES[k % len(STYLES)], order=order, with_params=wp)
            if k % 3 == 2:
                # a documented option that must not change the classification (it only concerns simplify() of long expressions)
                ind["options"] = {"expression_simplification_threshold": rng.choice([10, 40, 100])}
            if k % 6 == 4:
                # nor may the spelling of the derivative marker / of the step symbol (documented options)
                ind.setdefault("options", {})["differential_order_symbol"] = rng.choice(["_D", "__dot", "__prime"])
            if k % 6 == 1:
                ind.setdefault("options", {})["output_timestep_symbol"] = rng.choice(["dt", "resolution"])
            if mapping:
                ind = systems.apply_mapping(ind, mapping)
            out.append({"indict": ind, "shape": shape, "truth_id": i, "style": STYLES[k % len(STYLES)], "stop": True, "pt_seed": rng.randrange(10 ** 9),
                        "check_numeric_rhs": False})
    # long factored / nested linear right-hand sides (string form well above the default simplification threshold of 1000)
    for j in range(2):
        m = 14 + 4 * j
        g = ["conductance_of_leak_channel_number_%02d" % i for i in range(m)]
        E = ["reversal_potential_of_leak_channel_%02d" % i for i in range(m)]
        terms = " ".join("- %s*(V_m - %s)" % (gi, Ei) for gi, Ei in zip(g, E))
        rhs = "(%s + I_syn*R_in)/membrane_capacitance" % terms if j == 0 else "((%s) + ((I_syn)*(R_in)))/membrane_capacitance" % terms
        dyn = [{"expression": "V_m' = " + rhs, "initial_value": "0"}, {"expression": "I_syn' = -I_syn/tau_syn", "initial_value": "1"}]
        if j == 1:
            dyn = dyn[::-1]
        out.append({"indict": {"dynamics": dyn}, "shape": "long_factored", "truth_id": 10 ** 6 + j, "style": "long", "stop": True, "pt_seed": 5 + j,
                    "check_numeric_rhs": False, "poly": False})
    return out


def run(ctx, driver):
    tb.import_toolbox()
    quick = ctx.tier == "quick"
    ctx.rule = ("ground truths in canonical form (coefficient per variable, offset, nonlinear terms; 17 coupling shapes) x 6 algebraically equal spellings "
                "(expanded, factored -(x-E)/tau, nested parentheses, float literals, shuffled, reordered entries); expected analytic set computed independently "
                "(differential criterion + greatest dependency-closed subset, minus the two documented exceptions); distinct = distinct input texts; "
                "non-trivial = at least one variable expected analytic and >= 2 terms in some right-hand side")
    cases = gen_cases(ctx, ctx.n(34, 600), ctx.n(6, 10))
    results = _shared.run_full(ctx, cases, timeout=40)
    by_truth = {}
    for case, res in zip(cases, results):
        ctx.evaluations += 1
        if not _shared.usable(ctx, res):
            continue
        ctx.count("style:" + str(case.get("style")))
        if res.get("error"):
            ctx.count("analysis_error:" + res["error"]["type"])
        if "verdict2" not in res or "truth" not in res:
            ctx.count("no_verdict")
            continue
        x = res["x"]
        got = [v for v, ok in zip(x, res["verdict2"]) if ok]
        want = res["truth"]["expected_analytic"]
        if want:
            ctx.note_nontrivial(json.dumps(case["indict"], sort_keys=True))
        by_truth.setdefault(case["truth_id"], set()).add(tuple(sorted(v.replace(res.get("marker", "__d"), "__d") for v in got)))
        missing = [v for v in want if v not in got]
        if missing:
            t = res["truth"]
            ctx.fail("tractable-variable-not-analytic", case["indict"],
                     {"variables": missing, "expected_analytic": want, "observed_analytic": got, "style": case.get("style"),
                      "verdict_stages": {k: res.get(k) for k in ("verdict0", "verdict1", "verdict2")},
                      "signature": {"site": "classification", "style": case.get("style"), "lost_at": "split" if any(not res["verdict0"][x.index(v)] for v in missing) else "demotion/propagation"}})
        extra = [v for v in got if v not in want]
        if extra:
            ctx.count("analytic_beyond_expected")     # soundness is C03's business; recorded, judged there
    for tid, sets in by_truth.items():
        if tid >= 0 and len(sets) > 1:
            ex = next(c for c in cases if c["truth_id"] == tid)
            ctx.fail("verdict-depends-on-spelling", ex["indict"], {"distinct_analytic_sets": [list(s) for s in sets], "signature": {"site": "spelling"}})
    ctx.sample({"truth": cases[-1]["truth_id"], "spellings": [c["indict"]["dynamics"][0]["expression"] for c in cases if c["truth_id"] == cases[-1]["truth_id"]][:6]})
    _shared.corr_split(ctx, driver, cases, results)
    _shared.corr_poly(ctx, driver, cases, results)
    _shared.corr_pipeline(ctx, driver, cases, results)
    c03.check_graph_correspondence(ctx, driver, cases, results)
    ctx.assumptions += [
        "independence of the spelling rests on the contract that sympy's expand() yields a sum of monomial terms with like terms combined (validated on every case by the split correspondence and by the independent differential criterion); the Lean theorems start from that expanded form",
    ]


def replay(rp):
    from harness.core import cases
    tb.import_toolbox()
    r = cases.case_partition({"indict": rp["failing_input"], "stop": True})
    print(json.dumps({k: r.get(k) for k in ("x", "verdict0", "verdict1", "verdict2")}), json.dumps(r.get("truth", {}).get("expected_analytic")))
    return 0
