"""C13 -- mixed integrator simulates the system with spikes and threshold resets (PARTIAL: event logic proved; accuracy observed)."""
import json
import math

from harness.core import pool, tb

PROOF_MODULE = ["OdeVerif.Proofs.C13", "OdeVerif.Proofs.C13b", "OdeVerif.Proofs.RefineMixed", "OdeVerif.Proofs.RefineMixedExample", "OdeVerif.Proofs.RefineStep", "OdeVerif.Proofs.RefineIntegratorInit"]
GENERATED = ["PyMixed", "PyStep", "PyIntegratorInit"]
THEOREMS = ["OdeVerif.C13.log_starts_at_iv", "OdeVerif.C13.time_strictly_increases", "OdeVerif.C13.ends_at_simTime",
            "OdeVerif.C13.precise_spike_once", "OdeVerif.C13.aliased_spike_once", "OdeVerif.C13.aliased_spike_boundary",
            "OdeVerif.C13.enforceBounds_spec", "OdeVerif.C13.inner_logs_enforced", "OdeVerif.C13.analytic_seen_exact", "OdeVerif.C13.analytic_seen_exact_at",
            "OdeVerif.Refine.integrateOde_refines",
            "OdeVerif.Refine.lookup_updateAll", "OdeVerif.Refine.mixedStep_refines", "OdeVerif.Refine.stepLocals_analytic", "OdeVerif.Refine.stepLocals_numeric", "OdeVerif.Refine.stepLocals_indep_stale",
            "OdeVerif.Refine.mixedInit_params", "OdeVerif.Refine.mixedInit_analytic_params", "OdeVerif.Refine.mixedInit_no_analytic", "OdeVerif.Refine.mixedInit_allSyms"]
LEVEL = "proof"

SYSTEMS = [
    # (indict, rates used by the scripted stepper per numeric variable)
    {"dynamics": [{"expression": "V' = -V**3 + 0.5", "initial_value": "0.25", "upper_bound": "1.5", "lower_bound": "-1.0"}]},
    {"dynamics": [{"expression": "u' = -u*w + 1", "initial_value": "0.5", "upper_bound": "2.0"},
                  {"expression": "w' = u*u - w", "initial_value": "0.125"}]},
    {"dynamics": [{"expression": "V' = -V*V - 2", "initial_value": "0.5", "lower_bound": "-0.75"},
                  {"expression": "z' = -z**2 + V", "initial_value": "1"}]},
]


def _init_worker():
    tb.import_toolbox(standin=True)


def gen_script_case(rng):
    sysd = json.loads(json.dumps(rng.choice(SYSTEMS)))
    names = [d["expression"].split("'")[0].strip() for d in sysd["dynamics"]]
    sim_time = rng.choice([1.0, 0.75, 2.0, 0.5])
    max_step = rng.choice([0.25, 0.125, 0.3125, 0.5, 1.0])
    grid = 1.0 / 64
    spike_times = {}
    for nm in rng.sample(names, rng.choice([0, 1, len(names)])):
        ts = sorted({grid * rng.randint(1, int(sim_time * 1.25 / grid)) for _ in range(rng.choice([1, 2, 4, 6]))})
        if rng.random() < 0.2:
            ts.append(sim_time)
        spike_times[nm] = ts
    if len(spike_times) >= 2 and rng.random() < 0.6:
        # a later variable shares one of several times of an earlier one (and only that one)
        a, b = list(spike_times)[:2]
        spike_times[b].append(rng.choice(spike_times[a]))
        if rng.random() < 0.3:
            spike_times[a].append(spike_times[a][0])      # a time listed twice for one variable: two spikes
    rates = [rng.choice([1.0, -2.0, 3.5, -0.5, 8.0, -6.0]) for _ in names]
    return {"indict": sysd, "sim_time": sim_time, "max_step": max_step, "alias": rng.random() < 0.5, "spike_times": spike_times, "rates": rates}


def case_scripted(case):
    """Real MixedIntegrator.integrate_ode(debug=True) driven by the scripted stand-in."""
    import numpy as np
    import sympy
    odetoolbox = tb.import_toolbox(standin=True)
    tb.reset_config()
    import pygsl.odeiv as odeiv
    from odetoolbox.mixed_integrator import MixedIntegrator
    rates = np.array(case["rates"], dtype=float)

    def script(name, t, t1, h, y, func, jac):
        k = int(t * 4096.0) % 3
        tn = t1 if k == 0 else t + (0.5 if k == 1 else 0.25) * (t1 - t)
        dt = tn - t
        return tn, dt * 2.0, np.array([v + dt * r for v, r in zip(y, rates)])
    res, shape_sys, shapes = odetoolbox._analysis(json.loads(json.dumps(case["indict"])), disable_stiffness_check=True, disable_analytic_solver=True)
    x = [str(s) for s in shape_sys.x_]
    mi = MixedIntegrator(odeiv.step_rk4, shape_sys, shapes, parameters=case["indict"].get("parameters"), spike_times={k: list(v) for k, v in case["spike_times"].items()},
                         max_step_size=case["max_step"], sim_time=case["sim_time"], alias_spikes=case["alias"])
    odeiv.SCRIPT = script
    try:
        out = mi.integrate_ode(h_min_lower_bound=1e-300, raise_errors=False, debug=True)
    finally:
        odeiv.SCRIPT = None
    h_min, h_avg, runtime, crossed, t_log, h_log, y_log, sym_list = out
    y0 = [float(shape_sys.get_initial_value(v).evalf()) for v in x]
    ub, lb = [None] * len(x), [None] * len(x)
    for sh in shapes:
        i = x.index(str(sh.symbol))
        if sh.upper_bound is not None:
            ub[i] = float(sh.upper_bound.evalf())
        if sh.lower_bound is not None:
            lb[i] = float(sh.lower_bound.evalf())
    sp_t, sp_s = mi.get_sorted_spike_times()
    return {"x": x, "t_log": [float(t) for t in t_log], "y_log": [[float(v) for v in row] for row in y_log], "crossed": bool(crossed),
            "y0": y0, "upper": ub, "lower": lb, "spikes": [[float(t), [x.index(s) for s in syms if s in x]] for t, syms in zip(sp_t, sp_s)]}


NUM_SYSTEMS = [
    {"dynamics": [{"expression": "V' = -V / tau + I * (1 - V**2)", "initial_value": "0.1", "upper_bound": "0.9"},
                  {"expression": "I' = -I / tau_s", "initial_value": "0.5"}],
     "parameters": {"tau": "0.05", "tau_s": "0.02"}},
    {"dynamics": [{"expression": "V' = -V / tau - 100", "initial_value": "0", "lower_bound": "-0.2"}], "parameters": {"tau": "0.01"}},
    {"dynamics": [{"expression": "x' = -x**3 + y", "initial_value": "1"}, {"expression": "y' = -y / tau", "initial_value": "0.25"}],
     "parameters": {"tau": "0.1"}},
    {"dynamics": [{"expression": "x' = sin(x) - 2*x + g", "initial_value": "0.5"},
                  {"expression": "g'' = -g / tau**2 - 2 * g' / tau", "initial_values": {"g": "0", "g'": "e / tau"}}],
     "parameters": {"tau": "0.05"}},
]


def gen_numeric_case(rng, i):
    sysd = json.loads(json.dumps(NUM_SYSTEMS[i % len(NUM_SYSTEMS)]))
    names = []
    for d in sysd["dynamics"]:
        lhs = d["expression"].split("=")[0].strip()
        names.append(lhs.replace("'", ""))
    sim_time = rng.choice([0.03, 0.05, 0.1])
    max_step = rng.choice([0.004, 0.01, 0.0025])
    spike_times = {}
    for nm in rng.sample(names, rng.choice([1, len(names)])):
        key = nm if nm != "g" else rng.choice(["g", "g__d"])
        spike_times[key] = sorted({round(rng.uniform(0.001, sim_time * 1.1), 4) for _ in range(rng.choice([1, 2, 3]))})
    return {"indict": sysd, "sim_time": sim_time, "max_step": max_step, "alias": rng.random() < 0.5, "spike_times": spike_times,
            "stepper": rng.choice(["rk4", "bsimp"]), "acc": 1e-7}


def case_param_override(case):
    """MixedIntegrator(parameters=P1) on an analysis made with parameters P0: the analytically solved variables the numeric part sees must be the
    exact solution under the parameters the integrator was given (exact mpmath reference of the closed analytic sub-system under P1)."""
    import sympy
    odetoolbox = tb.import_toolbox(standin=True)
    tb.reset_config()
    import pygsl.odeiv as odeiv
    from odetoolbox.mixed_integrator import MixedIntegrator
    from harness.core import refsol
    indict = case["indict"]
    res, shape_sys, shapes = odetoolbox._analysis(json.loads(json.dumps(indict)), disable_stiffness_check=True)
    ana = [s_ for s_ in res if s_["solver"] == "analytical"]
    num = [s_ for s_ in res if s_["solver"].startswith("numeric")]
    if not ana or not num:
        return {"skip": "not a mixed system"}
    sub = shape_sys.get_sub_system([sympy.Symbol(v) for v in num[0]["state_variables"]])
    p1 = case["run_parameters"]
    if case.get("dict_order") == "reversed":
        # the same dictionary (==) with the inner dictionaries listing their entries in another order (a stored / merged result)
        a0 = {k: ({kk: v[kk] for kk in reversed(list(v))} if isinstance(v, dict) else v) for k, v in ana[0].items()}
        assert a0 == ana[0]
        ana = [a0]
    mi = MixedIntegrator(odeiv.step_rk4, sub, shapes, analytic_solver_dict=ana[0], parameters=dict(p1),
                         spike_times={k: list(v) for k, v in case["spike_times"].items()}, max_step_size=case["max_step"], sim_time=case["sim_time"])
    mi.integrate_ode(h_min_lower_bound=1e-14, raise_errors=False, debug=True)
    avars = ana[0]["state_variables"]
    names = {v.split("__d")[0] for v in avars}
    sub_ind = {"dynamics": [d for d in indict["dynamics"] if d["expression"].split("=")[0].strip().replace("'", "") in names], "parameters": dict(p1)}
    ref = refsol.Reference(sub_ind)
    out = []
    for t in case["query_times"]:
        got = mi.analytic_integrator.get_value(t)
        want = ref.solve({k: v for k, v in case["spike_times"].items() if k in avars}, t)
        out.append({"t": t, "got": {k: float(got[k]) for k in avars}, "want": {k: float(want[k]) for k in avars}})
    return {"vars": avars, "queries": out}


def case_numeric(case):
    """Real analysis + MixedIntegrator through the numerical stand-in, against a scipy reference."""
    import numpy as np
    import sympy
    from scipy.integrate import solve_ivp
    odetoolbox = tb.import_toolbox(standin=True)
    tb.reset_config()
    import pygsl.odeiv as odeiv
    from odetoolbox.mixed_integrator import MixedIntegrator
    from harness.core import truthcheck
    indict = case["indict"]
    res, shape_sys, shapes = odetoolbox._analysis(json.loads(json.dumps(indict)), disable_stiffness_check=True)
    ana = [s for s in res if s["solver"] == "analytical"]
    num = [s for s in res if s["solver"].startswith("numeric")]
    if not num:
        return {"skip": "no numeric part"}
    num_vars = num[0]["state_variables"]
    sub = shape_sys.get_sub_system([sympy.Symbol(v) for v in num_vars])
    mi = MixedIntegrator(odeiv.step_rk4 if case["stepper"] == "rk4" else odeiv.step_bsimp, sub, shapes,
                         analytic_solver_dict=ana[0] if ana else None, parameters=indict.get("parameters"),
                         spike_times={k: list(v) for k, v in case["spike_times"].items()}, max_step_size=case["max_step"],
                         integration_accuracy_abs=case["acc"], integration_accuracy_rel=case["acc"], sim_time=case["sim_time"], alias_spikes=case["alias"])
    # record the operations integrate_ode performs on its analytic integrator (model: C13.simPattern)
    from odetoolbox.analytic_integrator import AnalyticIntegrator
    ai_ops = []
    o_g, o_e, o_d = AnalyticIntegrator.get_value, AnalyticIntegrator.enable_cache_update, AnalyticIntegrator.disable_cache_update

    def w_g(self, t):
        ai_ops.append("G")
        return o_g(self, t)

    def w_e(self):
        ai_ops.append("E")
        return o_e(self)

    def w_d(self):
        ai_ops.append("D")
        return o_d(self)
    AnalyticIntegrator.get_value, AnalyticIntegrator.enable_cache_update, AnalyticIntegrator.disable_cache_update = w_g, w_e, w_d
    try:
        return _case_numeric_body(case, odetoolbox, odeiv, MixedIntegrator, indict, res, shape_sys, shapes, ana, num, sub, mi, ai_ops, truthcheck, solve_ivp)
    finally:
        AnalyticIntegrator.get_value, AnalyticIntegrator.enable_cache_update, AnalyticIntegrator.disable_cache_update = o_g, o_e, o_d


def _case_numeric_body(case, odetoolbox, odeiv, MixedIntegrator, indict, res, shape_sys, shapes, ana, num, sub, mi, ai_ops, truthcheck, solve_ivp):
    import numpy as np
    import sympy
    reuse = None
    if ana and case.get("reuse", True):
        # a run with an overridden initial value of an analytically solved variable must not influence the next run on the
        # same object: the second run is compared with the same run on a fresh object
        av = ana[0]["state_variables"][0]
        mi.integrate_ode(initial_values={sympy.Symbol(av): 3.0}, h_min_lower_bound=1e-14, raise_errors=False, debug=True)
    del ai_ops[:]
    out = mi.integrate_ode(h_min_lower_bound=1e-14, raise_errors=False, debug=True)
    pattern = "".join(ai_ops)
    if ana and case.get("reuse", True):
        mi_f = MixedIntegrator(odeiv.step_rk4 if case["stepper"] == "rk4" else odeiv.step_bsimp, sub, shapes,
                               analytic_solver_dict=[s_ for s_ in odetoolbox.analysis(json.loads(json.dumps(indict)), disable_stiffness_check=True) if s_["solver"] == "analytical"][0],
                               parameters=indict.get("parameters"), spike_times={k: list(v) for k, v in case["spike_times"].items()},
                               max_step_size=case["max_step"], integration_accuracy_abs=case["acc"], integration_accuracy_rel=case["acc"],
                               sim_time=case["sim_time"], alias_spikes=case["alias"])
        out_f = mi_f.integrate_ode(h_min_lower_bound=1e-14, raise_errors=False, debug=True)
        same_t = len(out[4]) == len(out_f[4]) and bool(np.allclose(out[4], out_f[4], rtol=0, atol=1e-12))
        same_y = same_t and bool(np.allclose(out[6], out_f[6], rtol=1e-9, atol=1e-12))
        reuse = {"same_t_log": same_t, "same_y_log": same_y, "overridden": av,
                 "analytic_start_reused": float(mi.analytic_integrator.get_value(0.)[av]), "analytic_start_fresh": float(mi_f.analytic_integrator.get_value(0.)[av]),
                 "y_end_reused": [float(v) for v in out[6][-1]], "y_end_fresh": [float(v) for v in out_f[6][-1]]}
    h_min, h_avg, runtime, crossed, t_log, h_log, y_log, sym_list = out
    x = [str(s) for s in sym_list]
    # reference: full system from the input text, integrated piecewise between the times at which the code may apply events
    ps = truthcheck.parse_system(indict)
    allv = ps["vars"]
    params = {sympy.Symbol(k): sympy.Float(sympy.N(sympy.sympify(v), 30)) for k, v in indict.get("parameters", {}).items()}
    syms = [sympy.Symbol(v) for v in allv]
    f = sympy.lambdify(syms, [ps["rhs"][v].subs(params) for v in allv], modules="math")
    iv = {}
    bounds = {}
    for d in indict["dynamics"]:
        lhs = d["expression"].split("=")[0].strip()
        nm = lhs.replace("'", "")
        if "initial_value" in d:
            iv[nm] = float(sympy.N(sympy.sympify(d["initial_value"], locals={"e": sympy.E}).subs(params)))
        for k, v in d.get("initial_values", {}).items():
            iv[k.replace("'", "__d")] = float(sympy.N(sympy.sympify(v, locals={"e": sympy.E}).subs(params)))
        if "upper_bound" in d or "lower_bound" in d:
            bounds[nm] = (float(d["upper_bound"]) if "upper_bound" in d else None, float(d["lower_bound"]) if "lower_bound" in d else None)
    y0 = [iv[v] for v in allv]
    return {"x": x, "allv": allv, "t_log": [float(t) for t in t_log], "y_log": [[float(v) for v in row] for row in y_log], "crossed": bool(crossed),
            "y0": y0, "bounds": bounds, "reuse": reuse, "ai_pattern": pattern if ana else None}


def _reference(f, allv, y0, case, t_log, bounds, x):
    """Piecewise reference on the code's own time grid: between consecutive logged times integrate with
    solve_ivp from the *code's* state (numeric variables) and the reference's analytic variables; report the
    one-step defect per step.  Events are judged separately."""
    import numpy as np
    from scipy.integrate import solve_ivp
    return None


def run(ctx, driver):
    tb.import_toolbox(standin=True)
    quick = ctx.tier == "quick"
    ctx.rule = ("(a) scripted runs: real integrate_ode(debug=True) on 3 numeric systems x random sim_time / max_step (dyadic) / spike maps "
                "(coincident, at sim_time, beyond it) x both aliasing modes, stepper dictated by a pure script shared with the Lean model; "
                "(b) numerical runs through the RK4 / implicit-midpoint stand-in: event and bound checks on 4 analysed systems; distinct = distinct cases; "
                "non-trivial = at least one spike before sim_time or an active bound; (c) MixedIntegrator given run-time parameters that differ from the analysis-time ones (half of the runs on a re-ordered analytic dictionary): the analytic values against an exact mpmath reference under the given parameters")
    rng = ctx.rng("script")
    cases = [c["case"] for c in ctx.corpus() if "case" in c and "rates" in c["case"]]
    cases += [gen_script_case(rng) for _ in range(ctx.n(60, 1500))]
    results = pool.run_cases("harness.props.c13", "case_scripted", cases, timeout=60, init="_init_worker", deadline=ctx.deadline(0.5))
    ops = []
    for case, res in zip(cases, results):
        ctx.evaluations += 1
        if res.get("timeout") or res.get("skipped_budget"):
            ctx.count("scripted_skipped")
            continue
        if res.get("harness_error"):
            ctx.count("scripted_error")
            ctx.fail("integrator-crash", case, {"error": res["harness_error"][:300], "signature": {"site": "integrate_ode", "alias": case["alias"]}})
            continue
        ctx.count("scripted_alias_%s" % case["alias"])
        nsp = sum(1 for t, syms in res["spikes"] if t < case["sim_time"] and syms)
        if nsp or res["crossed"]:
            ctx.note_nontrivial(json.dumps(case, sort_keys=True))
        oracle_events(ctx, case, res)
        ops.append((case, res))
    if ops:
        ctx.sample({"op": "mi-run", "case": ops[-1][0], "t_log": ops[-1][1]["t_log"][:8]})
    if driver is not None and ops:
        payloads = []
        for case, res in ops:
            payloads.append(("mi-run", {"sim_time": tb.f2bits(case["sim_time"]), "max_step": tb.f2bits(case["max_step"]), "alias": case["alias"],
                                        "spikes": [[tb.f2bits(t), syms] for t, syms in expected_spikes(case, res["x"])], "y0": [tb.f2bits(v) for v in res["y0"]],
                                        "inc": [tb.f2bits(v) for v in res["y0"]], "upper": [None if v is None else tb.f2bits(v) for v in res["upper"]],
                                        "lower": [None if v is None else tb.f2bits(v) for v in res["lower"]], "rates": [tb.f2bits(v) for v in case["rates"]],
                                        "outer_fuel": 2000, "inner_fuel": 2000}))
        ans = driver.ask(payloads)
        for (case, res), a in zip(ops, ans):
            ctx.count("corr_mi-run")
            impl = {"t_log": [tb.f2bits(t) for t in res["t_log"]], "y_log": [[tb.f2bits(v) for v in row] for row in res["y_log"]], "crossed": res["crossed"]}
            model = {k: a.get(k) for k in ("t_log", "y_log", "crossed")}
            if model != impl:
                k = next((i for i, (p, q) in enumerate(zip(model.get("t_log") or [], impl["t_log"])) if p != q), None)
                ctx.tie_break("corr:mi-run", {"case": case, "first_time_diff_at": k, "model_tail": json.dumps(a)[:300],
                                              "impl_t_log": [tb.bits2f(b) for b in impl["t_log"]][:12],
                                              "model_t_log": [tb.bits2f(b) for b in (model.get("t_log") or [])][:12]})
    # ---- numerical stand-in runs: events and bounds on analysed systems
    rng = ctx.rng("numeric")
    ncases = [gen_numeric_case(rng, i) for i in range(ctx.n(8, 60))]
    nres = pool.run_cases("harness.props.c13", "case_numeric", ncases, timeout=150, init="_init_worker", deadline=ctx.deadline())
    for case, res in zip(ncases, nres):
        ctx.evaluations += 1
        if res.get("timeout") or res.get("skipped_budget") or res.get("skip"):
            ctx.count("numeric_skipped")
            continue
        if res.get("harness_error"):
            ctx.count("numeric_error")
            ctx.cov.setdefault("harness_errors", []).append(res["harness_error"][:300])
            continue
        ctx.count("numeric_%s_alias_%s" % (case["stepper"], case["alias"]))
        ctx.note_nontrivial(json.dumps(case, sort_keys=True))
        oracle_numeric(ctx, case, res)
    # ---- run-time parameters differing from the analysis-time ones
    rng = ctx.rng("override")
    ocases = []
    for i in range(ctx.n(6, 40)):
        sysd = json.loads(json.dumps(NUM_SYSTEMS[[3, 0, 2][i % 3]]))
        for d in sysd["dynamics"]:
            d.pop("upper_bound", None)
            d.pop("lower_bound", None)
        p1 = {k: repr(float(v) * rng.choice([0.5, 2.0, 1.0, 0.25])) for k, v in sysd["parameters"].items()}
        avar = {0: "I", 2: "y", 3: "g__d"}[[3, 0, 2][i % 3]]
        sim_time = rng.choice([0.03, 0.05])
        ocases.append({"indict": sysd, "run_parameters": p1, "sim_time": sim_time, "max_step": 0.005, "dict_order": "reversed" if i % 2 == 0 else "asis",
                       "spike_times": {avar: sorted({round(rng.uniform(0.001, sim_time), 4) for _ in range(2)})},
                       "query_times": [round(rng.uniform(0.0, sim_time), 4) for _ in range(3)] + [sim_time]})
    ores = pool.run_cases("harness.props.c13", "case_param_override", ocases, timeout=150, init="_init_worker", deadline=ctx.deadline())
    for case, res in zip(ocases, ores):
        ctx.evaluations += 1
        if res.get("timeout") or res.get("skipped_budget") or res.get("skip") or res.get("harness_error"):
            ctx.count("override_skipped")
            if res.get("harness_error"):
                ctx.cov.setdefault("harness_errors", []).append(res["harness_error"][:300])
            continue
        ctx.count("override_cases")
        if case["run_parameters"] != case["indict"]["parameters"]:
            ctx.note_nontrivial(json.dumps(case, sort_keys=True))
        bad = None
        for q in res["queries"]:
            for k in res["vars"]:
                if abs(q["got"][k] - q["want"][k]) > 1e-8 * max(1.0, abs(q["want"][k])):
                    bad = {"t": q["t"], "variable": k, "observed": q["got"][k], "exact_under_given_parameters": q["want"][k]}
                    break
            if bad:
                break
        if bad:
            ctx.fail("analytic-variable-not-exact-under-given-parameters", case, dict(bad, signature={"site": "MixedIntegrator parameters"}))
    ctx.assumptions += [
        "PARTIAL: the numerical accuracy between events, real PyGSL/GSL behaviour and floating point are outside the model; the stepper is a parameter of the theorems (GoodApply: progresses, never passes the requested end time)",
        "scripted runs replace evolve.apply by a pure function shared bit-for-bit with the Lean driver; integrate_ode itself runs unmodified",
        "logged arrays alias the state array: a log entry shows bound resets and spikes applied at that time (modelled by relog)",
    ]


def expected_spikes(case, x):
    """the event list the *input* prescribes, merged independently of Integrator.set_spike_times: per distinct time (ascending)
    the positions of the variables that spike then, with multiplicity, in the order the input lists them"""
    ev = {}
    for nm, ts in case["spike_times"].items():
        for t in ts:
            if nm in x:
                ev.setdefault(float(t), []).append(x.index(nm))
            else:
                ev.setdefault(float(t), [])
    return [[t, ev[t]] for t in sorted(ev)]


def oracle_events(ctx, case, res):
    """direct checks on a scripted run (the script is exact in doubles for dyadic inputs)"""
    t_log, y_log = res["t_log"], res["y_log"]
    sig = {"alias": case["alias"]}
    spikes = expected_spikes(case, res["x"])          # from the input, not from the integrator's own merged list
    if sorted((t, sorted(sy)) for t, sy in res["spikes"]) != sorted((t, sorted(sy)) for t, sy in spikes):
        ctx.fail("event-not-applied-as-specified", case, {"what": "the merged event list differs from what the spike-time map prescribes",
                                                          "merged_by_integrator": res["spikes"][:6], "prescribed": spikes[:6],
                                                          "signature": dict(sig, what="event list")})
        return
    if t_log[0] != 0.0 or (y_log[0] != res["y0"] and not any(t <= 0 for t, _ in spikes)):
        ctx.fail("does-not-start-at-initial-values", case, {"observed": [t_log[0], y_log[0]], "expected": [0.0, res["y0"]], "signature": dict(sig, what="start")})
    if any(not (a < b) for a, b in zip(t_log, t_log[1:])):
        ctx.fail("time-not-strictly-increasing", case, {"t_log": t_log[:20], "signature": dict(sig, what="monotone")})
    if t_log[-1] != case["sim_time"]:
        ctx.fail("does-not-end-at-sim-time", case, {"t_end": t_log[-1], "sim_time": case["sim_time"], "signature": dict(sig, what="t_end", overshoot=t_log[-1] > case["sim_time"])})
    # replay the script independently of the code's event logic to locate where each spike must show up
    rates = case["rates"]
    for k in range(1, len(t_log)):
        dt = t_log[k] - t_log[k - 1]
        pre = [v + dt * r for v, r in zip(y_log[k - 1], rates)]
        post = y_log[k]
        exp = list(pre)
        # bounds
        for i in range(len(exp)):
            if res["upper"][i] is not None and exp[i] > res["upper"][i]:
                exp[i] = res["y0"][i]
            if res["lower"][i] is not None and exp[i] < res["lower"][i]:
                exp[i] = res["y0"][i]
        # spikes due at this log point
        if case["alias"]:
            # boundaries are the outer-iteration ends; a spike is due at the first boundary >= its time
            pass
        else:
            for ts, syms in spikes:
                if ts == t_log[k] and ts < case["sim_time"]:
                    for i in syms:
                        exp[i] = exp[i] + res["y0"][i]
        if not case["alias"] and exp != post:
            what = "bound" if any((res["upper"][i] is not None and pre[i] > res["upper"][i]) or (res["lower"][i] is not None and pre[i] < res["lower"][i]) for i in range(len(pre))) else "spike"
            lower = any(res["lower"][i] is not None and pre[i] < res["lower"][i] for i in range(len(pre)))
            ctx.fail("event-not-applied-as-specified", case, {"t": t_log[k], "state_after_step": pre, "expected_after_events": exp, "observed": post,
                                                              "signature": dict(sig, what=what, lower_bound=lower)})
            return
    if not case["alias"]:
        for ts, syms in spikes:
            if 0 < ts < case["sim_time"] and syms and ts not in t_log:
                ctx.fail("spike-time-not-a-step-boundary", case, {"spike": ts, "signature": dict(sig, what="precise spike time")})
    else:
        # every spike <= end applied exactly once: total jump per variable equals (#spikes) * increment (tracked through resets is
        # not possible in general, so only checked when no bound is active in this run)
        if not res["crossed"] and all(v is None for v in res["lower"]):
            for i in range(len(res["y0"])):
                n_sp = sum(1 for ts, syms in spikes for j in syms if j == i and ts <= t_log[-1])
                drift = sum((t_log[k] - t_log[k - 1]) * rates[i] for k in range(1, len(t_log)))
                want = res["y0"][i] + drift + n_sp * res["y0"][i]
                if abs(y_log[-1][i] - want) > 1e-9 * max(1.0, abs(want)):
                    ctx.fail("aliased-spike-count", case, {"variable": i, "expected_final": want, "observed_final": y_log[-1][i], "spikes": n_sp, "signature": dict(sig, what="aliased count")})
                    return


def oracle_numeric(ctx, case, res):
    t_log, y_log, x = res["t_log"], res["y_log"], res["x"]
    sig = {"alias": case["alias"], "stepper": case["stepper"]}
    pat = res.get("ai_pattern")
    if pat is not None:
        import re
        ctx.count("ai_pattern_checked")
        if not re.fullmatch(r"((DG*EG)*G)*", pat):
            ctx.tie_break("corr:ai-op-pattern", {"case": case, "pattern_head": pat[:120], "model": "C13.simPattern: ((disable, get*, enable, get)* get)*"})
    ru = res.get("reuse")
    if ru is not None:
        ctx.count("reuse_checked")
        if not (ru["same_t_log"] and ru["same_y_log"]) or abs(ru["analytic_start_reused"] - ru["analytic_start_fresh"]) > 1e-12:
            ctx.fail("run-depends-on-earlier-run-on-same-object", case, {"detail": ru, "signature": dict(sig, what="reuse")})
    if any(not (a < b) for a, b in zip(t_log, t_log[1:])):
        ctx.fail("time-not-strictly-increasing", case, {"signature": dict(sig, what="monotone")})
    if abs(t_log[-1] - case["sim_time"]) > 1e-12:
        ctx.fail("does-not-end-at-sim-time", case, {"t_end": t_log[-1], "sim_time": case["sim_time"], "signature": dict(sig, what="t_end", overshoot=t_log[-1] > case["sim_time"])})
    y0 = dict(zip(res["allv"], res["y0"]))
    if [y_log[0][i] for i in range(len(x))] != [y0[v] for v in x]:
        ctx.fail("does-not-start-at-initial-values", case, {"observed": y_log[0], "signature": dict(sig, what="start")})
    for nm, (ub, lb) in res["bounds"].items():
        if nm not in x:
            continue
        i = x.index(nm)
        for k in range(1, len(t_log)):
            v = y_log[k][i]
            # after a step the variable is within its bounds or has just been reset (possibly plus spikes applied at that point)
            spike_here = any(abs(ts - t_log[k]) < 1e-15 or case["alias"] for ts in case["spike_times"].get(nm, []))
            if ub is not None and v > ub and not spike_here:
                ctx.fail("bound-not-enforced", case, {"variable": nm, "t": t_log[k], "value": v, "upper_bound": ub, "signature": dict(sig, what="upper")})
                return
            if lb is not None and v < lb and not spike_here:
                ctx.fail("bound-not-enforced", case, {"variable": nm, "t": t_log[k], "value": v, "lower_bound": lb, "signature": dict(sig, what="lower")})
                return
    if not case["alias"]:
        for nm, ts in case["spike_times"].items():
            if nm in x:
                for s in ts:
                    if 0 < s < case["sim_time"] and not any(abs(s - t) < 1e-15 for t in t_log):
                        ctx.fail("spike-time-not-a-step-boundary", case, {"spike": s, "signature": dict(sig, what="precise spike time")})
                        return


def replay(rp):
    tb.import_toolbox(standin=True)
    case = rp["failing_input"]
    if "run_parameters" in case:
        res = case_param_override(case)
        bad = [(q["t"], k, q["got"][k], q["want"][k]) for q in res.get("queries", []) for k in res["vars"]
               if abs(q["got"][k] - q["want"][k]) > 1e-8 * max(1.0, abs(q["want"][k]))]
        for b in bad[:6]:
            print("t = %s, %s: observed %r, exact under the given parameters %r" % b)
        print("reproduced" if bad else "not reproduced")
        return 1 if bad else 0
    res = case_scripted(case) if "rates" in case else case_numeric(case)
    print(json.dumps({k: res.get(k) for k in ("t_log", "crossed")})[:1500])
    return 0
