"""C06 -- the result depends on the dynamical system, not on how it is presented."""
import json
import re

from harness.core import pool, tb
from harness.gen import systems
from harness.props import _shared

PROOF_MODULE = ["OdeVerif.Proofs.C03", "OdeVerif.Proofs.C06", "OdeVerif.Proofs.RefineScatter", "OdeVerif.Proofs.RefineFromShapes"]
GENERATED = ["PyScatter", "PyFromShapes"]
THEOREMS = ["OdeVerif.C03.verdict_perm_invariant", "OdeVerif.C06.classify_rename_invariant", "OdeVerif.C06.eligible_perm_invariant",
            "OdeVerif.C06.P_perm_equivariant", "OdeVerif.C06.assemble_perm_ok", "OdeVerif.C06.evalRow_perm_equivariant", "OdeVerif.C06.chain_row_is_unit",
            "OdeVerif.Refine.scatterBlocks_inside", "OdeVerif.Refine.scatterBlocks_outside", "OdeVerif.Refine.scatterBlocks_eq_scatter",
            "OdeVerif.Refine.fromShapesRows_unit_rows", "OdeVerif.Refine.fromShapesRows_top_row"]
LEVEL = "proof"

RENAME_POOL = ["alpha_1", "bb", "Q", "zeta", "k9", "m_x", "rho", "sig", "V_d", "I_dend", "x_", "yd", "w_d_", "u_dd"]      # incl. names ending in the marker's letters
FORMULATIONS = [
    # (function-of-time form, ODE form, chain form) of the same homogeneous linear shape
    {"name": "g", "function": "g = exp(-t/tau)", "ode": {"expression": "g' = -g/tau", "initial_value": "1"},
     "chain": [{"expression": "g' = -g/tau", "initial_value": "1"}], "chain_map": {"g": "g"}, "order": 1},
    {"name": "g", "function": "g = (e/tau)*t*exp(-t/tau)", "ode": {"expression": "g'' = -g/tau**2 - 2*g'/tau", "initial_values": {"g": "0", "g'": "e/tau"}},
     "chain": [{"expression": "g' = gq", "initial_value": "0"}, {"expression": "gq' = -g/tau**2 - 2*gq/tau", "initial_value": "e/tau"}], "chain_map": {"g": "g", "g__d": "gq"}, "order": 2},
    {"name": "g", "function": "g = exp(-t) - exp(-3*t)", "ode": {"expression": "g'' = -3*g - 4*g'", "initial_values": {"g": "0", "g'": "2"}},
     "chain": [{"expression": "g' = gq", "initial_value": "0"}, {"expression": "gq' = -3*g - 4*gq", "initial_value": "2"}], "chain_map": {"g": "g", "g__d": "gq"}, "order": 2},
    {"name": "g", "function": "g = t**2*exp(-t)", "ode": {"expression": "g''' = -g - 3*g' - 3*g''", "initial_values": {"g": "0", "g'": "0", "g''": "2"}},
     "chain": [{"expression": "g' = gq", "initial_value": "0"}, {"expression": "gq' = gr", "initial_value": "0"}, {"expression": "gr' = -g - 3*gq - 3*gr", "initial_value": "2"}],
     "chain_map": {"g": "g", "g__d": "gq", "g__d__d": "gr"}, "order": 3},
    {"name": "g", "function": "g = t**3*exp(-t)", "ode": {"expression": "g'''' = -g - 4*g' - 6*g'' - 4*g'''", "initial_values": {"g": "0", "g'": "0", "g''": "0", "g'''": "6"}},
     "chain": [{"expression": "g' = gq", "initial_value": "0"}, {"expression": "gq' = gr", "initial_value": "0"}, {"expression": "gr' = gs", "initial_value": "0"},
               {"expression": "gs' = -g - 4*gq - 6*gr - 4*gs", "initial_value": "6"}],
     "chain_map": {"g": "g", "g__d": "gq", "g__d__d": "gr", "g__d__d__d": "gs"}, "order": 4},
]


def state_vars(indict, marker="__d"):
    out = []
    for d in indict["dynamics"]:
        lhs = d["expression"].split("=")[0].strip()
        o = lhs.count("'")
        nm = lhs.replace("'", "")
        out += [nm + marker * k for k in range(max(o, 0))]
    return out


def rename_all(indict, mapping):
    s = json.dumps(indict)
    for old, new in mapping.items():
        s = re.sub(r"(?<![A-Za-z0-9_])%s(?![A-Za-z0-9_])" % re.escape(old), "\x00" + new + "\x00", s)
    return json.loads(s.replace("\x00", ""))


def gen_cases(ctx, n):
    rng = ctx.rng("twins")
    out = []
    for c in ctx.corpus():
        if "case" in c and "twin" in c["case"]:
            out.append(c["case"])
    shapes = ["chain", "fan_in", "fan_out", "cycle", "antisym", "nonadjacent", "offset_single", "depends_on_offset", "numeric_dep_analytic",
              "analytic_dep_numeric", "higher_order", "mixed_nonlinear", "offset_in_group", "isolated", "chain_to_nonlinear", "chain_from_offset", "chain_to_nonlinear"]
    i = 0
    while len(out) < n:
        kind = ["perm", "perm", "rename", "formulation", "perm", "ivorder", "rename", "formulation"][i % 8]
        i += 1
        if kind == "ivorder":
            # the same higher-order entry with its initial values written in another order (and, in the ODE formulations, derivative first)
            g = systems.gen_system(rng, shape=rng.choice(["second_order_real", "higher_order", "higher_order_driven"]), with_params=rng.choice(["none", "all"]))
            ind = g["indict"]
            twin = json.loads(json.dumps(ind))
            changed = False
            for d in twin["dynamics"]:
                if len(d.get("initial_values", {})) > 1:
                    ks = list(d["initial_values"])
                    d["initial_values"] = {k: d["initial_values"][k] for k in reversed(ks)}
                    changed = True
            if changed:
                out.append({"indict": ind, "twin": twin, "varmap": {}, "kind": "ivorder", "shape": g["shape"], "pt_seed": rng.randrange(10 ** 9)})
            continue
        if kind == "formulation":
            f = rng.choice(FORMULATIONS)
            extra = rng.choice([[], [{"expression": "V_m' = -V_m/tau_m + g", "initial_value": "0"}], [{"expression": "w' = -w**3 + g", "initial_value": "1"}]])
            if f["order"] >= 2 and rng.random() < 0.4:
                # another equation reads the DERIVATIVE of the shape (`g'` in the function / ODE forms, the chain's own variable in the chain form)
                extra = [{"expression": rng.choice(["V_m' = -V_m/tau_m + {gd}", "w' = -w**3 + 2*{gd}"]), "initial_value": "0"}]
            a_form, b_form = rng.sample(["function", "ode", "chain"], 2)

            def build(form):
                if form == "function":
                    dyn = [{"expression": f["function"]}]
                    vm = {"g" + "__d" * k: "g" + "__d" * k for k in range(f["order"])}
                elif form == "ode":
                    dyn = [json.loads(json.dumps(f["ode"]))]
                    vm = {"g" + "__d" * k: "g" + "__d" * k for k in range(f["order"])}
                else:
                    dyn = json.loads(json.dumps(f["chain"]))
                    vm = dict(f["chain_map"])
                ex = json.loads(json.dumps(extra))
                for e_ in ex:
                    e_["expression"] = e_["expression"].replace("{gd}", f["chain_map"].get("g__d", "g") if form == "chain" else "g'")
                return {"dynamics": dyn + ex}, vm
            ia, vma = build(a_form)
            ib, vmb = build(b_form)
            varmap = {vma[k]: vmb[k] for k in vma}
            out.append({"indict": ia, "twin": ib, "varmap": varmap, "kind": "formulation:%s->%s" % (a_form, b_form), "pt_seed": rng.randrange(10 ** 9)})
            continue
        g = systems.gen_system(rng, shape=shapes[i % len(shapes)], with_params=rng.choice(["none", "all"]))
        ind = g["indict"]
        if kind == "perm":
            k = len(ind["dynamics"])
            if k < 2:
                continue
            perm = list(range(k))
            while perm == list(range(k)):
                rng.shuffle(perm)
            twin = json.loads(json.dumps(ind))
            twin["dynamics"] = [twin["dynamics"][p] for p in perm]
            out.append({"indict": ind, "twin": twin, "varmap": {}, "kind": "perm", "shape": g["shape"], "pt_seed": rng.randrange(10 ** 9)})
        else:
            names = sorted({d["expression"].split("=")[0].strip().replace("'", "") for d in ind["dynamics"]})
            params = sorted(p for p in systems.PARAMS if re.search(r"(?<![A-Za-z0-9_])%s(?![A-Za-z0-9_])" % p, json.dumps(ind)))
            text_ids = set(re.findall(r"[A-Za-z_][A-Za-z0-9_]*", json.dumps(ind)))
            pool_ = [q for q in rng.sample(RENAME_POOL, len(RENAME_POOL)) if q not in text_ids]      # new names must be fresh
            mapping = {}
            if len(names) >= 2 and rng.random() < 0.35:
                # two variables whose new names differ only by trailing characters of the derivative marker's alphabet
                pa, pb = rng.choice(systems.AWKWARD_PAIRS)
                if pa not in text_ids and pb not in text_ids:
                    two = rng.sample(names, 2)
                    mapping[two[0]], mapping[two[1]] = pa, pb
                    pool_ = [q for q in pool_ if q not in (pa, pb)]
            for nm in names + params:
                if nm not in mapping and rng.random() < 0.8 and pool_:
                    mapping[nm] = pool_.pop()
            twin = rename_all(ind, mapping)
            vm = {}
            for v in state_vars(ind):
                base = v.replace("__d", "")
                vm[v] = v.replace(base, mapping.get(base, base), 1)
            out.append({"indict": ind, "twin": twin, "varmap": vm, "parmap": {p: mapping.get(p, p) for p in params}, "kind": "rename", "shape": g["shape"], "pt_seed": rng.randrange(10 ** 9)})
    return out


def run(ctx, driver):
    tb.import_toolbox()
    quick = ctx.tier == "quick"
    ctx.rule = ("metamorphic pairs: (i) permuted entry order, (ii) consistent injective renaming of variables and parameters, (iii) equivalent formulations of a homogeneous "
                "linear shape (function of time / n-th order ODE / chain of first-order ODEs, optionally read by another equation); both sides analysed by the real code; "
                "success status, analytic sets and update maps / initial values (as values at corresponding random points) compared; distinct = distinct pairs; "
                "non-trivial = both sides analysed successfully with >= 2 state variables; (iv) the same higher-order entry with its initial values written in another order; new names incl. names from the marker's alphabet (V_d, x_, pairs V / V_d)")
    cases = gen_cases(ctx, ctx.n(60, 1200))
    results = pool.run_cases("harness.core.cases", "case_twin", cases, timeout=ctx.n(90, 200), init="init_worker", deadline=ctx.deadline())
    for case, res in zip(cases, results):
        ctx.evaluations += 1
        if not _shared.usable(ctx, res):
            continue
        kind = case["kind"].split(":")[0]
        ctx.count("kind:" + case["kind"])
        sig = {"transformation": kind, "shape": case.get("shape")}
        if res["a_ok"] != res["b_ok"]:
            ctx.fail("success-depends-on-presentation", {"indict": case["indict"], "twin": case["twin"]},
                     {"original": "ok" if res["a_ok"] else res["a_err"] + ": " + str(res["a_msg"]), "twin": "ok" if res["b_ok"] else res["b_err"] + ": " + str(res["b_msg"]),
                      "signature": dict(sig, what="success", error=res["a_err"] or res["b_err"], site=res.get("a_site") or res.get("b_site"))})
            continue
        if not res["a_ok"]:
            ctx.count("both_fail:" + str(res["a_err"]))
            continue
        if res.get("compared", 0) >= 2:
            ctx.note_nontrivial(json.dumps([case["indict"], case["twin"]], sort_keys=True))
        if res.get("undefined"):
            ctx.count("undefined_at_point", res["undefined"])
        if res["problems"]:
            ctx.fail("result-depends-on-presentation", {"indict": case["indict"], "twin": case["twin"], "varmap": case["varmap"]},
                     {"problems": res["problems"][:4], "signature": dict(sig, what=res["problems"][0]["what"])})
    ctx.sample({"kind": cases[-1]["kind"], "indict": cases[-1]["indict"], "twin": cases[-1]["twin"]})
    ctx.assumptions += [
        "the theorems are equivariance statements about the models (split, eligibility, worklist, component-wise exponential, assembly); that SymPy itself is insensitive to symbol names and entry order is a contract checked by the metamorphic runs",
        "renamings avoid reserved names and names containing the derivative marker",
    ]


def replay(rp):
    from harness.core import cases
    tb.import_toolbox()
    fi = rp["failing_input"]
    r = cases.case_twin({"indict": fi["indict"], "twin": fi["twin"], "varmap": fi.get("varmap", {}), "pt_seed": 1})
    print(json.dumps(r, indent=1)[:2000])
    return 1 if (r["a_ok"] != r["b_ok"] or r["problems"]) else 0
