"""Helpers shared by the property modules that analyse generated systems (C01, C02, C04, C06, C08, C10)."""
import json
from fractions import Fraction

from harness.core import numeval, pool
from harness.gen import systems


def run_full(ctx, cases, timeout=60, frac=0.8):
    return pool.run_cases("harness.core.cases", "case_full", cases, timeout=timeout, init="init_worker", deadline=ctx.deadline(frac))


def usable(ctx, res, tag=""):
    if not isinstance(res, dict):
        return False
    if res.get("timeout"):
        ctx.count(tag + "skipped_timeout")
        return False
    if res.get("skipped_budget"):
        ctx.count(tag + "skipped_budget")
        return False
    if res.get("harness_error"):
        ctx.count(tag + "harness_error")
        ctx.cov.setdefault("harness_errors", []).append(res["harness_error"][:300])
        return False
    return True


def corr_split(ctx, driver, cases, results):
    """model `split` vs the bucket every term really landed in, for every recorded call of split_lin_inhom_nonlin"""
    ops = []
    for case, res in zip(cases, results):
        if not usable(ctx, res, "split:"):
            continue
        for call in res.get("split_calls", []):
            if "bridge_error" in call:
                ctx.count("split_bridge_error")
                ctx.cov.setdefault("bridge_errors", []).append(call["bridge_error"])
                continue
            ops.append((case, call))
    if driver is None or not ops:
        return
    ans = driver.ask([("split", call["payload"]) for _, call in ops])
    for (case, call), a in zip(ops, ans):
        ctx.count("corr_split")
        ctx.count("corr_split_terms", len(call["real"]))
        for b in call["real"]:
            ctx.count("bucket:" + (b if isinstance(b, str) else "l"))
        if a.get("buckets") != call["real"]:
            ctx.tie_break("corr:split", {"case": case["indict"], "terms": call["terms"], "model": a.get("buckets", a), "impl": call["real"], "payload": call["payload"]})


def corr_subsys(ctx, driver, cases, results):
    """model assembly on values vs the real get_sub_system / get_jacobian_matrix input, at a random rational point"""
    ops = []
    for case, res in zip(cases, results):
        if not isinstance(res, dict) or "values" not in res:
            continue
        for sub in res.get("subs", []):
            if any(v is None for v in sub["c_sub"]):
                continue
            ops.append((case, res, sub))
    if driver is None or not ops:
        return
    ans = driver.ask([("subsys", dict(res["values"], keep=sub["keep"])) for _, res, sub in ops])
    for (case, res, sub), a in zip(ops, ans):
        ctx.count("corr_subsys")
        rows = a.get("rows")
        if rows is None:
            ctx.tie_break("corr:subsys", {"case": case["indict"], "model": a})
            continue
        for k, row in enumerate(rows):
            i = row["i"]
            if not numeval.close(Fraction(row["c_sub"]), Fraction(sub["c_sub"][k])):
                ctx.tie_break("corr:subsys", {"case": case["indict"], "row": res["x"][i], "model_c_sub": row["c_sub"], "impl_c_sub": sub["c_sub"][k]})
            nv = (res.get("numeric_values") or {}).get(res["x"][i])
            num_vars = [v for s_ in (res.get("solvers") or []) if s_["solver"].startswith("numeric") for v in s_["state_variables"]]
            if nv is not None and sorted(res["x"][k_] for k_ in sub["keep"]) == sorted(num_vars):
                ctx.count("corr_numeric_rhs")
                if not numeval.close(Fraction(row["numeric_rhs"]), Fraction(nv)):
                    ctx.tie_break("corr:numeric-rhs", {"case": case["indict"], "row": res["x"][i], "model": row["numeric_rhs"], "impl": nv,
                                                       "note": "value of the returned numeric update expression vs the model's sum x_col*A[row,col] + b + c"})
            je = res.get("jac_exprs")
            if isinstance(je, list) and je[i] is not None:
                ctx.count("corr_jac_expr")
                if not numeval.close(Fraction(row["jac_expr"]), Fraction(je[i])):
                    ctx.tie_break("corr:jac-expr", {"case": case["indict"], "row": res["x"][i], "model": row["jac_expr"], "impl": je[i],
                                                    "note": "value of the expression handed to sympy.diff in get_jacobian_matrix"})
            elif isinstance(je, str):
                ctx.tie_break("corr:jac-expr", {"case": case["indict"], "note": je})


def gen_cases(ctx, n, stream="systems", stop_frac=0.0, shapes=None, flags=None, extra=None):
    rng = ctx.rng(stream)
    shapes = shapes or systems.SHAPES
    out = []
    for c in ctx.corpus():
        if "case" in c and "indict" in c["case"]:
            out.append(dict(c["case"], corpus=c["_file"]))
    i = 0
    while len(out) < n:
        g = systems.gen_system(rng, shape=shapes[i % len(shapes)])
        k = len(g["indict"]["dynamics"])
        if k > 1 and rng.random() < 0.4:
            perm = list(range(k))
            rng.shuffle(perm)
            g["indict"]["dynamics"] = [g["indict"]["dynamics"][p] for p in perm]
        g["stop"] = rng.random() < stop_frac
        g["pt_seed"] = rng.randrange(10 ** 9)
        if flags:
            g["flags"] = flags(rng, g) if callable(flags) else dict(flags)
        if extra:
            extra(rng, g)
        out.append(g)
        i += 1
    return out


def corr_poly(ctx, driver, cases, results):
    """model expand+linearity verdict (on the user's own spelling) vs the toolbox's judgement of the shape"""
    ops = []
    for case, res in zip(cases, results):
        if not isinstance(res, dict):
            continue
        for pc in res.get("poly_cases") or []:
            if "bridge_error" in pc:
                ctx.count("poly_bridge_error")
                ctx.cov.setdefault("poly_bridge_errors", []).append(pc)
                continue
            ops.append((case, pc))
    if driver is None or not ops:
        return
    ans = driver.ask([("poly-verdict", pc["payload"]) for _, pc in ops])
    for (case, pc), a in zip(ops, ans):
        ctx.count("corr_poly")
        ctx.count("poly_verdict:%s" % a.get("linear_cc"))
        if a.get("linear_cc") != pc["real_lin"]:
            ctx.tie_break("corr:poly-verdict", {"case": case["indict"], "variable": pc["var"], "rhs": pc["rhs"], "model": a, "impl_shape_is_linear": pc["real_lin"]})


def corr_from_ode(ctx, driver, cases, results):
    """model `fromOde` (re-attachment of foreign linear terms) vs the real Shape.from_ode, on values at a random point"""
    ops = []
    for case, res in zip(cases, results):
        if not isinstance(res, dict):
            continue
        if res.get("from_ode_error"):
            ctx.cov.setdefault("harness_errors", []).append("from_ode bridge: " + res["from_ode_error"])
        for c in res.get("from_ode_calls") or []:
            ops.append((case, c))
    if driver is None or not ops:
        return
    ans = driver.ask([("from-ode", c["payload"]) for _, c in ops])
    for (case, c), a in zip(ops, ans):
        ctx.count("corr_from_ode")
        ok = "local_factors" in a and len(a["local_factors"]) == len(c["real"]["local_factors"]) and \
            all(numeval.close(Fraction(m), Fraction(r)) for m, r in zip(a["local_factors"], c["real"]["local_factors"])) and \
            all(numeval.close(Fraction(a[k]), Fraction(c["real"][k])) for k in ("inhom", "nonlin", "reconstituted"))
        if not ok:
            ctx.tie_break("corr:from-ode", {"case": case["indict"], "symbol": c["symbol"], "model": a, "impl": c["real"]})


def corr_pipeline(ctx, driver, cases, results):
    """the symbolic end-to-end model (`Pipeline.analyse`: expand, split, x' = A x + b + c, dependency graph, demotions,
    worklist, partition, numeric right-hand sides) vs the real analysis, for inputs in the Laurent-polynomial fragment:
    order of x, the three verdict stages, zero patterns and values of A, b, c at the case's rational point, the symbols
    handed to the two sub-systems, and the value of every numeric update expression"""
    ops = []
    for case, res in zip(cases, results):
        if not isinstance(res, dict):
            continue
        if res.get("pipeline_error"):
            ctx.cov.setdefault("harness_errors", []).append("pipeline bridge: " + res["pipeline_error"])
            ctx.tie_break("harness-error:pipeline-bridge", {"case": case["indict"], "error": res["pipeline_error"]})
            continue
        pc = res.get("pipeline_case")
        if not pc or "values" not in res or "point" not in res or "x" not in res:
            ctx.count("pipeline_skipped")
            continue
        point = [str(res["point"].get(q, "1")) for q in pc["symbols"]]
        ops.append((case, res, pc, {"n": pc["n"], "time": pc["time"], "entries": pc["entries"], "point": point}))
    if driver is None or not ops:
        return
    ans = driver.ask([("pipeline", o[3]) for o in ops])
    for (case, res, pc, payload), a in zip(ops, ans):
        ctx.count("corr_pipeline")
        bad = []
        if "xs" not in a:
            ctx.tie_break("corr:pipeline", {"case": case["indict"], "model": a})
            continue
        x = res["x"]
        mx = [pc["symbols"][i] for i in a["xs"]]
        if mx != x:
            bad.append("order of x: model %r, impl %r" % (mx, x))
        else:
            n = len(x)
            for k in ("verdict0", "verdict1", "verdict2"):
                if k in res and a.get(k) is not None and list(a[k]) != list(res[k]):
                    bad.append("%s: model %r, impl %r" % (k, a[k], res[k]))
            v = res["values"]
            for i in range(n):
                for j in range(n):
                    if not numeval.close(Fraction(a["A"][i][j]), Fraction(v["A"][i][j])):
                        bad.append("A[%s,%s]: model %s, impl %s" % (x[i], x[j], a["A"][i][j], v["A"][i][j]))
                if not numeval.close(Fraction(a["b"][i]), Fraction(v["b"][i])):
                    bad.append("b[%s]: model %s, impl %s" % (x[i], a["b"][i], v["b"][i]))
                if not numeval.close(Fraction(a["c"][i]), Fraction(v["c"][i])):
                    bad.append("c[%s]: model %s, impl %s" % (x[i], a["c"][i], v["c"][i]))
            subs = res.get("sub_symbols") or []
            if "verdict2" in res and not res.get("stopped") and subs:
                m_an = [x[i] for i in a["analytic"]]
                m_nu = [x[i] for i in a["numeric"]]
                want = [sorted(s_) for s_ in (m_an, m_nu) if s_]
                # every sub-system the analysis asked for is one of the model's two (a run may end before it asks for both)
                if not case.get("flags", {}).get("disable_analytic_solver"):
                    for s_ in subs:
                        if sorted(s_) not in want:
                            bad.append("sub-system requested by the analysis: %r, model's sub-systems: %r" % (s_, want))
            nv = res.get("numeric_values") or {}
            for i, val in a.get("numeric_rhs", []):
                name = x[i]
                if name in nv and nv[name] is not None:
                    ctx.count("corr_pipeline_numeric_rhs")
                    if not numeval.close(Fraction(val), Fraction(nv[name])):
                        bad.append("numeric update of %s: model %s, impl %s" % (name, val, nv[name]))
                ur = (res.get("user_rhs_values") or {}).get(name)
                if ur is not None and not numeval.close(Fraction(val), Fraction(ur)):
                    bad.append("numeric right-hand side of %s: model %s, user's text %s" % (name, val, ur))
        if bad:
            ctx.tie_break("corr:pipeline", {"case": case["indict"], "flags": case.get("flags"), "differences": bad[:8], "point": res.get("point")})


def corr_glue(ctx, driver, cases, results, parts=("iv", "lin", "preserve")):
    """correspondence of the glue models (Model/Glue.lean; their generated counterparts are proved equal in Proofs/RefineGlue.lean,
    RefinePreserve.lean) with the implementation: the initial values copied into every solver dictionary and
    SystemOfShapes.get_initial_value, the per-variable linearity flags, the preserve_expressions block."""
    if driver is None:
        return
    ops, meta = [], []
    opname = {"iv": "glue_iv", "lin": "glue_lin", "preserve": "glue_preserve"}
    for case, res in zip(cases, results):
        if not isinstance(res, dict) or "glue" not in res:
            if isinstance(res, dict) and "glue_error" in res:
                ctx.count("glue_error")
                ctx.cov.setdefault("glue_errors", []).append(res["glue_error"])
            continue
        for part in parts:
            if part in res["glue"]:
                ops.append((opname[part], res["glue"][part]["payload"]))
                meta.append((part, case, res["glue"][part]))
    if not ops:
        return
    ans = driver.ask(ops)
    for (part, case, g), a in zip(meta, ans):
        ctx.count("corr_glue_" + part)
        inp = {"indict": case["indict"], "flags": case.get("flags", {})}
        if a.get("error") and part != "preserve":
            ctx.tie_break("corr:glue_" + part, {"case": inp, "model": a})
            continue
        if part == "iv":
            model = [[[p[:2], p[2]] for p in l] for l in a["out"]]
            real = [[[k, v] for k, v in l] for l in g["real"]]
            # Python writes str(None) for a missing value
            model_n = [[[k, "None" if v is None else v] for k, v in l] for l in model]
            if model_n != real:
                ctx.tie_break("corr:glue_iv", {"case": inp, "model": model, "impl": real, "what": "initial values copied into the solver dictionaries"})
            elif a["sys"] != g["sys_real"]:
                ctx.tie_break("corr:glue_iv", {"case": inp, "model": a["sys"], "impl": g["sys_real"], "queries": g["payload"]["queries"],
                                               "what": "SystemOfShapes.get_initial_value per state variable"})
            else:
                if any(len(l) for l in real):
                    ctx.count("glue_iv_nonempty")
        elif part == "lin":
            if a["lin"] != g["real"]:
                ctx.tie_break("corr:glue_lin", {"case": inp, "x": g["x"], "model": a["lin"], "impl": g["real"]})
        else:
            if "error" in a:
                ctx.count("glue_preserve_error:" + str(a["error"]))
                if a["error"] != g["real_error"]:
                    ctx.tie_break("corr:glue_preserve", {"case": inp, "model": a, "impl_error": g["real_error"], "impl_has_result": g["real"] is not None})
                continue
            if g["real_error"] is not None or g["real"] is None:
                ctx.tie_break("corr:glue_preserve", {"case": inp, "model": "accepts", "impl_error": g["real_error"]})
                continue
            bad = []
            npres = 0
            for sid, sym, text in a["ok"]:
                if text is not None:
                    npres += 1
                    if g["real"][sid].get(sym) != text:
                        bad.append({"solver": sid, "variable": sym, "model": text, "impl": g["real"][sid].get(sym)})
            keys_model = [[sym for sid, sym, _ in a["ok"] if sid == i] for i in range(len(g["real"]))]
            if keys_model != [list(d.keys()) for d in g["real"]]:
                bad.append({"keys_model": keys_model, "keys_impl": [list(d.keys()) for d in g["real"]]})
            if npres:
                ctx.count("glue_preserved_entries", npres)
            if bad:
                ctx.tie_break("corr:glue_preserve", {"case": inp, "problems": bad[:4]})
