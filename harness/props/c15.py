"""C15 -- stimulus spike trains honour their specification."""
import json
import math
import random as _random
from fractions import Fraction

from harness.core import tb

PROOF_MODULE = ["OdeVerif.Proofs.C15", "OdeVerif.Proofs.RefineSpikes", "OdeVerif.Proofs.RefineSpikesJson"]
GENERATED = ['PySpikes', 'PySpikesJson', 'Constants']
THEOREMS = ["OdeVerif.C15.regular_exact", "OdeVerif.C15.regular_spec", "OdeVerif.C15.regular_fuel", "OdeVerif.C15.poisson_spec",
            "OdeVerif.C15.list_spec", "OdeVerif.C15.list_spec_nil", "OdeVerif.C15.list_spec_single",
            "OdeVerif.C15.targets_rewritten", "OdeVerif.C15.fromJson_key_train", "OdeVerif.C15.fromJson_keys_nodup",
            "OdeVerif.Refine.regularSpikes_refines", "OdeVerif.Refine.poissonSpikes_refines", "OdeVerif.Refine.spikeTimesFromJson_refines"]
LEVEL = "proof"
SLACK = 1e-9


def frac_str(x):
    f = Fraction(x)
    return "%d/%d" % (f.numerator, f.denominator) if f.denominator != 1 else str(f.numerator)


# ------------------------------------------------------------------------------------------
#  generators
# ------------------------------------------------------------------------------------------

def gen_regular(rng):
    kind = rng.random()
    if kind < 0.35:      # dyadic: double arithmetic is exact -> also compared at Rat
        rate = float(2 ** rng.randint(0, 8))
        T = rng.randint(0, 400) / float(2 ** rng.randint(0, 9))
        if T * rate > 500:
            T = 512 / rate
        return {"T": T, "rate": rate, "dyadic": True}
    if kind < 0.6:       # T an exact multiple of 1/rate in decimal (boundary rounding cases)
        rate = float(rng.choice([10, 100, 1000, 3, 7, 30, 250]))
        T = rng.randint(0, 300) / rate
        return {"T": T, "rate": rate, "dyadic": False}
    rate = rng.choice([rng.uniform(0.5, 3000), float(rng.randint(1, 2000)), 10 ** rng.uniform(-1, 3.3)])
    T = rng.choice([rng.uniform(0, 1), rng.uniform(0, 0.05), 0.0, 1.0, 100E-3])
    if T * rate > 500:
        T = 500 / rate
    return {"T": T, "rate": rate, "dyadic": False}


def gen_list(rng, T):
    n = rng.choice([0, 1, 1, 2, 3, 5, 8, 20])
    vals = []
    for _ in range(n):
        r = rng.random()
        if r < 0.15 and vals:
            vals.append(rng.choice(vals))          # duplicate
        elif r < 0.3:
            vals.append(T)                         # exactly at T
        elif r < 0.5:
            vals.append(T * rng.uniform(1.0, 3.0) + 1e-3)   # beyond T
        else:
            vals.append(rng.uniform(0, T) if T > 0 else 0.0)
    fmts = [lambda v: repr(v), lambda v: "%.17g" % v, lambda v: "%E" % v if v else "0"]
    toks = [rng.choice(fmts)(v) for v in vals]
    sep = rng.choice([" ", "\n", "  ", " \n"])
    return sep.join(toks)


def parse_list_text(text):
    return [float(tok) for tok in text.split()]


NAMES = ["x", "y", "V_m", "I_in", "g", "z1"]


def gen_targets(rng):
    n = rng.choice([1, 1, 2, 3])
    out = []
    for _ in range(n):
        v = rng.choice(NAMES) + "'" * rng.choice([0, 0, 1, 2])
        out.append(v)
    if rng.random() < 0.25:
        out.append(out[0])            # duplicate target in the list: set() collapses it
    return out


def gen_spec(rng):
    T = rng.choice([0.01, 0.05, 0.1, 0.25, 1.0, 2e-4, 5e-4])
    stims = []
    for _ in range(rng.choice([1, 1, 2, 3, 4])):
        t = rng.choice(["poisson_generator", "regular", "list"])
        st = {"type": t, "variables": gen_targets(rng)}
        if t == "poisson_generator":
            st["rate"] = repr(min(rng.choice([50., 200., 1000., 2000., 1e6, 3e6]), 600 / T))   # high rates exercise min_isi
        elif t == "regular":
            st["rate"] = rng.choice(["10", "100.", "250", "1000", "33.3"]) if T >= 0.01 else rng.choice(["10000", "2.5E4"])
        else:
            st["list"] = gen_list(rng, T)
        stims.append(st)
    marker = rng.choice(["__d", "__d", "_D_", "__prime"])
    return {"stimuli": stims, "sim_time": T, "marker": marker}


# ------------------------------------------------------------------------------------------
#  real code under recording
# ------------------------------------------------------------------------------------------

def run_real_spec(spec):
    """spike_times_from_json under recording of every generator call and of random.random()."""
    import random
    from odetoolbox.config import Config
    from odetoolbox.spike_generator import SpikeGenerator
    tb.reset_config()
    Config.config["differential_order_symbol"] = spec["marker"]
    calls = []
    o_p = SpikeGenerator._generate_homogeneous_poisson_spikes.__func__
    o_r = SpikeGenerator._generate_regular_spikes.__func__
    o_rand = random.random
    draws = []

    def rec_rand():
        u = o_rand()
        draws.append(u)
        return u

    def p(cls, T, rate, *a, **k):
        n0 = len(draws)
        r = o_p(cls, T, rate, *a, **k)
        calls.append({"type": "poisson", "T": T, "rate": rate, "draws": draws[n0:], "out": [float(x) for x in r], "min_isi": k.get("min_isi", a[0] if a else None)})
        return r

    def rg(cls, T, rate):
        r = o_r(cls, T, rate)
        calls.append({"type": "regular", "T": T, "rate": rate, "out": [float(x) for x in r]})
        return r
    SpikeGenerator._generate_homogeneous_poisson_spikes = classmethod(p)
    SpikeGenerator._generate_regular_spikes = classmethod(rg)
    random.random = rec_rand
    orders = [list(dict.fromkeys(st["variables"])) for st in spec["stimuli"]]     # distinct targets in the order given (the documented, hash-seed independent order)
    try:
        random.seed(spec.get("seed", 1))
        res = SpikeGenerator.spike_times_from_json(json.loads(json.dumps(spec["stimuli"])), spec["sim_time"])
        out = {k: [float(x) for x in v] for k, v in res.items()}
        err = None
    except Exception as e:
        out, err = None, type(e).__name__ + ": " + str(e)[:200]
    finally:
        SpikeGenerator._generate_homogeneous_poisson_spikes = classmethod(o_p)
        SpikeGenerator._generate_regular_spikes = classmethod(o_r)
        random.random = o_rand
        tb.reset_config()
    return {"result": out, "error": err, "calls": calls, "orders": orders}


# ------------------------------------------------------------------------------------------
#  direct oracles (independent of the model)
# ------------------------------------------------------------------------------------------

def oracle_regular(T, rate, out):
    bad = []
    if any(not (a < b) for a, b in zip(out, out[1:])):
        bad.append("not strictly increasing")
    if any(not (0 < x <= T) for x in out):
        bad.append("spike outside (0, T]")
    fT, fr = Fraction(T), Fraction(rate)
    n_exact = math.floor(fT * fr)
    interior = math.floor(fT * fr * (1 - Fraction(1, 10 ** 9)))       # multiples safely inside
    if len(out) < interior:
        bad.append("interior multiple missing: %d spikes, %d multiples of 1/rate lie in (0, T(1-1e-9)]" % (len(out), interior))
    if len(out) > n_exact + (1 if fT * fr - n_exact > 1 - Fraction(1, 10 ** 9) else 0):
        bad.append("too many spikes: %d > %d" % (len(out), n_exact))
    for k, x in enumerate(out, 1):
        if abs(Fraction(x) - k / fr) > Fraction(1, 10 ** 9) * k / fr:
            bad.append("spike %d is %r, not %d/rate" % (k, x, k))
            break
    # where double arithmetic is exact (rate a power of two, T a small dyadic rational) there is no rounding to
    # excuse anything: the train must be exactly the multiples of 1/rate in (0, T], the one at T included
    m, e = math.frexp(rate)
    if rate > 0 and m == 0.5 and fT.denominator & (fT.denominator - 1) == 0 and fT * fr <= 4096 and fT.denominator <= 2 ** 20:
        want = [float(k / fr) for k in range(1, n_exact + 1)]
        if out != want:
            bad.append("exact case: delivered %r..., the multiples of 1/rate in (0, T] are %r..." % (out[-3:], want[-3:]))
    return bad


def oracle_poisson(T, min_isi, out):
    bad = []
    if any(not (a < b) for a, b in zip(out, out[1:])):
        bad.append("not strictly increasing")
    if any(not (0 < x <= T) for x in out):
        bad.append("spike outside (0, T]")
    prev = 0.0
    for x in out:
        if x - prev < min_isi * (1 - 1e-6):
            bad.append("gap %r below minimum interval %r" % (x - prev, min_isi))
            break
        prev = x
    return bad


def oracle_list(T, text, out):
    want = sorted(v for v in parse_list_text(text) if v <= T)
    return [] if out == want else ["list stimulus delivered %r, expected %r" % (out[:6], want[:6])]


def run(ctx, driver):
    import time
    import warnings
    warnings.filterwarnings("ignore")
    tb.import_toolbox()
    from odetoolbox.spike_generator import SpikeGenerator
    import inspect
    min_isi_default = inspect.signature(SpikeGenerator._generate_homogeneous_poisson_spikes).parameters["min_isi"].default
    quick = ctx.tier == "quick"
    ctx.rule = ("regular (T, rate) pairs (dyadic / decimal-boundary / random), Poisson runs over recorded draws, list texts (empty, single, "
                "duplicates, at T, beyond T), and full stimulus specifications (1-4 stimuli, 1-3 targets with primes and duplicates, "
                "custom markers); distinct = distinct inputs; non-trivial = produces at least one spike or exercises an edge (empty/single list, T=0)")
    ops = []          # (op, payload, impl answer, case)
    # ---- corpus first
    specs = [c["case"] for c in ctx.corpus() if "case" in c]
    # ---- regular
    rng = ctx.rng("regular")
    for _ in range(ctx.n(600, 20000)):
        c = gen_regular(rng)
        out = [float(x) for x in SpikeGenerator._generate_regular_spikes(c["T"], c["rate"])]
        ctx.evaluations += 1
        ctx.count("regular")
        if out or c["T"] == 0:
            ctx.note_nontrivial(("regular", c["T"], c["rate"]))
        bad = oracle_regular(c["T"], c["rate"], out)
        if bad:
            ctx.fail("regular-train", c, {"problems": bad, "observed_head": out[:5], "n": len(out), "signature": {"site": "_generate_regular_spikes"}})
        ops.append(("regular", {"num": "float", "T": tb.f2bits(c["T"]), "rate": tb.f2bits(c["rate"]), "fuel": 100000},
                    {"spikes": [tb.f2bits(x) for x in out]}, c))
        if c["dyadic"]:
            ctx.count("regular_rat")
            ops.append(("regular", {"num": "rat", "T": frac_str(c["T"]), "rate": frac_str(c["rate"]), "fuel": 100000},
                        {"spikes": [frac_str(x) for x in out]}, c))
    ctx.sample({"op": "regular", "case": c, "impl_head": out[:4], "n": len(out)})
    # ---- poisson (direct calls, recorded draws)
    rng = ctx.rng("poisson")
    import random
    for i in range(ctx.n(300, 8000)):
        T = rng.choice([0.01, 0.1, 1.0, rng.uniform(0, 0.5), 1e-4, 3e-4, 3e-4])
        rate = rng.choice([50., 500., 5000., 1e6, 5e6, rng.uniform(10, 1e4)])
        if T * rate > 800:
            rate = 800 / T
        spec = {"stimuli": [{"type": "poisson_generator", "rate": repr(rate), "variables": ["x"]}], "sim_time": T, "marker": "__d", "seed": rng.randrange(10 ** 6)}
        rr = run_real_spec(spec)
        ctx.evaluations += 1
        ctx.count("poisson")
        if rr["error"]:
            ctx.fail("stimulus-crash", spec, {"error": rr["error"], "signature": {"site": "poisson_generator"}})
            continue
        call = rr["calls"][0]
        out = call["out"]
        if out:
            ctx.note_nontrivial(("poisson", T, rate, spec["seed"]))
        bad = oracle_poisson(T, min_isi_default, out)
        if bad:
            ctx.fail("poisson-train", spec, {"problems": bad, "observed_head": out[:5], "signature": {"site": "_generate_homogeneous_poisson_spikes"}})
        isis = [-math.log(1. - u) / call["rate"] for u in call["draws"]]
        ops.append(("poisson", {"num": "float", "T": tb.f2bits(T), "min_isi": tb.f2bits(min_isi_default), "isis": [tb.f2bits(x) for x in isis]},
                    {"spikes": [tb.f2bits(x) for x in out], "consumed": len(call["draws"])}, spec))
        if any(x < min_isi_default for x in isis):
            ctx.count("poisson_min_isi_active")
    ctx.sample({"op": "poisson", "spec": spec, "impl_head": out[:4], "n": len(out)})
    # ---- list
    rng = ctx.rng("list")
    for i in range(ctx.n(300, 8000)):
        T = rng.choice([0.01, 0.1, 1.0, 0.0])
        text = gen_list(rng, T)
        spec = {"stimuli": [{"type": "list", "list": text, "variables": ["x'"]}], "sim_time": T, "marker": "__d"}
        rr = run_real_spec(spec)
        ctx.evaluations += 1
        n = len(text.split())
        ctx.count("list_len_%s" % (n if n < 3 else "3+"))
        ctx.note_nontrivial(("list", T, text))
        if rr["error"]:
            ctx.fail("stimulus-crash", spec, {"error": rr["error"], "signature": {"site": "list", "list_length": n if n < 2 else "2+"}})
            continue
        out = rr["result"].get("x__d", [])
        bad = oracle_list(T, text, out)
        if bad:
            ctx.fail("list-train", spec, {"problems": bad, "signature": {"site": "list"}})
        ops.append(("list-stim", {"num": "float", "T": tb.f2bits(T), "xs": [tb.f2bits(v) for v in parse_list_text(text)]},
                    {"spikes": [tb.f2bits(x) for x in out]}, spec))
    ctx.sample({"op": "list", "spec": spec, "impl": out[:5]})
    # ---- full specifications
    rng = ctx.rng("spec")
    specs = specs + [dict(gen_spec(rng), seed=rng.randrange(10 ** 6)) for _ in range(ctx.n(300, 6000))]
    for spec in specs:
        rr = run_real_spec(spec)
        ctx.evaluations += 1
        ctx.count("spec")
        ctx.note_nontrivial(("spec", json.dumps(spec, sort_keys=True)))
        sig_types = sorted({s["type"] for s in spec["stimuli"]})
        if rr["error"]:
            one = any(s["type"] == "list" and len(s["list"].split()) == 1 for s in spec["stimuli"])
            ctx.fail("stimulus-crash", spec, {"error": rr["error"], "signature": {"site": "spec", "list_length": 1 if one else "other"}})
            continue
        res = rr["result"]
        m = spec["marker"]
        want_keys = {v.replace("'", m) for s in spec["stimuli"] for v in s["variables"]}
        if set(res) != want_keys:
            ctx.fail("targets", spec, {"expected_keys": sorted(want_keys), "observed": sorted(res), "signature": {"site": "keys"}})
            continue
        # per-target trains, accumulation, own generator call per distinct target
        ci = 0
        expect = {k: [] for k in want_keys}
        trains_payload = []
        ok = True
        for s, order in zip(spec["stimuli"], rr["orders"]):
            tr = {}
            for v in order:
                if s["type"] == "list":
                    t = sorted(x for x in parse_list_text(s["list"]) if x <= spec["sim_time"])
                else:
                    if ci >= len(rr["calls"]) or rr["calls"][ci]["type"] != ("poisson" if s["type"] == "poisson_generator" else "regular"):
                        ok = False
                        break
                    call = rr["calls"][ci]
                    ci += 1
                    t = call["out"]
                    bad = oracle_poisson(spec["sim_time"], min_isi_default, t) if call["type"] == "poisson" else oracle_regular(spec["sim_time"], float(s["rate"]), t)
                    if bad:
                        ctx.fail(call["type"] + "-train", spec, {"problems": bad, "signature": {"site": "spec:" + call["type"]}})
                tr[v] = t
                expect[v.replace("'", m)] += t
            if not ok:
                break
            trains_payload.append({"vars": order, "trains": {v: [tb.f2bits(x) for x in t] for v, t in tr.items()}})
        if not ok or ci != len(rr["calls"]):
            ctx.fail("own-train-per-target", spec, {"expected": "one generator call per distinct target of every generated stimulus",
                                                     "observed_calls": [c["type"] for c in rr["calls"]], "signature": {"site": "calls"}})
            continue
        if expect != res:
            k = next(k for k in expect if expect[k] != res.get(k))
            ctx.fail("accumulate", spec, {"key": k, "expected_head": expect[k][:5], "observed_head": res[k][:5], "signature": {"site": "accumulate"}})
        ops.append(("from-json", {"marker": m, "stims": trains_payload}, {k: [tb.f2bits(x) for x in v] for k, v in res.items()}, spec))
    ctx.sample({"op": "from-json", "spec": spec, "impl_keys": sorted(res) if not rr["error"] else rr["error"]})
    # ---- correspondence with the Lean model
    if driver is not None:
        ans = driver.ask([(op, pl) for op, pl, _, _ in ops])
        for (op, pl, impl, case), a in zip(ops, ans):
            ctx.count("corr_" + op)
            if a != impl:
                ctx.tie_break("corr:" + op, {"case": case, "model": _short(a), "impl": _short(impl)})
    ctx.assumptions += [
        "floating-point rounding: theorems are over ordered fields; the Float instance of the same definitions is compared bit-for-bit with CPython on every run (and the Rat instance on dyadic inputs)",
        "numpy.loadtxt parses the listed numbers (contract; validated against float() of the whitespace-separated tokens)",
        "math.log / random.random are not modelled: the inter-spike intervals the code computed are passed to the model as exact doubles",
        "iteration order of set(stimulus['variables']) is arbitrary; the result is compared as a map",
    ]


def _short(x):
    s = json.dumps(x)
    return s if len(s) < 400 else s[:400] + "..."


def replay(rp):
    tb.import_toolbox()
    case = rp["failing_input"]
    if "stimuli" in case:
        rr = run_real_spec(case)
        print(json.dumps({"error": rr["error"], "result": rr["result"]})[:1500])
        return 1 if rr["error"] else 0
    from odetoolbox.spike_generator import SpikeGenerator
    out = [float(x) for x in SpikeGenerator._generate_regular_spikes(case["T"], case["rate"])]
    bad = oracle_regular(case["T"], case["rate"], out)
    print(out[:10], bad)
    return 1 if bad else 0
