"""C11 -- reported propagator singularities are genuine and none is missed (PARTIAL: detector logic proved;
link from SymPy's printed denominators to the true singular set checked on a closed-form family)."""
import json

from harness.core import pool, tb

PROOF_MODULE = ["OdeVerif.Proofs.C11", "OdeVerif.Proofs.RefineSingularity", "OdeVerif.Proofs.RefineContracts"]
GENERATED = ["PySingularity", "PyContracts"]
THEOREMS = ["OdeVerif.C11.negBases_iff_sub", "OdeVerif.C11.dedup_no_loss", "OdeVerif.C11.detect_sound", "OdeVerif.C11.detect_complete",
            "OdeVerif.C11.detect_complete_rel", "OdeVerif.C11.detect_nodup",
            "OdeVerif.Refine.preorder_negBases", "OdeVerif.Refine.generateSingularityConditions_refines", "OdeVerif.Refine.flattenConditions_refines", "OdeVerif.Refine.filterValidConditions_refines", "OdeVerif.Refine.findSingularities_refines",
            "OdeVerif.Refine.isMatrixDefined_refines"]
LEVEL = "proof"


def _init_worker():
    tb.import_toolbox()


def family(rng):
    """forest of chains with symbolic decay constants: node i decays with rate k_i and is fed by its parent.
    Expected singular equalities: k_i = k_j for j a strict ancestor of i with k_i not identical to k_j."""
    n = rng.choice([2, 3, 3, 3, 4])
    form = rng.choice(["rate", "rate", "tau", "mixed"])
    pool_syms = rng.sample(["a", "b", "c", "d"], 4) if form != "tau" else rng.sample(["tau_1", "tau_2", "tau_3", "tau_4"], 4)
    repeated = rng.random() < 0.35
    parents = [None]
    for i in range(1, n):
        parents.append(rng.choice([i - 1, i - 1, rng.randrange(0, i), None]))
    consts = []
    for i in range(n):
        if repeated and i > 0 and rng.random() < 0.5:
            consts.append(consts[rng.randrange(0, i)])
        else:
            consts.append(pool_syms[len(set(consts)) % len(pool_syms)] if len(set(consts)) < len(pool_syms) else consts[-1])
    dyn = []
    is_tau = []
    denom_pairs = []
    for i in range(n):
        k = consts[i]
        use_tau = form == "tau" or (form == "mixed" and i % 2 == 1)
        is_tau.append(use_tau)
        decay = ("-x%d/%s" % (i, k)) if use_tau else ("-%s*x%d" % (k, i))
        feed = (" + x%d" % parents[i]) if parents[i] is not None else ""
        if parents[i] is not None and consts[i] != consts[parents[i]] and is_tau[i] == (form == "tau") and rng.random() < 0.35:
            # the system matrix itself has the parameter difference in a denominator: k_i = k_j makes A undefined,
            # so that equality must NOT be reported
            a_, b_ = consts[parents[i]], consts[i]
            feed = " + w_c/(%s - %s)*x%d" % (a_, b_, parents[i])
            denom_pairs.append(sorted([a_, b_]))
        dyn.append({"expression": "x%d' = %s%s" % (i, decay, feed), "initial_value": "1"})
    if rng.random() < 0.3:
        # a disconnected extra node whose decay uses an already used constant in the *other* form: the system matrix then
        # contains both k and 1/k, so `k = 0` must never be reported
        k = consts[0]
        dyn.append({"expression": ("z9' = -z9/%s" % k) if not is_tau[0] else ("z9' = -%s*z9" % k), "initial_value": "1"})
        dyn.append({"expression": "z8' = x0", "initial_value": "0"}) if not is_tau[0] else None
    expected = set()
    for i in range(n):
        j = parents[i]
        while j is not None:
            if (consts[i], is_tau[i]) != (consts[j], is_tau[j]):
                a, b = consts[i], consts[j]
                if is_tau[i] == is_tau[j]:
                    alts = [sorted([a, b])]                       # k_i = k_j  (or 1/k_i = 1/k_j)
                elif a == b:
                    alts = [sorted([a, "1/" + a])]                # k = 1/k: solve gives k = +-1; not an equality between parameters
                    alts = None
                else:
                    ra, rb = (("1/" + a) if is_tau[i] else a), (("1/" + b) if is_tau[j] else b)
                    # a = 1/b written in either direction
                    alts = [sorted([a, "1/" + b]), sorted([b, "1/" + a])]
                if alts is not None and not any(sorted([a, b]) == dp for dp in denom_pairs):
                    expected.add(json.dumps(alts))
            j = parents[j]
    return {"indict": {"dynamics": dyn}, "expected": sorted(json.loads(x) for x in expected), "form": form, "n": n}


def to_tree(e, ids):
    import sympy
    if e.is_Symbol or e.is_Number or not e.args:
        return {"a": ids.setdefault(sympy.srepr(e), len(ids))}
    if e.is_Pow:
        base, ex = e.args
        if ex.is_Number:
            return {"p": [to_tree(base, ids), bool(ex < 0)]}
        return {"n": [{"p": [to_tree(base, ids), bool(ex < 0)]}, to_tree(ex, ids)]}
    args = list(e.args)
    if not (e.is_Add or e.is_Mul):
        args = [sympy.Symbol("__fn__" + type(e).__name__)] + args
    t = to_tree(args[0], ids)
    for a in args[1:]:
        t = {"n": [t, to_tree(a, ids)]}
    return t


def case_detect(case):
    """run the real analysis with find_singularities, sympy.solve and the validity test recorded"""
    import sympy
    import odetoolbox.singularity_detection as sd
    from harness.core import trace
    tb.reset_config()
    solves, defined = [], []
    o_solve = sympy.solve
    o_def = sd.SingularityDetection._is_matrix_defined_under_substitution

    def rec_solve(f, *a, **k):
        r = o_solve(f, *a, **k)
        if k.get("dict"):
            solves.append((f, r))
        return r

    def rec_def(A, cond):
        r = o_def(A, cond)
        defined.append((dict(cond), bool(r)))
        return r
    sympy.solve = rec_solve
    sd.SingularityDetection._is_matrix_defined_under_substitution = staticmethod(rec_def)
    try:
        tr = trace.traced_analysis(case["indict"])
    finally:
        sympy.solve = o_solve
        sd.SingularityDetection._is_matrix_defined_under_substitution = staticmethod(o_def)
    if "singularities" not in tr:
        return {"no_detection": True, "error": tr.get("error")}
    P, A = tr["singularities"]["P"], tr["singularities"]["A"]
    # what the analysis reports = union over all detector calls it made; the matrices it is judged against are the
    # FULL propagator and system matrices of the analytic sub-system
    calls = tr.get("singularity_calls", [])
    A_full = tr["propagator_input"]["A"] if "propagator_input" in tr else A
    P_full = tr.get("P", P)
    reported_all = []
    for c_ in calls:
        for cond in c_["conditions"]:
            if cond not in reported_all:
                reported_all.append(cond)
    conds = []          # canonical strings; id = index

    def cid(c):
        s = json.dumps(sorted((str(k), str(v)) for k, v in c.items()))
        if s not in conds:
            conds.append(s)
        return conds.index(s)
    ids = {}
    entries = [to_tree(e, ids) for e in sympy.flatten(P)]
    table = []
    seen = []
    for f, r in solves:
        t = to_tree(f, ids)
        if t not in seen:
            seen.append(t)
            table.append([t, [cid(c) for c in r]])
    undefined = sorted({cid(c) for c, ok in defined if not ok})
    import odetoolbox.singularity_detection as sd2
    real = sd2.SingularityDetection.find_singularities(P, A)
    real_ids = [cid(c) for c in real]
    single_call = len(calls) == 1 and P.shape == P_full.shape
    # direct oracle: each reported condition makes some P entry undefined and keeps A defined
    problems = []
    structure = None
    if not single_call:
        structure = {"what": "singularity detection was not run once on the full propagator / system matrix (the model assumes it is)", "calls": len(calls),
                     "shapes": [list(c_["P"].shape) for c_ in calls], "full": list(P_full.shape)}
    for c in reported_all:
        bad_p = False
        for e in sympy.flatten(P_full):
            v = e
            try:
                for k, w in c.items():
                    v = v.subs(k, w)
                if v.has(sympy.zoo, sympy.nan, sympy.oo, -sympy.oo) or _denominator_vanishes(e, c):
                    bad_p = True
                    break
            except Exception:
                bad_p = True
                break
        a_def = True
        for e in sympy.flatten(A_full):
            v = e
            for k, w in c.items():
                v = v.subs(k, w)
            if v.has(sympy.zoo, sympy.nan, sympy.oo, -sympy.oo):
                a_def = False
        if not bad_p:
            problems.append({"what": "reported condition does not make any propagator entry undefined", "condition": {str(k): str(v) for k, v in c.items()}})
        if not a_def:
            problems.append({"what": "reported condition makes the system matrix undefined", "condition": {str(k): str(v) for k, v in c.items()}})
    if single_call:
        # the detector is a function of (P, A): asking again, in the same process, must give the same conditions (the
        # completeness clause holds for every call, not only for the first one on a given denominator)
        canon = lambda cs: sorted(json.dumps(sorted((str(k), str(v)) for k, v in c.items())) for c in cs)      # noqa: E731
        if canon(calls[0]["conditions"]) != canon(real):
            problems.append({"what": "a second, identical find_singularities(P, A) call in the same process reports different conditions",
                             "first": canon(calls[0]["conditions"]), "second": canon(real)})
    # completeness, independently of any family: every negative power (integer or not) in the full propagator matrix is a
    # denominator; for each of its parameter symbols, the equalities that make it vanish while the system matrix stays defined
    # (under every direction tried) must be covered by a reported condition that zeroes that denominator
    try:
        problems += _own_scan(P_full, A_full, reported_all, case)
    except Exception as ex:
        problems.append({"what": "harness-error in the independent denominator scan", "error": type(ex).__name__ + ": " + str(ex)[:120]})
    reported_pairs = sorted(sorted([str(k), str(v)]) for c in reported_all for k, v in c.items())
    return {"payload": {"entries": entries, "solve": table, "undefined_A": undefined}, "real_ids": real_ids, "reported": [json.loads(conds[i]) for i in real_ids],
            "reported_pairs": reported_pairs, "problems": problems, "n_solve_calls": len(solves), "structure": structure}


def _denominator_vanishes(e, cond):
    """does some denominator of `e` (base of a negative power) become identically zero under the substitution?  The substituted base is
    simplified and, as a safeguard against an unfinished simplification, evaluated exactly at two random rational points."""
    import random
    import sympy
    rnd = random.Random(12345)
    for sub in sympy.preorder_traversal(e):
        if sub.is_Pow and sub.args[1].is_number and sub.args[1].is_negative:
            b = sub.args[0]
            for k, w in cond.items():
                b = b.subs(k, w)
            try:
                if sympy.simplify(b) == 0:
                    return True
                fs = sorted(b.free_symbols, key=str)
                if fs and all(sympy.nsimplify(b.subs({x: sympy.Rational(rnd.randint(2, 97), rnd.randint(2, 89)) for x in fs}), rational=True) == 0 for _ in range(2)):
                    return True
            except Exception:
                continue
    return False


def _undefined(M, cond):
    import sympy
    for e in sympy.flatten(M):
        v = e
        try:
            for k, w in cond.items():
                v = v.subs(k, w)
            v = sympy.simplify(v)
        except Exception:
            return True
        if v.has(sympy.zoo, sympy.nan, sympy.oo, -sympy.oo):
            return True
    return False


def _own_scan(P_full, A_full, reported_all, case):
    import sympy
    hs = sympy.Symbol(case["indict"].get("options", {}).get("output_timestep_symbol", "__h"))
    bases = []
    for e in sympy.flatten(P_full):
        for sub in sympy.preorder_traversal(e):
            if sub.is_Pow and sub.args[1].is_number and sub.args[1].is_negative and sub.args[0].free_symbols - {hs}:
                if sub.args[0] not in bases and hs not in sub.args[0].free_symbols:
                    bases.append(sub.args[0])
    out = []
    for b in bases[:12]:
        conds = []
        for sym in sorted(b.free_symbols, key=str):
            try:
                sols = sympy.solve(b, sym)
            except Exception:
                continue
            for sol in sols:
                if sol.free_symbols and not sol.has(sympy.I):        # an equality between parameters (not `k = 0`: see below), real
                    conds.append({sym: sol})
                elif sol == 0:
                    conds.append({sym: sol})
        if not conds or any(_undefined(A_full, c) for c in conds):
            continue
        covered = False
        for c in reported_all:
            v = b
            for k, w in c.items():
                v = v.subs(k, w)
            try:
                if sympy.simplify(v) == 0:
                    covered = True
                    break
            except Exception:
                pass
        if not covered:
            out.append({"what": "a propagator denominator vanishes under a parameter equality that leaves the system matrix defined, and no reported condition covers it",
                        "denominator": str(b), "equalities": [{str(k): str(v) for k, v in c.items()} for c in conds][:3]})
    return out


OSCILLATORS = [
    {"indict": {"dynamics": [{"expression": "x'' = -k*x", "initial_values": {"x": "1", "x'": "0"}}]}, "expected": [], "form": None, "n": 2},
    {"indict": {"dynamics": [{"expression": "x'' = -k*x - d*x'", "initial_values": {"x": "1", "x'": "0"}}]}, "expected": [], "form": None, "n": 2},
    {"indict": {"dynamics": [{"expression": "u' = -a*u + v", "initial_value": "1"}, {"expression": "v' = -k*u - a*v", "initial_value": "0"}]}, "expected": [], "form": None, "n": 2},
    # a parameter that occurs in a denominator of A only inside entries that are SUMS (two leak paths): `tau_1 = 0` makes A undefined and is no finding
    {"indict": {"dynamics": [{"expression": "x' = -x/tau_1 - x/tau_2", "initial_value": "1"}]}, "expected": [], "form": None, "n": 1},
    {"indict": {"dynamics": [{"expression": "x' = -x/tau_1 - x/tau_2", "initial_value": "1"}, {"expression": "y' = x/C - y/tau_3", "initial_value": "0"}]}, "expected": [], "form": None, "n": 2},
    {"indict": {"dynamics": [{"expression": "x' = -(1/tau_1 + 1/tau_2)*x", "initial_value": "1"}, {"expression": "y' = x - y/tau_3 - y/tau_1", "initial_value": "0"}]}, "expected": [], "form": None, "n": 2},
]


def run(ctx, driver):
    tb.import_toolbox()
    quick = ctx.tier == "quick"
    ctx.rule = ("forests of chains with symbolic decay constants (rate form -k*x, time-constant form -x/k, mixed; with and without repeated constants; n = 2..4): the expected "
                "singular equalities are known in closed form ({k_i = k_j : j a strict ancestor of i, k_i != k_j}); real analysis with sympy.solve and the validity test "
                "recorded; distinct = distinct systems; non-trivial = at least one expected equality; plus oscillators (denominators under a root) and two-leak systems (a parameter that occurs in a denominator of A only inside sum entries); a reported condition is genuine iff some propagator denominator vanishes under it (symbolically and at two rational points) while A stays defined")
    rng = ctx.rng("family")
    cases = [c["case"] for c in ctx.corpus() if "case" in c]
    cases += [family(rng) for _ in range(ctx.n(22, 250))]
    cases += [json.loads(json.dumps(o)) for o in OSCILLATORS]      # denominators under a square root (non-integer negative powers)
    results = pool.run_cases("harness.props.c11", "case_detect", cases, timeout=ctx.n(100, 400), init="_init_worker", deadline=ctx.deadline())
    ops = []
    for case, res in zip(cases, results):
        ctx.evaluations += 1
        if res.get("timeout") or res.get("skipped_budget"):
            ctx.count("skipped_timeout")
            continue
        if res.get("harness_error"):
            ctx.count("harness_error")
            ctx.cov.setdefault("harness_errors", []).append(res["harness_error"][:300])
            continue
        if res.get("no_detection"):
            ctx.count("no_detection:" + str((res.get("error") or {}).get("type")))
            continue
        if res.get("structure"):
            ctx.tie_break("corr:singularities-call-structure", {"case": case["indict"], "detail": res["structure"]})
        ctx.count("form:" + str(case.get("form") or "other"))
        ctx.count("n:%s" % case.get("n"))
        if case["expected"]:
            ctx.note_nontrivial(json.dumps(case["indict"], sort_keys=True))
        sig = {"form": case.get("form")}
        for p in res["problems"]:
            kind = "singular-equality-missed" if p["what"].startswith(("a propagator denominator vanishes", "a second, identical")) else \
                ("harness-error" if p["what"].startswith("harness-error") else "reported-condition-not-genuine")
            if kind == "harness-error":
                ctx.tie_break("harness-error:own-scan", {"case": case["indict"], "problem": p})
            else:
                ctx.fail(kind, case["indict"], {"problem": p, "signature": dict(sig, what=p["what"])})
            break
        rep = {tuple(p) for p in res["reported_pairs"]}
        if "expected" in case and case.get("form") is not None:
            missed = [alts for alts in case["expected"] if not any(tuple(a) in rep for a in alts)]
            if missed:
                ctx.fail("singular-equality-missed", case["indict"], {"missed": missed, "reported": sorted(rep), "signature": dict(sig, what="missed")})
            allowed = {tuple(a) for alts in case["expected"] for a in alts}
            spurious = sorted(p for p in rep - allowed if "0" not in p)
            if spurious:
                ctx.count("reported_beyond_expected")
                ctx.cov.setdefault("beyond_expected", []).append({"case": case["indict"], "pairs": spurious})
        ops.append((case, res))
    if ops:
        ctx.sample({"indict": ops[-1][0]["indict"], "expected": ops[-1][0]["expected"], "reported": ops[-1][1]["reported"]})
    if driver is not None and ops:
        ans = driver.ask([("singularities", r["payload"]) for _, r in ops])
        for (case, res), a in zip(ops, ans):
            ctx.count("corr_singularities")
            if a.get("conditions") != res["real_ids"]:
                ctx.tie_break("corr:singularities", {"case": case["indict"], "model": a, "impl_ids": res["real_ids"], "impl": res["reported"]})
    ctx.assumptions += [
        "PARTIAL: that the negative powers in SymPy's simplified exp(A h) are exactly the true singular parameter sets is checked on the closed-form family only",
        "sympy.solve contract: every returned dictionary zeroes its argument and every single-symbol equality zeroing a linear base is returned in one direction (each reported condition is substituted back by the oracle)",
        "_is_matrix_defined_under_substitution (simplify(val.subs(.)) in {nan, zoo, oo}) is an oracle of the model; its answers are recorded from the real run",
    ]


def replay(rp):
    tb.import_toolbox()
    r = case_detect({"indict": rp["failing_input"]})
    print(json.dumps({k: r.get(k) for k in ("reported", "problems")}, indent=1)[:2000])
    return 1 if r.get("problems") else 0
