"""C10 -- the Jacobian handed to implicit solvers is the true Jacobian of the right-hand side."""
import json
from fractions import Fraction

from harness.core import numeval, pool, tb
from harness.gen import systems
from harness.props import _shared

PROOF_MODULE = ["OdeVerif.Proofs.C02", "OdeVerif.Proofs.RefineJacobian", "OdeVerif.Proofs.RefineStep", "OdeVerif.Proofs.RefineShapesPass"]
GENERATED = ["PyJacobian", "PyStep", "PyShapesPass"]
THEOREMS = ["OdeVerif.C02.jacobian_correct", "OdeVerif.C02.jacobian_prefix_defect", "OdeVerif.C02.subsystem_lossless",
            "OdeVerif.Refine.jacobianMatrix_refines", "OdeVerif.Refine.jacobianMatrix_correct",
            "OdeVerif.Refine.numericalJacobian_locals", "OdeVerif.Refine.numericalJacobian_entry", "OdeVerif.Refine.fromJsonToShapes_var_not_param"]
LEVEL = "proof"

NUM_SYSTEMS = [
    {"dynamics": [{"expression": "x' = -x / tau + x * y", "initial_value": "0.5"}, {"expression": "y' = -y + 3 * x", "initial_value": "1"}], "parameters": {"tau": "0.5"}},
    {"dynamics": [{"expression": "V' = -V**3 + a * w", "initial_value": "0.25"}, {"expression": "w' = b * V - w * V", "initial_value": "0.5"}], "parameters": {"a": "1.5", "b": "0.75"}},
    {"dynamics": [{"expression": "u'' = -k * u - c * u' + u * u'", "initial_values": {"u": "1", "u'": "0"}}], "parameters": {"k": "4", "c": "0.5"}},
    {"dynamics": [{"expression": "p' = tanh(p) - 2 * p + q", "initial_value": "0.3"}, {"expression": "q' = -q / tau + p**2", "initial_value": "0.1"}], "parameters": {"tau": "0.2"}},
]


FUNCS = [("I_f", "exp(-t/tau_s)"), ("I_f", "(e/tau)*t*exp(-t/tau)"), ("osc", "sin(w*t)"), ("I_f", "t*exp(-2*t)")]


def _extra(rng, g):
    """sometimes a function-of-time entry that another equation reads, sometimes a custom derivative marker / time-step symbol"""
    ind = g["indict"]
    if rng.random() < 0.25:
        name, f = rng.choice(FUNCS)
        f = systems.in_time_symbol(f, ind)      # the function is one of the CONFIGURED time variable
        dyn = ind["dynamics"]
        dyn.append({"expression": "%s = %s" % (name, f)})
        k = rng.randrange(len(dyn) - 1)
        dyn[k]["expression"] += rng.choice([" + %s", " + 2*%s", " - %s**2"]) % name
        g["has_function"] = True
        for p in ("tau", "tau_s", "w"):
            if "parameters" in ind and p in f and p not in ind["parameters"]:
                ind["parameters"][p] = systems.PARAM_VALUES[p]
    if rng.random() < 0.3 and "input_time_symbol" not in ind.get("options", {}):
        ind.setdefault("options", {})["differential_order_symbol"] = rng.choice(["__prime", "_D", "__DD"])


def _init_worker():
    tb.import_toolbox(standin=True)


def case_numeric_jacobian(case):
    """MixedIntegrator.numerical_jacobian vs central finite differences of MixedIntegrator.step (stand-in; no integration)."""
    import numpy as np
    import random
    odetoolbox = tb.import_toolbox(standin=True)
    tb.reset_config()
    import pygsl.odeiv as odeiv
    from odetoolbox.mixed_integrator import MixedIntegrator
    indict = case["indict"]
    res, shape_sys, shapes = odetoolbox._analysis(json.loads(json.dumps(indict)), disable_stiffness_check=True, disable_analytic_solver=True)
    mi = MixedIntegrator(odeiv.step_bsimp, shape_sys, shapes, parameters=indict.get("parameters"), sim_time=0.01)
    rng = random.Random(case["seed"])
    n = len(shape_sys.x_)
    out = []
    for _ in range(3):
        y = np.array([rng.uniform(-1, 1) for _ in range(n)])
        J, dfdt = mi.numerical_jacobian(0.0, y, None)
        fd = np.zeros((n, n))
        h = 1e-6
        for j in range(n):
            e = np.zeros(n)
            e[j] = h
            fp = np.array(mi.step(0.0, y + e, None), dtype=float)
            fm = np.array(mi.step(0.0, y - e, None), dtype=float)
            fd[:, j] = (fp - fm) / (2 * h)
        out.append({"y": [float(v) for v in y], "J": [[float(v) for v in row] for row in J], "fd": [[float(v) for v in row] for row in fd]})
    return {"x": [str(s) for s in shape_sys.x_], "points": out}


MIXED_SYSTEMS = [
    {"dynamics": [{"expression": "V_m' = (-g_L*(V_m - E_L) - g_ex*(V_m - E_ex) - w)/C_m", "initial_value": "-65"},
                  {"expression": "w' = (a*(V_m - E_L) - w**3/50)/tau_w", "initial_value": "0.5"},
                  {"expression": "g_ex' = -g_ex/tau_syn", "initial_value": "1.5"}],
     "parameters": {"g_L": "0.1", "E_L": "-65", "E_ex": "0", "C_m": "2", "a": "0.05", "tau_w": "20", "tau_syn": "3"}, "spike_var": "g_ex"},
    {"dynamics": [{"expression": "x' = -x*I - x**3", "initial_value": "1"},
                  {"expression": "I'' = -I/tau**2 - 2*I'/tau", "initial_values": {"I": "0", "I'": "e/tau"}}],
     "parameters": {"tau": "2"}, "spike_var": "I__d"},
]


def case_mixed_jacobian(case):
    """numerical_jacobian vs finite differences of step() on a MIXED analytic+numeric system, at several times (before and
    after a spike on the analytically solved variable), after a short integration has initialised the analytic integrator"""
    import numpy as np
    import random
    import sympy
    odetoolbox = tb.import_toolbox(standin=True)
    tb.reset_config()
    import pygsl.odeiv as odeiv
    from odetoolbox.mixed_integrator import MixedIntegrator
    indict = {k: v for k, v in case["indict"].items() if k != "spike_var"}
    res, shape_sys, shapes = odetoolbox._analysis(json.loads(json.dumps(indict)), disable_stiffness_check=True)
    ana = [s_ for s_ in res if s_["solver"] == "analytical"][0]
    num = [s_ for s_ in res if s_["solver"].startswith("numeric")][0]
    sub = shape_sys.get_sub_system([sympy.Symbol(v) for v in num["state_variables"]])
    mi = MixedIntegrator(odeiv.step_bsimp, sub, shapes, analytic_solver_dict=ana, parameters=indict.get("parameters"),
                         spike_times={case["indict"]["spike_var"]: [2.0, 5.0]}, sim_time=1.0, max_step_size=0.25)
    mi.integrate_ode(h_min_lower_bound=1e-14, raise_errors=False, debug=True)
    rng = random.Random(case["seed"])
    x = [str(s_) for s_ in sub.x_]
    n = len(x)
    out = []
    y0 = np.array([float(v) for v in [sub.get_initial_value(v).evalf(subs=mi._parameters) for v in x]])
    for t in (0.0, 1.5, 2.5, 6.0, 0.75):
        y = y0 * (1 + 0.1 * rng.uniform(-1, 1))
        J, _ = mi.numerical_jacobian(t, y, None)
        fd = np.zeros((n, n))
        for j in range(n):
            h = 1e-6 * max(1.0, abs(y[j]))
            e = np.zeros(n)
            e[j] = h
            fd[:, j] = (np.array(mi.step(t, y + e, None), dtype=float) - np.array(mi.step(t, y - e, None), dtype=float)) / (2 * h)
        out.append({"t": t, "y": [float(v) for v in y], "J": [[float(v) for v in row] for row in J], "fd": [[float(v) for v in row] for row in fd]})
    return {"x": x, "points": out}


def run(ctx, driver):
    tb.import_toolbox(standin=True)
    quick = ctx.tier == "quick"
    ctx.rule = ("generated systems (17 coupling shapes incl. nonlinear / higher order / offsets), analysis stopped before propagators; symbolic Jacobian "
                "evaluated at a random rational point vs d(user rhs)/dx from the input text; the expression handed to sympy.diff vs the model; "
                "plus numerical_jacobian vs central differences of step() on 4 fixed systems; distinct = distinct inputs; non-trivial = system with a non-zero A and >= 2 variables or a nonlinearity; a quarter of the inputs carry a function-of-time entry, a third a custom derivative marker; J is also compared with d(Ax+b+c)/dx of the complete stored system; a fifth as many COMPLETE analyses (analytic solver enabled) with the Jacobian taken from the system object afterwards")
    cases = _shared.gen_cases(ctx, ctx.n(130, 2500), stop_frac=1.0, extra=_extra)
    for c in cases:
        c["stop"] = True
        c.setdefault("flags", {})["disable_analytic_solver"] = True
    # a quarter as many COMPLETE analyses (analytic solver enabled, nothing cut short): the Jacobian is taken from the system object after
    # analysis() has split it into sub-systems, as the stiffness tester and MixedIntegrator do
    full = _shared.gen_cases(ctx, max(8, ctx.n(130, 2500) // 5), stream="systems-full", stop_frac=0.0, extra=_extra,
                             shapes=["mixed_nonlinear", "numeric_dep_analytic", "analytic_dep_numeric", "chain_to_nonlinear", "higher_order_driven", "fan_out", "numeric_reads_derivative"])
    for c in full:
        c["stop"] = False
        c["after_split"] = True
        c["poly"] = False
    cases = cases + full
    results = _shared.run_full(ctx, cases, timeout=40)
    for case, res in zip(cases, results):
        ctx.evaluations += 1
        if not _shared.usable(ctx, res):
            continue
        if "J" not in res or "J_true" not in res:
            ctx.count("no_jacobian:" + str((res.get("error") or {}).get("type") or res.get("values_error", "")[:40]))
            continue
        ctx.count("jacobian_cases")
        if case.get("after_split"):
            ctx.count("jacobian_after_complete_analysis")
        x = res["x"]
        nz = any(v != "0" for row in res["values"]["A"] for v in row)
        if (nz and len(x) >= 2) or any(v != "0" for v in res["values"]["c"]):
            ctx.note_nontrivial(json.dumps(case["indict"], sort_keys=True))
        bad = None
        for i in range(len(x)):
            for j in range(len(x)):
                a, b = res["J"][i][j], res["J_true"][i][j]
                if a is None or b is None:
                    continue
                if not numeval.close(Fraction(a), Fraction(b), Fraction(1, 10 ** 11)):
                    bad = (i, j, a, b)
                    break
            if bad:
                break
        if not bad and "J_stored" in res:
            # the Jacobian must also be the derivative of the complete stored system A x + b + c (which C02 shows equal to the input):
            # this covers the rows of function-of-time entries, which have no right-hand side in the input text
            for i in range(len(x)):
                for j in range(len(x)):
                    a, b = res["J"][i][j], res["J_stored"][i][j]
                    if a is None or b is None:
                        continue
                    if not numeval.close(Fraction(a), Fraction(b), Fraction(1, 10 ** 11)):
                        ctx.fail("jacobian-differs-from-derivative-of-stored-system", case["indict"],
                                 {"row": x[i], "column": x[j], "observed": float(Fraction(a)), "expected": float(Fraction(b)), "point": res["point"],
                                  "signature": {"site": "get_jacobian_matrix", "what": "d(Ax+b+c)/dx"}})
                        break
                else:
                    continue
                break
            if case.get("has_function"):
                ctx.count("jacobian_with_function_entry")
        if bad:
            i, j, a, b = bad
            lin_only = res["values"]["c"][i] == "0" or numeval.close(Fraction(res["J"][i][j]), Fraction(res["J_true"][i][j]) - Fraction(res["values"]["A"][i][j]), Fraction(1, 10 ** 11))
            ctx.fail("jacobian-entry-wrong", case["indict"], {"row": x[i], "column": x[j], "observed": float(Fraction(a)), "expected": float(Fraction(b)), "point": res["point"],
                                                             "signature": {"site": "get_jacobian_matrix", "missing_linear_part": bool(lin_only)}})
    ctx.sample({"indict": cases[-1]["indict"], "J": results[-1].get("J") if isinstance(results[-1], dict) else None})
    _shared.corr_subsys(ctx, driver, cases, results)
    # ---- numerical clause (runtime; not a theorem)
    ncases = [{"indict": NUM_SYSTEMS[i % len(NUM_SYSTEMS)], "seed": ctx.seed * 100 + i} for i in range(ctx.n(4, 24))]
    nres = pool.run_cases("harness.props.c10", "case_numeric_jacobian", ncases, timeout=120, init="_init_worker", deadline=ctx.deadline())
    for case, res in zip(ncases, nres):
        ctx.evaluations += 1
        if not _shared.usable(ctx, res, "numeric:"):
            continue
        ctx.count("numeric_jacobian_cases")
        for pt in res["points"]:
            for i, (rj, rf) in enumerate(zip(pt["J"], pt["fd"])):
                for j, (a, b) in enumerate(zip(rj, rf)):
                    if abs(a - b) > 1e-5 * max(1.0, abs(a), abs(b)):
                        ctx.fail("numerical-jacobian-vs-finite-differences", case, {"row": res["x"][i], "column": res["x"][j], "jacobian": a, "finite_difference": b, "y": pt["y"],
                                                                                  "signature": {"site": "numerical_jacobian"}})
                        break
    mcases = [{"indict": MIXED_SYSTEMS[i % len(MIXED_SYSTEMS)], "seed": ctx.seed * 100 + i} for i in range(ctx.n(2, 12))]
    mres = pool.run_cases("harness.props.c10", "case_mixed_jacobian", mcases, timeout=150, init="_init_worker", deadline=ctx.deadline())
    for case, res in zip(mcases, mres):
        ctx.evaluations += 1
        if not _shared.usable(ctx, res, "mixed:"):
            continue
        ctx.count("mixed_jacobian_cases")
        ctx.note_nontrivial(json.dumps(case, sort_keys=True))
        done = False
        for pt in res["points"]:
            for i, (rj, rf) in enumerate(zip(pt["J"], pt["fd"])):
                for j, (a, b) in enumerate(zip(rj, rf)):
                    if not done and abs(a - b) > 1e-4 * max(1.0, abs(a), abs(b)):
                        ctx.fail("numerical-jacobian-vs-finite-differences", {k: v for k, v in case["indict"].items()},
                                 {"t": pt["t"], "row": res["x"][i], "column": res["x"][j], "jacobian": a, "finite_difference": b, "y": pt["y"],
                                  "signature": {"site": "numerical_jacobian", "mixed": True}})
                        done = True
    ctx.assumptions += [
        "sympy.diff is a derivation with d x_j / d x_k = delta_jk (contract; the final entries are compared with an independent differentiation of the user's text)",
        "numerical clause: lambdify replaces Cython autowrap; finite differences with h=1e-6, tolerance 1e-5 relative (runtime observation, not part of the theorem)",
    ]


def replay(rp):
    from harness.core import cases
    tb.import_toolbox()
    fi = rp["failing_input"]
    if "dynamics" not in fi:
        print("replay of the numerical clause: run ./check C10 quick (the failing system is one of the fixed systems listed in the replay file)")
        return 0
    complete = "after" in str(rp.get("detail", {}).get("signature", {})) or rp.get("kind") == "jacobian-entry-wrong"
    bad = False
    for stop, flags in ((True, {"disable_analytic_solver": True}), (False, {})):
        r = cases.case_full({"indict": fi, "stop": stop, "flags": flags, "poly": False})
        print(json.dumps({"complete_analysis": not stop, "x": r.get("x"), "J": r.get("J"), "J_true": r.get("J_true"), "J_stored": r.get("J_stored")}, indent=1)[:1500])
        for ref in ("J_true", "J_stored"):
            if r.get("J") and r.get(ref):
                for ra, rb in zip(r["J"], r[ref]):
                    for a, b in zip(ra, rb):
                        if a is not None and b is not None and not numeval.close(Fraction(a), Fraction(b), Fraction(1, 10 ** 11)):
                            bad = True
    print("reproduced" if bad else "not reproduced")
    return 1 if bad else 0
