"""C10 -- the Jacobian handed to implicit solvers is the true Jacobian of the right-hand side."""
import json
from fractions import Fraction

from harness.core import numeval, pool, tb
from harness.props import _shared

PROOF_MODULE = "OdeVerif.Proofs.C02"
THEOREMS = ["OdeVerif.C02.jacobian_correct", "OdeVerif.C02.jacobian_prefix_defect", "OdeVerif.C02.subsystem_lossless"]
LEVEL = "proof"

NUM_SYSTEMS = [
    {"dynamics": [{"expression": "x' = -x / tau + x * y", "initial_value": "0.5"}, {"expression": "y' = -y + 3 * x", "initial_value": "1"}], "parameters": {"tau": "0.5"}},
    {"dynamics": [{"expression": "V' = -V**3 + a * w", "initial_value": "0.25"}, {"expression": "w' = b * V - w * V", "initial_value": "0.5"}], "parameters": {"a": "1.5", "b": "0.75"}},
    {"dynamics": [{"expression": "u'' = -k * u - c * u' + u * u'", "initial_values": {"u": "1", "u'": "0"}}], "parameters": {"k": "4", "c": "0.5"}},
    {"dynamics": [{"expression": "p' = tanh(p) - 2 * p + q", "initial_value": "0.3"}, {"expression": "q' = -q / tau + p**2", "initial_value": "0.1"}], "parameters": {"tau": "0.2"}},
]


def _init_worker():
    tb.import_toolbox(standin=True)


def case_numeric_jacobian(case):
    """MixedIntegrator.numerical_jacobian vs central finite differences of MixedIntegrator.step (stand-in; no integration)."""
    import numpy as np
    import random
    odetoolbox = tb.import_toolbox(standin=True)
    tb.reset_config()
    import pygsl.odeiv as odeiv
    from odetoolbox.mixed_integrator import MixedIntegrator
    indict = case["indict"]
    res, shape_sys, shapes = odetoolbox._analysis(json.loads(json.dumps(indict)), disable_stiffness_check=True, disable_analytic_solver=True)
    mi = MixedIntegrator(odeiv.step_bsimp, shape_sys, shapes, parameters=indict.get("parameters"), sim_time=0.01)
    rng = random.Random(case["seed"])
    n = len(shape_sys.x_)
    out = []
    for _ in range(3):
        y = np.array([rng.uniform(-1, 1) for _ in range(n)])
        J, dfdt = mi.numerical_jacobian(0.0, y, None)
        fd = np.zeros((n, n))
        h = 1e-6
        for j in range(n):
            e = np.zeros(n)
            e[j] = h
            fp = np.array(mi.step(0.0, y + e, None), dtype=float)
            fm = np.array(mi.step(0.0, y - e, None), dtype=float)
            fd[:, j] = (fp - fm) / (2 * h)
        out.append({"y": [float(v) for v in y], "J": [[float(v) for v in row] for row in J], "fd": [[float(v) for v in row] for row in fd]})
    return {"x": [str(s) for s in shape_sys.x_], "points": out}


def run(ctx, driver):
    tb.import_toolbox(standin=True)
    quick = ctx.tier == "quick"
    ctx.rule = ("generated systems (17 coupling shapes incl. nonlinear / higher order / offsets), analysis stopped before propagators; symbolic Jacobian "
                "evaluated at a random rational point vs d(user rhs)/dx from the input text; the expression handed to sympy.diff vs the model; "
                "plus numerical_jacobian vs central differences of step() on 4 fixed systems; distinct = distinct inputs; non-trivial = system with a non-zero A and >= 2 variables or a nonlinearity")
    cases = _shared.gen_cases(ctx, ctx.n(130, 2500), stop_frac=1.0)
    for c in cases:
        c["stop"] = True
        c.setdefault("flags", {})["disable_analytic_solver"] = True
    results = _shared.run_full(ctx, cases, timeout=40)
    for case, res in zip(cases, results):
        ctx.evaluations += 1
        if not _shared.usable(ctx, res):
            continue
        if "J" not in res or "J_true" not in res:
            ctx.count("no_jacobian:" + str((res.get("error") or {}).get("type") or res.get("values_error", "")[:40]))
            continue
        ctx.count("jacobian_cases")
        x = res["x"]
        nz = any(v != "0" for row in res["values"]["A"] for v in row)
        if (nz and len(x) >= 2) or any(v != "0" for v in res["values"]["c"]):
            ctx.note_nontrivial(json.dumps(case["indict"], sort_keys=True))
        bad = None
        for i in range(len(x)):
            for j in range(len(x)):
                a, b = res["J"][i][j], res["J_true"][i][j]
                if a is None or b is None:
                    continue
                if not numeval.close(Fraction(a), Fraction(b), Fraction(1, 10 ** 11)):
                    bad = (i, j, a, b)
                    break
            if bad:
                break
        if bad:
            i, j, a, b = bad
            lin_only = res["values"]["c"][i] == "0" or numeval.close(Fraction(res["J"][i][j]), Fraction(res["J_true"][i][j]) - Fraction(res["values"]["A"][i][j]), Fraction(1, 10 ** 11))
            ctx.fail("jacobian-entry-wrong", case["indict"], {"row": x[i], "column": x[j], "observed": float(Fraction(a)), "expected": float(Fraction(b)), "point": res["point"],
                                                             "signature": {"site": "get_jacobian_matrix", "missing_linear_part": bool(lin_only)}})
    ctx.sample({"indict": cases[-1]["indict"], "J": results[-1].get("J") if isinstance(results[-1], dict) else None})
    _shared.corr_subsys(ctx, driver, cases, results)
    # ---- numerical clause (runtime; not a theorem)
    ncases = [{"indict": NUM_SYSTEMS[i % len(NUM_SYSTEMS)], "seed": ctx.seed * 100 + i} for i in range(ctx.n(4, 24))]
    nres = pool.run_cases("harness.props.c10", "case_numeric_jacobian", ncases, timeout=120, init="_init_worker", deadline=ctx.deadline())
    for case, res in zip(ncases, nres):
        ctx.evaluations += 1
        if not _shared.usable(ctx, res, "numeric:"):
            continue
        ctx.count("numeric_jacobian_cases")
        for pt in res["points"]:
            for i, (rj, rf) in enumerate(zip(pt["J"], pt["fd"])):
                for j, (a, b) in enumerate(zip(rj, rf)):
                    if abs(a - b) > 1e-5 * max(1.0, abs(a), abs(b)):
                        ctx.fail("numerical-jacobian-vs-finite-differences", case, {"row": res["x"][i], "column": res["x"][j], "jacobian": a, "finite_difference": b, "y": pt["y"],
                                                                                  "signature": {"site": "numerical_jacobian"}})
                        break
    ctx.assumptions += [
        "sympy.diff is a derivation with d x_j / d x_k = delta_jk (contract; the final entries are compared with an independent differentiation of the user's text)",
        "numerical clause: lambdify replaces Cython autowrap; finite differences with h=1e-6, tolerance 1e-5 relative (runtime observation, not part of the theorem)",
    ]


def replay(rp):
    from harness.core import cases
    tb.import_toolbox()
    r = cases.case_full({"indict": rp["failing_input"], "stop": True, "flags": {"disable_analytic_solver": True}})
    print(json.dumps({"x": r.get("x"), "J": r.get("J"), "J_true": r.get("J_true")}, indent=1))
    return 0 if r.get("J") == r.get("J_true") else 1
